(* C12 - poryswitch contributes exactly the selected case and nothing else. *)
From Coq Require Import List ZArith Bool String.
From Pory Require Import Lexer Ast Parser C13Proofs.
Import ListNotations.
Open Scope string_scope.
Open Scope list_scope.

(* statement position: the statements and the inline texts/movements recorded with them are those of the last case equal
   to the switch value, else those of '_'; the result does not depend on any other case *)
Theorem poryswitch_statement_selects :
  forall autovars switches env_errors parse_format consts f script bs cs ts sc sv ts1 cases ts2,
    poryswitch_header switches env_errors ts = Ok (sc, sv, ts1) ->
    parse_pory_cases autovars switches env_errors parse_format consts f script bs cs (cur ts1) ts1 [] = Ok (cases, ts2) ->
    parse_pory autovars switches env_errors parse_format consts (S f) script bs cs ts =
      match assoc cases (sval sv) with
      | Some (ss, imp) => Ok (ss, imp, ts2)
      | None => match assoc cases (t "_") with
                | Some (ss, imp) => Ok (ss, imp, ts2)
                | None => if env_errors then err_tok (cur ts) "no poryswitch case found" else Ok ([], imp0, ts2)
                end
      end.
Proof. exact parse_pory_selected. Qed.
Print Assumptions poryswitch_statement_selects.

(* with no matching case and no '_' compilation fails (normal mode), at the poryswitch *)
Theorem poryswitch_no_case_fails :
  forall autovars switches parse_format consts f script bs cs ts sc sv ts1 cases ts2,
    poryswitch_header switches true ts = Ok (sc, sv, ts1) ->
    parse_pory_cases autovars switches true parse_format consts f script bs cs (cur ts1) ts1 [] = Ok (cases, ts2) ->
    assoc cases (sval sv) = None -> assoc cases (t "_") = None ->
    exists e, parse_pory autovars switches true parse_format consts (S f) script bs cs ts = Err e /\ els e = tline (cur ts).
Proof. intros. eapply parse_pory_no_case_rejected; eauto. Qed.
Print Assumptions poryswitch_no_case_fails.

(* ---------- list positions (movement, moves(), mart) and the text position (PorySwitchLists.v) ---------- *)
(* `pory_select cases sv`: the entry for the -s value, else the entry for '_'.  `list_erase`: the list parser run as an eraser -
   it copies the tokens it consumes and replaces every poryswitch (at any nesting depth) by the erased source of its selected
   case.  For movement statements, moves() and marts: the items contributed by a poryswitch are those of the selected case (last
   case with that label, else '_'; no case and no '_': error at the poryswitch in normal mode, nothing in lint mode), and the
   statement parses to the same result as its erased source, which contains no poryswitch.  Same for text (value and string
   type), including format() in the selected case. *)
From Pory Require Import Consume Format PorySwitchLists.
Theorem poryswitch_list_selects :
  forall (switches : list (text * text)) (env_errors : bool) (f : nat) (k : listkind) (multi : bool) (ts : toks) (acc : list token) 
    (sc : text) (sv : option text) (ts1 : toks) (cases : list (text * list token)) (ts2 : toks),
  curis (closing_of k) ts = false ->
  curis PORYSWITCH ts = true ->
  poryswitch_header switches env_errors ts = Ok (sc, sv, ts1) ->
  list_cases switches env_errors f k (cur ts1) ts1 [] = Ok (cases, ts2) ->
  list_value switches env_errors (S f) k multi ts acc =
  (let continue := fun acc' : list token => if multi then list_value switches env_errors f k multi (adv ts2) acc' else Ok (acc', adv ts2) in
   match pory_select cases sv with
   | Some items => continue (acc ++ items)
   | None => if env_errors then err_tok (cur ts) "no poryswitch case found" else continue acc
   end).
Proof. exact PorySwitchLists.poryswitch_list_selects. Qed.
Print Assumptions poryswitch_list_selects.

Theorem poryswitch_list_no_case_fails :
  forall (switches : list (text * text)) (f : nat) (k : listkind) (multi : bool) (ts : toks) (acc : list token) (sc : text) 
    (sv : option text) (ts1 : toks) (cases : list (text * list token)) (ts2 : toks),
  curis (closing_of k) ts = false ->
  curis PORYSWITCH ts = true ->
  poryswitch_header switches true ts = Ok (sc, sv, ts1) ->
  list_cases switches true f k (cur ts1) ts1 [] = Ok (cases, ts2) ->
  assoc cases (sval sv) = None ->
  assoc cases (t "_") = None ->
  exists e : perr, list_value switches true (S f) k multi ts acc = Err e /\ els e = tline (cur ts) /\ ecs e = tsb (cur ts).
Proof. exact PorySwitchLists.poryswitch_list_no_case_fails. Qed.
Print Assumptions poryswitch_list_no_case_fails.

Theorem poryswitch_list_no_case_lint :
  forall (switches : list (text * text)) (f : nat) (k : listkind) (ts : toks) (acc : list token) (sc : text) (sv : option text) 
    (ts1 : toks) (cases : list (text * list token)) (ts2 : toks),
  curis (closing_of k) ts = false ->
  curis PORYSWITCH ts = true ->
  poryswitch_header switches false ts = Ok (sc, sv, ts1) ->
  list_cases switches false f k (cur ts1) ts1 [] = Ok (cases, ts2) ->
  assoc cases (sval sv) = None ->
  assoc cases (t "_") = None -> list_value switches false (S f) k true ts acc = list_value switches false f k true (adv ts2) acc.
Proof. exact PorySwitchLists.poryswitch_list_no_case_lint. Qed.
Print Assumptions poryswitch_list_no_case_lint.

Theorem list_cases_table :
  forall (switches : list (text * text)) (env_errors : bool) (f : nat) (k : listkind) (start : token) (ts : toks)
    (cases : list (text * list token)) (ts' : toks),
  list_cases switches env_errors f k start ts [] = Ok (cases, ts') ->
  exists l : list (text * list token), case_seq switches env_errors k ts l ts' /\ curis RBRACE ts' = true /\ cases = rev l.
Proof. exact PorySwitchLists.list_cases_table. Qed.
Print Assumptions list_cases_table.

Theorem poryswitch_last_case_wins :
  forall (B : Type) (l : list (text * B)) (sv : option text) (b : B),
  pory_select (rev l) sv = Some b <->
  (exists (x : text) (l1 l2 : list (text * B)),
     l = l1 ++ (x, b) :: l2 /\ assoc l2 x = None /\ (x = sval sv \/ x = t "_" /\ assoc l (sval sv) = None)).
Proof. exact PorySwitchLists.poryswitch_last_case_wins. Qed.
Print Assumptions poryswitch_last_case_wins.

Theorem poryswitch_list_erasure :
  forall (switches : list (text * text)) (env_errors : bool) (f : nat) (k : listkind) (ts : toks) (acc items : list token) (ts' : toks),
  list_value switches env_errors f k true ts acc = Ok (items, ts') ->
  exists src : list token,
    list_erase switches env_errors f k true ts [] = Ok (src, ts') /\
    no_poryswitch src /\
    (forall (rest : toks) (f' : nat),
     closing_of k = RBRACE \/ closing_of k = RPAREN ->
     curis (closing_of k) rest = true ->
     Datatypes.length src < f' -> list_value switches env_errors f' k true (src ++ rest) acc = Ok (items, rest)).
Proof. exact PorySwitchLists.poryswitch_list_erasure. Qed.
Print Assumptions poryswitch_list_erasure.

Theorem poryswitch_list_erasure_same_rest :
  forall (switches : list (text * text)) (env_errors : bool) (f : nat) (k : listkind) (ts : toks) (acc items : list token) (ts' : toks),
  closing_of k = RBRACE \/ closing_of k = RPAREN ->
  list_value switches env_errors f k true ts acc = Ok (items, ts') ->
  exists src : list token,
    list_erase switches env_errors f k true ts [] = Ok (src, ts') /\
    no_poryswitch src /\ list_value switches env_errors (S (Datatypes.length src)) k true (src ++ ts') acc = Ok (items, ts').
Proof. exact PorySwitchLists.poryswitch_list_erasure_same_rest. Qed.
Print Assumptions poryswitch_list_erasure_same_rest.

Theorem list_items_determined_by_erased_source :
  forall (switches : list (text * text)) (env_errors : bool) (f1 f2 : nat) (k : listkind) (ts1 ts2 : toks) (acc items1 items2 : list token)
    (r1 r2 : toks) (src : list token),
  closing_of k = RBRACE \/ closing_of k = RPAREN ->
  list_value switches env_errors f1 k true ts1 acc = Ok (items1, r1) ->
  list_value switches env_errors f2 k true ts2 acc = Ok (items2, r2) ->
  list_erase switches env_errors f1 k true ts1 [] = Ok (src, r1) ->
  list_erase switches env_errors f2 k true ts2 [] = Ok (src, r2) -> items1 = items2.
Proof. exact PorySwitchLists.list_items_determined_by_erased_source. Qed.
Print Assumptions list_items_determined_by_erased_source.

Theorem list_erase_selects :
  forall (switches : list (text * text)) (env_errors : bool) (f : nat) (k : listkind) (multi : bool) (ts : toks) (acc : list token) 
    (sc : text) (sv : option text) (ts1 : toks) (cases : list (text * list token)) (ts2 : toks),
  curis (closing_of k) ts = false ->
  curis PORYSWITCH ts = true ->
  poryswitch_header switches env_errors ts = Ok (sc, sv, ts1) ->
  erase_cases switches env_errors f k (cur ts1) ts1 [] = Ok (cases, ts2) ->
  list_erase switches env_errors (S f) k multi ts acc =
  (let continue := fun acc' : list token => if multi then list_erase switches env_errors f k multi (adv ts2) acc' else Ok (acc', adv ts2) in
   match pory_select cases sv with
   | Some src => continue (acc ++ src)
   | None => if env_errors then err_tok (cur ts) "no poryswitch case found" else continue acc
   end).
Proof. exact PorySwitchLists.list_erase_selects. Qed.
Print Assumptions list_erase_selects.

Theorem list_erase_identity_without_poryswitch :
  forall (switches : list (text * text)) (env_errors : bool) (f : nat) (k : listkind) (multi : bool) (ts : toks) (src : list token) (ts' : toks),
  eof_ended ts -> no_poryswitch ts -> list_erase switches env_errors f k multi ts [] = Ok (src, ts') -> ts = src ++ ts'.
Proof. exact PorySwitchLists.list_erase_identity_without_poryswitch. Qed.
Print Assumptions list_erase_identity_without_poryswitch.

Theorem list_erase_idempotent :
  forall (switches : list (text * text)) (env_errors : bool) (f : nat) (k : listkind) (ts : toks) (acc items : list token) (ts' : toks),
  closing_of k = RBRACE \/ closing_of k = RPAREN ->
  list_value switches env_errors f k true ts acc = Ok (items, ts') ->
  exists src : list token,
    list_erase switches env_errors f k true ts [] = Ok (src, ts') /\
    list_erase switches env_errors (S (Datatypes.length src)) k true (src ++ ts') [] = Ok (src, ts').
Proof. exact PorySwitchLists.list_erase_idempotent. Qed.
Print Assumptions list_erase_idempotent.

Theorem movement_statement_erasure :
  forall (switches : list (text * text)) (env_errors : bool) (f : nat) (ts : toks) (tp : top) (ts' : toks),
  eof_ended ts ->
  parse_movement switches env_errors f ts = Ok (tp, ts') ->
  exists (hd : list token) (lb : token) (body src : list token),
    ts = hd ++ lb :: body /\
    ttype lb = LBRACE /\
    list_erase switches env_errors f (LMov RBRACE) true body [] = Ok (src, ts') /\
    no_poryswitch src /\
    (forall f' : nat, Datatypes.length src < f' -> parse_movement switches env_errors f' (hd ++ lb :: src ++ ts') = Ok (tp, ts')).
Proof. exact PorySwitchLists.movement_statement_erasure. Qed.
Print Assumptions movement_statement_erasure.

Theorem mart_statement_erasure :
  forall (switches : list (text * text)) (env_errors : bool) (consts : list (text * text)) (f : nat) (ts : toks) (tp : top) (ts' : toks),
  eof_ended ts ->
  parse_mart switches env_errors consts f ts = Ok (tp, ts') ->
  exists (hd : list token) (lb : token) (body src : list token),
    ts = hd ++ lb :: body /\
    ttype lb = LBRACE /\
    list_erase switches env_errors f LMart true body [] = Ok (src, ts') /\
    no_poryswitch src /\
    (forall f' : nat, Datatypes.length src < f' -> parse_mart switches env_errors consts f' (hd ++ lb :: src ++ ts') = Ok (tp, ts')).
Proof. exact PorySwitchLists.mart_statement_erasure. Qed.
Print Assumptions mart_statement_erasure.

Theorem moves_operator_erasure :
  forall (switches : list (text * text)) (env_errors : bool) (f : nat) (ts : toks) (mv : list token) (ts' : toks),
  eof_ended ts ->
  moves_operator switches env_errors f ts = Ok (mv, ts') ->
  exists (m lp : token) (body src : list token),
    ts = m :: lp :: body /\
    ttype lp = LPAREN /\
    list_erase switches env_errors f (LMov RPAREN) true body [] = Ok (src, ts') /\
    no_poryswitch src /\
    (forall f' : nat, Datatypes.length src < f' -> moves_operator switches env_errors f' (m :: lp :: src ++ ts') = Ok (mv, ts')).
Proof. exact PorySwitchLists.moves_operator_erasure. Qed.
Print Assumptions moves_operator_erasure.

Theorem poryswitch_text_selects :
  forall (switches : list (text * text)) (env_errors : bool) (parse_format : toks -> res (token * text * text * toks)) 
    (f : nat) (ts : toks) (sc : text) (sv : option text) (ts1 : toks) (cases : list (text * (text * text))) (ts2 : toks),
  poryswitch_header switches env_errors ts = Ok (sc, sv, ts1) ->
  pory_text_cases parse_format f (cur ts1) ts1 [] = Ok (cases, ts2) ->
  pory_text switches env_errors parse_format f ts =
  match pory_select cases sv with
  | Some (v, sty) => Ok (v, sty, ts2)
  | None => if env_errors then err_tok (cur ts) "no poryswitch case found" else Ok ([], [], ts2)
  end.
Proof. exact PorySwitchLists.poryswitch_text_selects. Qed.
Print Assumptions poryswitch_text_selects.

Theorem poryswitch_text_no_case_fails :
  forall (switches : list (text * text)) (parse_format : toks -> res (token * text * text * toks)) (f : nat) (ts : toks) 
    (sc : text) (sv : option text) (ts1 : toks) (cases : list (text * (text * text))) (ts2 : toks),
  poryswitch_header switches true ts = Ok (sc, sv, ts1) ->
  pory_text_cases parse_format f (cur ts1) ts1 [] = Ok (cases, ts2) ->
  assoc cases (sval sv) = None ->
  assoc cases (t "_") = None ->
  exists e : perr, pory_text switches true parse_format f ts = Err e /\ els e = tline (cur ts) /\ ecs e = tsb (cur ts).
Proof. exact PorySwitchLists.poryswitch_text_no_case_fails. Qed.
Print Assumptions poryswitch_text_no_case_fails.

Theorem text_cases_table :
  forall (parse_format : toks -> res (token * text * text * toks)) (f : nat) (start : token) (ts : toks) (cases : list (text * (text * text)))
    (ts' : toks),
  pory_text_cases parse_format f start ts [] = Ok (cases, ts') ->
  exists l : list (text * (text * text)), text_case_seq parse_format ts l ts' /\ curis RBRACE ts' = true /\ cases = rev l.
Proof. exact PorySwitchLists.text_cases_table. Qed.
Print Assumptions text_cases_table.

Theorem text_cases_table_complete :
  forall (parse_format : toks -> res (token * text * text * toks)) (l : list (text * (text * text))) (start : token) (ts ts' : toks),
  text_case_seq parse_format ts l ts' ->
  curis RBRACE ts' = true -> pory_text_cases parse_format (S (Datatypes.length l)) start ts [] = Ok (rev l, ts').
Proof. exact PorySwitchLists.text_cases_table_complete. Qed.
Print Assumptions text_cases_table_complete.

Theorem poryswitch_text_contributes :
  forall (switches : list (text * text)) (env_errors : bool) (parse_format : toks -> res (token * text * text * toks)) 
    (f : nat) (ts : toks) (v sty : text) (ts2 : toks),
  pory_text switches env_errors parse_format f ts = Ok (v, sty, ts2) ->
  exists (sc : text) (sv : option text) (ts1 : toks) (l : list (text * (text * text))),
    poryswitch_header switches env_errors ts = Ok (sc, sv, ts1) /\
    text_case_seq parse_format ts1 l ts2 /\
    curis RBRACE ts2 = true /\ match pory_select (rev l) sv with
                               | Some r => r = (v, sty)
                               | None => env_errors = false /\ v = [] /\ sty = []
                               end.
Proof. exact PorySwitchLists.poryswitch_text_contributes. Qed.
Print Assumptions poryswitch_text_contributes.

Theorem text_statement_erasure :
  forall (switches : list (text * text)) (env_errors : bool) (parse_format : toks -> res (token * text * text * toks)) 
    (f : nat) (ts : toks) (td : textdef) (ts' : toks),
  eof_ended ts ->
  parse_text switches env_errors parse_format f ts = Ok (td, ts') ->
  exists (hd : list token) (lb : token) (body : list token),
    ts = hd ++ lb :: body /\
    ttype lb = LBRACE /\
    (curis PORYSWITCH body = true ->
     exists (sc : text) (sv : option text) (ts1 : toks) (l : list (text * (text * text))) (ts2 : toks),
       poryswitch_header switches env_errors body = Ok (sc, sv, ts1) /\
       text_case_seq parse_format ts1 l ts2 /\
       curis RBRACE ts2 = true /\
       match pory_select (rev l) sv with
       | Some _ =>
           exists (x : text) (l1 l2 : list (text * (text * text))) (tsc tsn : toks),
             l = l1 ++ (x, (xvalue td, xtype td)) :: l2 /\
             assoc l2 x = None /\
             (x = sval sv \/ x = t "_" /\ assoc l (sval sv) = None) /\
             text_case_seq parse_format ts1 l1 tsc /\
             text_case_step parse_format tsc x (xvalue td) (xtype td) tsn /\
             (curis FORMAT (adv (adv tsc)) = false \/ format_local parse_format ->
              exists (src : list token) (lastx : token),
                (exists tail : list token, adv (adv tsc) = src ++ lastx :: tail) /\
                (forall f' : nat, parse_text switches env_errors parse_format f' (hd ++ lb :: src ++ lastx :: ts') = Ok (td, ts')))
       | None => env_errors = false /\ xvalue td = [] /\ xtype td = []
       end).
Proof. exact PorySwitchLists.text_statement_erasure. Qed.
Print Assumptions text_statement_erasure.

Theorem text_statement_erasure_real_format :
  forall (switches : list (text * text)) (env_errors : bool) (fc : fontcfg) (cli_font : text) (cli_maxlen : Z) (f : nat) 
    (ts : toks) (td : textdef) (ts' : toks),
  let pf := parse_format fc cli_font cli_maxlen env_errors in
  eof_ended ts ->
  parse_text switches env_errors pf f ts = Ok (td, ts') ->
  exists (hd : list token) (lb : token) (body : list token),
    ts = hd ++ lb :: body /\
    ttype lb = LBRACE /\
    (curis PORYSWITCH body = true ->
     exists (sc : text) (sv : option text) (ts1 : toks) (l : list (text * (text * text))) (ts2 : toks),
       poryswitch_header switches env_errors body = Ok (sc, sv, ts1) /\
       text_case_seq pf ts1 l ts2 /\
       curis RBRACE ts2 = true /\
       match pory_select (rev l) sv with
       | Some _ =>
           exists (x : text) (l1 l2 : list (text * (text * text))) (tsc tsn : toks),
             l = l1 ++ (x, (xvalue td, xtype td)) :: l2 /\
             assoc l2 x = None /\
             (x = sval sv \/ x = t "_" /\ assoc l (sval sv) = None) /\
             text_case_seq pf ts1 l1 tsc /\
             text_case_step pf tsc x (xvalue td) (xtype td) tsn /\
             (exists (src : list token) (lastx : token),
                (exists tail : list token, adv (adv tsc) = src ++ lastx :: tail) /\
                (forall f' : nat, parse_text switches env_errors pf f' (hd ++ lb :: src ++ lastx :: ts') = Ok (td, ts')))
       | None => env_errors = false /\ xvalue td = [] /\ xtype td = []
       end).
Proof. exact PorySwitchLists.text_statement_erasure_real_format. Qed.
Print Assumptions text_statement_erasure_real_format.

Theorem real_format_local :
  forall (fc : fontcfg) (cli_font : text) (cli_maxlen : Z) (ee : bool), format_local (parse_format fc cli_font cli_maxlen ee).
Proof. exact PorySwitchLists.real_format_local. Qed.
Print Assumptions real_format_local.


(* ---- towards the program-level statement (TagRename.v). Loop / switch tags and command ids in the AST are the number of
   tokens still to read, so a program and its poryswitch-free twin have different ASTs. emit_script_tag_renaming /
   emit_script_renamed: the emitter is invariant under a renaming of tags that is injective on the tags of the body (needed:
   non_injective_renaming_changes_output) and never reads a command id (emit_script_cids_ignored); same_shape_body_sim,
   same_shape_same_output, compile_same_shape: two sources whose parsed programs have the same SHAPE (all tags and ids set
   to 0) have the same compile outcome - no premise beyond the two parses; poryswitch_twin_same_shape: a script with a 3-case
   poryswitch and its twin: different ASTs, same shape, same output. block_poryswitch_step, switch_block_poryswitch_step,
   pory_stmts_poryswitch_step, stmt_cases_table, block_poryswitch_contributes: a poryswitch met in a block / case body /
   poryswitch case appends exactly the statements and inline data of ONE written case (last case equal to the -s value,
   else last '_'), parsed in place; nothing of any other case. NOT proved: that the parse of the twin has the same shape
   (prefix locality of the statement parser up to shape). ---- *)
From Pory Require Import Emitter TagRename. Open Scope list_scope.
Theorem emit_script_renamed :
  forall (g : nat -> nat) (h : cmd -> cmd) (mp : option text) (tl : list text) (name : text) (glob optimize : bool) (body : list stmt),
  cmd_same h ->
  inj_on g (atags body) ->
  emit_script mp tl name glob optimize (mp_stmts g h body) = map_res (map (mp_instr h)) (emit_script mp tl name glob optimize body).
Proof. exact TagRename.emit_script_renamed. Qed.
Print Assumptions emit_script_renamed.

Theorem emit_script_tag_renaming :
  forall (g : nat -> nat) (mp : option text) (tl : list text) (name : text) (glob optimize : bool) (body : list stmt),
  inj_on g (atags body) -> emit_script mp tl name glob optimize (rn_stmts g body) = emit_script mp tl name glob optimize body.
Proof. exact TagRename.emit_script_tag_renaming. Qed.
Print Assumptions emit_script_tag_renaming.

Theorem script_text_renamed :
  forall (g : nat -> nat) (h : cmd -> cmd) (mp : option text) (tl : list text) (name : text) (glob optimize : bool) (body : list stmt),
  cmd_same h -> inj_on g (atags body) -> script_text mp tl name glob optimize (mp_stmts g h body) = script_text mp tl name glob optimize body.
Proof. exact TagRename.script_text_renamed. Qed.
Print Assumptions script_text_renamed.

Theorem emit_script_cids_ignored :
  forall (k : cmd -> nat) (mp : option text) (tl : list text) (name : text) (glob optimize : bool) (body : list stmt),
  emit_script mp tl name glob optimize (recid_stmts k body) = map_res (map (mp_instr (set_cid k))) (emit_script mp tl name glob optimize body) /\
  script_text mp tl name glob optimize (recid_stmts k body) = script_text mp tl name glob optimize body.
Proof. exact TagRename.emit_script_cids_ignored. Qed.
Print Assumptions emit_script_cids_ignored.

Theorem emit_program_sim :
  forall (optimize : bool) (mp : option text) (p1 p2 : program), program_sim p1 p2 -> emit_program optimize mp p1 = emit_program optimize mp p2.
Proof. exact TagRename.emit_program_sim. Qed.
Print Assumptions emit_program_sim.

Theorem same_shape_body_sim :
  forall b1 b2 : list stmt,
  shape b1 = shape b2 ->
  Tr.scoped None None b1 -> Tr.scoped None None b2 -> NoDup (Worklist.tags b1) -> NoDup (Worklist.tags b2) -> body_sim b1 b2.
Proof. exact TagRename.same_shape_body_sim. Qed.
Print Assumptions same_shape_body_sim.

Theorem body_sim_same_shape :
  forall b1 b2 : list stmt, body_sim b1 b2 -> shape b1 = shape b2.
Proof. exact TagRename.body_sim_same_shape. Qed.
Print Assumptions body_sim_same_shape.

Theorem same_shape_same_output :
  forall (optimize : bool) (mp : option text) (p1 p2 : program),
  shape_program p1 = shape_program p2 ->
  Forall body_ok (ProgWf.bodies_of (tops p1)) ->
  Forall body_ok (ProgWf.bodies_of (tops p2)) -> emit_program optimize mp p1 = emit_program optimize mp p2.
Proof. exact TagRename.same_shape_same_output. Qed.
Print Assumptions same_shape_same_output.

Theorem compile_same_shape :
  forall (hl hd hs : N -> bool) (av1 av2 : list (text * autovar)) (sw1 sw2 : list (text * text)) (ee1 ee2 : bool) (fc1 fc2 : fontcfg)
    (font1 font2 : text) (ml1 ml2 : Z) (optimize : bool) (mpath : option text) (s1 s2 : text) (p1 p2 : program),
  parse_program av1 sw1 ee1 (parse_format fc1 font1 ml1 ee1) (lex hl hd hs s1) = Parser.Ok p1 ->
  parse_program av2 sw2 ee2 (parse_format fc2 font2 ml2 ee2) (lex hl hd hs s2) = Parser.Ok p2 ->
  shape_program p1 = shape_program p2 ->
  Compile.compile hl hd hs av1 sw1 ee1 fc1 font1 ml1 optimize mpath s1 = Compile.compile hl hd hs av2 sw2 ee2 fc2 font2 ml2 optimize mpath s2.
Proof. exact TagRename.compile_same_shape. Qed.
Print Assumptions compile_same_shape.

Theorem non_injective_renaming_changes_output :
  ~ inj_on (fun _ : nat => 0) (atags two_loops) /\
  script_text None [] (t "s") true false (rn_stmts (fun _ : nat => 0) two_loops) <> script_text None [] (t "s") true false two_loops /\
  (exists x : text, script_text None [] (t "s") true false (rn_stmts (fun _ : nat => 0) two_loops) = Ok x) /\
  (exists x : text, script_text None [] (t "s") true false two_loops = Ok x).
Proof. exact TagRename.non_injective_renaming_changes_output. Qed.
Print Assumptions non_injective_renaming_changes_output.

Theorem poryswitch_twin_same_shape :
  exists p1 p2 : program,
    parse0 src_pory = Parser.Ok p1 /\
    parse0 src_twin = Parser.Ok p2 /\
    tops p1 <> tops p2 /\
    shape_program p1 = shape_program p2 /\ comp0 src_pory = comp0 src_twin /\ (exists x : text, comp0 src_pory = Compile.OutText x).
Proof. exact TagRename.poryswitch_twin_same_shape. Qed.
Print Assumptions poryswitch_twin_same_shape.

Import BlockStep.
Theorem block_poryswitch_step :
  forall (autovars : list (text * autovar)) (switches : list (text * text)) (env_errors : bool)
    (parse_format : toks -> Parser.res (token * text * text * toks)) (consts : list (text * text)) (f : nat) (script : text) 
    (bs cs : list nat) (start : token) (ts : toks) (acc : list stmt) (imp : impdata) (sc : text) (sv : option text) 
    (ts1 : toks) (cases : list (text * (list stmt * impdata))) (ts2 : toks),
  curis PORYSWITCH ts = true ->
  poryswitch_header switches env_errors ts = Parser.Ok (sc, sv, ts1) ->
  parse_pory_cases autovars switches env_errors parse_format consts f script bs cs (cur ts1) ts1 [] = Parser.Ok (cases, ts2) ->
  parse_block autovars switches env_errors parse_format consts (S (S (S f))) script bs cs start ts acc imp =
  match pory_select cases sv with
  | Some (ss, imp') =>
      parse_block autovars switches env_errors parse_format consts (S (S f)) script bs cs start (adv ts2) (acc ++ ss) (impadd imp imp')
  | None =>
      if env_errors
      then err_tok (cur ts) "no poryswitch case found"
      else parse_block autovars switches env_errors parse_format consts (S (S f)) script bs cs start (adv ts2) (acc ++ []) (impadd imp imp0)
  end.
Proof. exact TagRename.BlockStep.block_poryswitch_step. Qed.
Print Assumptions block_poryswitch_step.

Theorem switch_block_poryswitch_step :
  forall (autovars : list (text * autovar)) (switches : list (text * text)) (env_errors : bool)
    (parse_format : toks -> Parser.res (token * text * text * toks)) (consts : list (text * text)) (f : nat) (script : text) 
    (bs cs : list nat) (start : token) (ts : toks) (acc : list stmt) (imp : impdata) (sc : text) (sv : option text) 
    (ts1 : toks) (cases : list (text * (list stmt * impdata))) (ts2 : toks),
  curis PORYSWITCH ts = true ->
  poryswitch_header switches env_errors ts = Parser.Ok (sc, sv, ts1) ->
  parse_pory_cases autovars switches env_errors parse_format consts f script bs cs (cur ts1) ts1 [] = Parser.Ok (cases, ts2) ->
  parse_switch_block autovars switches env_errors parse_format consts (S (S (S f))) script bs cs start ts acc imp =
  match pory_select cases sv with
  | Some (ss, imp') =>
      parse_switch_block autovars switches env_errors parse_format consts (S (S f)) script bs cs start (adv ts2) (acc ++ ss) (impadd imp imp')
  | None =>
      if env_errors
      then err_tok (cur ts) "no poryswitch case found"
      else
       parse_switch_block autovars switches env_errors parse_format consts (S (S f)) script bs cs start (adv ts2) (acc ++ []) (impadd imp imp0)
  end.
Proof. exact TagRename.BlockStep.switch_block_poryswitch_step. Qed.
Print Assumptions switch_block_poryswitch_step.

Theorem pory_stmts_poryswitch_step :
  forall (autovars : list (text * autovar)) (switches : list (text * text)) (env_errors : bool)
    (parse_format : toks -> Parser.res (token * text * text * toks)) (consts : list (text * text)) (f : nat) (script : text) 
    (bs cs : list nat) (multi : bool) (ts : toks) (acc : list stmt) (imp : impdata) (sc : text) (sv : option text) (ts1 : toks)
    (cases : list (text * (list stmt * impdata))) (ts2 : toks),
  curis PORYSWITCH ts = true ->
  poryswitch_header switches env_errors ts = Parser.Ok (sc, sv, ts1) ->
  parse_pory_cases autovars switches env_errors parse_format consts f script bs cs (cur ts1) ts1 [] = Parser.Ok (cases, ts2) ->
  parse_pory_stmts autovars switches env_errors parse_format consts (S (S f)) script bs cs multi ts acc imp =
  (let continue :=
     fun (ss : list stmt) (imp' : impdata) =>
     if multi
     then parse_pory_stmts autovars switches env_errors parse_format consts (S f) script bs cs multi (adv ts2) (acc ++ ss) (impadd imp imp')
     else Parser.Ok (acc ++ ss, impadd imp imp', adv ts2) in
   match pory_select cases sv with
   | Some (ss, imp') => continue ss imp'
   | None => if env_errors then err_tok (cur ts) "no poryswitch case found" else continue [] imp0
   end).
Proof. exact TagRename.BlockStep.pory_stmts_poryswitch_step. Qed.
Print Assumptions pory_stmts_poryswitch_step.

Theorem stmt_cases_table :
  forall (autovars : list (text * autovar)) (switches : list (text * text)) (env_errors : bool)
    (parse_format : toks -> Parser.res (token * text * text * toks)) (consts : list (text * text)) (f : nat) (script : text) 
    (bs cs : list nat) (start : token) (ts : toks) (cases : list (text * (list stmt * impdata))) (ts' : toks),
  parse_pory_cases autovars switches env_errors parse_format consts f script bs cs start ts [] = Parser.Ok (cases, ts') ->
  exists l : list (text * (list stmt * impdata)),
    stmt_case_seq autovars switches env_errors parse_format consts script bs cs ts l ts' /\ curis RBRACE ts' = true /\ cases = rev l.
Proof. exact TagRename.BlockStep.stmt_cases_table. Qed.
Print Assumptions stmt_cases_table.

Theorem block_poryswitch_contributes :
  forall (autovars : list (text * autovar)) (switches : list (text * text)) (env_errors : bool)
    (parse_format : toks -> Parser.res (token * text * text * toks)) (consts : list (text * text)) (f : nat) (script : text) 
    (bs cs : list nat) (start : token) (ts : toks) (acc : list stmt) (imp : impdata) (sc : text) (sv : option text) 
    (ts1 : toks) (cases : list (text * (list stmt * impdata))) (ts2 : toks) (ss : list stmt) (imp' : impdata),
  curis PORYSWITCH ts = true ->
  poryswitch_header switches env_errors ts = Parser.Ok (sc, sv, ts1) ->
  parse_pory_cases autovars switches env_errors parse_format consts f script bs cs (cur ts1) ts1 [] = Parser.Ok (cases, ts2) ->
  pory_select cases sv = Some (ss, imp') ->
  parse_block autovars switches env_errors parse_format consts (S (S (S f))) script bs cs start ts acc imp =
  parse_block autovars switches env_errors parse_format consts (S (S f)) script bs cs start (adv ts2) (acc ++ ss) (impadd imp imp') /\
  curis RBRACE ts2 = true /\
  (exists (l : list (text * (list stmt * impdata))) (x : text) (l1 l2 : list (text * (list stmt * impdata))) (tsc tsn : toks),
     cases = rev l /\
     l = l1 ++ (x, (ss, imp')) :: l2 /\
     assoc l2 x = None /\
     (x = sval sv \/ x = t "_" /\ assoc l (sval sv) = None) /\
     stmt_case_seq autovars switches env_errors parse_format consts script bs cs ts1 l1 tsc /\
     stmt_case_step autovars switches env_errors parse_format consts script bs cs tsc x ss imp' tsn /\
     stmt_case_seq autovars switches env_errors parse_format consts script bs cs tsn l2 ts2).
Proof. exact TagRename.BlockStep.block_poryswitch_contributes. Qed.
Print Assumptions block_poryswitch_contributes.


(* ---- the twin of a script block (TwinParse.v): one statement poryswitch directly in the block of a script / map script, both case
   forms. twin_script_block: if the original block parses, the block in which the poryswitch is replaced by the body tokens of the
   selected case (same tokens, same positions) parses too, to the same statements up to the shift of tags and ids
   (twin_blocks_same_shape: the same SHAPE, so by compile_same_shape the same output once lifted to the program), with the same
   inline data; twin_block_step: the same step under any break / continue scopes, with the look-ahead premises LA / LC;
   block_pory_step: no selected case = the error in normal mode, nothing appended in lint mode; stmt_la: the statement parser
   with the LAST token directly in front of the replaced rest. continue_counterexample (TwinParse.v): `continue` as the end of
   the selected case satisfies the 'last statement of its block' rule inside the poryswitch although statements follow in the
   loop - the twin is rejected (boundary B1; premise LC). NOT proved: nesting in control constructs, several poryswitches,
   the lift to parse_program. ---- *)
From Pory Require TwinParse. Open Scope list_scope.
Theorem twin_script_block :
  forall (av : list (text * autovar)) (sw : list (text * text)) (ee : bool) (pf : toks -> Parser.res (token * text * text * toks))
    (c : list (text * text)),
  Independence.format_advs pf ->
  Independence.format_local pf ->
  Independence.format_lt pf ->
  forall (script : text) (x : toks) (b1 : list stmt) (i1 : impdata) (z : toks) (sc : text) (sv : option text) (ts1 : toks) 
    (F : nat) (cases : list (text * (list stmt * impdata))) (ts2 : toks) (ss : list stmt) (imp' : impdata) (start : token) 
    (f : nat) (b : list stmt) (imp : impdata) (y : toks),
  eof_ended x ->
  TwinParse.srun av sw ee pf c script [] [] x b1 i1 z ->
  curis PORYSWITCH z = true ->
  poryswitch_header sw ee z = Parser.Ok (sc, sv, ts1) ->
  5 * Datatypes.length z <= F ->
  parse_pory_cases av sw ee pf c F script [] [] (cur ts1) ts1 [] = Parser.Ok (cases, ts2) ->
  pory_select cases sv = Some (ss, imp') ->
  5 * Datatypes.length x + 3 <= f ->
  parse_block av sw ee pf c f script [] [] start x [] imp0 = Parser.Ok (b, imp, y) ->
  exists
    (pre : list token) (l : list (text * (list stmt * impdata))) (key : text) (l1 l2 : list (text * (list stmt * impdata))) 
  (tsc ra tsn : toks) (body : list token) (b3 : list stmt) (i3 : impdata),
    x = pre ++ z /\
    cases = rev l /\
    l = l1 ++ (key, (ss, imp')) :: l2 /\
    assoc l2 key = None /\
    (key = sval sv \/ key = t "_" /\ assoc l (sval sv) = None) /\
    TwinParse.case_seq av sw ee pf c script [] [] ts1 l1 tsc /\
    TwinParse.case_at av sw ee pf c script [] [] tsc key ss imp' ra tsn /\
    TwinParse.case_seq av sw ee pf c script [] [] tsn l2 ts2 /\
    curis RBRACE ts2 = true /\
    adv (adv tsc) = body ++ ra /\
    b = b1 ++ ss ++ b3 /\
    imp = impadd i1 (impadd imp' i3) /\
    parse_block av sw ee pf c f script [] [] start (adv ts2) [] imp0 = Parser.Ok (b3, i3, y) /\
    (let rest := adv ts2 in
     let s1 := Independence.sh z (body ++ rest) in
     let s2 := Independence.sh ra rest in
     Datatypes.length (pre ++ body ++ rest) < Datatypes.length x /\
     parse_block av sw ee pf c f script [] [] start (pre ++ body ++ rest) [] imp0 =
     Parser.Ok
       (map (Independence.g_stmt s1) b1 ++ map (Independence.g_stmt s2) ss ++ b3,
        impadd (Independence.g_imp s1 i1) (impadd (Independence.g_imp s2 imp') i3), y)).
Proof. exact TwinParse.twin_script_block. Qed.
Print Assumptions twin_script_block.

Theorem twin_blocks_same_shape :
  forall (s1 s2 : nat -> nat) (b1 ss b3 : list stmt),
  shape (map (Independence.g_stmt s1) b1 ++ map (Independence.g_stmt s2) ss ++ b3) = shape (b1 ++ ss ++ b3).
Proof. exact TwinParse.twin_blocks_same_shape. Qed.
Print Assumptions twin_blocks_same_shape.

Theorem twin_block_step :
  forall (av : list (text * autovar)) (sw : list (text * text)) (ee : bool) (pf : toks -> Parser.res (token * text * text * toks))
    (c : list (text * text)),
  Independence.format_advs pf ->
  Independence.format_local pf ->
  Independence.format_lt pf ->
  forall (script : text) (bs cs : list nat) (z : toks) (sc : text) (sv : option text) (ts1 : toks) (F : nat)
    (cases : list (text * (list stmt * impdata))) (ts2 : toks) (ss : list stmt) (imp' : impdata),
  eof_ended z ->
  curis PORYSWITCH z = true ->
  poryswitch_header sw ee z = Parser.Ok (sc, sv, ts1) ->
  5 * Datatypes.length z <= F ->
  parse_pory_cases av sw ee pf c F script bs cs (cur ts1) ts1 [] = Parser.Ok (cases, ts2) ->
  pory_select cases sv = Some (ss, imp') ->
  exists
    (l : list (text * (list stmt * impdata))) (key : text) (l1 l2 : list (text * (list stmt * impdata))) (tsc ra tsn : toks) 
  (body : list token),
    cases = rev l /\
    l = l1 ++ (key, (ss, imp')) :: l2 /\
    assoc l2 key = None /\
    (key = sval sv \/ key = t "_" /\ assoc l (sval sv) = None) /\
    TwinParse.case_seq av sw ee pf c script bs cs ts1 l1 tsc /\
    TwinParse.case_at av sw ee pf c script bs cs tsc key ss imp' ra tsn /\
    TwinParse.case_seq av sw ee pf c script bs cs tsn l2 ts2 /\
    curis RBRACE ts2 = true /\
    adv (adv tsc) = body ++ ra /\
    ra <> [] /\
    Datatypes.length (adv ts2) < Datatypes.length ra /\
    (forall (f : nat) (start : token) (acc : list stmt) (i : impdata),
     5 * Datatypes.length z + 3 <= f ->
     parse_block av sw ee pf c f script bs cs start z acc i =
     parse_block av sw ee pf c f script bs cs start (adv ts2) (acc ++ ss) (impadd i imp')) /\
    (let rest := adv ts2 in
     let s := Independence.sh ra rest in
     TwinParse.LA ra rest ->
     cs = [] \/ TwinParse.LC ra rest ->
     TwinParse.srun av sw ee pf c script (map s bs) (map s cs) (body ++ rest) (map (Independence.g_stmt s) ss) (Independence.g_imp s imp') rest /\
     (forall (f : nat) (start : token) (acc : list stmt) (i : impdata),
      5 * Datatypes.length (body ++ rest) + 3 <= f ->
      parse_block av sw ee pf c f script (map s bs) (map s cs) start (body ++ rest) acc i =
      parse_block av sw ee pf c f script (map s bs) (map s cs) start rest (acc ++ map (Independence.g_stmt s) ss)
        (impadd i (Independence.g_imp s imp')))).
Proof. exact TwinParse.twin_block_step. Qed.
Print Assumptions twin_block_step.

Theorem block_pory_step :
  forall (av : list (text * autovar)) (sw : list (text * text)) (ee : bool) (pf : toks -> Parser.res (token * text * text * toks))
    (c : list (text * text)),
  Independence.format_advs pf ->
  Independence.format_lt pf ->
  forall (script : text) (bs cs : list nat) (z : toks) (sc : text) (sv : option text) (ts1 : toks) (F : nat)
    (cases : list (text * (list stmt * impdata))) (ts2 : toks),
  eof_ended z ->
  curis PORYSWITCH z = true ->
  poryswitch_header sw ee z = Parser.Ok (sc, sv, ts1) ->
  5 * Datatypes.length z <= F ->
  parse_pory_cases av sw ee pf c F script bs cs (cur ts1) ts1 [] = Parser.Ok (cases, ts2) ->
  forall (f : nat) (start : token) (acc : list stmt) (i : impdata),
  5 * Datatypes.length z + 3 <= f ->
  parse_block av sw ee pf c f script bs cs start z acc i =
  match pory_select cases sv with
  | Some (ss, imp') => parse_block av sw ee pf c f script bs cs start (adv ts2) (acc ++ ss) (impadd i imp')
  | None => if ee then err_tok (cur z) "no poryswitch case found" else parse_block av sw ee pf c f script bs cs start (adv ts2) acc i
  end.
Proof. exact TwinParse.block_pory_step. Qed.
Print Assumptions block_pory_step.

Theorem stmt_la :
  forall ra rb : toks,
  ra <> [] ->
  rb <> [] ->
  forall (av : list (text * autovar)) (sw : list (text * text)) (pf : toks -> Parser.res (token * text * text * toks)) (c : list (text * text)),
  (forall (ts : toks) (tk : token) (v sty : text) (ts' : toks), pf ts = Parser.Ok (tk, v, sty, ts') -> forall a : toks, advs a ts -> advs a ts') ->
  (forall (x : toks) (tk : token) (v sty : text) (y : toks),
   pf x = Parser.Ok (tk, v, sty, y) ->
   Independence.Gw ra 1 y -> pf (Independence.swap ra rb x) = Parser.Ok (tk, v, sty, Independence.swap ra rb y)) ->
  TwinParse.LA ra rb ->
  forall (ee : bool) (f : nat) (script : text) (bs cs : list nat) (x : toks) (ss : list stmt) (imp : impdata) (y : toks),
  parse_stmt av sw ee pf c f script bs cs x = Parser.Ok (ss, imp, y) ->
  Independence.Gw ra 1 y ->
  cs = [] \/ TwinParse.LC ra rb ->
  parse_stmt av sw ee pf c f script (map (Independence.sh ra rb) bs) (map (Independence.sh ra rb) cs) (Independence.swap ra rb x) =
  Parser.Ok (map (Independence.g_stmt (Independence.sh ra rb)) ss, Independence.g_imp (Independence.sh ra rb) imp, Independence.swap ra rb y).
Proof. exact TwinParse.stmt_la. Qed.
Print Assumptions stmt_la.

Theorem twin_script_block_real :
  forall (av : list (text * autovar)) (sw : list (text * text)) (ee : bool) (fc : fontcfg) (font : text) (ml : Z) (c : list (text * text))
    (script : text) (x : toks) (b1 : list stmt) (i1 : impdata) (z : toks) (sc : text) (sv : option text) (ts1 : toks) 
    (F : nat) (cases : list (text * (list stmt * impdata))) (ts2 : toks) (ss : list stmt) (imp' : impdata) (start : token) 
    (f : nat) (b : list stmt) (imp : impdata) (y : toks),
  eof_ended x ->
  TwinParse.srun av sw ee (parse_format fc font ml ee) c script [] [] x b1 i1 z ->
  curis PORYSWITCH z = true ->
  poryswitch_header sw ee z = Parser.Ok (sc, sv, ts1) ->
  5 * Datatypes.length z <= F ->
  parse_pory_cases av sw ee (parse_format fc font ml ee) c F script [] [] (cur ts1) ts1 [] = Parser.Ok (cases, ts2) ->
  pory_select cases sv = Some (ss, imp') ->
  5 * Datatypes.length x + 3 <= f ->
  parse_block av sw ee (parse_format fc font ml ee) c f script [] [] start x [] imp0 = Parser.Ok (b, imp, y) ->
  exists
    (pre : list token) (l : list (text * (list stmt * impdata))) (key : text) (l1 l2 : list (text * (list stmt * impdata))) 
  (tsc ra tsn : toks) (body : list token) (b3 : list stmt) (i3 : impdata),
    x = pre ++ z /\
    cases = rev l /\
    l = l1 ++ (key, (ss, imp')) :: l2 /\
    assoc l2 key = None /\
    (key = sval sv \/ key = t "_" /\ assoc l (sval sv) = None) /\
    TwinParse.case_seq av sw ee (parse_format fc font ml ee) c script [] [] ts1 l1 tsc /\
    TwinParse.case_at av sw ee (parse_format fc font ml ee) c script [] [] tsc key ss imp' ra tsn /\
    TwinParse.case_seq av sw ee (parse_format fc font ml ee) c script [] [] tsn l2 ts2 /\
    curis RBRACE ts2 = true /\
    adv (adv tsc) = body ++ ra /\
    b = b1 ++ ss ++ b3 /\
    imp = impadd i1 (impadd imp' i3) /\
    parse_block av sw ee (parse_format fc font ml ee) c f script [] [] start (adv ts2) [] imp0 = Parser.Ok (b3, i3, y) /\
    (let rest := adv ts2 in
     let s1 := Independence.sh z (body ++ rest) in
     let s2 := Independence.sh ra rest in
     Datatypes.length (pre ++ body ++ rest) < Datatypes.length x /\
     parse_block av sw ee (parse_format fc font ml ee) c f script [] [] start (pre ++ body ++ rest) [] imp0 =
     Parser.Ok
       (map (Independence.g_stmt s1) b1 ++ map (Independence.g_stmt s2) ss ++ b3,
        impadd (Independence.g_imp s1 i1) (impadd (Independence.g_imp s2 imp') i3), y)).
Proof. exact TwinParse.twin_script_block_real. Qed.
Print Assumptions twin_script_block_real.

Theorem twin_block_step_real :
  forall (av : list (text * autovar)) (sw : list (text * text)) (ee : bool) (fc : fontcfg) (font : text) (ml : Z) (c : list (text * text))
    (script : text) (bs cs : list nat) (z : toks) (sc : text) (sv : option text) (ts1 : toks) (F : nat)
    (cases : list (text * (list stmt * impdata))) (ts2 : toks) (ss : list stmt) (imp' : impdata),
  eof_ended z ->
  curis PORYSWITCH z = true ->
  poryswitch_header sw ee z = Parser.Ok (sc, sv, ts1) ->
  5 * Datatypes.length z <= F ->
  parse_pory_cases av sw ee (parse_format fc font ml ee) c F script bs cs (cur ts1) ts1 [] = Parser.Ok (cases, ts2) ->
  pory_select cases sv = Some (ss, imp') ->
  exists
    (l : list (text * (list stmt * impdata))) (key : text) (l1 l2 : list (text * (list stmt * impdata))) (tsc ra tsn : toks) 
  (body : list token),
    cases = rev l /\
    l = l1 ++ (key, (ss, imp')) :: l2 /\
    assoc l2 key = None /\
    (key = sval sv \/ key = t "_" /\ assoc l (sval sv) = None) /\
    TwinParse.case_seq av sw ee (parse_format fc font ml ee) c script bs cs ts1 l1 tsc /\
    TwinParse.case_at av sw ee (parse_format fc font ml ee) c script bs cs tsc key ss imp' ra tsn /\
    TwinParse.case_seq av sw ee (parse_format fc font ml ee) c script bs cs tsn l2 ts2 /\
    curis RBRACE ts2 = true /\
    adv (adv tsc) = body ++ ra /\
    ra <> [] /\
    Datatypes.length (adv ts2) < Datatypes.length ra /\
    (forall (f : nat) (start : token) (acc : list stmt) (i : impdata),
     5 * Datatypes.length z + 3 <= f ->
     parse_block av sw ee (parse_format fc font ml ee) c f script bs cs start z acc i =
     parse_block av sw ee (parse_format fc font ml ee) c f script bs cs start (adv ts2) (acc ++ ss) (impadd i imp')) /\
    (let rest := adv ts2 in
     let s := Independence.sh ra rest in
     TwinParse.LA ra rest ->
     cs = [] \/ TwinParse.LC ra rest ->
     TwinParse.srun av sw ee (parse_format fc font ml ee) c script (map s bs) (map s cs) (body ++ rest) (map (Independence.g_stmt s) ss)
       (Independence.g_imp s imp') rest /\
     (forall (f : nat) (start : token) (acc : list stmt) (i : impdata),
      5 * Datatypes.length (body ++ rest) + 3 <= f ->
      parse_block av sw ee (parse_format fc font ml ee) c f script (map s bs) (map s cs) start (body ++ rest) acc i =
      parse_block av sw ee (parse_format fc font ml ee) c f script (map s bs) (map s cs) start rest (acc ++ map (Independence.g_stmt s) ss)
        (impadd i (Independence.g_imp s imp')))).
Proof. exact TwinParse.twin_block_step_real. Qed.
Print Assumptions twin_block_step_real.

Theorem block_pory_step_real :
  forall (av : list (text * autovar)) (sw : list (text * text)) (ee : bool) (fc : fontcfg) (font : text) (ml : Z) (c : list (text * text))
    (script : text) (bs cs : list nat) (z : toks) (sc : text) (sv : option text) (ts1 : toks) (F : nat)
    (cases : list (text * (list stmt * impdata))) (ts2 : toks),
  eof_ended z ->
  curis PORYSWITCH z = true ->
  poryswitch_header sw ee z = Parser.Ok (sc, sv, ts1) ->
  5 * Datatypes.length z <= F ->
  parse_pory_cases av sw ee (parse_format fc font ml ee) c F script bs cs (cur ts1) ts1 [] = Parser.Ok (cases, ts2) ->
  forall (f : nat) (start : token) (acc : list stmt) (i : impdata),
  5 * Datatypes.length z + 3 <= f ->
  parse_block av sw ee (parse_format fc font ml ee) c f script bs cs start z acc i =
  match pory_select cases sv with
  | Some (ss, imp') => parse_block av sw ee (parse_format fc font ml ee) c f script bs cs start (adv ts2) (acc ++ ss) (impadd i imp')
  | None =>
      if ee
      then err_tok (cur z) "no poryswitch case found"
      else parse_block av sw ee (parse_format fc font ml ee) c f script bs cs start (adv ts2) acc i
  end.
Proof. exact TwinParse.block_pory_step_real. Qed.
Print Assumptions block_pory_step_real.


(* ---- THE PROGRAM-LEVEL STATEMENT in its simplest form (TwinProgram.v): one statement poryswitch directly in the block of a top-level
   script of a whole program. twin_program(_real): if the original token list is accepted, the list in which the poryswitch is replaced
   by the body tokens of the selected case (last case with the switch value, else last '_'; same tokens, same positions) is
   accepted too and the two programs have the same shape; twin_compile(_at): hence Compile.compile gives the SAME outcome for the
   two sources - from source text to output text, every configuration, both settings, markers on or off. no_case_program /
   no_case_compile: no matching case and no '_' in normal mode = the error 'no poryswitch case found' at the poryswitch.
   twin_steps_compile: a chain of such replacements (reaches a poryswitch nested in a selected case). No look-ahead premise is left;
   boundary B1 does not arise in a top-level block. other_case_error_counterexample (TwinProgram.v): a syntax error in an
   UNSELECTED case makes the original fail while the twin compiles (all cases are parsed, one is kept): the premise 'the original
   is accepted' cannot be replaced by 'the twin is accepted' (boundary B9). NOT proved: a poryswitch nested in if / while / do /
   switch bodies or in inline map scripts; all poryswitches at once. ---- *)
From Pory Require TwinProgram. Open Scope list_scope.
Theorem twin_program_at :
  forall (av : list (text * autovar)) (sw : list (text * text)) (ee : bool) (pf : toks -> Parser.res (token * text * text * toks)),
  Independence.format_advs pf ->
  Independence.format_local pf ->
  Independence.format_lt pf ->
  forall (T : toks) (f1 : nat) (st1 : pstate) (xs : toks) (g : bool) (t1 t2 t3 : toks) (b1 : list stmt) (i1 : impdata) 
    (z : toks) (sc : text) (sv : option text) (ts1 : toks) (F : nat) (cases : list (text * (list stmt * impdata))) (ts2 : toks) 
    (ss : list stmt) (imp' : impdata) (body ra : list token) (p1 : program),
  let c := pconsts st1 in
  let name := tlit (cur t2) in
  eof_ended T ->
  Independence.tops_run av sw ee pf (5 * Datatypes.length T + 4) TwinProgram.st0 T f1 st1 xs ->
  ttype (cur xs) = SCRIPT ->
  scope_modifier true xs = Parser.Ok (g, t1) ->
  expect_peek IDENT t1 = Some t2 ->
  expect_peek LBRACE t2 = Some t3 ->
  TwinParse.srun av sw ee pf c name [] [] (adv t3) b1 i1 z ->
  curis PORYSWITCH z = true ->
  poryswitch_header sw ee z = Parser.Ok (sc, sv, ts1) ->
  5 * Datatypes.length z <= F ->
  parse_pory_cases av sw ee pf c F name [] [] (cur ts1) ts1 [] = Parser.Ok (cases, ts2) ->
  pory_select cases sv = Some (ss, imp') ->
  advs ts1 (body ++ ra) ->
  TwinParse.srun av sw ee pf c name [] [] (body ++ ra) ss imp' ra ->
  advs ra ts2 ->
  curis RBRACE ra = true \/ curis IDENT ra = true \/ curis INT ra = true ->
  parse_program av sw ee pf T = Parser.Ok p1 ->
  exists (U : list token) (p2 : program),
    T = U ++ z /\
    Datatypes.length (U ++ body ++ adv ts2) < Datatypes.length T /\
    parse_program av sw ee pf (U ++ body ++ adv ts2) = Parser.Ok p2 /\ shape_program p1 = shape_program p2.
Proof. exact TwinProgram.twin_program_at. Qed.
Print Assumptions twin_program_at.

Theorem twin_program :
  forall (av : list (text * autovar)) (sw : list (text * text)) (ee : bool) (pf : toks -> Parser.res (token * text * text * toks)),
  Independence.format_advs pf ->
  Independence.format_local pf ->
  Independence.format_lt pf ->
  forall (T : toks) (f1 : nat) (st1 : pstate) (xs : toks) (g : bool) (t1 t2 t3 : toks) (b1 : list stmt) (i1 : impdata) 
    (z : toks) (sc : text) (sv : option text) (ts1 : toks) (F : nat) (cases : list (text * (list stmt * impdata))) (ts2 : toks) 
    (ss : list stmt) (imp' : impdata) (p1 : program),
  let c := pconsts st1 in
  let name := tlit (cur t2) in
  eof_ended T ->
  Independence.tops_run av sw ee pf (5 * Datatypes.length T + 4) TwinProgram.st0 T f1 st1 xs ->
  ttype (cur xs) = SCRIPT ->
  scope_modifier true xs = Parser.Ok (g, t1) ->
  expect_peek IDENT t1 = Some t2 ->
  expect_peek LBRACE t2 = Some t3 ->
  TwinParse.srun av sw ee pf c name [] [] (adv t3) b1 i1 z ->
  curis PORYSWITCH z = true ->
  poryswitch_header sw ee z = Parser.Ok (sc, sv, ts1) ->
  5 * Datatypes.length z <= F ->
  parse_pory_cases av sw ee pf c F name [] [] (cur ts1) ts1 [] = Parser.Ok (cases, ts2) ->
  pory_select cases sv = Some (ss, imp') ->
  parse_program av sw ee pf T = Parser.Ok p1 ->
  exists
    (U : list token) (l : list (text * (list stmt * impdata))) (key : text) (l1 l2 : list (text * (list stmt * impdata))) 
  (tsc ra tsn : toks) (body : list token) (p2 : program),
    T = U ++ z /\
    cases = rev l /\
    l = l1 ++ (key, (ss, imp')) :: l2 /\
    assoc l2 key = None /\
    (key = sval sv \/ key = t "_" /\ assoc l (sval sv) = None) /\
    TwinParse.case_seq av sw ee pf c name [] [] ts1 l1 tsc /\
    TwinParse.case_at av sw ee pf c name [] [] tsc key ss imp' ra tsn /\
    TwinParse.case_seq av sw ee pf c name [] [] tsn l2 ts2 /\
    curis RBRACE ts2 = true /\
    adv (adv tsc) = body ++ ra /\
    Datatypes.length (U ++ body ++ adv ts2) < Datatypes.length T /\
    parse_program av sw ee pf (U ++ body ++ adv ts2) = Parser.Ok p2 /\ shape_program p1 = shape_program p2.
Proof. exact TwinProgram.twin_program. Qed.
Print Assumptions twin_program.

Theorem twin_program_real :
  forall (av : list (text * autovar)) (sw : list (text * text)) (ee : bool) (fc : fontcfg) (font : text) (ml : Z) (T : toks) 
    (f1 : nat) (st1 : pstate) (xs : toks) (g : bool) (t1 t2 t3 : toks) (b1 : list stmt) (i1 : impdata) (z : toks) (sc : text) 
    (sv : option text) (ts1 : toks) (F : nat) (cases : list (text * (list stmt * impdata))) (ts2 : toks) (ss : list stmt) 
    (imp' : impdata) (p1 : program),
  let c := pconsts st1 in
  let name := tlit (cur t2) in
  eof_ended T ->
  Independence.tops_run av sw ee (parse_format fc font ml ee) (5 * Datatypes.length T + 4) TwinProgram.st0 T f1 st1 xs ->
  ttype (cur xs) = SCRIPT ->
  scope_modifier true xs = Parser.Ok (g, t1) ->
  expect_peek IDENT t1 = Some t2 ->
  expect_peek LBRACE t2 = Some t3 ->
  TwinParse.srun av sw ee (parse_format fc font ml ee) c name [] [] (adv t3) b1 i1 z ->
  curis PORYSWITCH z = true ->
  poryswitch_header sw ee z = Parser.Ok (sc, sv, ts1) ->
  5 * Datatypes.length z <= F ->
  parse_pory_cases av sw ee (parse_format fc font ml ee) c F name [] [] (cur ts1) ts1 [] = Parser.Ok (cases, ts2) ->
  pory_select cases sv = Some (ss, imp') ->
  parse_program av sw ee (parse_format fc font ml ee) T = Parser.Ok p1 ->
  exists
    (U : list token) (l : list (text * (list stmt * impdata))) (key : text) (l1 l2 : list (text * (list stmt * impdata))) 
  (tsc ra tsn : toks) (body : list token) (p2 : program),
    T = U ++ z /\
    cases = rev l /\
    l = l1 ++ (key, (ss, imp')) :: l2 /\
    assoc l2 key = None /\
    (key = sval sv \/ key = t "_" /\ assoc l (sval sv) = None) /\
    TwinParse.case_seq av sw ee (parse_format fc font ml ee) c name [] [] ts1 l1 tsc /\
    TwinParse.case_at av sw ee (parse_format fc font ml ee) c name [] [] tsc key ss imp' ra tsn /\
    TwinParse.case_seq av sw ee (parse_format fc font ml ee) c name [] [] tsn l2 ts2 /\
    curis RBRACE ts2 = true /\
    adv (adv tsc) = body ++ ra /\
    Datatypes.length (U ++ body ++ adv ts2) < Datatypes.length T /\
    parse_program av sw ee (parse_format fc font ml ee) (U ++ body ++ adv ts2) = Parser.Ok p2 /\ shape_program p1 = shape_program p2.
Proof. exact TwinProgram.twin_program_real. Qed.
Print Assumptions twin_program_real.

Theorem twin_compile_at :
  forall (hl hd hs : N -> bool) (av : list (text * autovar)) (sw : list (text * text)) (ee : bool) (fc : fontcfg) (font : text) 
    (ml : Z) (optimize : bool) (mpath : option text) (src : text) (f1 : nat) (st1 : pstate) (xs : toks) (g : bool) (t1 t2 t3 : toks)
    (b1 : list stmt) (i1 : impdata) (z : toks) (sc : text) (sv : option text) (ts1 : toks) (F : nat)
    (cases : list (text * (list stmt * impdata))) (ts2 : toks) (ss : list stmt) (imp' : impdata) (body ra : list token) 
    (p1 : program),
  let pf := parse_format fc font ml ee in
  let T := lex hl hd hs src in
  let c := pconsts st1 in
  let name := tlit (cur t2) in
  Independence.tops_run av sw ee pf (5 * Datatypes.length T + 4) TwinProgram.st0 T f1 st1 xs ->
  ttype (cur xs) = SCRIPT ->
  scope_modifier true xs = Parser.Ok (g, t1) ->
  expect_peek IDENT t1 = Some t2 ->
  expect_peek LBRACE t2 = Some t3 ->
  TwinParse.srun av sw ee pf c name [] [] (adv t3) b1 i1 z ->
  curis PORYSWITCH z = true ->
  poryswitch_header sw ee z = Parser.Ok (sc, sv, ts1) ->
  5 * Datatypes.length z <= F ->
  parse_pory_cases av sw ee pf c F name [] [] (cur ts1) ts1 [] = Parser.Ok (cases, ts2) ->
  pory_select cases sv = Some (ss, imp') ->
  advs ts1 (body ++ ra) ->
  TwinParse.srun av sw ee pf c name [] [] (body ++ ra) ss imp' ra ->
  advs ra ts2 ->
  curis RBRACE ra = true \/ curis IDENT ra = true \/ curis INT ra = true ->
  parse_program av sw ee pf T = Parser.Ok p1 ->
  forall (U : list token) (src' : text),
  T = U ++ z ->
  lex hl hd hs src' = U ++ body ++ adv ts2 ->
  Compile.compile hl hd hs av sw ee fc font ml optimize mpath src = Compile.compile hl hd hs av sw ee fc font ml optimize mpath src'.
Proof. exact TwinProgram.twin_compile_at. Qed.
Print Assumptions twin_compile_at.

Theorem twin_compile :
  forall (hl hd hs : N -> bool) (av : list (text * autovar)) (sw : list (text * text)) (ee : bool) (fc : fontcfg) (font : text) 
    (ml : Z) (optimize : bool) (mpath : option text) (src : text) (f1 : nat) (st1 : pstate) (xs : toks) (g : bool) (t1 t2 t3 : toks)
    (b1 : list stmt) (i1 : impdata) (z : toks) (sc : text) (sv : option text) (ts1 : toks) (F : nat)
    (cases : list (text * (list stmt * impdata))) (ts2 : toks) (ss : list stmt) (imp' : impdata) (p1 : program),
  let pf := parse_format fc font ml ee in
  let T := lex hl hd hs src in
  let c := pconsts st1 in
  let name := tlit (cur t2) in
  Independence.tops_run av sw ee pf (5 * Datatypes.length T + 4) TwinProgram.st0 T f1 st1 xs ->
  ttype (cur xs) = SCRIPT ->
  scope_modifier true xs = Parser.Ok (g, t1) ->
  expect_peek IDENT t1 = Some t2 ->
  expect_peek LBRACE t2 = Some t3 ->
  TwinParse.srun av sw ee pf c name [] [] (adv t3) b1 i1 z ->
  curis PORYSWITCH z = true ->
  poryswitch_header sw ee z = Parser.Ok (sc, sv, ts1) ->
  5 * Datatypes.length z <= F ->
  parse_pory_cases av sw ee pf c F name [] [] (cur ts1) ts1 [] = Parser.Ok (cases, ts2) ->
  pory_select cases sv = Some (ss, imp') ->
  parse_program av sw ee pf T = Parser.Ok p1 ->
  exists
    (U : list token) (l : list (text * (list stmt * impdata))) (key : text) (l1 l2 : list (text * (list stmt * impdata))) 
  (tsc ra tsn : toks) (body : list token),
    T = U ++ z /\
    cases = rev l /\
    l = l1 ++ (key, (ss, imp')) :: l2 /\
    assoc l2 key = None /\
    (key = sval sv \/ key = t "_" /\ assoc l (sval sv) = None) /\
    TwinParse.case_seq av sw ee pf c name [] [] ts1 l1 tsc /\
    TwinParse.case_at av sw ee pf c name [] [] tsc key ss imp' ra tsn /\
    TwinParse.case_seq av sw ee pf c name [] [] tsn l2 ts2 /\
    curis RBRACE ts2 = true /\
    adv (adv tsc) = body ++ ra /\
    Datatypes.length (U ++ body ++ adv ts2) < Datatypes.length T /\
    (forall src' : text,
     lex hl hd hs src' = U ++ body ++ adv ts2 ->
     Compile.compile hl hd hs av sw ee fc font ml optimize mpath src = Compile.compile hl hd hs av sw ee fc font ml optimize mpath src').
Proof. exact TwinProgram.twin_compile. Qed.
Print Assumptions twin_compile.

Theorem no_case_program :
  forall (av : list (text * autovar)) (sw : list (text * text)) (pf : toks -> Parser.res (token * text * text * toks)),
  Independence.format_advs pf ->
  Independence.format_lt pf ->
  forall (T : toks) (f1 : nat) (st1 : pstate) (xs : toks) (g : bool) (t1 t2 t3 : toks) (b1 : list stmt) (i1 : impdata) 
    (z : toks) (sc : text) (sv : option text) (ts1 : toks) (F : nat) (cases : list (text * (list stmt * impdata))) (ts2 : toks),
  let c := pconsts st1 in
  let name := tlit (cur t2) in
  eof_ended T ->
  Independence.tops_run av sw true pf (5 * Datatypes.length T + 4) TwinProgram.st0 T f1 st1 xs ->
  ttype (cur xs) = SCRIPT ->
  scope_modifier true xs = Parser.Ok (g, t1) ->
  expect_peek IDENT t1 = Some t2 ->
  expect_peek LBRACE t2 = Some t3 ->
  TwinParse.srun av sw true pf c name [] [] (adv t3) b1 i1 z ->
  curis PORYSWITCH z = true ->
  poryswitch_header sw true z = Parser.Ok (sc, sv, ts1) ->
  5 * Datatypes.length z <= F ->
  parse_pory_cases av sw true pf c F name [] [] (cur ts1) ts1 [] = Parser.Ok (cases, ts2) ->
  pory_select cases sv = None -> parse_program av sw true pf T = err_tok (cur z) "no poryswitch case found".
Proof. exact TwinProgram.no_case_program. Qed.
Print Assumptions no_case_program.

Theorem no_case_compile :
  forall (hl hd hs : N -> bool) (av : list (text * autovar)) (sw : list (text * text)) (fc : fontcfg) (font : text) 
    (ml : Z) (optimize : bool) (mpath : option text) (src : text) (f1 : nat) (st1 : pstate) (xs : toks) (g : bool) (t1 t2 t3 : toks)
    (b1 : list stmt) (i1 : impdata) (z : toks) (sc : text) (sv : option text) (ts1 : toks) (F : nat)
    (cases : list (text * (list stmt * impdata))) (ts2 : toks),
  let pf := parse_format fc font ml true in
  let T := lex hl hd hs src in
  let c := pconsts st1 in
  let name := tlit (cur t2) in
  Independence.tops_run av sw true pf (5 * Datatypes.length T + 4) TwinProgram.st0 T f1 st1 xs ->
  ttype (cur xs) = SCRIPT ->
  scope_modifier true xs = Parser.Ok (g, t1) ->
  expect_peek IDENT t1 = Some t2 ->
  expect_peek LBRACE t2 = Some t3 ->
  TwinParse.srun av sw true pf c name [] [] (adv t3) b1 i1 z ->
  curis PORYSWITCH z = true ->
  poryswitch_header sw true z = Parser.Ok (sc, sv, ts1) ->
  5 * Datatypes.length z <= F ->
  parse_pory_cases av sw true pf c F name [] [] (cur ts1) ts1 [] = Parser.Ok (cases, ts2) ->
  pory_select cases sv = None ->
  exists e : perr,
    Compile.compile hl hd hs av sw true fc font ml optimize mpath src = Compile.OutErr e /\
    emsg e = t "no poryswitch case found" /\ els e = tline (cur z) /\ ecs e = tsb (cur z).
Proof. exact TwinProgram.no_case_compile. Qed.
Print Assumptions no_case_compile.

Theorem twin_step :
  (N -> bool) ->
  (N -> bool) -> (N -> bool) -> list (text * autovar) -> list (text * text) -> bool -> fontcfg -> text -> Z -> text -> text -> Prop.
Proof. exact TwinProgram.twin_step. Qed.
Print Assumptions twin_step.

Theorem twin_steps :
  (N -> bool) ->
  (N -> bool) -> (N -> bool) -> list (text * autovar) -> list (text * text) -> bool -> fontcfg -> text -> Z -> text -> text -> Prop.
Proof. exact TwinProgram.twin_steps. Qed.
Print Assumptions twin_steps.

Theorem twin_step_compile :
  forall (hl hd hs : N -> bool) (av : list (text * autovar)) (sw : list (text * text)) (ee : bool) (fc : fontcfg) (font : text) 
    (ml : Z) (optimize : bool) (mpath : option text) (src src' : text),
  TwinProgram.twin_step hl hd hs av sw ee fc font ml src src' ->
  Compile.compile hl hd hs av sw ee fc font ml optimize mpath src = Compile.compile hl hd hs av sw ee fc font ml optimize mpath src'.
Proof. exact TwinProgram.twin_step_compile. Qed.
Print Assumptions twin_step_compile.

Theorem twin_steps_compile :
  forall (hl hd hs : N -> bool) (av : list (text * autovar)) (sw : list (text * text)) (ee : bool) (fc : fontcfg) (font : text) 
    (ml : Z) (optimize : bool) (mpath : option text) (src src' : text),
  TwinProgram.twin_steps hl hd hs av sw ee fc font ml src src' ->
  Compile.compile hl hd hs av sw ee fc font ml optimize mpath src = Compile.compile hl hd hs av sw ee fc font ml optimize mpath src'.
Proof. exact TwinProgram.twin_steps_compile. Qed.
Print Assumptions twin_steps_compile.


(* ---- nested in loops (TwinNested.v). scope_all / stmt_scopes / block_scopes: the statement parsers started with other break / continue
   stacks of the same emptiness give the same outcome, consume the same tokens, the same inline data and the same statements up to
   the tag of every free break / continue. twin_nested_program(_real), twin_nested_compile: the twin theorem for a statement poryswitch
   at ANY depth of while / do-while bodies of a top-level script: same shape, same compile outcome (premise LC where a loop encloses it:
   boundary B1). NOT proved: nesting in if / elif / else bodies and switch cases; inline scripts of mapscripts. ---- *)
From Pory Require TwinNested. Open Scope list_scope.
Theorem se_iff :
  forall a b : list nat, TwinNested.se a b <-> (a = [] <-> b = []).
Proof. exact TwinNested.se_iff. Qed.
Print Assumptions se_iff.

Theorem stmt_scopes :
  forall (av : list (text * autovar)) (sw : list (text * text)) (ee : bool) (pf : toks -> Parser.res (token * text * text * toks))
    (c : list (text * text)) (f : nat) (script : text) (bs cs bs' cs' : list nat) (x : toks),
  bs = [] <-> bs' = [] ->
  cs = [] <-> cs' = [] ->
  parse_stmt av sw ee pf c f script bs' cs' x =
  (do (ss, imp, y) <- parse_stmt av sw ee pf c f script bs cs x; Parser.Ok (map (TwinNested.rt_stmt (hd_error bs') (hd_error cs')) ss, imp, y)).
Proof. exact TwinNested.stmt_scopes. Qed.
Print Assumptions stmt_scopes.

Theorem block_scopes :
  forall (av : list (text * autovar)) (sw : list (text * text)) (ee : bool) (pf : toks -> Parser.res (token * text * text * toks))
    (c : list (text * text)) (f : nat) (script : text) (bs cs bs' cs' : list nat) (start : token) (x : toks),
  bs = [] <-> bs' = [] ->
  cs = [] <-> cs' = [] ->
  parse_block av sw ee pf c f script bs' cs' start x [] imp0 =
  (do (ss, imp, y) <- parse_block av sw ee pf c f script bs cs start x [] imp0;
   Parser.Ok (map (TwinNested.rt_stmt (hd_error bs') (hd_error cs')) ss, imp, y)).
Proof. exact TwinNested.block_scopes. Qed.
Print Assumptions block_scopes.

Theorem twin_nested_program :
  forall (av : list (text * autovar)) (sw : list (text * text)) (ee : bool) (pf : toks -> Parser.res (token * text * text * toks)),
  Independence.format_advs pf ->
  Independence.format_local pf ->
  Independence.format_lt pf ->
  forall (T : toks) (f1 : nat) (st1 : pstate) (xs : toks) (g : bool) (t1 t2 t3 z : toks) (body ra : list token) (bsz csz : list nat)
    (scn : text) (sv : option text) (ts1 ts2 : toks) (F : nat) (cases : list (text * (list stmt * impdata))) (ss : list stmt) 
    (imp' : impdata) (p1 : program),
  let c := pconsts st1 in
  let name := tlit (cur t2) in
  eof_ended T ->
  Independence.tops_run av sw ee pf (5 * Datatypes.length T + 4) TwinProgram.st0 T f1 st1 xs ->
  ttype (cur xs) = SCRIPT ->
  scope_modifier true xs = Parser.Ok (g, t1) ->
  expect_peek IDENT t1 = Some t2 ->
  expect_peek LBRACE t2 = Some t3 ->
  TwinNested.nest av sw ee pf c name z bsz csz [] [] (adv t3) ->
  curis PORYSWITCH z = true ->
  poryswitch_header sw ee z = Parser.Ok (scn, sv, ts1) ->
  5 * Datatypes.length z <= F ->
  parse_pory_cases av sw ee pf c F name bsz csz (cur ts1) ts1 [] = Parser.Ok (cases, ts2) ->
  pory_select cases sv = Some (ss, imp') ->
  advs ts1 (body ++ ra) ->
  TwinParse.srun av sw ee pf c name bsz csz (body ++ ra) ss imp' ra ->
  advs ra ts2 ->
  curis RBRACE ra = true \/ curis IDENT ra = true \/ curis INT ra = true ->
  csz = [] \/ TwinParse.LC ra (adv ts2) ->
  parse_program av sw ee pf T = Parser.Ok p1 ->
  exists (U : list token) (p2 : program),
    T = U ++ z /\
    Datatypes.length (U ++ body ++ adv ts2) < Datatypes.length T /\
    parse_program av sw ee pf (U ++ body ++ adv ts2) = Parser.Ok p2 /\ shape_program p1 = shape_program p2.
Proof. exact TwinNested.twin_nested_program. Qed.
Print Assumptions twin_nested_program.

Theorem twin_nested_program_real :
  forall (av : list (text * autovar)) (sw : list (text * text)) (ee : bool) (fc : fontcfg) (font : text) (ml : Z) (T : toks) 
    (f1 : nat) (st1 : pstate) (xs : toks) (g : bool) (t1 t2 t3 z : toks) (body ra : list token) (bsz csz : list nat) 
    (scn : text) (sv : option text) (ts1 ts2 : toks) (F : nat) (cases : list (text * (list stmt * impdata))) (ss : list stmt) 
    (imp' : impdata) (p1 : program),
  let c := pconsts st1 in
  let name := tlit (cur t2) in
  eof_ended T ->
  Independence.tops_run av sw ee (parse_format fc font ml ee) (5 * Datatypes.length T + 4) TwinProgram.st0 T f1 st1 xs ->
  ttype (cur xs) = SCRIPT ->
  scope_modifier true xs = Parser.Ok (g, t1) ->
  expect_peek IDENT t1 = Some t2 ->
  expect_peek LBRACE t2 = Some t3 ->
  TwinNested.nest av sw ee (parse_format fc font ml ee) c name z bsz csz [] [] (adv t3) ->
  curis PORYSWITCH z = true ->
  poryswitch_header sw ee z = Parser.Ok (scn, sv, ts1) ->
  5 * Datatypes.length z <= F ->
  parse_pory_cases av sw ee (parse_format fc font ml ee) c F name bsz csz (cur ts1) ts1 [] = Parser.Ok (cases, ts2) ->
  pory_select cases sv = Some (ss, imp') ->
  advs ts1 (body ++ ra) ->
  TwinParse.srun av sw ee (parse_format fc font ml ee) c name bsz csz (body ++ ra) ss imp' ra ->
  advs ra ts2 ->
  curis RBRACE ra = true \/ curis IDENT ra = true \/ curis INT ra = true ->
  csz = [] \/ TwinParse.LC ra (adv ts2) ->
  parse_program av sw ee (parse_format fc font ml ee) T = Parser.Ok p1 ->
  exists (U : list token) (p2 : program),
    T = U ++ z /\
    Datatypes.length (U ++ body ++ adv ts2) < Datatypes.length T /\
    parse_program av sw ee (parse_format fc font ml ee) (U ++ body ++ adv ts2) = Parser.Ok p2 /\ shape_program p1 = shape_program p2.
Proof. exact TwinNested.twin_nested_program_real. Qed.
Print Assumptions twin_nested_program_real.

Theorem twin_nested_compile :
  forall (hl hd hs : N -> bool) (av : list (text * autovar)) (sw : list (text * text)) (ee : bool) (fc : fontcfg) (font : text) 
    (ml : Z) (optimize : bool) (mpath : option text) (src : text) (f1 : nat) (st1 : pstate) (xs : toks) (g : bool) (t1 t2 t3 z : toks)
    (body ra : list token) (bsz csz : list nat) (scn : text) (sv : option text) (ts1 ts2 : toks) (F : nat)
    (cases : list (text * (list stmt * impdata))) (ss : list stmt) (imp' : impdata) (p1 : program),
  let pf := parse_format fc font ml ee in
  let T := lex hl hd hs src in
  let c := pconsts st1 in
  let name := tlit (cur t2) in
  Independence.tops_run av sw ee pf (5 * Datatypes.length T + 4) TwinProgram.st0 T f1 st1 xs ->
  ttype (cur xs) = SCRIPT ->
  scope_modifier true xs = Parser.Ok (g, t1) ->
  expect_peek IDENT t1 = Some t2 ->
  expect_peek LBRACE t2 = Some t3 ->
  TwinNested.nest av sw ee pf c name z bsz csz [] [] (adv t3) ->
  curis PORYSWITCH z = true ->
  poryswitch_header sw ee z = Parser.Ok (scn, sv, ts1) ->
  5 * Datatypes.length z <= F ->
  parse_pory_cases av sw ee pf c F name bsz csz (cur ts1) ts1 [] = Parser.Ok (cases, ts2) ->
  pory_select cases sv = Some (ss, imp') ->
  advs ts1 (body ++ ra) ->
  TwinParse.srun av sw ee pf c name bsz csz (body ++ ra) ss imp' ra ->
  advs ra ts2 ->
  curis RBRACE ra = true \/ curis IDENT ra = true \/ curis INT ra = true ->
  csz = [] \/ TwinParse.LC ra (adv ts2) ->
  parse_program av sw ee pf T = Parser.Ok p1 ->
  forall (U : list token) (src' : text),
  T = U ++ z ->
  lex hl hd hs src' = U ++ body ++ adv ts2 ->
  Compile.compile hl hd hs av sw ee fc font ml optimize mpath src = Compile.compile hl hd hs av sw ee fc font ml optimize mpath src'.
Proof. exact TwinNested.twin_nested_compile. Qed.
Print Assumptions twin_nested_compile.


(* ---- nested in every control construct (TwinIf.v): twin_switch_step (the body of any case / default), twin_if_step / twin_elif_step /
   twin_else_step; nest2 = the poryswitch at any depth of while / do-while / if / elif / else bodies and switch cases of a top-level
   script; twin_nested2_program, twin_nested2_compile: the program with the poryswitch replaced by the tokens of its selected case has the
   same shape and the SAME compile outcome (premise LC where a loop encloses the poryswitch: boundary B1). NOT proved: inline scripts
   of mapscripts; all poryswitches at once (one application per poryswitch). ---- *)
From Pory Require TwinIf. Open Scope list_scope.
Theorem elifs_acc :
  forall (av : list (text * autovar)) (sw : list (text * text)) (ee : bool) (pf : toks -> Parser.res (token * text * text * toks))
    (c : list (text * text)) (script : text) (f : nat) (bs cs : list nat) (x : toks) (acc : list (bexp * list stmt)) 
    (imp : impdata),
  parse_elifs av sw ee pf c f script bs cs x acc imp =
  (do (l, i, y) <- parse_elifs av sw ee pf c f script bs cs x [] imp0; Parser.Ok (acc ++ l, impadd imp i, y)).
Proof. exact TwinIf.elifs_acc. Qed.
Print Assumptions elifs_acc.

Theorem cases_acc :
  forall (av : list (text * autovar)) (sw : list (text * text)) (ee : bool) (pf : toks -> Parser.res (token * text * text * toks))
    (c : list (text * text)) (script : text) (f : nat) (bs cs : list nat) (brace : token) (y : toks) (acc : list Parser.scase)
    (seen : list text) (hd : bool) (imp : impdata),
  parse_cases av sw ee pf c f script bs cs brace y acc seen hd imp =
  (do (l, i, y1) <- parse_cases av sw ee pf c f script bs cs brace y [] seen hd imp0; Parser.Ok (acc ++ l, impadd imp i, y1)).
Proof. exact TwinIf.cases_acc. Qed.
Print Assumptions cases_acc.

Theorem twin_nested2_block :
  forall (av : list (text * autovar)) (sw : list (text * text)) (ee : bool) (pf : toks -> Parser.res (token * text * text * toks))
    (c : list (text * text)),
  Independence.format_advs pf ->
  Independence.format_local pf ->
  Independence.format_lt pf ->
  forall (script : text) (z body ra rest : toks) (bsz csz : list nat) (scn : text) (sv : option text) (ts1 ts2 : toks) 
    (F : nat) (cases : list (text * (list stmt * impdata))) (ss : list stmt) (imp' : impdata),
  eof_ended z ->
  curis PORYSWITCH z = true ->
  poryswitch_header sw ee z = Parser.Ok (scn, sv, ts1) ->
  5 * Datatypes.length z <= F ->
  parse_pory_cases av sw ee pf c F script bsz csz (cur ts1) ts1 [] = Parser.Ok (cases, ts2) ->
  pory_select cases sv = Some (ss, imp') ->
  advs ts1 (body ++ ra) ->
  TwinParse.srun av sw ee pf c script bsz csz (body ++ ra) ss imp' ra ->
  advs ra ts2 ->
  curis RBRACE ra = true \/ curis IDENT ra = true \/ curis INT ra = true ->
  rest = adv ts2 ->
  csz = [] \/ TwinParse.LC ra rest ->
  Forall (fun n : nat => Datatypes.length z < n) bsz ->
  Forall (fun n : nat => Datatypes.length z < n) csz ->
  forall (x : toks) (f : nat) (start : token) (b : list stmt) (imp : impdata) (y : toks),
  TwinIf.nest2 av sw ee pf c script z bsz csz true [] [] x ->
  5 * Datatypes.length x + 3 <= f ->
  parse_block av sw ee pf c f script [] [] start x [] imp0 = Parser.Ok (b, imp, y) ->
  exists G : nat -> nat,
    (forall a b0 : nat, G a = G b0 -> a = b0) /\
    parse_block av sw ee pf c f script [] [] start (Independence.swap z (body ++ rest) x) [] imp0 =
    Parser.Ok (map (Independence.g_stmt G) b, Independence.g_imp G imp, y).
Proof. exact TwinIf.twin_nested2_block. Qed.
Print Assumptions twin_nested2_block.

Theorem twin_nested2_program :
  forall (av : list (text * autovar)) (sw : list (text * text)) (ee : bool) (pf : toks -> Parser.res (token * text * text * toks)),
  Independence.format_advs pf ->
  Independence.format_local pf ->
  Independence.format_lt pf ->
  forall (T : toks) (f1 : nat) (st1 : pstate) (xs : toks) (g : bool) (t1 t2 t3 z : toks) (body ra : list token) (bsz csz : list nat)
    (scn : text) (sv : option text) (ts1 ts2 : toks) (F : nat) (cases : list (text * (list stmt * impdata))) (ss : list stmt) 
    (imp' : impdata) (p1 : program),
  let c := pconsts st1 in
  let name := tlit (cur t2) in
  eof_ended T ->
  Independence.tops_run av sw ee pf (5 * Datatypes.length T + 4) TwinProgram.st0 T f1 st1 xs ->
  ttype (cur xs) = SCRIPT ->
  scope_modifier true xs = Parser.Ok (g, t1) ->
  expect_peek IDENT t1 = Some t2 ->
  expect_peek LBRACE t2 = Some t3 ->
  TwinIf.nest2 av sw ee pf c name z bsz csz true [] [] (adv t3) ->
  curis PORYSWITCH z = true ->
  poryswitch_header sw ee z = Parser.Ok (scn, sv, ts1) ->
  5 * Datatypes.length z <= F ->
  parse_pory_cases av sw ee pf c F name bsz csz (cur ts1) ts1 [] = Parser.Ok (cases, ts2) ->
  pory_select cases sv = Some (ss, imp') ->
  advs ts1 (body ++ ra) ->
  TwinParse.srun av sw ee pf c name bsz csz (body ++ ra) ss imp' ra ->
  advs ra ts2 ->
  curis RBRACE ra = true \/ curis IDENT ra = true \/ curis INT ra = true ->
  csz = [] \/ TwinParse.LC ra (adv ts2) ->
  parse_program av sw ee pf T = Parser.Ok p1 ->
  exists (U : list token) (p2 : program),
    T = U ++ z /\
    Datatypes.length (U ++ body ++ adv ts2) < Datatypes.length T /\
    parse_program av sw ee pf (U ++ body ++ adv ts2) = Parser.Ok p2 /\ shape_program p1 = shape_program p2.
Proof. exact TwinIf.twin_nested2_program. Qed.
Print Assumptions twin_nested2_program.

Theorem twin_nested2_compile :
  forall (hl hd hs : N -> bool) (av : list (text * autovar)) (sw : list (text * text)) (ee : bool) (fc : fontcfg) (font : text) 
    (ml : Z) (optimize : bool) (mpath : option text) (src : text) (f1 : nat) (st1 : pstate) (xs : toks) (g : bool) (t1 t2 t3 z : toks)
    (body ra : list token) (bsz csz : list nat) (scn : text) (sv : option text) (ts1 ts2 : toks) (F : nat)
    (cases : list (text * (list stmt * impdata))) (ss : list stmt) (imp' : impdata) (p1 : program),
  let pf := parse_format fc font ml ee in
  let T := lex hl hd hs src in
  let c := pconsts st1 in
  let name := tlit (cur t2) in
  Independence.tops_run av sw ee pf (5 * Datatypes.length T + 4) TwinProgram.st0 T f1 st1 xs ->
  ttype (cur xs) = SCRIPT ->
  scope_modifier true xs = Parser.Ok (g, t1) ->
  expect_peek IDENT t1 = Some t2 ->
  expect_peek LBRACE t2 = Some t3 ->
  TwinIf.nest2 av sw ee pf c name z bsz csz true [] [] (adv t3) ->
  curis PORYSWITCH z = true ->
  poryswitch_header sw ee z = Parser.Ok (scn, sv, ts1) ->
  5 * Datatypes.length z <= F ->
  parse_pory_cases av sw ee pf c F name bsz csz (cur ts1) ts1 [] = Parser.Ok (cases, ts2) ->
  pory_select cases sv = Some (ss, imp') ->
  advs ts1 (body ++ ra) ->
  TwinParse.srun av sw ee pf c name bsz csz (body ++ ra) ss imp' ra ->
  advs ra ts2 ->
  curis RBRACE ra = true \/ curis IDENT ra = true \/ curis INT ra = true ->
  csz = [] \/ TwinParse.LC ra (adv ts2) ->
  parse_program av sw ee pf T = Parser.Ok p1 ->
  forall (U : list token) (src' : text),
  T = U ++ z ->
  lex hl hd hs src' = U ++ body ++ adv ts2 ->
  Compile.compile hl hd hs av sw ee fc font ml optimize mpath src = Compile.compile hl hd hs av sw ee fc font ml optimize mpath src'.
Proof. exact TwinIf.twin_nested2_compile. Qed.
Print Assumptions twin_nested2_compile.


(* TwinMapScripts.v *)
From Pory Require TwinMapScripts.
Theorem twin_mapscripts_at :
  forall (av : list (text * autovar)) (sw : list (text * text)) (ee : bool) (pf : toks -> Parser.res (token * text * text * toks))
    (c : list (text * text)),
  Independence.format_advs pf ->
  Independence.format_local pf ->
  Independence.format_lt pf ->
  forall (f : nat) (xs : toks) (g : bool) (t1 t2 t3 : toks) (f' : nat) (x' : toks) (p1 : list mapscript) (q1 : list tablems) 
    (j1 : impdata) (b1 : list stmt) (i1 : impdata) (z : toks) (sc : text) (sv : option text) (ts1 : toks) (F : nat)
    (cases : list (text * (list stmt * impdata))) (ts2 : toks) (ss : list stmt) (imp' : impdata) (body ra : list token) 
    (tp : top) (imp : impdata) (y : toks),
  let name := tlit (cur t2) in
  let sname := name ++ t "_" ++ tlit (cur x') in
  eof_ended xs ->
  5 * Datatypes.length xs + 3 <= f ->
  scope_modifier true xs = Parser.Ok (g, t1) ->
  expect_peek IDENT t1 = Some t2 ->
  expect_peek LBRACE t2 = Some t3 ->
  TwinMapScripts.ms_run av sw ee pf c name f (adv t3) [] [] imp0 f' x' p1 q1 j1 ->
  curis RBRACE x' = false ->
  curis IDENT x' = true ->
  curis COLON (adv x') = false ->
  curis LBRACE (adv x') = true ->
  TwinParse.srun av sw ee pf c sname [] [] (adv (adv x')) b1 i1 z ->
  curis PORYSWITCH z = true ->
  poryswitch_header sw ee z = Parser.Ok (sc, sv, ts1) ->
  5 * Datatypes.length z <= F ->
  parse_pory_cases av sw ee pf c F sname [] [] (cur ts1) ts1 [] = Parser.Ok (cases, ts2) ->
  pory_select cases sv = Some (ss, imp') ->
  advs ts1 (body ++ ra) ->
  TwinParse.srun av sw ee pf c sname [] [] (body ++ ra) ss imp' ra ->
  advs ra ts2 ->
  curis RBRACE ra = true \/ curis IDENT ra = true \/ curis INT ra = true ->
  parse_mapscripts av sw ee pf c f xs = Parser.Ok (tp, imp, y) ->
  exists (U : list token) (G : nat -> nat),
    xs = U ++ z /\
    Independence.Gw z 5 xs /\
    advs xs z /\
    eof_ended z /\
    eof_ended (body ++ adv ts2) /\
    Datatypes.length (body ++ adv ts2) < Datatypes.length z /\
    (forall a b : nat, G a = G b -> a = b) /\
    parse_mapscripts av sw ee pf c f (U ++ body ++ adv ts2) = Parser.Ok (Independence.g_top G tp, Independence.g_imp G imp, y).
Proof. exact TwinMapScripts.twin_mapscripts_at. Qed.
Print Assumptions twin_mapscripts_at.

Theorem twin_ms_program_at :
  forall (av : list (text * autovar)) (sw : list (text * text)) (ee : bool) (pf : toks -> Parser.res (token * text * text * toks)),
  Independence.format_advs pf ->
  Independence.format_local pf ->
  Independence.format_lt pf ->
  forall (T : toks) (f : nat) (st1 : pstate) (xs : toks) (g : bool) (t1 t2 t3 : toks) (f' : nat) (x' : toks) (p1 : list mapscript)
    (q1 : list tablems) (j1 : impdata) (b1 : list stmt) (i1 : impdata) (z : toks) (sc : text) (sv : option text) (ts1 : toks) 
    (F : nat) (cases : list (text * (list stmt * impdata))) (ts2 : toks) (ss : list stmt) (imp' : impdata) (body ra : list token)
    (prog1 : program),
  let c := pconsts st1 in
  let name := tlit (cur t2) in
  let sname := name ++ t "_" ++ tlit (cur x') in
  eof_ended T ->
  Independence.tops_run av sw ee pf (5 * Datatypes.length T + 4) TwinProgram.st0 T (S f) st1 xs ->
  ttype (cur xs) = MAPSCRIPTS ->
  scope_modifier true xs = Parser.Ok (g, t1) ->
  expect_peek IDENT t1 = Some t2 ->
  expect_peek LBRACE t2 = Some t3 ->
  TwinMapScripts.ms_run av sw ee pf c name f (adv t3) [] [] imp0 f' x' p1 q1 j1 ->
  curis RBRACE x' = false ->
  curis IDENT x' = true ->
  curis COLON (adv x') = false ->
  curis LBRACE (adv x') = true ->
  TwinParse.srun av sw ee pf c sname [] [] (adv (adv x')) b1 i1 z ->
  curis PORYSWITCH z = true ->
  poryswitch_header sw ee z = Parser.Ok (sc, sv, ts1) ->
  5 * Datatypes.length z <= F ->
  parse_pory_cases av sw ee pf c F sname [] [] (cur ts1) ts1 [] = Parser.Ok (cases, ts2) ->
  pory_select cases sv = Some (ss, imp') ->
  advs ts1 (body ++ ra) ->
  TwinParse.srun av sw ee pf c sname [] [] (body ++ ra) ss imp' ra ->
  advs ra ts2 ->
  curis RBRACE ra = true \/ curis IDENT ra = true \/ curis INT ra = true ->
  parse_program av sw ee pf T = Parser.Ok prog1 ->
  exists (U : list token) (p2 : program),
    T = U ++ z /\
    Datatypes.length (U ++ body ++ adv ts2) < Datatypes.length T /\
    parse_program av sw ee pf (U ++ body ++ adv ts2) = Parser.Ok p2 /\ shape_program prog1 = shape_program p2.
Proof. exact TwinMapScripts.twin_ms_program_at. Qed.
Print Assumptions twin_ms_program_at.

Theorem twin_ms_program :
  forall (av : list (text * autovar)) (sw : list (text * text)) (ee : bool) (pf : toks -> Parser.res (token * text * text * toks)),
  Independence.format_advs pf ->
  Independence.format_local pf ->
  Independence.format_lt pf ->
  forall (T : toks) (f : nat) (st1 : pstate) (xs : toks) (g : bool) (t1 t2 t3 : toks) (f' : nat) (x' : toks) (p1 : list mapscript)
    (q1 : list tablems) (j1 : impdata) (b1 : list stmt) (i1 : impdata) (z : toks) (sc : text) (sv : option text) (ts1 : toks) 
    (F : nat) (cases : list (text * (list stmt * impdata))) (ts2 : toks) (ss : list stmt) (imp' : impdata) (prog1 : program),
  let c := pconsts st1 in
  let name := tlit (cur t2) in
  let sname := name ++ t "_" ++ tlit (cur x') in
  eof_ended T ->
  Independence.tops_run av sw ee pf (5 * Datatypes.length T + 4) TwinProgram.st0 T (S f) st1 xs ->
  ttype (cur xs) = MAPSCRIPTS ->
  scope_modifier true xs = Parser.Ok (g, t1) ->
  expect_peek IDENT t1 = Some t2 ->
  expect_peek LBRACE t2 = Some t3 ->
  TwinMapScripts.ms_run av sw ee pf c name f (adv t3) [] [] imp0 f' x' p1 q1 j1 ->
  curis RBRACE x' = false ->
  curis IDENT x' = true ->
  curis COLON (adv x') = false ->
  curis LBRACE (adv x') = true ->
  TwinParse.srun av sw ee pf c sname [] [] (adv (adv x')) b1 i1 z ->
  curis PORYSWITCH z = true ->
  poryswitch_header sw ee z = Parser.Ok (sc, sv, ts1) ->
  5 * Datatypes.length z <= F ->
  parse_pory_cases av sw ee pf c F sname [] [] (cur ts1) ts1 [] = Parser.Ok (cases, ts2) ->
  pory_select cases sv = Some (ss, imp') ->
  parse_program av sw ee pf T = Parser.Ok prog1 ->
  exists
    (U : list token) (l : list (text * (list stmt * impdata))) (key : text) (l1 l2 : list (text * (list stmt * impdata))) 
  (tsc ra tsn : toks) (body : list token) (p2 : program),
    T = U ++ z /\
    cases = rev l /\
    l = l1 ++ (key, (ss, imp')) :: l2 /\
    assoc l2 key = None /\
    (key = sval sv \/ key = t "_" /\ assoc l (sval sv) = None) /\
    TwinParse.case_seq av sw ee pf c sname [] [] ts1 l1 tsc /\
    TwinParse.case_at av sw ee pf c sname [] [] tsc key ss imp' ra tsn /\
    TwinParse.case_seq av sw ee pf c sname [] [] tsn l2 ts2 /\
    curis RBRACE ts2 = true /\
    adv (adv tsc) = body ++ ra /\
    Datatypes.length (U ++ body ++ adv ts2) < Datatypes.length T /\
    parse_program av sw ee pf (U ++ body ++ adv ts2) = Parser.Ok p2 /\ shape_program prog1 = shape_program p2.
Proof. exact TwinMapScripts.twin_ms_program. Qed.
Print Assumptions twin_ms_program.

Theorem twin_ms_compile_at :
  forall (hl hd hs : N -> bool) (av : list (text * autovar)) (sw : list (text * text)) (ee : bool) (fc : fontcfg) (font : text) 
    (ml : Z) (optimize : bool) (mpath : option text) (src : text) (f : nat) (st1 : pstate) (xs : toks) (g : bool) (t1 t2 t3 : toks) 
    (f' : nat) (x' : toks) (p1 : list mapscript) (q1 : list tablems) (j1 : impdata) (b1 : list stmt) (i1 : impdata) 
    (z : toks) (sc : text) (sv : option text) (ts1 : toks) (F : nat) (cases : list (text * (list stmt * impdata))) (ts2 : toks) 
    (ss : list stmt) (imp' : impdata) (body ra : list token) (prog1 : program),
  let pf := parse_format fc font ml ee in
  let T := lex hl hd hs src in
  let c := pconsts st1 in
  let name := tlit (cur t2) in
  let sname := name ++ t "_" ++ tlit (cur x') in
  Independence.tops_run av sw ee pf (5 * Datatypes.length T + 4) TwinProgram.st0 T (S f) st1 xs ->
  ttype (cur xs) = MAPSCRIPTS ->
  scope_modifier true xs = Parser.Ok (g, t1) ->
  expect_peek IDENT t1 = Some t2 ->
  expect_peek LBRACE t2 = Some t3 ->
  TwinMapScripts.ms_run av sw ee pf c name f (adv t3) [] [] imp0 f' x' p1 q1 j1 ->
  curis RBRACE x' = false ->
  curis IDENT x' = true ->
  curis COLON (adv x') = false ->
  curis LBRACE (adv x') = true ->
  TwinParse.srun av sw ee pf c sname [] [] (adv (adv x')) b1 i1 z ->
  curis PORYSWITCH z = true ->
  poryswitch_header sw ee z = Parser.Ok (sc, sv, ts1) ->
  5 * Datatypes.length z <= F ->
  parse_pory_cases av sw ee pf c F sname [] [] (cur ts1) ts1 [] = Parser.Ok (cases, ts2) ->
  pory_select cases sv = Some (ss, imp') ->
  advs ts1 (body ++ ra) ->
  TwinParse.srun av sw ee pf c sname [] [] (body ++ ra) ss imp' ra ->
  advs ra ts2 ->
  curis RBRACE ra = true \/ curis IDENT ra = true \/ curis INT ra = true ->
  parse_program av sw ee pf T = Parser.Ok prog1 ->
  forall (U : list token) (src' : text),
  T = U ++ z ->
  lex hl hd hs src' = U ++ body ++ adv ts2 ->
  Compile.compile hl hd hs av sw ee fc font ml optimize mpath src = Compile.compile hl hd hs av sw ee fc font ml optimize mpath src'.
Proof. exact TwinMapScripts.twin_ms_compile_at. Qed.
Print Assumptions twin_ms_compile_at.

Theorem twin_ms_compile :
  forall (hl hd hs : N -> bool) (av : list (text * autovar)) (sw : list (text * text)) (ee : bool) (fc : fontcfg) (font : text) 
    (ml : Z) (optimize : bool) (mpath : option text) (src : text) (f : nat) (st1 : pstate) (xs : toks) (g : bool) (t1 t2 t3 : toks) 
    (f' : nat) (x' : toks) (p1 : list mapscript) (q1 : list tablems) (j1 : impdata) (b1 : list stmt) (i1 : impdata) 
    (z : toks) (sc : text) (sv : option text) (ts1 : toks) (F : nat) (cases : list (text * (list stmt * impdata))) (ts2 : toks) 
    (ss : list stmt) (imp' : impdata) (prog1 : program),
  let pf := parse_format fc font ml ee in
  let T := lex hl hd hs src in
  let c := pconsts st1 in
  let name := tlit (cur t2) in
  let sname := name ++ t "_" ++ tlit (cur x') in
  Independence.tops_run av sw ee pf (5 * Datatypes.length T + 4) TwinProgram.st0 T (S f) st1 xs ->
  ttype (cur xs) = MAPSCRIPTS ->
  scope_modifier true xs = Parser.Ok (g, t1) ->
  expect_peek IDENT t1 = Some t2 ->
  expect_peek LBRACE t2 = Some t3 ->
  TwinMapScripts.ms_run av sw ee pf c name f (adv t3) [] [] imp0 f' x' p1 q1 j1 ->
  curis RBRACE x' = false ->
  curis IDENT x' = true ->
  curis COLON (adv x') = false ->
  curis LBRACE (adv x') = true ->
  TwinParse.srun av sw ee pf c sname [] [] (adv (adv x')) b1 i1 z ->
  curis PORYSWITCH z = true ->
  poryswitch_header sw ee z = Parser.Ok (sc, sv, ts1) ->
  5 * Datatypes.length z <= F ->
  parse_pory_cases av sw ee pf c F sname [] [] (cur ts1) ts1 [] = Parser.Ok (cases, ts2) ->
  pory_select cases sv = Some (ss, imp') ->
  parse_program av sw ee pf T = Parser.Ok prog1 ->
  exists
    (U : list token) (l : list (text * (list stmt * impdata))) (key : text) (l1 l2 : list (text * (list stmt * impdata))) 
  (tsc ra tsn : toks) (body : list token),
    T = U ++ z /\
    cases = rev l /\
    l = l1 ++ (key, (ss, imp')) :: l2 /\
    assoc l2 key = None /\
    (key = sval sv \/ key = t "_" /\ assoc l (sval sv) = None) /\
    TwinParse.case_seq av sw ee pf c sname [] [] ts1 l1 tsc /\
    TwinParse.case_at av sw ee pf c sname [] [] tsc key ss imp' ra tsn /\
    TwinParse.case_seq av sw ee pf c sname [] [] tsn l2 ts2 /\
    curis RBRACE ts2 = true /\
    adv (adv tsc) = body ++ ra /\
    Datatypes.length (U ++ body ++ adv ts2) < Datatypes.length T /\
    (forall src' : text,
     lex hl hd hs src' = U ++ body ++ adv ts2 ->
     Compile.compile hl hd hs av sw ee fc font ml optimize mpath src = Compile.compile hl hd hs av sw ee fc font ml optimize mpath src').
Proof. exact TwinMapScripts.twin_ms_compile. Qed.
Print Assumptions twin_ms_compile.

Theorem no_case_ms_program :
  forall (av : list (text * autovar)) (sw : list (text * text)) (ee : bool) (pf : toks -> Parser.res (token * text * text * toks)),
  Independence.format_advs pf ->
  Independence.format_lt pf ->
  forall (T : toks) (f : nat) (st1 : pstate) (xs : toks) (g : bool) (t1 t2 t3 : toks) (f' : nat) (x' : toks) (p1 : list mapscript)
    (q1 : list tablems) (j1 : impdata) (b1 : list stmt) (i1 : impdata) (z : toks) (sc : text) (sv : option text) (ts1 : toks) 
    (F : nat) (cases : list (text * (list stmt * impdata))) (ts2 : toks),
  let c := pconsts st1 in
  let name := tlit (cur t2) in
  let sname := name ++ t "_" ++ tlit (cur x') in
  ee = true ->
  eof_ended T ->
  Independence.tops_run av sw ee pf (5 * Datatypes.length T + 4) TwinProgram.st0 T (S f) st1 xs ->
  ttype (cur xs) = MAPSCRIPTS ->
  scope_modifier true xs = Parser.Ok (g, t1) ->
  expect_peek IDENT t1 = Some t2 ->
  expect_peek LBRACE t2 = Some t3 ->
  TwinMapScripts.ms_run av sw ee pf c name f (adv t3) [] [] imp0 f' x' p1 q1 j1 ->
  curis RBRACE x' = false ->
  curis IDENT x' = true ->
  curis COLON (adv x') = false ->
  curis LBRACE (adv x') = true ->
  TwinParse.srun av sw ee pf c sname [] [] (adv (adv x')) b1 i1 z ->
  curis PORYSWITCH z = true ->
  poryswitch_header sw ee z = Parser.Ok (sc, sv, ts1) ->
  5 * Datatypes.length z <= F ->
  parse_pory_cases av sw ee pf c F sname [] [] (cur ts1) ts1 [] = Parser.Ok (cases, ts2) ->
  pory_select cases sv = None -> parse_program av sw ee pf T = err_tok (cur z) "no poryswitch case found".
Proof. exact TwinMapScripts.no_case_ms_program. Qed.
Print Assumptions no_case_ms_program.

Theorem no_case_ms_compile :
  forall (hl hd hs : N -> bool) (av : list (text * autovar)) (sw : list (text * text)) (fc : fontcfg) (font : text) 
    (ml : Z) (optimize : bool) (mpath : option text) (src : text) (f : nat) (st1 : pstate) (xs : toks) (g : bool) (t1 t2 t3 : toks) 
    (f' : nat) (x' : toks) (p1 : list mapscript) (q1 : list tablems) (j1 : impdata) (b1 : list stmt) (i1 : impdata) 
    (z : toks) (sc : text) (sv : option text) (ts1 : toks) (F : nat) (cases : list (text * (list stmt * impdata))) (ts2 : toks),
  let pf := parse_format fc font ml true in
  let T := lex hl hd hs src in
  let c := pconsts st1 in
  let name := tlit (cur t2) in
  let sname := name ++ t "_" ++ tlit (cur x') in
  Independence.tops_run av sw true pf (5 * Datatypes.length T + 4) TwinProgram.st0 T (S f) st1 xs ->
  ttype (cur xs) = MAPSCRIPTS ->
  scope_modifier true xs = Parser.Ok (g, t1) ->
  expect_peek IDENT t1 = Some t2 ->
  expect_peek LBRACE t2 = Some t3 ->
  TwinMapScripts.ms_run av sw true pf c name f (adv t3) [] [] imp0 f' x' p1 q1 j1 ->
  curis RBRACE x' = false ->
  curis IDENT x' = true ->
  curis COLON (adv x') = false ->
  curis LBRACE (adv x') = true ->
  TwinParse.srun av sw true pf c sname [] [] (adv (adv x')) b1 i1 z ->
  curis PORYSWITCH z = true ->
  poryswitch_header sw true z = Parser.Ok (sc, sv, ts1) ->
  5 * Datatypes.length z <= F ->
  parse_pory_cases av sw true pf c F sname [] [] (cur ts1) ts1 [] = Parser.Ok (cases, ts2) ->
  pory_select cases sv = None ->
  exists e : perr,
    Compile.compile hl hd hs av sw true fc font ml optimize mpath src = Compile.OutErr e /\
    emsg e = t "no poryswitch case found" /\ els e = tline (cur z) /\ ecs e = tsb (cur z).
Proof. exact TwinMapScripts.no_case_ms_compile. Qed.
Print Assumptions no_case_ms_compile.

Theorem twin_mapscripts_nested :
  forall (av : list (text * autovar)) (sw : list (text * text)) (ee : bool) (pf : toks -> Parser.res (token * text * text * toks)),
  Independence.format_advs pf ->
  Independence.format_local pf ->
  Independence.format_lt pf ->
  forall (c : list (text * text)) (f : nat) (xs : toks) (g : bool) (t1 t2 t3 : toks) (f' : nat) (x' : toks) (p1 : list mapscript)
    (q1 : list tablems) (j1 : impdata) (z : toks) (bsz csz : list nat) (sc : text) (sv : option text) (ts1 : toks) (F : nat)
    (cases : list (text * (list stmt * impdata))) (ts2 : toks) (ss : list stmt) (imp' : impdata) (body ra : list token) 
    (tp : top) (imp : impdata) (y : toks),
  let name := tlit (cur t2) in
  let sname := name ++ t "_" ++ tlit (cur x') in
  eof_ended xs ->
  5 * Datatypes.length xs + 3 <= f ->
  scope_modifier true xs = Parser.Ok (g, t1) ->
  expect_peek IDENT t1 = Some t2 ->
  expect_peek LBRACE t2 = Some t3 ->
  TwinMapScripts.ms_run av sw ee pf c name f (adv t3) [] [] imp0 f' x' p1 q1 j1 ->
  curis RBRACE x' = false ->
  curis IDENT x' = true ->
  curis COLON (adv x') = false ->
  curis LBRACE (adv x') = true ->
  TwinIf.nest2 av sw ee pf c sname z bsz csz true [] [] (adv (adv x')) ->
  curis PORYSWITCH z = true ->
  poryswitch_header sw ee z = Parser.Ok (sc, sv, ts1) ->
  5 * Datatypes.length z <= F ->
  parse_pory_cases av sw ee pf c F sname bsz csz (cur ts1) ts1 [] = Parser.Ok (cases, ts2) ->
  pory_select cases sv = Some (ss, imp') ->
  advs ts1 (body ++ ra) ->
  TwinParse.srun av sw ee pf c sname bsz csz (body ++ ra) ss imp' ra ->
  advs ra ts2 ->
  curis RBRACE ra = true \/ curis IDENT ra = true \/ curis INT ra = true ->
  csz = [] \/ TwinParse.LC ra (adv ts2) ->
  parse_mapscripts av sw ee pf c f xs = Parser.Ok (tp, imp, y) ->
  exists (U : list token) (G : nat -> nat),
    xs = U ++ z /\
    Independence.Gw z 5 xs /\
    advs xs z /\
    eof_ended z /\
    eof_ended (body ++ adv ts2) /\
    Datatypes.length (body ++ adv ts2) < Datatypes.length z /\
    (forall a b : nat, G a = G b -> a = b) /\
    parse_mapscripts av sw ee pf c f (U ++ body ++ adv ts2) = Parser.Ok (Independence.g_top G tp, Independence.g_imp G imp, y).
Proof. exact TwinMapScripts.twin_mapscripts_nested. Qed.
Print Assumptions twin_mapscripts_nested.

Theorem twin_ms_nested_program_at :
  forall (av : list (text * autovar)) (sw : list (text * text)) (ee : bool) (pf : toks -> Parser.res (token * text * text * toks)),
  Independence.format_advs pf ->
  Independence.format_local pf ->
  Independence.format_lt pf ->
  forall (T : toks) (f : nat) (st1 : pstate) (xs : toks) (g : bool) (t1 t2 t3 : toks) (f' : nat) (x' : toks) (p1 : list mapscript)
    (q1 : list tablems) (j1 : impdata) (z : toks) (bsz csz : list nat) (sc : text) (sv : option text) (ts1 : toks) (F : nat)
    (cases : list (text * (list stmt * impdata))) (ts2 : toks) (ss : list stmt) (imp' : impdata) (body ra : list token) 
    (prog1 : program),
  let c := pconsts st1 in
  let name := tlit (cur t2) in
  let sname := name ++ t "_" ++ tlit (cur x') in
  eof_ended T ->
  Independence.tops_run av sw ee pf (5 * Datatypes.length T + 4) TwinProgram.st0 T (S f) st1 xs ->
  ttype (cur xs) = MAPSCRIPTS ->
  scope_modifier true xs = Parser.Ok (g, t1) ->
  expect_peek IDENT t1 = Some t2 ->
  expect_peek LBRACE t2 = Some t3 ->
  TwinMapScripts.ms_run av sw ee pf c name f (adv t3) [] [] imp0 f' x' p1 q1 j1 ->
  curis RBRACE x' = false ->
  curis IDENT x' = true ->
  curis COLON (adv x') = false ->
  curis LBRACE (adv x') = true ->
  TwinIf.nest2 av sw ee pf c sname z bsz csz true [] [] (adv (adv x')) ->
  curis PORYSWITCH z = true ->
  poryswitch_header sw ee z = Parser.Ok (sc, sv, ts1) ->
  5 * Datatypes.length z <= F ->
  parse_pory_cases av sw ee pf c F sname bsz csz (cur ts1) ts1 [] = Parser.Ok (cases, ts2) ->
  pory_select cases sv = Some (ss, imp') ->
  advs ts1 (body ++ ra) ->
  TwinParse.srun av sw ee pf c sname bsz csz (body ++ ra) ss imp' ra ->
  advs ra ts2 ->
  curis RBRACE ra = true \/ curis IDENT ra = true \/ curis INT ra = true ->
  csz = [] \/ TwinParse.LC ra (adv ts2) ->
  parse_program av sw ee pf T = Parser.Ok prog1 ->
  exists (U : list token) (p2 : program),
    T = U ++ z /\
    Datatypes.length (U ++ body ++ adv ts2) < Datatypes.length T /\
    parse_program av sw ee pf (U ++ body ++ adv ts2) = Parser.Ok p2 /\ shape_program prog1 = shape_program p2.
Proof. exact TwinMapScripts.twin_ms_nested_program_at. Qed.
Print Assumptions twin_ms_nested_program_at.

Theorem twin_ms_nested_compile_at :
  forall (hl hd hs : N -> bool) (av : list (text * autovar)) (sw : list (text * text)) (ee : bool) (fc : fontcfg) (font : text) 
    (ml : Z) (optimize : bool) (mpath : option text) (src : text) (f : nat) (st1 : pstate) (xs : toks) (g : bool) (t1 t2 t3 : toks) 
    (f' : nat) (x' : toks) (p1 : list mapscript) (q1 : list tablems) (j1 : impdata) (z : toks) (bsz csz : list nat) 
    (sc : text) (sv : option text) (ts1 : toks) (F : nat) (cases : list (text * (list stmt * impdata))) (ts2 : toks) 
    (ss : list stmt) (imp' : impdata) (body ra : list token) (prog1 : program),
  let pf := parse_format fc font ml ee in
  let T := lex hl hd hs src in
  let c := pconsts st1 in
  let name := tlit (cur t2) in
  let sname := name ++ t "_" ++ tlit (cur x') in
  Independence.tops_run av sw ee pf (5 * Datatypes.length T + 4) TwinProgram.st0 T (S f) st1 xs ->
  ttype (cur xs) = MAPSCRIPTS ->
  scope_modifier true xs = Parser.Ok (g, t1) ->
  expect_peek IDENT t1 = Some t2 ->
  expect_peek LBRACE t2 = Some t3 ->
  TwinMapScripts.ms_run av sw ee pf c name f (adv t3) [] [] imp0 f' x' p1 q1 j1 ->
  curis RBRACE x' = false ->
  curis IDENT x' = true ->
  curis COLON (adv x') = false ->
  curis LBRACE (adv x') = true ->
  TwinIf.nest2 av sw ee pf c sname z bsz csz true [] [] (adv (adv x')) ->
  curis PORYSWITCH z = true ->
  poryswitch_header sw ee z = Parser.Ok (sc, sv, ts1) ->
  5 * Datatypes.length z <= F ->
  parse_pory_cases av sw ee pf c F sname bsz csz (cur ts1) ts1 [] = Parser.Ok (cases, ts2) ->
  pory_select cases sv = Some (ss, imp') ->
  advs ts1 (body ++ ra) ->
  TwinParse.srun av sw ee pf c sname bsz csz (body ++ ra) ss imp' ra ->
  advs ra ts2 ->
  curis RBRACE ra = true \/ curis IDENT ra = true \/ curis INT ra = true ->
  csz = [] \/ TwinParse.LC ra (adv ts2) ->
  parse_program av sw ee pf T = Parser.Ok prog1 ->
  forall (U : list token) (src' : text),
  T = U ++ z ->
  lex hl hd hs src' = U ++ body ++ adv ts2 ->
  Compile.compile hl hd hs av sw ee fc font ml optimize mpath src = Compile.compile hl hd hs av sw ee fc font ml optimize mpath src'.
Proof. exact TwinMapScripts.twin_ms_nested_compile_at. Qed.
Print Assumptions twin_ms_nested_compile_at.

