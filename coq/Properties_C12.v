(* C12 - poryswitch contributes exactly the selected case and nothing else. *)
From Coq Require Import List ZArith Bool String.
From Pory Require Import Lexer Ast Parser C13Proofs.
Import ListNotations.
Open Scope string_scope.
Open Scope list_scope.

(* statement position: the statements and the inline texts/movements recorded with them are those of the last case equal
   to the switch value, else those of '_'; the result does not depend on any other case *)
Theorem poryswitch_statement_selects :
  forall autovars switches env_errors parse_format consts f script bs cs ts sc sv ts1 cases ts2,
    poryswitch_header switches env_errors ts = Ok (sc, sv, ts1) ->
    parse_pory_cases autovars switches env_errors parse_format consts f script bs cs (cur ts1) ts1 [] = Ok (cases, ts2) ->
    parse_pory autovars switches env_errors parse_format consts (S f) script bs cs ts =
      match assoc cases (sval sv) with
      | Some (ss, imp) => Ok (ss, imp, ts2)
      | None => match assoc cases (t "_") with
                | Some (ss, imp) => Ok (ss, imp, ts2)
                | None => if env_errors then err_tok (cur ts) "no poryswitch case found" else Ok ([], imp0, ts2)
                end
      end.
Proof. exact parse_pory_selected. Qed.
Print Assumptions poryswitch_statement_selects.

(* with no matching case and no '_' compilation fails (normal mode), at the poryswitch *)
Theorem poryswitch_no_case_fails :
  forall autovars switches parse_format consts f script bs cs ts sc sv ts1 cases ts2,
    poryswitch_header switches true ts = Ok (sc, sv, ts1) ->
    parse_pory_cases autovars switches true parse_format consts f script bs cs (cur ts1) ts1 [] = Ok (cases, ts2) ->
    assoc cases (sval sv) = None -> assoc cases (t "_") = None ->
    exists e, parse_pory autovars switches true parse_format consts (S f) script bs cs ts = Err e /\ els e = tline (cur ts).
Proof. intros. eapply parse_pory_no_case_rejected; eauto. Qed.
Print Assumptions poryswitch_no_case_fails.
