(* C01, from the source text: for every text, every classification of non-ASCII code points, every command configuration,
   switch set, font configuration and mode, every script body of the parsed program is compiled correctly - the emitted
   instruction list and the structured source perform the same commands and finish the same way - whenever the two checks of
   the rendered text (wf_render) and of the user's labels (labels_okb) pass.  Nothing about the parser's output or the
   emitter's chunk graph is assumed any more. *)
From Coq Require Import List String Ascii ZArith NArith Lia Bool.
From Pory Require Import Lexer Ast Parser Format Emitter Sem2 SemTgt Tr RenderCheck LabelSim C01Final Worklist WorkLabels WorkShape RenderFromSource C01Main ProgWf ProgSrc.
Import ListNotations.
Open Scope list_scope.

Theorem compiled_scripts_correct
  (St : Type) (exec : cmd -> St -> stepres St) (flag_set trainer_beaten : text -> St -> bool)
  (cmp_var cmp_var_value : text -> text -> St -> comparison) (case_matches : text -> text -> St -> bool)
  hl hd hs autovars switches ee fc cli_font cli_maxlen (src : text) (p : program) :
  parse_program autovars switches ee (parse_format fc cli_font cli_maxlen ee) (lex hl hd hs src) = Parser.Ok p ->
  forall body, In body (bodies_of (tops p)) ->
  forall (mp : option text) (tl : list text) (name : text) (glob optimize : bool) (w : wst) (code : list instr),
  emit_graph body = Emitter.Ok w ->
  emit_script mp tl name glob optimize body = Emitter.Ok code ->
  wf_render mp name (finals w) (order_of optimize (finals w)) code = true ->
  labels_okb body (finals w) = true ->
  (forall n s, exists m,
      run sfinal (sstep St exec flag_set trainer_beaten cmp_var cmp_var_value case_matches (fun l => fl_body l body Kstop)) n (enter body Kstop) s =
      run (@tfinal) (tstep St exec flag_set trainer_beaten cmp_var cmp_var_value case_matches code) m (jump code name) s) /\
  (forall m s, exists n,
      res_le (run (@tfinal) (tstep St exec flag_set trainer_beaten cmp_var cmp_var_value case_matches code) m (jump code name) s)
             (run sfinal (sstep St exec flag_set trainer_beaten cmp_var cmp_var_value case_matches (fun l => fl_body l body Kstop)) n (enter body Kstop) s)).
Proof.
  intros HP body HB mp tl name glob optimize w code HW HE HR HL.
  pose proof (accepted_bodies_are_src_ok hl hd hs autovars switches ee fc cli_font cli_maxlen src p HP) as A.
  rewrite Forall_forall in A. destruct (A body HB) as [S1 S2].
  eapply emit_script_correct_src; eassumption.
Qed.

(* The same, with the label premise stated on the source text: the labels the author wrote in the script (at any nesting
   depth) are pairwise distinct.  WorkLabels.v: the worklist conserves the labels (the chunk labels of the final graph are a
   permutation of the labels of the body) and the label search of the source semantics finds every one of them.  The only
   executable premise left is wf_render (the rendered text against the final graph). *)
Theorem compiled_scripts_correct_distinct_labels
  (St : Type) (exec : cmd -> St -> stepres St) (flag_set trainer_beaten : text -> St -> bool)
  (cmp_var cmp_var_value : text -> text -> St -> comparison) (case_matches : text -> text -> St -> bool)
  hl hd hs autovars switches ee fc cli_font cli_maxlen (src : text) (p : program) :
  parse_program autovars switches ee (parse_format fc cli_font cli_maxlen ee) (lex hl hd hs src) = Parser.Ok p ->
  forall body, In body (bodies_of (tops p)) ->
  NoDup (dlabs body) ->
  forall (mp : option text) (tl : list text) (name : text) (glob optimize : bool) (w : wst) (code : list instr),
  emit_graph body = Emitter.Ok w ->
  emit_script mp tl name glob optimize body = Emitter.Ok code ->
  wf_render mp name (finals w) (order_of optimize (finals w)) code = true ->
  (forall n s, exists m,
      run sfinal (sstep St exec flag_set trainer_beaten cmp_var cmp_var_value case_matches (fun l => fl_body l body Kstop)) n (enter body Kstop) s =
      run (@tfinal) (tstep St exec flag_set trainer_beaten cmp_var cmp_var_value case_matches code) m (jump code name) s) /\
  (forall m s, exists n,
      res_le (run (@tfinal) (tstep St exec flag_set trainer_beaten cmp_var cmp_var_value case_matches code) m (jump code name) s)
             (run sfinal (sstep St exec flag_set trainer_beaten cmp_var cmp_var_value case_matches (fun l => fl_body l body Kstop)) n (enter body Kstop) s)).
Proof.
  intros HP body HB ND mp tl name glob optimize w code HW HE HR.
  pose proof (accepted_bodies_are_src_ok hl hd hs autovars switches ee fc cli_font cli_maxlen src p HP) as A.
  rewrite Forall_forall in A. destruct (A body HB) as [S _].
  eapply compiled_scripts_correct; try eassumption. apply labels_ok_from_source; assumption.
Qed.

(* C01 FROM THE SOURCE TEXT WITH NO VALIDATOR OF THE COMPILER'S WORK LEFT.  wf_render and labels_okb are theorems now
   (RenderFromSource.v: worklist shape invariants, both chunk orders, label injectivity).  What remains are conditions on what the
   AUTHOR wrote, all executable on the source / the emitted names: the labels of the script are pairwise distinct; names_okb
   (an AutoVar command is not called end / return / goto, a goto names a label of the script or no label of the emitted
   script, i.e. does not imitate a generated name); and a size bound that no real script approaches (fewer than 10^40
   chunks: the model prints chunk ids with 40 decimal digits). *)
Theorem compiled_scripts_correct_from_source
  (St : Type) (exec : cmd -> St -> stepres St) (flag_set trainer_beaten : text -> St -> bool)
  (cmp_var cmp_var_value : text -> text -> St -> comparison) (case_matches : text -> text -> St -> bool)
  hl hd hs autovars switches ee fc cli_font cli_maxlen (src : text) (p : program) :
  parse_program autovars switches ee (parse_format fc cli_font cli_maxlen ee) (lex hl hd hs src) = Parser.Ok p ->
  forall body, In body (bodies_of (tops p)) ->
  NoDup (dlabs body) ->
  forall (mp : option text) (tl : list text) (name : text) (glob optimize : bool) (w : wst) (code : list instr),
  emit_graph body = Emitter.Ok w ->
  emit_script mp tl name glob optimize body = Emitter.Ok code ->
  names_okb (finals w) code = true ->
  (Z.of_nat (List.length (finals w)) <= 10 ^ 40)%Z ->
  (forall n s, exists m,
      run sfinal (sstep St exec flag_set trainer_beaten cmp_var cmp_var_value case_matches (fun l => fl_body l body Kstop)) n (enter body Kstop) s =
      run (@tfinal) (tstep St exec flag_set trainer_beaten cmp_var cmp_var_value case_matches code) m (jump code name) s) /\
  (forall m s, exists n,
      res_le (run (@tfinal) (tstep St exec flag_set trainer_beaten cmp_var cmp_var_value case_matches code) m (jump code name) s)
             (run sfinal (sstep St exec flag_set trainer_beaten cmp_var cmp_var_value case_matches (fun l => fl_body l body Kstop)) n (enter body Kstop) s)).
Proof.
  intros HP body HB ND mp tl name glob optimize w code HW HE NM SZ.
  pose proof (accepted_bodies_are_src_ok hl hd hs autovars switches ee fc cli_font cli_maxlen src p HP) as A.
  rewrite Forall_forall in A. destruct (A body HB) as [S _].
  destruct (render_check_from_source mp tl name glob optimize body w code HW S HE ND SZ NM) as [WR LO].
  eapply compiled_scripts_correct; eassumption.
Qed.

(* C05 from the source text: the two outputs (-optimize off / on) of every script body of every accepted program behave alike *)
Theorem optimize_equiv_from_source
  (St : Type) (exec : cmd -> St -> stepres St) (flag_set trainer_beaten : text -> St -> bool)
  (cmp_var cmp_var_value : text -> text -> St -> comparison) (case_matches : text -> text -> St -> bool)
  hl hd hs autovars switches ee fc cli_font cli_maxlen (src : text) (p : program) :
  parse_program autovars switches ee (parse_format fc cli_font cli_maxlen ee) (lex hl hd hs src) = Parser.Ok p ->
  forall body, In body (bodies_of (tops p)) ->
  NoDup (dlabs body) ->
  forall (mp : option text) (tl : list text) (name : text) (glob : bool) (w : wst) (code0 code1 : list instr),
  emit_graph body = Emitter.Ok w ->
  emit_script mp tl name glob false body = Emitter.Ok code0 ->
  emit_script mp tl name glob true body = Emitter.Ok code1 ->
  names_okb (finals w) code0 = true -> names_okb (finals w) code1 = true ->
  (Z.of_nat (List.length (finals w)) <= 10 ^ 40)%Z ->
  (forall m s, exists m', res_le (run (@tfinal) (tstep St exec flag_set trainer_beaten cmp_var cmp_var_value case_matches code0) m (jump code0 name) s)
                                 (run (@tfinal) (tstep St exec flag_set trainer_beaten cmp_var cmp_var_value case_matches code1) m' (jump code1 name) s)) /\
  (forall m s, exists m', res_le (run (@tfinal) (tstep St exec flag_set trainer_beaten cmp_var cmp_var_value case_matches code1) m (jump code1 name) s)
                                 (run (@tfinal) (tstep St exec flag_set trainer_beaten cmp_var cmp_var_value case_matches code0) m' (jump code0 name) s)).
Proof.
  intros HP body HB ND mp tl name glob w code0 code1 HW H0 H1 N0 N1 SZ.
  destruct (compiled_scripts_correct_from_source St exec flag_set trainer_beaten cmp_var cmp_var_value case_matches
              hl hd hs autovars switches ee fc cli_font cli_maxlen src p HP body HB ND mp tl name glob false w code0 HW H0 N0 SZ) as [F0 B0].
  destruct (compiled_scripts_correct_from_source St exec flag_set trainer_beaten cmp_var cmp_var_value case_matches
              hl hd hs autovars switches ee fc cli_font cli_maxlen src p HP body HB ND mp tl name glob true w code1 HW H1 N1 SZ) as [F1 B1].
  split; intros m s.
  - destruct (B0 m s) as (n & R). destruct (F1 n s) as (m' & E). exists m'. rewrite <- E. exact R.
  - destruct (B1 m s) as (n & R). destruct (F0 n s) as (m' & E). exists m'. rewrite <- E. exact R.
Qed.
