(* C15 for whole programs: an exported label (::) in the output is always a name the author declared global: a top-level
   statement with global scope, or a label inside a script marked (global).  Nothing the compiler invents is exported.
   Also the shape of text, movement and mart blocks (C09, C14). *)
From Coq Require Import List String Ascii ZArith NArith Lia Bool.
From Pory Require Import Lexer Ast Emitter EmitProps.
Import ListNotations.
Open Scope list_scope.

Definition exported (is : list instr) : list text :=
  flat_map (fun i => match i with ILabel n true => [n] | _ => [] end) is.
Lemma exported_app a b : exported (a ++ b) = exported a ++ exported b.
Proof. unfold exported. apply flat_map_app. Qed.
Lemma exported_marker mp line : exported (marker mp line) = [].
Proof. unfold marker. destruct mp; reflexivity. Qed.
Lemma exported_in is n : In n (exported is) <-> In (n, true) (labels_of is).
Proof.
  induction is as [|i r IH]; [cbn; tauto|]. change (i :: r) with ([i] ++ r). rewrite exported_app, labels_of_app, !in_app_iff, IH.
  assert (H : In n (exported [i]) <-> In (n, true) (labels_of [i])).
  { destruct i; cbn; try tauto. destruct glob; cbn.
    - split; intros [H|[]]; left; congruence.
    - split; [intros []|intros [H|[]]; discriminate]. }
  tauto.
Qed.

(* ---------- shapes without markers ---------- *)
Definition directive (x : textdef) : text := match xtype x with [] => t "string" | ty => ty end.
Lemma emit_text_shape x :
  emit_text None x = ILabel (xname x) (xglob x) :: map (fun line => IData (directive x) line) (split_nl (xvalue x) []).
Proof. reflexivity. Qed.

Lemma emit_movement_shape name glob tk steps :
  emit_movement None name glob tk steps = ILabel name glob :: emit_steps None steps.
Proof. reflexivity. Qed.

Lemma emit_mart_shape name glob tk items itoks :
  emit_mart None name glob tk items itoks =
    ILine (tab ++ t ".align 2") :: ILabel name glob :: emit_items None items itoks ++ [ILine (tab ++ t ".2byte ITEM_NONE")].
Proof. reflexivity. Qed.

(* ---------- exported labels of each top-level emitter ---------- *)
Section E.
Variable mp : option text.
Variable tl : list text.

Lemma exported_steps steps : exported (emit_steps mp steps) = [].
Proof.
  induction steps as [|s r IH]; [reflexivity|]. cbn [emit_steps]. rewrite !exported_app, exported_marker.
  destruct (text_eqb (tlit s) (t "step_end")); cbn; [reflexivity|exact IH].
Qed.
Lemma exported_items items : forall itoks, exported (emit_items mp items itoks) = [].
Proof.
  induction items as [|i r IH]; intros [|tk rt]; try reflexivity. cbn [emit_items].
  destruct (text_eqb i (t "ITEM_NONE")); [reflexivity|]. rewrite !exported_app, exported_marker. cbn. apply IH.
Qed.
Lemma exported_raw lines : forall line, exported (emit_raw_lines mp lines line) = [].
Proof. induction lines as [|l r IH]; intros line; [reflexivity|]. cbn [emit_raw_lines]. rewrite !exported_app, exported_marker. cbn. apply IH. Qed.

Definition glob_name (n : text) (g : bool) : list text := if g then [n] else [].

Lemma exported_data d (ls : list text) : exported (map (fun line => IData d line) ls) = [].
Proof. induction ls as [|l r IH]; [reflexivity|]. cbn. exact IH. Qed.

Lemma exported_text x : exported (emit_text mp x) = glob_name (xname x) (xglob x).
Proof.
  unfold emit_text. rewrite !exported_app, exported_marker, exported_data. cbn.
  unfold glob_name. destruct (xglob x); reflexivity.
Qed.

(* user labels marked (global) in a body *)
Definition global_user_labels (body : list stmt) (G : list chunk) : list text :=
  flat_map (fun c => flat_map (fun p : text * bool => if snd p then [fst p] else []) (user_labels (cstmts c))) G.

Lemma exported_script name glob fs order is :
  render_chunks mp tl name glob fs order = Ok is ->
  forall n, In n (exported is) -> (n = name /\ glob = true) \/ exists c, In c fs /\ In (n, true) (user_labels (cstmts c)).
Proof.
  intros H n Hn. apply exported_in in Hn.
  destruct (render_chunks_label_scopes mp tl name glob fs order is H n true Hn) as [[E1 E2]|[(i & _ & E)|X]].
  - left. auto.
  - discriminate.
  - right. exact X.
Qed.
End E.
