(* Prototype: lexer ∘ parser ∘ emitter. *)
From Coq Require Import List String Ascii ZArith NArith Bool.
From Pory Require Import Lexer Ast Parser Emitter Format.
Import ListNotations.
Local Open Scope Z_scope.

Inductive outcome := OutText (x : text) | OutErr (e : perr) | OutPanic | OutFuel | OutEmitErr.

Section C.
Variable is_letter_hi is_digit_hi is_space_hi : N -> bool.
Variable autovars : list (text * autovar).
Variable switches : list (text * text).
Variable env_errors : bool.
Variable fc : fontcfg.
Variable cli_font : text.
Variable cli_maxlen : Z.

Definition compile (optimize : bool) (mpath : option text) (src : text) : outcome :=
  let ts := lex is_letter_hi is_digit_hi is_space_hi src in
  match parse_program autovars switches env_errors (parse_format fc cli_font cli_maxlen env_errors) ts with
  | Parser.Ok p => match emit_program optimize mpath p with
                   | Emitter.Ok x => OutText x
                   | Emitter.ErrLabel tk _ =>
                       OutErr {| els := tline tk; ele := teline tk; ecs := tsb tk; eus := tsu tk; ece := teb tk; eue := teu tk; emsg := t "duplicate label" |}
                   | _ => OutEmitErr
                   end
  | Parser.Err e => OutErr e
  | Parser.Panic => OutPanic
  | Parser.Fuel => OutFuel
  end.
End C.
