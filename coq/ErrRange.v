(* C18 - "A returned error carries a line range inside the input with start not after end."

   Every theorem is about the model's own functions (Lexer.v, Parser.v, Format.v, Emitter.v, Compile.v) and quantifies over
   all source texts / token streams, all command configurations (autovars), switch sets, font configurations, normal and
   lint mode.  [located_in ts e]: the start position of the error e (line, byte column, character column) is the start
   position of the token at an index i of the stream ts and its end position is the end position of the token at an index
   j >= i.  [stands_in ts tk]: tk has the six position fields of a token of ts (hoisted texts carry a token whose literal
   has been rewritten, its position is untouched).

   MAIN STATEMENTS
     lex_lines_monotone               along lex src the lines never go back: i <= j -> tline (token i) <= teline (token j)
     lex_tokens_ordered               i < j -> teline (token i) <= tline (token j)
     parse_error_located              parse_program .. ts = Err e -> located_in ts e            (every token stream ts)
     parsing_functions_errors_located the same for parse_stmt, bool_expr, command_stmt, parse_script, parse_text,
                                      parse_movement, parse_mart, parse_mapscripts, parse_raw, parse_const and format()
                                      started on any non-empty suffix ts of a stream full = pre ++ ts: located_in full e
     accepted_tokens_stand_in_stream  the tokens an accepted program keeps for later error messages - of texts (also the
                                      hoisted ones), of movements (also hoisted), of label statements at any depth -
                                      stand in the stream
     parse_error_lines_in_range       parse_program .. (lex src) = Err e -> 1 <= els e <= ele e <= 1 + nl src
     compile_error_located            Compile.compile .. src = OutErr e -> located_in (lex src) e   (parser errors, the
                                      parser's two name checks, the emitter's label clash: all located errors there are)
     compile_error_lines_in_range     Compile.compile .. src = OutErr e -> 1 <= els e <= ele e <= 1 + nl src
     accepted_token_lines_in_range    the kept tokens lie on lines 1 .. 1 + nl src, start line <= end line
   The invariant behind them (PART 2) is one lemma per parsing function, all 40 of them, in the form
     F_loc : advs full ts -> (saved tokens stand before the cursor) -> RL full Q (F .. ts ..)
   (RL: an Err is located (Loc), an Ok value satisfies Q), proved by one tactic (rl) in the style of NoPanic.v; the
   format() operator is a section hypothesis there and is discharged for Format.parse_format in PART 3 (parse_format_loc).
   The window functions pad beyond the end with the LAST token of the stream (the lexer's EOF token), so for a non-empty
   stream [cur], [pk n] and [last ts eof0] always return tokens of the stream (pk_cur, last_cur); on the empty stream the
   parser returns Ok (parse_program_nil).

   NOT proved here: nothing is claimed about the byte / character COLUMNS beyond "they are those of the two tokens" (a range
   over several lines has unrelated columns); errors of the emitter other than the label clash carry no position
   (Compile.OutEmitErr) and are outside the statement. *)
From Coq Require Import List String Ascii ZArith NArith Lia Bool.
From Pory Require Import Lexer Ast Parser Consume.
Import ListNotations.
Open Scope list_scope.

(* ====================================================================================================================== *)
(* PART 1: positions in the stream                                                                                        *)
(* ====================================================================================================================== *)

(* the six position fields of a token (errors copy them; hoisted texts keep them while their literal is rewritten) *)
Definition posn (tk : token) : Z * Z * Z * Z * Z * Z := (tline tk, tsb tk, tsu tk, teline tk, teb tk, teu tk).

Lemma posn_set_lit tk l : posn (set_lit tk l) = posn tk.
Proof. reflexivity. Qed.

(* [pk n ts] and [last ts eof0] are the current token of a later state of the stream: the padding beyond the end is the last
   token of the stream itself *)
Lemma pk_cur : forall n ts, exists ts', advs ts ts' /\ cur ts' = pk n ts.
Proof.
  induction n as [|n IH]; intros ts.
  - exists ts. split; [apply advs_refl|]. unfold cur, pk. destruct ts; reflexivity.
  - destruct ts as [|x [|y r]].
    + exists []. split; [apply advs_refl|reflexivity].
    + exists [x]. split; [apply advs_refl|]. unfold cur, pk. cbn. destruct n; reflexivity.
    + destruct (IH (y :: r)) as (ts' & A & E). exists ts'. split; [apply advs_step; exact A|]. rewrite E. reflexivity.
Qed.

Lemma last_cur : forall ts, exists ts', advs ts ts' /\ cur ts' = last ts eof0.
Proof.
  induction ts as [|x r IH].
  - exists []. split; [apply advs_refl|reflexivity].
  - destruct r as [|y r].
    + exists [x]. split; [apply advs_refl|reflexivity].
    + destruct IH as (ts' & A & E). exists ts'. split; [apply advs_step; exact A|]. rewrite E. reflexivity.
Qed.

Section BASE.
Variable full : toks.     (* the whole token stream *)

(* tk has the position of a token of the stream *)
Definition InS (tk : token) : Prop := exists ts0, advs full ts0 /\ posn (cur ts0) = posn tk.
(* ... of a token that is not after the cursor of [ts] *)
Definition Bef (tk : token) (ts : toks) : Prop := exists ts0, advs full ts0 /\ advs ts0 ts /\ posn (cur ts0) = posn tk.
(* ... of a token that is not before the cursor of [ts] *)
Definition Aft (tk : token) (ts : toks) : Prop := exists ts1, advs ts ts1 /\ posn (cur ts1) = posn tk.
(* a stands in the stream, and b stands in the stream at the same place or later *)
Definition Ord (a b : token) : Prop :=
  exists ts0 ts1, advs full ts0 /\ advs ts0 ts1 /\ posn (cur ts0) = posn a /\ posn (cur ts1) = posn b.
(* the error e is located: its start is the start of a token of the stream and its end is the end of the same or a later token *)
Definition Loc (e : perr) : Prop :=
  exists a b, Ord a b /\ els e = tline a /\ ecs e = tsb a /\ eus e = tsu a /\ ele e = teline b /\ ece e = teb b /\ eue e = teu b.

Lemma InS_cur ts : advs full ts -> InS (cur ts).
Proof. intros A. exists ts. split; [exact A|reflexivity]. Qed.
Lemma InS_pk n ts : advs full ts -> InS (pk n ts).
Proof. intros A. destruct (pk_cur n ts) as (ts' & A' & E). exists ts'. split; [eapply advs_trans; eassumption|now rewrite E]. Qed.
Lemma InS_set_lit tk l : InS tk -> InS (set_lit tk l).
Proof. intros (ts0 & A & E). exists ts0. split; [exact A|exact E]. Qed.
Lemma Bef_InS tk ts : Bef tk ts -> InS tk.
Proof. intros (ts0 & A & _ & E). exists ts0. split; assumption. Qed.
Lemma Bef_cur ts0 ts : advs full ts0 -> advs ts0 ts -> Bef (cur ts0) ts.
Proof. intros A B. exists ts0. split; [exact A|]. split; [exact B|reflexivity]. Qed.
Lemma Bef_mono tk ts ts' : Bef tk ts -> advs ts ts' -> Bef tk ts'.
Proof. intros (ts0 & A & B & E) C. exists ts0. split; [exact A|]. split; [eapply advs_trans; eassumption|exact E]. Qed.
Lemma Aft_cur ts : Aft (cur ts) ts.
Proof. exists ts. split; [apply advs_refl|reflexivity]. Qed.
Lemma Aft_pk n ts : Aft (pk n ts) ts.
Proof. destruct (pk_cur n ts) as (ts' & A & E). exists ts'. split; [exact A|now rewrite E]. Qed.
Lemma Aft_last ts : Aft (last ts eof0) ts.
Proof. destruct (last_cur ts) as (ts' & A & E). exists ts'. split; [exact A|now rewrite E]. Qed.
Lemma Ord_intro ts a b : Bef a ts -> Aft b ts -> Ord a b.
Proof.
  intros (ts0 & A0 & A1 & E0) (ts1 & A2 & E1). exists ts0, ts1. split; [exact A0|]. split; [eapply advs_trans; eassumption|]. split; assumption.
Qed.
Lemma Ord_refl a : InS a -> Ord a a.
Proof. intros (ts0 & A & E). exists ts0, ts0. split; [exact A|]. split; [apply advs_refl|]. split; exact E. Qed.

(* what is claimed of a result: an error is located, a value satisfies P *)
Definition RL {A} (P : A -> Prop) (r : res A) : Prop :=
  match r with Ok x => P x | Err e => Loc e | Panic => True | Fuel => True end.

Lemma RL_err_tok {A} (P : A -> Prop) tk m : InS tk -> RL P (err_tok tk m).
Proof. intros H. cbn. exists tk, tk. split; [apply Ord_refl, H|]. cbn. repeat split. Qed.
Lemma RL_err_range {A} (P : A -> Prop) a b m : Ord a b -> RL P (err_range a b m).
Proof. intros H. cbn. exists a, b. split; [exact H|]. cbn. repeat split. Qed.
Lemma RL_weaken {A} (P Q : A -> Prop) r : (forall x, P x -> Q x) -> RL P r -> RL Q r.
Proof. intros W. destruct r; cbn; auto. Qed.

(* inline texts and movements collected while commands are parsed: their tokens stand in the stream *)
Definition GI (imp : impdata) : Prop :=
  Forall (fun it => InS (itTok it)) (idT imp) /\ Forall (fun im => InS (imCmdTok im)) (idM imp).
Lemma GI_0 : GI imp0. Proof. split; constructor. Qed.
Lemma GI_add a b : GI a -> GI b -> GI (impadd a b).
Proof. intros [A1 A2] [B1 B2]. split; cbn; apply Forall_app; split; assumption. Qed.
Lemma GI_T imp c a tk l ty s : GI imp -> InS tk ->
  GI {| idT := idT imp ++ [{| itCid := c; itArg := a; itTok := set_lit tk l; itType := ty; itScript := s |}]; idM := idM imp |}.
Proof.
  intros [A1 A2] H. split; cbn [idT idM]; [|exact A2]. apply Forall_app. split; [exact A1|]. constructor; [|constructor].
  cbn [itTok]. apply InS_set_lit, H.
Qed.
Lemma GI_M imp c a mv s tk : GI imp -> InS tk ->
  GI {| idT := idT imp; idM := idM imp ++ [{| imCid := c; imArg := a; imToks := mv; imScript := s; imCmdTok := tk |}] |}.
Proof.
  intros [A1 A2] H. split; cbn [idT idM]; [exact A1|]. apply Forall_app. split; [exact A2|]. constructor; [exact H|constructor].
Qed.

(* the cases of a poryswitch statement *)
Definition GPC (l : list (text * (list stmt * impdata))) : Prop := Forall (fun c => GI (snd (snd c))) l.
Lemma assoc_GPC l k ss imp : GPC l -> assoc l k = Some (ss, imp) -> GI imp.
Proof.
  induction l as [|[a b] r IH]; intros G H; [discriminate|]. cbn [assoc] in H. inversion G as [|? ? G1 G2]; subst.
  destruct (text_eqb a k); [inversion H; subst; exact G1|exact (IH G2 H)].
Qed.
End BASE.

(* ---------- automation ---------- *)
Ltac dtuple r :=
  lazymatch type of r with
  | (_ * _)%type => let a := fresh "x" in let b := fresh "y" in destruct r as [a b]; dtuple a
  | _ => idtac
  end.


(* ---------- closed forms of the "only advances" lemmas of Consume.v ---------- *)
Section ADVL.
Variable autovars : list (text * autovar).
Variable switches : list (text * text).
Variable parse_format : toks -> res (token * text * text * toks).
Variable consts : list (text * text).
Hypothesis parse_format_advs : forall ts tk v sty ts', parse_format ts = Ok (tk, v, sty, ts') -> forall a, advs a ts -> advs a ts'.
Lemma list_cases_advs ee f k start ts acc r ts' : list_cases switches ee f k start ts acc = Ok (r, ts') -> forall a, advs a ts -> advs a ts'.
Proof. apply (list_advs switches ee f). Qed.
Let AA ee f := adv_all autovars switches parse_format consts parse_format_advs ee f.
Lemma parse_stmt_advs ee f script bs cs ts ss imp ts' :
  parse_stmt autovars switches ee parse_format consts f script bs cs ts = Ok (ss, imp, ts') -> forall a, advs a ts -> advs a ts'.
Proof. apply (AA ee f). Qed.
Lemma parse_switch_block_advs ee f script bs cs start ts acc imp ss imp' ts' :
  parse_switch_block autovars switches ee parse_format consts f script bs cs start ts acc imp = Ok (ss, imp', ts') -> forall a, advs a ts -> advs a ts'.
Proof. apply (AA ee f). Qed.
Lemma parse_cond_advs ee f req script bs cs ts e b imp ts' :
  parse_cond autovars switches ee parse_format consts f req script bs cs ts = Ok (e, b, imp, ts') -> forall a, advs a ts -> advs a ts'.
Proof. apply (AA ee f). Qed.
Lemma parse_if_advs ee f script bs cs ts ss imp ts' :
  parse_if autovars switches ee parse_format consts f script bs cs ts = Ok (ss, imp, ts') -> forall a, advs a ts -> advs a ts'.
Proof. apply (AA ee f). Qed.
Lemma parse_elifs_advs ee f script bs cs ts acc imp l imp' ts' :
  parse_elifs autovars switches ee parse_format consts f script bs cs ts acc imp = Ok (l, imp', ts') -> forall a, advs a ts -> advs a ts'.
Proof. apply (AA ee f). Qed.
Lemma parse_switch_advs ee f script bs cs ts ss imp ts' :
  parse_switch autovars switches ee parse_format consts f script bs cs ts = Ok (ss, imp, ts') -> forall a, advs a ts -> advs a ts'.
Proof. apply (AA ee f). Qed.
Lemma parse_cases_advs ee f script bs cs brace ts acc seen hasdef imp l imp' ts' :
  parse_cases autovars switches ee parse_format consts f script bs cs brace ts acc seen hasdef imp = Ok (l, imp', ts') -> forall a, advs a ts -> advs a ts'.
Proof. apply (AA ee f). Qed.
Lemma parse_pory_advs ee f script bs cs ts ss imp ts' :
  parse_pory autovars switches ee parse_format consts f script bs cs ts = Ok (ss, imp, ts') -> forall a, advs a ts -> advs a ts'.
Proof. apply (AA ee f). Qed.
Lemma parse_pory_cases_advs ee f script bs cs start ts acc l ts' :
  parse_pory_cases autovars switches ee parse_format consts f script bs cs start ts acc = Ok (l, ts') -> forall a, advs a ts -> advs a ts'.
Proof. apply (AA ee f). Qed.
Lemma parse_pory_stmts_advs ee f script bs cs multi ts acc imp ss imp' ts' :
  parse_pory_stmts autovars switches ee parse_format consts f script bs cs multi ts acc imp = Ok (ss, imp', ts') -> forall a, advs a ts -> advs a ts'.
Proof. apply (AA ee f). Qed.
End ADVL.

Ltac use_adv L H := first [ eapply L; [exact H|] | eapply L; [|exact H|] ].
Ltac extra H :=
  first [ use_adv list_cases_advs H | use_adv parse_stmt_advs H | use_adv parse_block_advs H | use_adv parse_switch_block_advs H
        | use_adv parse_cond_advs H | use_adv parse_if_advs H | use_adv parse_elifs_advs H | use_adv parse_switch_advs H
        | use_adv parse_cases_advs H | use_adv parse_pory_advs H | use_adv parse_pory_cases_advs H | use_adv parse_pory_stmts_advs H
        | use_adv scope_modifier_advs H | use_adv parse_script_advs H | use_adv text_value_advs H | use_adv pory_text_cases_advs H
        | use_adv pory_text_advs H | use_adv parse_text_advs H | use_adv parse_movement_advs H | use_adv parse_mart_advs H
        | use_adv parse_raw_advs H | use_adv ms_collect_advs H | use_adv ms_table_advs H | use_adv ms_entries_advs H
        | use_adv parse_mapscripts_advs H | use_adv parse_const_advs H ].

Ltac side :=
  lazymatch goal with
  | |- True => exact I
  | |- advs _ _ => advs_gox ltac:(fun K => extra K)
  | |- Bef _ (cur _) _ => apply Bef_cur; side
  | |- Bef _ ?tk _ => match goal with B : Bef _ tk _ |- _ => apply (Bef_mono _ _ _ _ B); side end
  | |- InS _ (cur _) => apply InS_cur; side
  | |- InS _ (pk _ _) => apply InS_pk; side
  | |- InS _ (set_lit _ _) => apply InS_set_lit; side
  | |- InS _ ?tk => match goal with B : Bef _ tk _ |- _ => exact (Bef_InS _ _ _ B) | B : InS _ tk |- _ => exact B end
  | |- Ord _ ?a ?a => apply Ord_refl; side
  | |- Ord _ _ (cur ?ts1) => apply (Ord_intro _ ts1); [side|apply Aft_cur]
  | |- Ord _ _ (pk _ ?ts1) => apply (Ord_intro _ ts1); [side|apply Aft_pk]
  | |- Ord _ _ (last ?ts1 eof0) => apply (Ord_intro _ ts1); [side|apply Aft_last]
  | |- GI _ imp0 => apply GI_0
  | |- GI _ (impadd _ _) => apply GI_add; side
  | |- GI _ {| idT := idT _ ++ [_]; idM := idM _ |} => apply GI_T; side
  | |- GI _ {| idT := idT _; idM := idM _ ++ [_] |} => apply GI_M; side
  | |- GI _ ?i => first [ assumption
                        | match goal with H : assoc _ _ = Some (_, i), G : GPC _ _ |- _ => exact (assoc_GPC _ _ _ _ _ G H) end ]
  | |- GPC _ [] => constructor
  | |- GPC _ (_ :: _) => constructor; [cbn [fst snd]; side|side]
  | |- GPC _ _ => assumption
  | |- _ /\ _ => split; side
  | |- _ => assumption
  end.

(* the fact about a call: one of the universally quantified statements of the context (induction hypotheses and the lemmas
   posed at the beginning of a proof) *)
Ltac rl_fact := match goal with IH : forall _, _ |- RL _ _ _ => eapply IH end.

Ltac rl_call x :=
  let R := fresh "R" in let E := fresh "E" in let r := fresh "r" in let e := fresh "e" in
  eassert (R : RL _ _ x) by (rl_fact; side);
  destruct x as [r|e| |] eqn:E; cbn [RL] in R;
  [ dtuple r; cbn [fst snd] in R | exact R | exact I | exact I ].

Ltac rl_scrut x :=
  lazymatch x with
  | err_tok _ _ => unfold err_tok
  | err_range _ _ _ => unfold err_range
  | (if ?c then _ else _) => destruct c eqn:?
  | (match ?y with _ => _ end) => rl_scrut y
  | _ => first [ is_var x; destruct x | rl_call x | destruct x eqn:? ]
  end.

Lemma RL_if full {A} (P : A -> Prop) (c : bool) a b :
  (c = true -> RL full P a) -> (c = false -> RL full P b) -> RL full P (if c then a else b).
Proof. destruct c; auto. Qed.

Lemma RL_Err_fields full {A} (P : A -> Prop) a b m : Ord full a b ->
  RL full P (Err {| els := tline a; ele := teline b; ecs := tsb a; eus := tsu a; ece := teb b; eue := teu b; emsg := m |}).
Proof. intros H. cbn. exists a, b. split; [exact H|]. cbn. repeat split. Qed.

Ltac rl_leaf := cbn [RL fst snd].
Ltac rl_step :=
  cbv beta iota zeta;
  lazymatch goal with
  | |- RL _ _ (Ok _) => rl_leaf; side
  | |- RL _ _ Fuel => exact I
  | |- RL _ _ Panic => exact I
  | |- RL _ _ (err_tok _ _) => apply RL_err_tok; side
  | |- RL _ _ (err_range _ _ _) => apply RL_err_range; side
  | |- RL _ _ (Err {| els := _ |}) => apply RL_Err_fields; side
  | |- RL _ _ (if ?c then _ else _) => first [ is_var c; apply RL_if; intros ? | destruct c eqn:? ]
  | |- RL _ _ (match ?x with _ => _ end) => rl_scrut x
  | |- RL _ _ _ => first [ rl_fact; side | eapply RL_weaken; [|rl_fact; side]; cbn [fst snd]; intros; side ]
  end.
Ltac rl := repeat rl_step.

Section A.
Variable full : toks.
Variable autovars : list (text * autovar).
Variable switches : list (text * text).
Variable env_errors : bool.
Variable parse_format : toks -> res (token * text * text * toks).
Hypothesis parse_format_advs : forall ts tk v sty ts', parse_format ts = Ok (tk, v, sty, ts') -> forall a, advs a ts -> advs a ts'.
(* format(): its errors are located, the token it returns (the text token) stands in the stream *)
Hypothesis parse_format_loc : forall ts, advs full ts -> RL full (fun r => InS full (fst (fst (fst r)))) (parse_format ts).
Variable consts : list (text * text).

Notation RL := (RL full).
Notation Bef := (Bef full).
Notation GI := (GI full).
Notation poryswitch_header := (poryswitch_header switches env_errors).
Notation list_value := (list_value switches env_errors).
Notation list_cases := (list_cases switches env_errors).

Lemma poryswitch_header_loc ts : advs full ts -> RL (fun _ => True) (poryswitch_header ts).
Proof. intros A. unfold Parser.poryswitch_header. rl. Qed.

Lemma list_loc : forall f,
  (forall k multi ts acc, advs full ts -> RL (fun _ => True) (list_value f k multi ts acc)) /\
  (forall k start ts acc, advs full ts -> Bef start ts -> RL (fun _ => True) (list_cases f k start ts acc)).
Proof.
  pose proof poryswitch_header_loc as K1.
  induction f as [|f [IH1 IH2]]; [split; intros; exact I|]. split.
  - intros k multi ts acc A. rewrite list_value_unfold. rl.
  - intros k start ts acc A B. rewrite list_cases_unfold. rl.
Qed.

Lemma list_value_loc f k multi ts acc : advs full ts -> RL (fun _ => True) (list_value f k multi ts acc).
Proof. apply (list_loc f). Qed.

Notation moves_operator := (moves_operator switches env_errors).
Notation command_args := (command_args switches env_errors parse_format consts).
Notation command_stmt := (command_stmt switches env_errors parse_format consts).
Notation var_or_autovar := (var_or_autovar autovars switches env_errors parse_format consts).
Notation value_parts := (value_parts consts).
Notation cond_var_operator := (cond_var_operator consts).
Notation leaf_expr := (leaf_expr autovars switches env_errors parse_format consts).
Notation bool_expr := (bool_expr autovars switches env_errors parse_format consts).
Notation right_side := (right_side autovars switches env_errors parse_format consts).
Notation switch_operand := (switch_operand consts).

Lemma moves_operator_loc f ts : advs full ts -> RL (fun _ => True) (moves_operator f ts).
Proof. pose proof list_value_loc as K1. intros A. unfold Parser.moves_operator, movement_value. rl. Qed.

Lemma command_args_loc : forall f script cmdtok cidv ts depth parts args imp,
  advs full ts -> Bef cmdtok ts -> GI imp -> RL (fun r => GI (snd (fst r))) (command_args f script cmdtok cidv ts depth parts args imp).
Proof.
  pose proof moves_operator_loc as K1. pose proof parse_format_loc as K2.
  induction f as [|f IH]; intros script cmdtok cidv ts depth parts args imp A B G; [exact I|].
  cbn [Parser.command_args]. rl.
Qed.

Lemma command_stmt_loc f script ts : advs full ts -> RL (fun r => GI (snd (fst r))) (command_stmt f script ts).
Proof. pose proof command_args_loc as K1. intros A. unfold Parser.command_stmt. rl. Qed.

Lemma var_or_autovar_loc f script ts : advs full ts -> RL (fun r => GI (snd (fst r))) (var_or_autovar f script ts).
Proof. pose proof command_stmt_loc as K1. intros A. unfold Parser.var_or_autovar. rl. Qed.

Lemma value_parts_loc : forall f vtok ts depth parts, advs full ts -> Bef vtok ts -> RL (fun _ => True) (value_parts f vtok ts depth parts).
Proof.
  induction f as [|f IH]; intros vtok ts depth parts A B; [exact I|]. cbn [Parser.value_parts]. rl.
Qed.

Lemma cond_var_operator_loc f ts : advs full ts -> RL (fun _ => True) (cond_var_operator f ts).
Proof. pose proof value_parts_loc as K1. intros A. unfold Parser.cond_var_operator. rl. Qed.

Lemma cond_flag_operator_loc ts nm : advs full ts -> RL (fun _ => True) (cond_flag_operator ts nm).
Proof. intros A. unfold Parser.cond_flag_operator. rl. Qed.

Lemma leaf_expr_loc f script ts : advs full ts -> RL (fun r => GI (snd (fst r))) (leaf_expr f script ts).
Proof.
  pose proof var_or_autovar_loc as K1. pose proof cond_var_operator_loc as K2. pose proof cond_flag_operator_loc as K3.
  intros A. unfold Parser.leaf_expr. rl.
Qed.
End A.

Section A2.
Variable full : toks.
Variable autovars : list (text * autovar).
Variable switches : list (text * text).
Variable env_errors : bool.
Variable parse_format : toks -> res (token * text * text * toks).
Hypothesis parse_format_advs : forall ts tk v sty ts', parse_format ts = Ok (tk, v, sty, ts') -> forall a, advs a ts -> advs a ts'.
Hypothesis parse_format_loc : forall ts, advs full ts -> RL full (fun r => InS full (fst (fst (fst r)))) (parse_format ts).
Variable consts : list (text * text).

Notation RL := (RL full).
Notation Bef := (Bef full).
Notation GI := (GI full).
Notation GPC := (GPC full).
Notation leaf_expr := (leaf_expr autovars switches env_errors parse_format consts).
Notation bool_expr := (bool_expr autovars switches env_errors parse_format consts).
Notation right_side := (right_side autovars switches env_errors parse_format consts).
Notation switch_operand := (switch_operand consts).
Notation parse_stmt := (parse_stmt autovars switches env_errors parse_format consts).
Notation parse_block := (parse_block autovars switches env_errors parse_format consts).
Notation parse_switch_block := (parse_switch_block autovars switches env_errors parse_format consts).
Notation parse_cond := (parse_cond autovars switches env_errors parse_format consts).
Notation parse_if := (parse_if autovars switches env_errors parse_format consts).
Notation parse_elifs := (parse_elifs autovars switches env_errors parse_format consts).
Notation parse_switch := (parse_switch autovars switches env_errors parse_format consts).
Notation parse_cases := (parse_cases autovars switches env_errors parse_format consts).
Notation parse_pory := (parse_pory autovars switches env_errors parse_format consts).
Notation parse_pory_cases := (parse_pory_cases autovars switches env_errors parse_format consts).
Notation parse_pory_stmts := (parse_pory_stmts autovars switches env_errors parse_format consts).

Let leaf_expr_loc' := leaf_expr_loc full autovars switches env_errors parse_format parse_format_advs parse_format_loc consts.

Lemma bexp_loc : forall f,
  (forall single negated script ts, advs full ts -> RL (fun r => GI (snd (fst r))) (bool_expr f single negated script ts)) /\
  (forall left single negated script ts, advs full ts -> RL (fun r => GI (snd (fst r))) (right_side f left single negated script ts)).
Proof.
  pose proof leaf_expr_loc' as K1.
  induction f as [|f [IH1 IH2]]; [split; intros; exact I|]. split.
  - intros single negated script ts A. rewrite bool_expr_unfold. rl.
  - intros left single negated script ts A. rewrite right_side_unfold. rl.
Qed.
Lemma bool_expr_loc f single negated script ts : advs full ts -> RL (fun r => GI (snd (fst r))) (bool_expr f single negated script ts).
Proof. apply (bexp_loc f). Qed.

Lemma switch_operand_loc : forall f orig ts parts, advs full ts -> Bef orig ts -> RL (fun _ => True) (switch_operand f orig ts parts).
Proof. induction f as [|f IH]; intros orig ts parts A B; [exact I|]. cbn [Parser.switch_operand]. rl. Qed.

Definition LOCS (f : nat) : Prop :=
  (forall script bs cs ts, advs full ts -> RL (fun r => GI (snd (fst r))) (parse_stmt f script bs cs ts)) /\
  (forall script bs cs start ts acc imp, advs full ts -> Bef start ts -> GI imp -> RL (fun r => GI (snd (fst r))) (parse_block f script bs cs start ts acc imp)) /\
  (forall script bs cs start ts acc imp, advs full ts -> Bef start ts -> GI imp -> RL (fun r => GI (snd (fst r))) (parse_switch_block f script bs cs start ts acc imp)) /\
  (forall req script bs cs ts, advs full ts -> RL (fun r => GI (snd (fst r))) (parse_cond f req script bs cs ts)) /\
  (forall script bs cs ts, advs full ts -> RL (fun r => GI (snd (fst r))) (parse_if f script bs cs ts)) /\
  (forall script bs cs ts acc imp, advs full ts -> GI imp -> RL (fun r => GI (snd (fst r))) (parse_elifs f script bs cs ts acc imp)) /\
  (forall script bs cs ts, advs full ts -> RL (fun r => GI (snd (fst r))) (parse_switch f script bs cs ts)) /\
  (forall script bs cs brace ts acc seen hasdef imp, advs full ts -> Bef brace ts -> GI imp ->
     RL (fun r => GI (snd (fst r))) (parse_cases f script bs cs brace ts acc seen hasdef imp)) /\
  (forall script bs cs ts, advs full ts -> RL (fun r => GI (snd (fst r))) (parse_pory f script bs cs ts)) /\
  (forall script bs cs start ts acc, advs full ts -> Bef start ts -> GPC acc -> RL (fun r => GPC (fst r)) (parse_pory_cases f script bs cs start ts acc)) /\
  (forall script bs cs multi ts acc imp, advs full ts -> GI imp -> RL (fun r => GI (snd (fst r))) (parse_pory_stmts f script bs cs multi ts acc imp)).

Lemma locs_all : forall f, LOCS f.
Proof.
  pose proof (command_stmt_loc full switches env_errors parse_format parse_format_advs parse_format_loc consts) as K1.
  pose proof (var_or_autovar_loc full autovars switches env_errors parse_format parse_format_advs parse_format_loc consts) as K2.
  pose proof bool_expr_loc as K3. pose proof switch_operand_loc as K4.
  pose proof (poryswitch_header_loc full switches env_errors) as K5.
  induction f as [|f IH]; [unfold LOCS; repeat split; intros; exact I|].
  destruct IH as (Istmt & Iblock & Iswb & Icond & Iif & Ielifs & Iswitch & Icases & Ipory & Ipcases & Ipstmts).
  unfold LOCS. split; [|split; [|split; [|split; [|split; [|split; [|split; [|split; [|split; [|split]]]]]]]]].
  - intros script bs cs ts A. rewrite parse_stmt_unfold. rl.
  - intros script bs cs start ts acc imp A B G. rewrite parse_block_unfold. rl.
  - intros script bs cs start ts acc imp A B G. rewrite parse_switch_block_unfold. rl.
  - intros req script bs cs ts A. rewrite parse_cond_unfold. rl.
  - intros script bs cs ts A. rewrite parse_if_unfold. rl.
  - intros script bs cs ts acc imp A G. rewrite parse_elifs_unfold. rl.
  - intros script bs cs ts A. rewrite parse_switch_unfold. rl.
  - intros script bs cs brace ts acc seen hasdef imp A B G. rewrite parse_cases_unfold. rl.
  - intros script bs cs ts A. rewrite parse_pory_unfold. rl.
  - intros script bs cs start ts acc A B G. rewrite parse_pory_cases_unfold. rl.
  - intros script bs cs multi ts acc imp A G. rewrite parse_pory_stmts_unfold. rl.
Qed.
End A2.

Definition top_ok (full : toks) (tp : top) : Prop := match tp with TMovement _ _ tk _ => InS full tk | _ => True end.

Ltac rl_leaf ::= cbn [RL fst snd xtok top_ok].

Section B.
Variable full : toks.
Variable autovars : list (text * autovar).
Variable switches : list (text * text).
Variable env_errors : bool.
Variable parse_format : toks -> res (token * text * text * toks).
Hypothesis parse_format_advs : forall ts tk v sty ts', parse_format ts = Ok (tk, v, sty, ts') -> forall a, advs a ts -> advs a ts'.
Hypothesis parse_format_loc : forall ts, advs full ts -> RL full (fun r => InS full (fst (fst (fst r)))) (parse_format ts).

Notation RL := (RL full).
Notation Bef := (Bef full).
Notation GI := (GI full).
Notation InS := (InS full).
Notation top_ok := (top_ok full).

Section WC.
Variable consts : list (text * text).
Notation parse_block := (parse_block autovars switches env_errors parse_format consts).
Notation parse_script := (parse_script autovars switches env_errors parse_format consts).
Notation text_value := (text_value parse_format).
Notation pory_text_cases := (pory_text_cases parse_format).
Notation pory_text := (pory_text switches env_errors parse_format).
Notation parse_text := (parse_text switches env_errors parse_format).
Notation parse_movement := (parse_movement switches env_errors).
Notation parse_mart := (parse_mart switches env_errors consts).
Notation ms_table := (ms_table autovars switches env_errors parse_format consts).
Notation ms_entries := (ms_entries autovars switches env_errors parse_format consts).
Notation parse_mapscripts := (parse_mapscripts autovars switches env_errors parse_format consts).

Lemma parse_block_loc f script bs cs start ts acc imp :
  advs full ts -> Bef start ts -> GI imp -> RL (fun r => GI (snd (fst r))) (parse_block f script bs cs start ts acc imp).
Proof. apply (locs_all full autovars switches env_errors parse_format parse_format_advs parse_format_loc consts f). Qed.

Lemma scope_modifier_loc d ts : advs full ts -> RL (fun _ => True) (scope_modifier d ts).
Proof. intros A. unfold scope_modifier. rl. Qed.

Lemma parse_script_loc f ts : advs full ts -> RL (fun r => GI (snd (fst r))) (parse_script f ts).
Proof. pose proof parse_block_loc as K1. pose proof scope_modifier_loc as K2. intros A. unfold Parser.parse_script. rl. Qed.

Lemma text_value_loc ts : advs full ts -> RL (fun _ => True) (text_value ts).
Proof. pose proof parse_format_loc as K1. intros A. unfold Parser.text_value. rl. Qed.

Lemma pory_text_cases_loc : forall f start ts acc, advs full ts -> Bef start ts -> RL (fun _ => True) (pory_text_cases f start ts acc).
Proof.
  pose proof text_value_loc as K1.
  induction f as [|f IH]; intros start ts acc A B; [exact I|]. cbn [Parser.pory_text_cases]. rl.
Qed.

Lemma pory_text_loc f ts : advs full ts -> RL (fun _ => True) (pory_text f ts).
Proof.
  pose proof pory_text_cases_loc as K1. pose proof (poryswitch_header_loc full switches env_errors) as K2.
  intros A. unfold Parser.pory_text. rl.
Qed.

Lemma parse_text_loc f ts : advs full ts -> RL (fun r => InS (xtok (fst r))) (parse_text f ts).
Proof.
  pose proof pory_text_loc as K1. pose proof text_value_loc as K2. pose proof scope_modifier_loc as K3.
  intros A. unfold Parser.parse_text. rl.
Qed.

Lemma parse_movement_loc f ts : advs full ts -> RL (fun r => top_ok (fst r)) (parse_movement f ts).
Proof.
  pose proof (list_value_loc full switches env_errors) as K1. pose proof scope_modifier_loc as K3.
  intros A. unfold Parser.parse_movement, movement_value. rl.
Qed.

Lemma parse_mart_loc f ts : advs full ts -> RL (fun r => top_ok (fst r)) (parse_mart f ts).
Proof.
  pose proof (list_value_loc full switches env_errors) as K1. pose proof scope_modifier_loc as K3.
  intros A. unfold Parser.parse_mart, mart_value. rl.
Qed.

Lemma parse_raw_loc ts : advs full ts -> RL (fun r => top_ok (fst r)) (parse_raw ts).
Proof. intros A. unfold parse_raw. rl. Qed.

Lemma ms_table_loc : forall f mapname tyname ts i acc imp, advs full ts -> GI imp -> RL (fun r => GI (snd (fst r))) (ms_table f mapname tyname ts i acc imp).
Proof.
  pose proof parse_block_loc as K1.
  induction f as [|f IH]; intros mapname tyname ts i acc imp A G; [exact I|]. cbn [Parser.ms_table]. rl.
Qed.

Lemma ms_entries_loc : forall f mapname ts plain tables imp, advs full ts -> GI imp -> RL (fun r => GI (snd (fst r))) (ms_entries f mapname ts plain tables imp).
Proof.
  pose proof parse_block_loc as K1. pose proof ms_table_loc as K2.
  induction f as [|f IH]; intros mapname ts plain tables imp A G; [exact I|]. cbn [Parser.ms_entries]. rl.
Qed.

Lemma parse_mapscripts_loc f ts : advs full ts ->
  RL (fun r => GI (snd (fst r)) /\ match fst (fst r) with TMapScripts _ _ _ _ => True | _ => False end) (parse_mapscripts f ts).
Proof.
  pose proof ms_entries_loc as K1. pose proof scope_modifier_loc as K3.
  intros A. unfold Parser.parse_mapscripts. rl.
Qed.
End WC.

Lemma parse_const_loc f c ts : advs full ts -> RL (fun _ => True) (parse_const f c ts).
Proof. intros A. unfold parse_const. rl. Qed.
End B.

Section P.
Variable full : toks.
Variable autovars : list (text * autovar).
Variable switches : list (text * text).
Variable env_errors : bool.
Variable parse_format : toks -> res (token * text * text * toks).
Hypothesis parse_format_advs : forall ts tk v sty ts', parse_format ts = Ok (tk, v, sty, ts') -> forall a, advs a ts -> advs a ts'.
Hypothesis parse_format_loc : forall ts, advs full ts -> RL full (fun r => InS full (fst (fst (fst r)))) (parse_format ts).

Notation RL := (RL full).
Notation GI := (GI full).
Notation InS := (InS full).
Notation top_ok := (top_ok full).

(* the hoisted texts and movements carry tokens of the stream *)
Definition HS (h : hst) : Prop := Forall (fun x => InS (xtok x)) (htexts h) /\ Forall top_ok (hmovs h).
Definition PST (st : pstate) : Prop := HS (ph st) /\ Forall (fun x => InS (xtok x)) (ptexts st) /\ Forall top_ok (ptops st).

Lemma add_texts_HS : forall its h ps h' ps', Forall (fun it => InS (itTok it)) its -> HS h -> add_texts its h ps = (h', ps') -> HS h'.
Proof.
  induction its as [|it r IH]; intros h ps h' ps' F H E; cbn [add_texts] in E; [inversion E; subst; exact H|].
  inversion F as [|? ? F1 F2]; subst. destruct (find_text (hset h) (tlit (itTok it)) (itType it)); [exact (IH _ _ _ _ F2 H E)|].
  eapply IH; [exact F2| |exact E]. destruct H as [H1 H2]. split; cbn [htexts hmovs]; [|exact H2].
  apply Forall_app. split; [exact H1|]. constructor; [exact F1|constructor].
Qed.
Lemma add_movs_HS : forall ims h ps h' ps', Forall (fun im => InS (imCmdTok im)) ims -> HS h -> add_movs ims h ps = (h', ps') -> HS h'.
Proof.
  induction ims as [|im r IH]; intros h ps h' ps' F H E; cbn [add_movs] in E; [inversion E; subst; exact H|].
  inversion F as [|? ? F1 F2]; subst. destruct (assoc (hmset h) (mov_key (imToks im))); [exact (IH _ _ _ _ F2 H E)|].
  eapply IH; [exact F2| |exact E]. destruct H as [H1 H2]. split; cbn [htexts hmovs]; [exact H1|].
  apply Forall_app. split; [exact H2|]. constructor; [exact F1|constructor].
Qed.
Lemma add_implicit_HS imp h h' ps : GI imp -> HS h -> add_implicit imp h = (h', ps) -> HS h'.
Proof.
  intros [G1 G2] H E. unfold add_implicit in E. destruct (add_texts (idT imp) h []) as [h1 ps1] eqn:E1.
  eapply add_movs_HS; [exact G2| |exact E]. eapply add_texts_HS; [exact G1|exact H|exact E1].
Qed.

Notation parse_tops := (parse_tops autovars switches env_errors parse_format).

Lemma parse_tops_loc : forall f st ts, advs full ts -> PST st -> RL PST (parse_tops f st ts).
Proof.
  pose proof (parse_script_loc full autovars switches env_errors parse_format parse_format_advs parse_format_loc) as K1.
  pose proof (parse_raw_loc full) as K2.
  pose proof (parse_text_loc full switches env_errors parse_format parse_format_advs parse_format_loc) as K3.
  pose proof (parse_movement_loc full switches env_errors) as K4.
  pose proof (parse_mart_loc full switches env_errors) as K5.
  pose proof (parse_mapscripts_loc full autovars switches env_errors parse_format parse_format_advs parse_format_loc) as K6.
  pose proof (parse_const_loc full) as K7.
  induction f as [|f IH]; intros st ts A S; [exact I|]. cbn [Parser.parse_tops]. rl.
  all: destruct S as (S1 & S2 & S3); apply IH; [side|]; (split; [|split]); cbn [ph ptexts ptops]; try assumption.
  all: try (apply Forall_app; split; [assumption|]; constructor; [|constructor]; try assumption; try exact I).
  - eapply add_implicit_HS; eassumption.
  - destruct R as [R _]. eapply add_implicit_HS; eassumption.
  - destruct R as [_ R]. destruct x0; try contradiction. exact I.
Qed.

Lemma dup_text_in : forall l seen x, dup_text seen l = Some x -> In x l.
Proof.
  induction l as [|y r IH]; intros seen x H; [discriminate|]. cbn [dup_text] in H.
  destruct (existsb (text_eqb (xname y)) seen); [inversion H; subst; now left|right; exact (IH _ _ H)].
Qed.
Lemma assoc_in_tok : forall (seen : list (text * token)) n t0, assoc seen n = Some t0 -> Forall (fun p => InS (snd p)) seen -> InS t0.
Proof.
  induction seen as [|[a b] r IH]; intros n t0 H F; [discriminate|]. cbn [assoc] in H. inversion F as [|? ? F1 F2]; subst.
  destruct (text_eqb a n); [inversion H; subst; exact F1|exact (IH _ _ H F2)].
Qed.
Lemma dup_mov_in : forall l seen tk, Forall (fun p => InS (snd p)) seen -> Forall top_ok l -> dup_mov seen l = Some tk -> InS tk.
Proof.
  induction l as [|tp r IH]; intros seen tk FS F H; [discriminate|]. inversion F as [|? ? F1 F2]; subst.
  destruct tp; cbn [dup_mov] in H; try exact (IH _ _ FS F2 H).
  destruct (assoc seen name) as [tkx|] eqn:E.
  - inversion H; subst. exact (assoc_in_tok _ _ _ E FS).
  - eapply IH; [|exact F2|exact H]. constructor; [exact F1|exact FS].
Qed.

(* the whole parser: an error is located; the tokens kept in an accepted program stand in the stream *)
Definition PROG (p : program) : Prop := Forall top_ok (tops p) /\ Forall (fun x => InS (xtok x)) (texts p).

Theorem parse_program_loc : RL PROG (parse_program autovars switches env_errors parse_format full).
Proof.
  unfold parse_program.
  assert (S0 : PST {| pconsts := []; ph := hst0; ptops := []; ptexts := [] |}).
  { split; [split; constructor|]. split; constructor. }
  pose proof (parse_tops_loc (5 * List.length full + 4) _ full (advs_refl _) S0) as R.
  destruct (parse_tops _ _ full) as [st|e| |]; cbn [RL] in R |- *; try exact I.
  2:{ exact R. }
  assert (S : PST st) by exact R.
  destruct S as ((S1 & S4) & S2 & S3).
  assert (TX : Forall (fun x => InS (xtok x)) (htexts (ph st) ++ ptexts st)) by (apply Forall_app; split; assumption).
  assert (TP : Forall top_ok (ptops st ++ hmovs (ph st))) by (apply Forall_app; split; assumption).
  destruct (dup_text [] (checked_texts env_errors st)) as [x|] eqn:D1.
  { apply RL_err_tok. apply dup_text_in in D1. unfold checked_texts in D1. rewrite Forall_forall in TX. apply TX.
    destruct env_errors; [exact D1|apply in_or_app; right; exact D1]. }
  destruct (dup_mov [] (checked_tops env_errors st)) as [tk|] eqn:D2.
  { apply RL_err_tok. eapply dup_mov_in; [constructor| |exact D2]. unfold checked_tops. destruct env_errors; [exact TP|exact S3]. }
  cbn [RL]. split; cbn [tops texts]; assumption.
Qed.
End P.

(* ====================================================================================================================== *)
(* PART 3: the real format() operator                                                                                     *)
(* ====================================================================================================================== *)
From Pory Require Format ProgSrc.

Definition FP (full : toks) (p : Format.fparams) : Prop := match Format.pFontTok p with Some tk => InS full tk | None => True end.
Lemma FP_tok full p ttok : FP full p -> InS full ttok -> InS full (match Format.pFontTok p with Some tk => tk | None => ttok end).
Proof. unfold FP. destruct (Format.pFontTok p); auto. Qed.

Ltac side ::=
  lazymatch goal with
  | |- True => exact I
  | |- advs _ _ => advs_gox ltac:(fun K => first [extra K | eapply ProgSrc.named_loop_advs; [exact K|]])
  | |- Bef _ (cur _) _ => apply Bef_cur; side
  | |- Bef _ ?tk _ => match goal with B : Bef _ tk _ |- _ => apply (Bef_mono _ _ _ _ B); side end
  | |- InS _ (cur _) => apply InS_cur; side
  | |- InS _ (pk _ _) => apply InS_pk; side
  | |- InS _ (set_lit _ _) => apply InS_set_lit; side
  | |- InS _ (match Format.pFontTok _ with _ => _ end) => apply FP_tok; side
  | |- InS _ ?tk => match goal with B : Bef _ tk _ |- _ => exact (Bef_InS _ _ _ B) | B : InS _ tk |- _ => exact B end
  | |- Ord _ ?a ?a => apply Ord_refl; side
  | |- Ord _ _ (cur ?ts1) => apply (Ord_intro _ ts1); [side|apply Aft_cur]
  | |- Ord _ _ (pk _ ?ts1) => apply (Ord_intro _ ts1); [side|apply Aft_pk]
  | |- FP _ ?p => first [ is_var p; assumption | unfold FP; cbn [Format.pFontTok]; side ]
  | |- _ /\ _ => split; side
  | |- _ => assumption
  end.

Section F.
Variable full : toks.
Variable fc : Format.fontcfg.
Variable cli_font : text.
Variable cli_maxlen : Z.
Variable env_errors : bool.

Lemma named_loop_loc : forall f ts p had, advs full ts -> FP full p ->
  RL full (fun r => FP full (Datatypes.fst (Datatypes.fst r))) (Format.named_loop f ts p had).
Proof.
  induction f as [|f IH]; intros ts p had A G; [exact I|]. cbn [Format.named_loop]. rl.
Qed.

Lemma parse_format_loc ts : advs full ts ->
  RL full (fun r => InS full (Datatypes.fst (Datatypes.fst (Datatypes.fst r)))) (Format.parse_format fc cli_font cli_maxlen env_errors ts).
Proof.
  pose proof named_loop_loc as K1. intros A. unfold Format.parse_format. rl.
Qed.
End F.

(* ====================================================================================================================== *)
(* PART 4: the lines of the tokens grow along the stream                                                                  *)
(* ====================================================================================================================== *)
Section MONO.
Local Open Scope Z_scope.
Variable is_letter_hi is_digit_hi is_space_hi : N -> bool.

Definition ge (lo : Z) (l : lx) : Prop := lo <= line l.

Lemma ge_read_char lo l : ge lo l -> ge lo (read_char l).
Proof. unfold ge, read_char. destruct ((ch l =? 10)%N && _); cbn [line]; lia. Qed.
Lemma ge_skip_ws lo f : forall l, ge lo l -> ge lo (skip_ws f l).
Proof. induction f as [|f IH]; intros l H; cbn [skip_ws]; [exact H|]. destruct (is_ws (ch l) && _); [apply IH, ge_read_char, H|exact H]. Qed.
Lemma ge_skip_line lo f : forall l, ge lo l -> ge lo (skip_line f l).
Proof. induction f as [|f IH]; intros l H; cbn [skip_line]; [exact H|]. destruct (negb _ && negb _); [apply IH|]; apply ge_read_char, H. Qed.
Lemma ge_skip_comments lo f : forall l, ge lo l -> ge lo (skip_comments f l).
Proof.
  induction f as [|f IH]; intros l H; cbn [skip_comments]; [exact H|]. destruct (at_comment l); [|exact H].
  apply IH, ge_skip_ws, ge_skip_line, H.
Qed.
Lemma ge_read_while lo f p : forall l acc, ge lo l -> ge lo (snd (read_while f p l acc)).
Proof.
  induction f as [|f IH]; intros l acc H; cbn [read_while snd]; [exact H|]. destruct (chs l) as [|c r] eqn:E; [exact H|].
  destruct (p c); [apply IH, ge_read_char, H|exact H].
Qed.
Lemma ge_read_ident lo l : ge lo l -> ge lo (snd (read_ident is_letter_hi is_digit_hi l)).
Proof.
  intros H. unfold read_ident. destruct (chs l) as [|c r] eqn:E; [exact H|].
  destruct (is_letter is_letter_hi c); [|exact H].
  pose proof (ge_read_while lo (fuel_of l) (fun x => is_letter is_letter_hi x || is_digit is_digit_hi x) (read_char l) [] (ge_read_char _ _ H)) as K.
  destruct (read_while _ _ _ _) as [r0 l']. exact K.
Qed.
Lemma ge_skip_nl lo f : forall l b, ge lo l -> ge lo (fst (skip_nl f l b)).
Proof.
  induction f as [|f IH]; intros l b H; cbn [skip_nl fst]; [exact H|]. destruct (_ && _); [apply IH, ge_read_char, H|exact H].
Qed.
Lemma ge_read_str_part lo f : forall l acc, ge lo l -> ge lo (snd (read_str_part f l acc)).
Proof.
  induction f as [|f IH]; intros l acc H; cbn [read_str_part]; [exact H|].
  destruct ((ch l =? 34)%N || (ch l =? 0)%N); [exact H|].
  pose proof (ge_skip_nl lo (fuel_of l) l false H) as K. destruct (skip_nl (fuel_of l) l false) as [l1 sk]. cbn [fst] in K.
  destruct sk.
  - pose proof (ge_skip_ws lo (fuel_of l1) l1 K) as K2.
    destruct ((ch (skip_ws (fuel_of l1) l1) =? 34)%N || _); [exact K2|]. apply IH, ge_read_char, K2.
  - apply IH, ge_read_char, H.
Qed.

Definition el (e : Z * Z * Z) : Z := fst (fst e).

Lemma rs_mono f : forall l acc e,
  let '(lit, e', l') := read_string' f l acc e in
  line l <= line l' /\ (el e <= line l -> el e' <= line l') /\ (forall lo, lo <= el e -> lo <= line l -> lo <= el e').
Proof.
  induction f as [|f IH]; intros l acc e; cbn [read_string']; [split; [lia|split; auto]|].
  destruct ((ch l =? 34)%N && _); [|split; [lia|split; auto]].
  pose proof (ge_read_str_part (line l) (fuel_of (read_char l)) (read_char l) (match acc with [] => acc | _ => acc ++ [10%N] end)
                (ge_read_char _ _ (Z.le_refl _))) as K.
  destruct (read_str_part _ _ _) as [acc1 l2]. cbn [snd] in K.
  pose proof (ge_read_char _ _ K) as K3.
  pose proof (ge_skip_comments (line (read_char l2)) (fuel_of (skip_ws (fuel_of (read_char l2)) (read_char l2))) _
                (ge_skip_ws _ (fuel_of (read_char l2)) _ (Z.le_refl _))) as K5.
  specialize (IH (skip_comments (fuel_of (skip_ws (fuel_of (read_char l2)) (read_char l2))) (skip_ws (fuel_of (read_char l2)) (read_char l2)))
                 acc1 (line (read_char l2), pcn (read_char l2), pun (read_char l2))).
  destruct (read_string' f _ acc1 _) as [[lit e'] l']. destruct IH as (I1 & I2 & I3). unfold ge in *. cbn [el fst] in *.
  split; [lia|]. split.
  - intros _. apply I2. exact K5.
  - intros lo H1 H2. apply I3; lia.
Qed.

Lemma read_string_token_mono l : (ch l =? 34)%N && negb (match chs l with [] => true | _ => false end) = true ->
  line l = tline (fst (read_string_token l)) /\ tline (fst (read_string_token l)) <= teline (fst (read_string_token l)) /\
  teline (fst (read_string_token l)) <= line (snd (read_string_token l)).
Proof.
  intros Q. unfold read_string_token, fuel_of. cbn [read_string']. rewrite Q.
  pose proof (ge_read_str_part (line l) (fuel_of (read_char l)) (read_char l) [] (ge_read_char _ _ (Z.le_refl _))) as K.
  destruct (read_str_part _ _ _) as [acc1 l2]. cbn [snd] in K.
  pose proof (ge_read_char _ _ K) as K3.
  pose proof (ge_skip_comments (line (read_char l2)) (fuel_of (skip_ws (fuel_of (read_char l2)) (read_char l2))) _
                (ge_skip_ws _ (fuel_of (read_char l2)) _ (Z.le_refl _))) as K5.
  pose proof (rs_mono (List.length (chs l)) (skip_comments (fuel_of (skip_ws (fuel_of (read_char l2)) (read_char l2))) (skip_ws (fuel_of (read_char l2)) (read_char l2)))
                 acc1 (line (read_char l2), pcn (read_char l2), pun (read_char l2))) as R.
  destruct (read_string' _ _ acc1 _) as [[lit [[el0 eb] eu]] l']. destruct R as (I1 & I2 & I3). unfold ge in *. cbn [el fst snd tline teline] in *.
  split; [reflexivity|]. split; [apply I3; lia|apply I2; exact K5].
Qed.

(* lo <= the lines of the tokens, each token starts not after it ends, each token ends not after the next one starts, <= hi *)
Fixpoint chain (lo : Z) (ts : list token) (hi : Z) : Prop :=
  match ts with [] => lo <= hi | tk :: r => lo <= tline tk /\ tline tk <= teline tk /\ chain (teline tk) r hi end.
Lemma chain_app : forall a lo mid b hi, chain lo a mid -> chain mid b hi -> chain lo (a ++ b) hi.
Proof.
  induction a as [|x r IH]; intros lo mid b hi H1 H2; cbn [app chain] in *.
  - destruct b as [|y b]; cbn [chain] in *; [lia|]. destruct H2 as (A & B & C). split; [lia|]. split; assumption.
  - destruct H1 as (A & B & C). split; [exact A|]. split; [exact B|]. eapply IH; eassumption.
Qed.
Lemma chain_weaken : forall ts lo hi hi', chain lo ts hi -> hi <= hi' -> chain lo ts hi'.
Proof.
  induction ts as [|x r IH]; intros lo hi hi' H L; cbn [chain] in *; [lia|]. destruct H as (A & B & C). split; [exact A|]. split; [exact B|]. eapply IH; eassumption.
Qed.
Lemma chain_lo : forall ts lo hi j b, chain lo ts hi -> nth_error ts j = Some b -> lo <= tline b /\ tline b <= teline b.
Proof.
  induction ts as [|x r IH]; intros lo hi j b H E; [destruct j; discriminate|]. destruct H as (A & B & C).
  destruct j as [|j]; cbn [nth_error] in E.
  - inversion E; subst. split; assumption.
  - destruct (IH _ _ _ _ C E). split; lia.
Qed.
Lemma chain_nth : forall ts lo hi i j a b, chain lo ts hi -> nth_error ts i = Some a -> nth_error ts j = Some b -> (i <= j)%nat -> tline a <= teline b.
Proof.
  induction ts as [|x r IH]; intros lo hi i j a b H Ea Eb L; [destruct i; discriminate|]. destruct H as (A & B & C).
  destruct i as [|i]; cbn [nth_error] in Ea.
  - inversion Ea; subst. destruct j as [|j]; cbn [nth_error] in Eb; [inversion Eb; subst; exact B|].
    destruct (chain_lo _ _ _ _ _ C Eb). lia.
  - destruct j as [|j]; [lia|]. cbn [nth_error] in Eb. eapply IH; [exact C|exact Ea|exact Eb|lia].
Qed.

Lemma chain_nth_lt : forall ts lo hi i j a b, chain lo ts hi -> nth_error ts i = Some a -> nth_error ts j = Some b -> (i < j)%nat -> teline a <= tline b.
Proof.
  induction ts as [|x r IH]; intros lo hi i j a b H Ea Eb L; [destruct i; discriminate|]. destruct H as (A & B & C).
  destruct j as [|j]; [lia|]. cbn [nth_error] in Eb. destruct i as [|i]; cbn [nth_error] in Ea.
  - inversion Ea; subst. destruct (chain_lo _ _ _ _ _ C Eb). lia.
  - eapply IH; [exact C|exact Ea|exact Eb|lia].
Qed.

Definition CH (lo : Z) (r : list token * lx) : Prop := chain lo (fst r) (line (snd r)).

Lemma next_token_chain l0 :
  chain (line l0) (fst (fst (next_token_aux is_letter_hi is_digit_hi is_space_hi l0)))
        (line (snd (fst (next_token_aux is_letter_hi is_digit_hi is_space_hi l0)))).
Proof.
  unfold next_token_aux.
  set (l1 := skip_ws (fuel_of l0) l0). set (l := skip_comments (fuel_of l1) l1).
  assert (H : ge (line l0) l) by (apply ge_skip_comments, ge_skip_ws; unfold ge; lia).
  generalize dependent (line l0). intros lo H. clearbody l. clear l1 l0. cbn zeta. cbn [fst snd].
  match goal with |- chain lo (fst ?r) (line (snd ?r)) => change (CH lo r) end.
  unfold ge in H.
  assert (RC : line l <= line (read_char l)) by (apply (ge_read_char (line l) l); unfold ge; lia).
  assert (ONE : forall ty, CH lo ([single ty l], read_char l)).
  { intros ty. unfold CH. cbn [fst snd chain single tline teline]. lia. }
  assert (TWO : forall ty, CH lo (let '(tk, l') := double ty l in ([tk], l'))).
  { intros ty. unfold double, CH. cbn [fst snd chain tline teline].
    pose proof (ge_read_char (line (read_char l)) (read_char l) (Z.le_refl _)) as K. unfold ge in K. lia. }
  destruct (match chs l with [] => true | _ => false end || (ch l =? 0)%N) eqn:EOFQ.
  { unfold CH. cbn [fst snd chain tline teline]. lia. }
  apply orb_false_iff in EOFQ. destruct EOFQ as [NE _].
  repeat match goal with
  | |- context [if (ch l =? ?k)%N then _ else _] => destruct (ch l =? k)%N eqn:?; [first [apply ONE | destruct (peek l =? _)%N; first [apply TWO | apply ONE] | idtac ] | ]
  end.
  all: try (apply ONE).
  - (* string *)
    match goal with Q : (ch l =? 34)%N = true |- _ =>
      assert (Q2 : (ch l =? 34)%N && negb (match chs l with [] => true | _ => false end) = true) by (rewrite Q, NE; reflexivity) end.
    destruct (read_string_token_mono l Q2) as (R1 & R2 & R3). destruct (read_string_token l) as [tk l']. cbn [fst snd] in *.
    unfold CH. cbn [fst snd chain]. lia.
  - (* raw string *)
    pose proof (ge_read_while (line l) (fuel_of (read_char l)) (fun x => negb (x =? 96)%N && negb (x =? 0)%N) (read_char l) [] RC) as K.
    destruct (read_while _ _ _ _) as [body l3]. cbn [snd] in K.
    pose proof (ge_read_char (line l3) l3 (Z.le_refl _)) as K2. unfold ge in *. unfold CH. cbn [fst snd chain tline teline]. lia.
  - (* 0 / 0x *)
    destruct (peek l =? 120)%N.
    + pose proof (ge_read_while (line l) (fuel_of (read_char (read_char l))) is_hex (read_char (read_char l)) [] (ge_read_char _ _ RC)) as K.
      destruct (read_while _ _ _ _) as [h l3]. cbn [snd] in K. unfold ge in *. unfold CH. cbn [fst snd chain tline teline]. lia.
    + pose proof (ge_read_while (line l) (fuel_of l) (is_digit is_digit_hi) l [] (Z.le_refl _)) as K.
      destruct (read_while _ _ _ _) as [h l3]. cbn [snd] in K. unfold ge in *. unfold CH. cbn [fst snd chain tline teline]. lia.
  - (* '-' *)
    destruct (is_letter is_letter_hi (ch l)).
    + pose proof (ge_read_ident (line l) l (Z.le_refl _)) as K. destruct (read_ident is_letter_hi is_digit_hi l) as [id l3]. cbn [snd] in K.
      destruct ((ch l3 =? 34)%N && negb (match chs l3 with [] => true | _ => false end)) eqn:Q.
      * destruct (read_string_token_mono l3 Q) as (R1 & R2 & R3). destruct (read_string_token l3) as [tk l']. cbn [fst snd] in *.
        unfold ge in *. unfold CH. cbn [fst snd chain tline teline]. lia.
      * unfold ge in *. unfold CH. cbn [fst snd chain tline teline]. lia.
    + destruct (is_digit is_digit_hi (ch l) || true && is_digit is_digit_hi (peek l)).
      * pose proof (ge_read_while (line l) (fuel_of (read_char l)) (is_digit is_digit_hi) (read_char l) [] RC) as K.
        destruct (read_while _ _ _ _) as [h l3]. cbn [snd] in K. unfold ge in *. unfold CH. cbn [fst snd chain tline teline]. lia.
      * unfold CH. cbn [fst snd chain tline teline]. lia.
  - (* other *)
    destruct (is_letter is_letter_hi (ch l)).
    + pose proof (ge_read_ident (line l) l (Z.le_refl _)) as K. destruct (read_ident is_letter_hi is_digit_hi l) as [id l3]. cbn [snd] in K.
      destruct ((ch l3 =? 34)%N && negb (match chs l3 with [] => true | _ => false end)) eqn:Q.
      * destruct (read_string_token_mono l3 Q) as (R1 & R2 & R3). destruct (read_string_token l3) as [tk l']. cbn [fst snd] in *.
        unfold ge in *. unfold CH. cbn [fst snd chain tline teline]. lia.
      * unfold ge in *. unfold CH. cbn [fst snd chain tline teline]. lia.
    + destruct (is_digit is_digit_hi (ch l) || false && is_digit is_digit_hi (peek l)).
      * pose proof (ge_read_while (line l) (fuel_of l) (is_digit is_digit_hi) l [] (Z.le_refl _)) as K.
        destruct (read_while _ _ _ _) as [h l3]. cbn [snd] in K. unfold ge in *. unfold CH. cbn [fst snd chain tline teline]. lia.
      * unfold CH. cbn [fst snd chain tline teline]. lia.
Qed.

Lemma lex_all_chain f : forall l, exists hi, chain (line l) (lex_all is_letter_hi is_digit_hi is_space_hi f l) hi.
Proof.
  induction f as [|f IH]; intros l; cbn [lex_all]; [exists (line l); cbn; lia|].
  pose proof (next_token_chain l) as K. destruct (next_token_aux is_letter_hi is_digit_hi is_space_hi l) as [[ts l'] e]. cbn [fst snd] in K.
  destruct e; [exists (line l'); exact K|]. destruct (IH l') as (hi & C). exists hi. eapply chain_app; eassumption.
Qed.

(* THE LEXER THEOREM: along the token stream of any source the lines never go back - a token does not start after it ends,
   and no token starts before an earlier token ends *)
Theorem lex_lines_monotone (s : text) i j a b :
  nth_error (lex is_letter_hi is_digit_hi is_space_hi s) i = Some a ->
  nth_error (lex is_letter_hi is_digit_hi is_space_hi s) j = Some b -> (i <= j)%nat -> tline a <= teline b.
Proof.
  intros Ea Eb L. unfold lex in *. destruct (lex_all_chain (S (S (List.length s))) (init s)) as (hi & C).
  eapply chain_nth; eassumption.
Qed.
(* ... and a later token never starts before an earlier token has ended *)
Theorem lex_tokens_ordered (s : text) i j a b :
  nth_error (lex is_letter_hi is_digit_hi is_space_hi s) i = Some a ->
  nth_error (lex is_letter_hi is_digit_hi is_space_hi s) j = Some b -> (i < j)%nat -> teline a <= tline b.
Proof.
  intros Ea Eb L. unfold lex in *. destruct (lex_all_chain (S (S (List.length s))) (init s)) as (hi & C).
  eapply chain_nth_lt; eassumption.
Qed.
End MONO.


(* ====================================================================================================================== *)
(* PART 5: indices, and the theorems on source texts                                                                      *)
(* ====================================================================================================================== *)

(* the error e is located in the stream ts: its start position is that of the token at an index i, its end position that of
   the token at an index j >= i *)
Definition located_in (ts : toks) (e : perr) : Prop :=
  exists i j a b, nth_error ts i = Some a /\ nth_error ts j = Some b /\ i <= j /\
    els e = tline a /\ ecs e = tsb a /\ eus e = tsu a /\ ele e = teline b /\ ece e = teb b /\ eue e = teu b.
(* the token tk has the position of a token of the stream (same line and column fields; its literal may have been rewritten) *)
Definition stands_in (ts : toks) (tk : token) : Prop := exists i a, nth_error ts i = Some a /\ posn a = posn tk.

Lemma advs_skipn a b : advs a b -> a <> [] -> exists n, n < List.length a /\ b = skipn n a.
Proof.
  induction 1 as [ts|ts ts' H IH]; intros N.
  - exists 0. split; [destruct ts; [congruence|cbn; lia]|reflexivity].
  - destruct ts as [|x [|y r]]; [congruence| |].
    + exact (IH N).
    + destruct (IH ltac:(discriminate)) as (n & L & E). exists (S n). split; [cbn in *; lia|exact E].
Qed.
Lemma cur_skipn : forall n (l : toks), n < List.length l -> nth_error l n = Some (cur (skipn n l)).
Proof.
  induction n as [|n IH]; intros l L; destruct l as [|x r]; cbn in L; try lia; [reflexivity|]. cbn [skipn nth_error]. apply IH. lia.
Qed.
Lemma skipn_add : forall n m (l : toks), skipn m (skipn n l) = skipn (n + m) l.
Proof. induction n as [|n IH]; intros m l; [reflexivity|]. destruct l as [|x r]; [now rewrite !skipn_nil|]. cbn. apply IH. Qed.

Lemma InS_stands ts tk : ts <> [] -> InS ts tk -> stands_in ts tk.
Proof.
  intros N (ts0 & A & E). destruct (advs_skipn _ _ A N) as (n & L & ->). exists n, (cur (skipn n ts)). split; [apply cur_skipn, L|exact E].
Qed.

Lemma Loc_located ts e : ts <> [] -> Loc ts e -> located_in ts e.
Proof.
  intros N (a & b & (ts0 & ts1 & A0 & A1 & E0 & E1) & H1 & H2 & H3 & H4 & H5 & H6).
  destruct (advs_skipn _ _ A0 N) as (n & L & ->).
  assert (N0 : skipn n ts <> []). { intros Z. apply (f_equal (@List.length _)) in Z. rewrite skipn_length in Z. cbn in Z. lia. }
  destruct (advs_skipn _ _ A1 N0) as (m & L1 & ->). rewrite skipn_add in *. rewrite skipn_length in L1.
  exists n, (n + m), (cur (skipn n ts)), (cur (skipn (n + m) ts)).
  split; [apply cur_skipn, L|]. split; [apply cur_skipn; lia|]. split; [lia|].
  unfold posn in E0, E1. inversion E0. inversion E1. repeat split; congruence.
Qed.

Lemma RL_Err ts {A} (P : A -> Prop) r e : RL ts P r -> r = Err e -> Loc ts e.
Proof. intros H ->. exact H. Qed.

From Pory Require LexInv LabelSim NameClash Scopes Compile Emitter ProgWf.

(* a suffix of the stream that still holds a token is a state reached by advancing, and conversely *)
Lemma suffix_advs : forall pre ts, ts <> [] -> advs (pre ++ ts) ts.
Proof.
  induction pre as [|x pre IH]; intros ts N; [apply advs_refl|]. apply advs_step.
  cbn [app adv]. destruct (pre ++ ts) eqn:E; [apply app_eq_nil in E; destruct E; contradiction|]. rewrite <- E. apply IH, N.
Qed.

(* ---------- the label statements of a body: NameClash.dlts and Scopes.deep_labels list the same statements ---------- *)
Lemma dlts_deep : forall ss, NameClash.dlts ss = map (fun x : Scopes.lab => (Datatypes.fst (Datatypes.fst x), Datatypes.snd x)) (Scopes.deep_labels ss).
Proof.
  apply (LabelSim.stmts_ind2
           (fun s => NameClash.dlt1 s = map (fun x : Scopes.lab => (Datatypes.fst (Datatypes.fst x), Datatypes.snd x)) (Scopes.deep1 s))
           (fun ss => NameClash.dlts ss = map (fun x : Scopes.lab => (Datatypes.fst (Datatypes.fst x), Datatypes.snd x)) (Scopes.deep_labels ss))).
  - reflexivity.
  - intros s r Hs Hr. cbn [NameClash.dlts Scopes.deep_labels]. now rewrite map_app, Hs, Hr.
  - reflexivity.
  - reflexivity.
  - intros conds els FC FE. rewrite NameClash.dlt1_if, Scopes.deep1_if, map_app. f_equal.
    + unfold Scopes.deep_conds. rewrite NameClash.concat_map_map. f_equal. induction FC as [|cb r H _ IH]; [reflexivity|]. cbn [map]. now rewrite H, IH.
    + destruct els as [b|]; [exact FE|reflexivity].
  - intros tg c b Hb. now rewrite NameClash.dlt1_while, Scopes.deep1_while.
  - intros tg b c Hb. now rewrite NameClash.dlt1_dowhile, Scopes.deep1_dowhile.
  - reflexivity.
  - reflexivity.
  - intros tg o ol cases FC. rewrite NameClash.dlt1_switch, Scopes.deep1_switch. unfold Scopes.deep_cases. rewrite NameClash.concat_map_map. f_equal.
    induction FC as [|c r H _ IH]; [reflexivity|]. cbn [map]. now rewrite H, IH.
Qed.

Section MAIN.
Variable autovars : list (text * autovar).
Variable switches : list (text * text).
Variable ee : bool.
Variable fc : Format.fontcfg.
Variable cli_font : text.
Variable cli_maxlen : Z.
Notation PF := (Format.parse_format fc cli_font cli_maxlen ee).
Notation PARSE ts := (parse_program autovars switches ee PF ts).

Let pf_advs := ProgSrc.parse_format_advs fc cli_font cli_maxlen ee.
Let pf_loc full := parse_format_loc full fc cli_font cli_maxlen ee.

Lemma parse_program_nil : PARSE [] = Ok {| tops := []; texts := [] |}.
Proof. destruct ee; reflexivity. Qed.

(* THEOREM 1: whatever the token stream, an error of the parser is located in it *)
Theorem parse_error_located ts e : PARSE ts = Err e -> located_in ts e.
Proof.
  intros H. destruct ts as [|x r]; [rewrite parse_program_nil in H; discriminate|].
  apply Loc_located; [discriminate|]. eapply RL_Err; [|exact H].
  apply parse_program_loc; [exact pf_advs|exact (pf_loc _)].
Qed.

(* THEOREM 2: the tokens kept in an accepted program (reported later by name checks) stand in the stream *)
Theorem accepted_tokens_stand_in_stream ts p : PARSE ts = Ok p ->
  (forall x, In x (texts p) -> stands_in ts (xtok x)) /\
  (forall n g tk steps, In (TMovement n g tk steps) (tops p) -> stands_in ts tk) /\
  (forall body n tk, In body (ProgWf.bodies_of (tops p)) -> In (n, tk) (NameClash.dlts body) -> stands_in ts tk).
Proof.
  intros H. destruct ts as [|x0 r0].
  { rewrite parse_program_nil in H. inversion H; subst. cbn. split; [intros ? []|]. split; [intros ? ? ? ? []|intros ? ? ? []]. }
  set (ts := x0 :: r0) in *. assert (N : ts <> []) by discriminate.
  pose proof (parse_program_loc ts autovars switches ee PF pf_advs (pf_loc _)) as R. rewrite H in R. destruct R as [R1 R2].
  split; [|split].
  - intros x Hx. rewrite Forall_forall in R2. apply InS_stands; [exact N|exact (R2 x Hx)].
  - intros n g tk steps Hin. rewrite Forall_forall in R1. apply InS_stands; [exact N|exact (R1 _ Hin)].
  - intros body n tk Hb Hl.
    destruct (Scopes.program_scopes_as_written autovars switches ee PF pf_advs ts p H) as [S _].
    unfold ProgWf.bodies_of in Hb. apply in_flat_map in Hb. destruct Hb as (tp & Htp & Hb).
    rewrite Forall_forall in S. specialize (S tp Htp).
    assert (LW : Scopes.labels_written ts body).
    { destruct tp; cbn [ProgWf.bodies_of_top] in Hb; try contradiction.
      - destruct Hb as [<-|[]]. exact (proj2 S).
      - destruct S as [_ S]. rewrite Forall_forall in S. apply S. exact Hb. }
    rewrite dlts_deep in Hl. apply in_map_iff in Hl. destruct Hl as ([[n' g] tk'] & E & Hin). cbn in E. inversion E; subst.
    destruct (LW _ _ _ Hin) as (ts' & A & _ & -> & _). apply InS_stands; [exact N|]. apply InS_cur, A.
Qed.

(* THEOREM 3: the same for the parsing functions started anywhere inside a stream: [full = pre ++ ts] with ts holding at least
   one token; the error is located in the WHOLE stream (statements that open before ts - a block's brace - are reported
   from their own token, so the located error may start before ts) *)
Theorem parsing_functions_errors_located full pre ts : full = pre ++ ts -> ts <> [] ->
  (forall consts f script bs cs e, parse_stmt autovars switches ee PF consts f script bs cs ts = Err e -> located_in full e) /\
  (forall consts f single negated script e, bool_expr autovars switches ee PF consts f single negated script ts = Err e -> located_in full e) /\
  (forall consts f script e, command_stmt switches ee PF consts f script ts = Err e -> located_in full e) /\
  (forall consts f e, parse_script autovars switches ee PF consts f ts = Err e -> located_in full e) /\
  (forall f e, parse_text switches ee PF f ts = Err e -> located_in full e) /\
  (forall f e, parse_movement switches ee f ts = Err e -> located_in full e) /\
  (forall consts f e, parse_mart switches ee consts f ts = Err e -> located_in full e) /\
  (forall consts f e, parse_mapscripts autovars switches ee PF consts f ts = Err e -> located_in full e) /\
  (forall e, parse_raw ts = Err e -> located_in full e) /\
  (forall f consts e, parse_const f consts ts = Err e -> located_in full e) /\
  (forall e, PF ts = Err e -> located_in full e).
Proof.
  intros -> N. pose proof (suffix_advs pre ts N) as A.
  assert (NF : pre ++ ts <> []) by (intros Z; apply app_eq_nil in Z; destruct Z; contradiction).
  set (full := pre ++ ts) in *.
  assert (W : forall {A} (P : A -> Prop) r e, RL full P r -> r = Err e -> located_in full e).
  { intros T P r e R E. apply Loc_located; [exact NF|]. eapply RL_Err; eassumption. }
  split; [|split; [|split; [|split; [|split; [|split; [|split; [|split; [|split; [|split]]]]]]]]].
  - intros consts f script bs cs e. apply W with (P := fun r => GI full (snd (Datatypes.fst r))).
    apply (locs_all full autovars switches ee PF pf_advs (pf_loc _) consts f). exact A.
  - intros consts f single negated script e. eapply W. eapply bool_expr_loc; [exact pf_advs|exact (pf_loc _)|exact A].
  - intros consts f script e. eapply W. eapply command_stmt_loc; [exact pf_advs|exact (pf_loc _)|exact A].
  - intros consts f e. eapply W. eapply parse_script_loc; [exact pf_advs|exact (pf_loc _)|exact A].
  - intros f e. eapply W. eapply parse_text_loc; [exact pf_advs|exact (pf_loc _)|exact A].
  - intros f e. eapply W. eapply parse_movement_loc; exact A.
  - intros consts f e. eapply W. eapply parse_mart_loc; exact A.
  - intros consts f e. eapply W. eapply parse_mapscripts_loc; [exact pf_advs|exact (pf_loc _)|exact A].
  - intros e. eapply W. eapply parse_raw_loc; exact A.
  - intros f consts e. eapply W. eapply parse_const_loc; exact A.
  - intros e. eapply W. apply pf_loc. exact A.
Qed.

(* ---------- source texts ---------- *)
Variable hl hd hs : N -> bool.
Notation LEX src := (lex hl hd hs src).
Local Open Scope Z_scope.

Lemma lex_nonempty src : LEX src <> [].
Proof. exact (proj1 (ProgSrc.lex_eof hl hd hs src)). Qed.

(* an error located in the stream of a source text has its lines inside the text, start not after end *)
Lemma located_lines_in_range src e : located_in (LEX src) e -> 1 <= els e /\ els e <= ele e /\ ele e <= 1 + LexInv.nl src.
Proof.
  intros (i & j & a & b & Ea & Eb & L & H1 & _ & _ & H4 & _).
  pose proof (LexInv.lex_lines_in_range hl hd hs src) as F. rewrite Forall_forall in F.
  pose proof (F a (nth_error_In _ _ Ea)) as [[A1 _] _]. pose proof (F b (nth_error_In _ _ Eb)) as [_ [_ B2]].
  pose proof (lex_lines_monotone hl hd hs src i j a b Ea Eb L) as M. lia.
Qed.
Lemma stands_lines_in_range src tk : stands_in (LEX src) tk -> 1 <= tline tk /\ tline tk <= teline tk /\ teline tk <= 1 + LexInv.nl src.
Proof.
  intros (i & a & Ea & E). unfold posn in E. injection E as E1 E2 E3 E4 E5 E6.
  pose proof (LexInv.lex_lines_in_range hl hd hs src) as F. rewrite Forall_forall in F.
  pose proof (F a (nth_error_In _ _ Ea)) as [[A1 _] [_ A2]].
  pose proof (lex_lines_monotone hl hd hs src i i a a Ea Ea (Nat.le_refl _)) as M. lia.
Qed.

(* THEOREM 4 (C18, the parser): every error the parser returns for a source text carries a line range inside the text,
   start not after end - in normal and in lint mode, for every command configuration, switch set and font configuration *)
Theorem parse_error_lines_in_range src e :
  PARSE (LEX src) = Err e -> 1 <= els e /\ els e <= ele e /\ ele e <= 1 + LexInv.nl src.
Proof. intros H. apply located_lines_in_range, parse_error_located, H. Qed.

(* THEOREM 5 (C18, the whole compiler): every located error [OutErr e] of Compile.compile - from the parser, from the parser's
   name checks, or the emitter's label clash - is located in the token stream of the source, and its line range lies inside
   the text with start not after end *)
Theorem compile_error_located optimize mpath src e :
  Compile.compile hl hd hs autovars switches ee fc cli_font cli_maxlen optimize mpath src = Compile.OutErr e ->
  located_in (LEX src) e.
Proof.
  intros H. pose proof H as H0. rewrite NameClash.compile_eq in H.
  destruct (PARSE (LEX src)) as [p|e0| |] eqn:HP; try discriminate.
  - destruct (NameClash.compile_label_error_located hl hd hs autovars switches ee fc cli_font cli_maxlen optimize mpath src p e HP H0)
      as (s & w & lab & tk & Hs & _ & Hl & _ & F1 & F2 & F3 & F4 & F5 & F6).
    destruct (accepted_tokens_stand_in_stream _ _ HP) as (_ & _ & T).
    assert (Hb : In (Datatypes.snd s) (ProgWf.bodies_of (tops p))).
    { rewrite <- NameClash.scripts_bodies. apply in_map_iff. exists s. split; [reflexivity|exact Hs]. }
    destruct (T _ _ _ Hb Hl) as (i & a & Ea & E). unfold posn in E. injection E as E1 E2 E3 E4 E5 E6.
    exists i, i, a, a. split; [exact Ea|]. split; [exact Ea|]. split; [apply Nat.le_refl|]. repeat split; congruence.
  - inversion H; subst. apply parse_error_located. exact HP.
Qed.

(* the tokens an accepted program keeps for later messages (texts, movements, label statements) lie inside the text too *)
Theorem accepted_token_lines_in_range src p : PARSE (LEX src) = Ok p ->
  (forall x, In x (texts p) -> 1 <= tline (xtok x) /\ tline (xtok x) <= teline (xtok x) /\ teline (xtok x) <= 1 + LexInv.nl src) /\
  (forall n g tk steps, In (TMovement n g tk steps) (tops p) -> 1 <= tline tk /\ tline tk <= teline tk /\ teline tk <= 1 + LexInv.nl src) /\
  (forall body n tk, In body (ProgWf.bodies_of (tops p)) -> In (n, tk) (NameClash.dlts body) ->
     1 <= tline tk /\ tline tk <= teline tk /\ teline tk <= 1 + LexInv.nl src).
Proof.
  intros H. destruct (accepted_tokens_stand_in_stream _ _ H) as (T1 & T2 & T3). split; [|split].
  - intros x Hx. apply stands_lines_in_range, T1, Hx.
  - intros n g tk steps Hin. eapply stands_lines_in_range, T2, Hin.
  - intros body n tk Hb Hl. eapply stands_lines_in_range, T3; eassumption.
Qed.

Theorem compile_error_lines_in_range optimize mpath src e :
  Compile.compile hl hd hs autovars switches ee fc cli_font cli_maxlen optimize mpath src = Compile.OutErr e ->
  1 <= els e /\ els e <= ele e /\ ele e <= 1 + LexInv.nl src.
Proof. intros H. eapply located_lines_in_range, compile_error_located, H. Qed.
End MAIN.


(* ====================================================================================================================== *)
(* EXAMPLES: the hypotheses are satisfiable - concrete sources run through the model's lexer, parser and emitter          *)
(* ====================================================================================================================== *)
Module Examples.
Open Scope string_scope.
Local Open Scope Z_scope.
Definition nohi : N -> bool := fun _ => false.
Definition fc0 : Format.fontcfg := {| Format.fcDefault := []; Format.fcFonts := [] |}.
Definition lex0 (s : string) : toks := lex nohi nohi nohi (t s).
Definition parse0 (ee : bool) (s : string) := parse_program [] [] ee (Format.parse_format fc0 [] 0 ee) (lex0 s).
Definition compile0 (ee : bool) (s : string) := Compile.compile nohi nohi nohi [] [] ee fc0 [] 0 false None (t s).
Definition rng {A} (r : res A) := match r with Err e => Some (els e, ele e, ecs e, ece e) | _ => None end.

(* an error whose range spans two lines: from the 'do' on line 2 to the token after it on line 3 (text of 4 lines) *)
Definition src1 := "script S {
  do
  lock
}".
Example ex_two_line_range : rng (parse0 true src1) = Some (2, 3, 2, 6) /\ rng (parse0 false src1) = Some (2, 3, 2, 6) /\ 1 + LexInv.nl (t src1) = 4.
Proof. repeat split; vm_compute; reflexivity. Qed.
(* the same error from the statement parser started in the middle of the stream (THEOREM 3: full = pre ++ ts) *)
Example ex_suffix :
  lex0 src1 = (firstn 3 (lex0 src1) ++ skipn 3 (lex0 src1))%list /\ skipn 3 (lex0 src1) <> [] /\
  rng (parse_stmt [] [] true (Format.parse_format fc0 [] 0 true) [] 50 (t "S") [] [] (skipn 3 (lex0 src1))) = Some (2, 3, 2, 6).
Proof. split; [symmetry; apply firstn_skipn|]. split; [vm_compute; discriminate|vm_compute; reflexivity]. Qed.
(* a block left open: reported on its opening brace, far before the end of input where it is detected *)
Example ex_open_block : rng (parse0 true "script S {
  lock") = Some (1, 1, 9, 10).
Proof. vm_compute; reflexivity. Qed.
(* the window is padded with the EOF token of the stream: the range ends at that token *)
Example ex_eof_padding : rng (parse0 true "script") = Some (1, 1, 0, 6).
Proof. vm_compute; reflexivity. Qed.
(* the parser's name check: the duplicate text is reported on its own 'text' token *)
Example ex_duplicate_text : rng (parse0 true "text A { ""x"" }
text A { ""y"" }") = Some (2, 2, 0, 4).
Proof. vm_compute; reflexivity. Qed.
(* the emitter's label clash is reported on the label statement (line 3 of 5) *)
Example ex_label_clash :
  match compile0 true "script S {
  if (flag(A)) { lock }
  S_2:
  release
}" with Compile.OutErr e => Some (els e, ele e, ecs e, ece e) | _ => None end = Some (3, 3, 2, 5).
Proof. vm_compute; reflexivity. Qed.
(* format() with an unknown font: normal mode reports the font token, lint mode does not fail *)
Example ex_unknown_font :
  rng (parse0 true "script S {
  msgbox(format(""hi"", ""nofont""))
}") = Some (2, 2, 22, 30) /\
  rng (parse0 false "script S {
  msgbox(format(""hi"", ""nofont""))
}") = None.
Proof. split; vm_compute; reflexivity. Qed.
End Examples.
