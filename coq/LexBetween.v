(* C19: layout inserted directly after a token (at a point the lexer reaches between two tokens) does not change the
   sequence of token types and literals. *)
From Coq Require Import List String Ascii ZArith NArith Lia Bool.
From Pory Require Import Lexer LexLayout.
Import ListNotations.
Open Scope list_scope.

(* ---------- the skipping function on character lists: three equations ---------- *)
Lemma skipped_nil : skipped [] = [].
Proof. reflexivity. Qed.
Lemma skipped_ws c s : is_ws c = true -> skipped (c :: s) = skipped s.
Proof. intros W. unfold skipped. cbn [dropws]. rewrite W. reflexivity. Qed.
Lemma dropcom_S n s : dropcom (S n) s = if atc s then dropcom n (dropws (dropline s)) else s.
Proof. reflexivity. Qed.
Lemma skipped_stop c s : is_ws c = false -> atc (c :: s) = false -> skipped (c :: s) = c :: s.
Proof. intros W A. unfold skipped. cbn [dropws]. rewrite W. rewrite dropcom_S, A. reflexivity. Qed.
Lemma skipped_com c s : is_ws c = false -> atc (c :: s) = true -> skipped (c :: s) = skipped (dropline (c :: s)).
Proof.
  intros W A. unfold skipped at 1. cbn [dropws]. rewrite W. rewrite dropcom_S, A. unfold skipped. apply dropcom_enough.
  - pose proof (dropws_len (dropline (c :: s))). pose proof (dropline_len (c :: s) ltac:(discriminate)). lia.
  - lia.
Qed.
Lemma atc_ws c s : is_ws c = true -> atc (c :: s) = false.
Proof. unfold is_ws, atc. intros H. destruct (c =? 35)%N eqn:A; [apply N.eqb_eq in A; subst; discriminate|]. destruct (c =? 47)%N eqn:B; [apply N.eqb_eq in B; subst; discriminate|reflexivity]. Qed.

Lemma skipped_len s : (List.length (skipped s) <= List.length s)%nat.
Proof. apply suf_len, suf_skipped. Qed.

Lemma skipped_fix_inv s : skipped s = s -> s = [] \/ (is_ws (hd 0%N s) = false /\ atc s = false).
Proof.
  destruct s as [|c r]; [left; reflexivity|]. intros H. right. cbn [hd]. destruct (is_ws c) eqn:W.
  - rewrite (skipped_ws c r W) in H. pose proof (skipped_len r). rewrite H in H0. cbn in H0. lia.
  - split; [reflexivity|]. destruct (atc (c :: r)) eqn:A; [|reflexivity]. rewrite (skipped_com c r W A) in H.
    pose proof (skipped_len (dropline (c :: r))). pose proof (dropline_len (c :: r) ltac:(discriminate)). rewrite H in H0. lia.
Qed.

Lemma skipped_idem : forall n s, (List.length s <= n)%nat -> skipped (skipped s) = skipped s.
Proof.
  induction n as [|n IH]; intros s L.
  - destruct s; [reflexivity|cbn in L; lia].
  - destruct s as [|c r]; [reflexivity|]. cbn in L. destruct (is_ws c) eqn:W.
    + rewrite (skipped_ws c r W). apply IH. lia.
    + destruct (atc (c :: r)) eqn:A.
      * rewrite (skipped_com c r W A). apply IH. pose proof (dropline_len (c :: r) ltac:(discriminate)). cbn [List.length] in H. lia.
      * rewrite (skipped_stop c r W A). apply skipped_stop; assumption.
Qed.

(* dropline over an append: the comment ends inside the first part, or runs into the second *)
Fixpoint dl_in (x : list N) : option (list N) :=
  match x with [] => None | c :: r => if negb (c =? 10)%N && negb (c =? 0)%N then dl_in r else Some r end.
Lemma dropline_app x y : dropline (x ++ y) = match dl_in x with Some x' => x' ++ y | None => dropline y end.
Proof. induction x as [|c r IH]; cbn; [reflexivity|]. destruct (negb (c =? 10)%N && negb (c =? 0)%N); [exact IH|reflexivity]. Qed.
Lemma dl_in_some x x' : dl_in x = Some x' ->
  exists body t, x = body ++ t :: x' /\ Forall (fun c => c <> 10%N /\ c <> 0%N) body /\ (t = 10%N \/ t = 0%N).
Proof.
  revert x'. induction x as [|c r IH]; intros x' H; cbn in H; [discriminate|].
  destruct (negb (c =? 10)%N && negb (c =? 0)%N) eqn:T.
  - destruct (IH _ H) as (body & t & -> & F & HT). exists (c :: body), t. split; [reflexivity|]. split; [|exact HT].
    constructor; [|exact F]. apply andb_prop in T. destruct T as [T1 T2]. apply negb_true_iff in T1, T2. apply N.eqb_neq in T1, T2. auto.
  - inversion H; subst. exists [], c. split; [reflexivity|]. split; [constructor|].
    apply andb_false_iff in T. destruct T as [T|T]; apply negb_false_iff in T; apply N.eqb_eq in T; auto.
Qed.
Lemma dl_in_len x x' : dl_in x = Some x' -> (List.length x' < List.length x)%nat.
Proof. intros H. destruct (dl_in_some _ _ H) as (body & t & -> & _). rewrite app_length. cbn. lia. Qed.

(* if skipping consumes exactly q (and something follows), q is a gap *)
Lemma exact_gap r : r <> [] -> forall n q, (List.length q <= n)%nat -> skipped (q ++ r) = r -> gap q.
Proof.
  intros NR. induction n as [|n IH]; intros q L H.
  - destruct q; [constructor|cbn in L; lia].
  - destruct q as [|c q1]; [constructor|]. cbn [List.length] in L. cbn [app] in H. destruct (is_ws c) eqn:W.
    + rewrite (skipped_ws c _ W) in H. apply gap_ws; [exact W|]. apply IH; [lia|exact H].
    + destruct (atc (c :: q1 ++ r)) eqn:A.
      2:{ rewrite (skipped_stop c _ W A) in H. exfalso. assert (E : List.length (c :: q1 ++ r) = List.length r) by (rewrite H; reflexivity). cbn in E. rewrite app_length in E. lia. }
      rewrite (skipped_com c _ W A) in H.
      assert (CT : negb (c =? 10)%N && negb (c =? 0)%N = true).
      { unfold atc in A. destruct (c =? 35)%N eqn:C1; [apply N.eqb_eq in C1; subst; reflexivity|]. destruct (c =? 47)%N eqn:C2; [apply N.eqb_eq in C2; subst; reflexivity|discriminate A]. }
      cbn [dropline] in H. rewrite CT in H. rewrite dropline_app in H.
      destruct (dl_in q1) as [q2|] eqn:D.
      2:{ exfalso. pose proof (skipped_len (dropline r)). pose proof (dropline_len r NR). rewrite H in H0. lia. }
      destruct (dl_in_some _ _ D) as (body & t & -> & FB & HT).
      assert (G2 : gap q2). { apply IH; [rewrite app_length in L; cbn in L; lia|exact H]. }
      unfold atc in A. destruct (c =? 35)%N eqn:C1.
      * apply N.eqb_eq in C1. subst c. apply gap_hash; assumption.
      * destruct (c =? 47)%N eqn:C2; [|discriminate A]. apply N.eqb_eq in C2. subst c. cbn [orb andb] in A.
        destruct body as [|d body'].
        -- cbn [app] in A. apply N.eqb_eq in A. subst t. destruct HT; discriminate.
        -- cbn [app] in A. apply N.eqb_eq in A. subst d. inversion FB; subst. apply gap_slash; assumption.
Qed.

Section BETWEEN.
Variable r g g0 : list N.
Variable b : N.
Hypothesis Hg : g = b :: g0.
Hypothesis Hb : is_ws b = true.
Hypothesis HG : gap g.
Hypothesis Hr : r <> [].

Lemma app_suffix_split (q q' x : list N) : q ++ r = x ++ q' ++ r -> q = x ++ q'.
Proof. intros H. rewrite app_assoc in H. apply app_inv_tail in H. exact H. Qed.

(* what skipping does when the gap g is inserted in front of r *)
Lemma skipped_between q q' : skipped (q ++ r) = q' ++ r ->
  (q' = [] -> skipped (q ++ g ++ r) = r) /\ (q' <> [] -> skipped (q ++ g ++ r) = q' ++ g ++ r).
Proof.
  intros H. destruct (suf_skipped (q ++ r)) as [x X]. rewrite H in X. apply app_suffix_split in X. subst q.
  assert (GX : gap x).
  { apply (exact_gap (q' ++ r)) with (n := List.length x); [destruct q'; [exact Hr|discriminate]|lia|]. rewrite <- app_assoc in H. exact H. }
  rewrite <- !app_assoc. rewrite (gap_skipped x GX).
  assert (FX : skipped (q' ++ r) = q' ++ r).
  { rewrite <- H. apply (skipped_idem (List.length ((x ++ q') ++ r))). lia. }
  split.
  - intros ->. cbn [app] in *. rewrite (gap_skipped g HG). exact FX.
  - intros NQ. destruct q' as [|c q1]; [congruence|]. cbn [app] in *.
    destruct (skipped_fix_inv _ FX) as [E|[W A]]; [discriminate|]. cbn [hd] in W. apply skipped_stop; [exact W|].
    unfold atc in *. destruct q1 as [|d q2]; [|exact A]. cbn [app] in *. rewrite Hg. cbn [app].
    destruct (c =? 35)%N; [discriminate A|]. cbn [orb] in *. destruct (c =? 47)%N; [|reflexivity]. cbn [andb].
    apply N.eqb_neq. intros ->. discriminate Hb.
Qed.
End BETWEEN.

(* ---------- enough fuel: the fuelled readers do not depend on their fuel once it exceeds the remaining length ---------- *)
Lemma read_while_enough p : forall f f' l acc, (len l < f)%nat -> (len l < f')%nat -> read_while f p l acc = read_while f' p l acc.
Proof.
  induction f as [|f IH]; intros f' l acc L L'; [lia|]. destruct f' as [|f']; [lia|]. cbn [read_while].
  destruct (chs l) as [|c r] eqn:E; [reflexivity|]. destruct (p c); [|reflexivity].
  apply IH; rewrite len_read_char; unfold len in *; rewrite E in *; cbn in *; lia.
Qed.
Lemma skip_nl_enough : forall f f' l sk, (len l < f)%nat -> (len l < f')%nat -> skip_nl f l sk = skip_nl f' l sk.
Proof.
  induction f as [|f IH]; intros f' l sk L L'; [lia|]. destruct f' as [|f']; [lia|]. cbn [skip_nl].
  destruct (((ch l =? 10) || (ch l =? 13))%N && negb (match chs l with [] => true | _ => false end)) eqn:Q; [|reflexivity].
  assert (NE : chs l <> []) by (intros E; rewrite E in Q; rewrite andb_false_r in Q; discriminate).
  pose proof (len_pos l NE). apply IH; rewrite len_read_char; lia.
Qed.
Lemma read_str_part_enough : forall f f' l acc, (len l < f)%nat -> (len l < f')%nat -> read_str_part f l acc = read_str_part f' l acc.
Proof.
  induction f as [|f IH]; intros f' l acc L L'; [lia|]. destruct f' as [|f']; [lia|]. cbn [read_str_part].
  destruct ((ch l =? 34) || (ch l =? 0))%N eqn:Q; [reflexivity|].
  assert (NE : chs l <> []). { intros E. unfold ch in Q. rewrite E in Q. rewrite orb_true_r in Q. discriminate. }
  pose proof (len_pos l NE) as LP.
  pose proof (len_skip_nl (fuel_of l) l false) as H1. destruct (skip_nl (fuel_of l) l false) as [l1 sk]. cbn [fst] in H1. destruct sk.
  - pose proof (len_skip_ws (fuel_of l1) l1) as H2. destruct ((ch (skip_ws (fuel_of l1) l1) =? 34) || (ch (skip_ws (fuel_of l1) l1) =? 0))%N eqn:Q2; [reflexivity|].
    assert (NE2 : chs (skip_ws (fuel_of l1) l1) <> []). { intros E. unfold ch in Q2. rewrite E in Q2. rewrite orb_true_r in Q2. discriminate. }
    pose proof (len_pos _ NE2). apply IH; rewrite len_read_char; lia.
  - apply IH; rewrite len_read_char; lia.
Qed.
Lemma read_string'_enough : forall f f' l acc e, (len l < f)%nat -> (len l < f')%nat -> read_string' f l acc e = read_string' f' l acc e.
Proof.
  induction f as [|f IH]; intros f' l acc e L L'; [lia|]. destruct f' as [|f']; [lia|]. cbn [read_string'].
  destruct ((ch l =? 34)%N && negb (match chs l with [] => true | _ => false end)) eqn:Q; [|reflexivity].
  assert (NE : chs l <> []) by (intros E; rewrite E in Q; rewrite andb_false_r in Q; discriminate).
  pose proof (len_pos l NE) as LP.
  pose proof (len_read_str_part (fuel_of (read_char l)) (read_char l) (match acc with [] => acc | _ => acc ++ [10%N] end)) as H1.
  destruct (read_str_part (fuel_of (read_char l)) (read_char l) _) as [a1 l2]. cbn [snd] in H1.
  pose proof (len_read_char l2) as R3. set (l3 := read_char l2) in *.
  pose proof (len_skip_ws (fuel_of l3) l3) as R4. set (l4 := skip_ws (fuel_of l3) l3) in *.
  pose proof (len_skip_comments (fuel_of l4) l4) as R5. set (l5 := skip_comments (fuel_of l4) l4) in *.
  rewrite len_read_char in H1. apply IH; lia.
Qed.

Lemma skip_nl_true : forall f l, snd (skip_nl f l true) = true.
Proof. induction f as [|f IH]; intros l; cbn [skip_nl]; [reflexivity|]. destruct (_ && _); [apply IH|reflexivity]. Qed.

(* whitespace characters are neither letters nor digits, whatever the classification of non-ASCII code points *)
Lemma ws_plain hl hd c : is_ws c = true -> is_letter hl c = false /\ is_digit hd c = false /\ is_hex c = false.
Proof.
  unfold is_ws. intros H. repeat (apply orb_prop in H; destruct H as [H|H]); apply N.eqb_eq in H; subst; repeat split; reflexivity.
Qed.

(* ---------- locality of the readers ---------- *)
Section LOC.
Variable is_letter_hi is_digit_hi is_space_hi : N -> bool.
Variable r g g0 : list N.
Variable b : N.
Hypothesis Hg : g = b :: g0.
Hypothesis Hb : is_ws b = true.
Hypothesis HG : gap g.
Hypothesis Hr : r <> [].
Notation is_letter := (is_letter is_letter_hi).
Notation is_digit := (is_digit is_digit_hi).

(* the two runs: q characters before the insertion point *)
Definition Bef (q : list N) (lo lm : lx) : Prop := chs lo = q ++ r /\ chs lm = q ++ g ++ r.

Lemma bef_ch c q lo lm : Bef (c :: q) lo lm -> ch lo = c /\ ch lm = c.
Proof. intros [A B]. unfold ch. rewrite A, B. split; reflexivity. Qed.
Lemma bef_ne q lo lm : Bef q lo lm -> chs lo <> [] /\ chs lm <> [].
Proof. intros [A B]. rewrite A, B. split; intros E; apply app_eq_nil in E; destruct E as [_ E]; [exact (Hr E)|]. apply app_eq_nil in E. destruct E as [E _]. rewrite Hg in E. discriminate. Qed.
Lemma bef_read_char c q lo lm : Bef (c :: q) lo lm -> Bef q (read_char lo) (read_char lm).
Proof. intros [A B]. unfold Bef. rewrite !chs_read_char, A, B. split; reflexivity. Qed.
Lemma bef_len q lo lm : Bef q lo lm -> len lo = (List.length q + List.length r)%nat /\ len lm = (List.length q + List.length g + List.length r)%nat.
Proof. intros [A B]. unfold len. rewrite A, B, !app_length. split; lia. Qed.
Lemma bef_peek2 c d q lo lm : Bef (c :: d :: q) lo lm -> peek lo = d /\ peek lm = d.
Proof. intros [A B]. unfold peek. rewrite A, B. split; reflexivity. Qed.
Lemma bef_peek1 c lo lm : Bef [c] lo lm -> peek lo = hd 0%N r /\ peek lm = b.
Proof. intros [A B]. unfold peek. rewrite A, B, Hg. cbn. destruct r; [congruence|]. split; reflexivity. Qed.

(* the remaining characters after a step that ends at q' ++ r: q' is a suffix of q *)
Lemma sandwich q lo X q' : chs lo = q ++ r -> suf X (chs lo) -> suf (q' ++ r) X -> exists q1, X = q1 ++ r /\ suf q' q1 /\ suf q1 q.
Proof.
  intros A [x Hx] [y Hy]. subst X. exists (y ++ q'). split; [now rewrite app_assoc|]. split; [exists y; reflexivity|].
  rewrite A in Hx. rewrite !app_assoc in Hx. apply app_inv_tail in Hx. exists x. rewrite Hx, app_assoc. reflexivity.
Qed.
Lemma suf_ne q' q1 : suf q' q1 -> q' <> [] -> q1 <> [].
Proof. intros [x ->] N E. apply app_eq_nil in E. destruct E. contradiction. Qed.
Lemma eq_tail_nil q' : q' ++ r = r -> q' = [].
Proof. intros H. assert (L : List.length (q' ++ r) = List.length r) by (rewrite H; reflexivity). rewrite app_length in L. destruct q'; [reflexivity|cbn in L; lia]. Qed.

Lemma loc_read_while p : forall q f fm lo lm acc q',
  Bef q lo lm -> (len lo < f)%nat -> (len lm < fm)%nat ->
  chs (snd (read_while f p lo acc)) = q' ++ r -> (q' <> [] \/ p b = false) ->
  fst (read_while f p lo acc) = fst (read_while fm p lm acc) /\ Bef q' (snd (read_while f p lo acc)) (snd (read_while fm p lm acc)).
Proof.
  induction q as [|c q IH]; intros f fm lo lm acc q' BF L Lm H D.
  - pose proof BF as [A B]. cbn [app] in A, B.
    assert (Q : q' = []).
    { pose proof (suf_read_while f p lo acc) as S. rewrite H, A in S. apply suf_len in S. rewrite app_length in S. destruct q'; [reflexivity|cbn in S; lia]. }
    subst q'. destruct D as [D|D]; [congruence|]. cbn [app] in H.
    destruct f as [|f]; [lia|]. destruct fm as [|fm]; [lia|]. cbn [read_while] in *. rewrite B, Hg. cbn [app]. rewrite D.
    destruct (chs lo) as [|a t] eqn:EC.
    + cbn [fst snd]. split; [reflexivity|exact BF].
    + destruct (p a) eqn:PA.
      * exfalso. pose proof (len_read_while f p (read_char lo) (a :: acc)) as X. rewrite len_read_char in X. unfold len in X. rewrite H, EC in X.
        assert (LR : List.length r = S (List.length t)) by (rewrite <- A; reflexivity). cbn [List.length] in X. lia.
      * cbn [fst snd]. split; [reflexivity|exact BF].
  - pose proof BF as [A B]. destruct (bef_len _ _ _ BF) as [LA LB]. cbn [List.length] in LA, LB.
    destruct f as [|f]; [lia|]. destruct fm as [|fm]; [lia|]. cbn [read_while] in *. rewrite A, B in *. cbn [app] in *.
    destruct (p c).
    + apply (IH f fm (read_char lo) (read_char lm) (c :: acc) q'); [apply (bef_read_char c); exact BF| | |exact H|exact D];
        rewrite len_read_char; lia.
    + cbn [fst snd] in *. split; [reflexivity|]. rewrite A in H. change (c :: q ++ r) with ((c :: q) ++ r) in H. apply app_inv_tail in H. subst q'. exact BF.
Qed.

Lemma loc_skip_nl : forall q f fm lo lm sk q',
  Bef q lo lm -> (len lo < f)%nat -> (len lm < fm)%nat ->
  chs (fst (skip_nl f lo sk)) = q' ++ r -> q' <> [] ->
  snd (skip_nl f lo sk) = snd (skip_nl fm lm sk) /\ Bef q' (fst (skip_nl f lo sk)) (fst (skip_nl fm lm sk)).
Proof.
  induction q as [|c q IH]; intros f fm lo lm sk q' BF L Lm H D.
  - exfalso. pose proof BF as [A B]. cbn [app] in A. pose proof (suf_skip_nl f lo sk) as S. rewrite H, A in S. apply suf_len in S. rewrite app_length in S. destruct q'; [congruence|cbn in S; lia].
  - pose proof BF as [A B]. destruct (bef_ch _ _ _ _ BF) as [C1 C2]. destruct (bef_ne _ _ _ BF) as [N1 N2]. destruct (bef_len _ _ _ BF) as [LA LB]. cbn [List.length] in LA, LB.
    destruct f as [|f]; [lia|]. destruct fm as [|fm]; [lia|]. cbn [skip_nl] in *. rewrite C1, C2 in *.
    assert (E1 : negb (match chs lo with [] => true | _ => false end) = true) by (destruct (chs lo); [congruence|reflexivity]).
    assert (E2 : negb (match chs lm with [] => true | _ => false end) = true) by (destruct (chs lm); [congruence|reflexivity]).
    rewrite E1, E2 in *. rewrite andb_true_r in *. destruct ((c =? 10) || (c =? 13))%N.
    + apply (IH f fm (read_char lo) (read_char lm) true q'); [apply (bef_read_char c); exact BF| | |exact H|exact D]; rewrite len_read_char; lia.
    + cbn [fst snd] in *. split; [reflexivity|]. rewrite A in H. change (c :: q ++ r) with ((c :: q) ++ r) in H. apply app_inv_tail in H. subst q'. exact BF.
Qed.

Lemma dropws_between : forall q q', dropws (q ++ r) = q' ++ r -> q' <> [] -> dropws (q ++ g ++ r) = q' ++ g ++ r.
Proof.
  induction q as [|c q IH]; intros q' H D.
  - exfalso. cbn [app] in H. pose proof (dropws_len r) as L. rewrite H, app_length in L. destruct q'; [congruence|cbn in L; lia].
  - cbn [app dropws] in *. destruct (is_ws c); [apply IH; assumption|]. change (c :: q ++ r) with ((c :: q) ++ r) in H. apply app_inv_tail in H. subst q'. reflexivity.
Qed.
Lemma loc_skip_ws q f fm lo lm q' :
  Bef q lo lm -> (len lo < f)%nat -> (len lm < fm)%nat -> chs (skip_ws f lo) = q' ++ r -> q' <> [] -> Bef q' (skip_ws f lo) (skip_ws fm lm).
Proof.
  intros [A B] L Lm H D. unfold Bef. rewrite chs_skip_ws in * by exact L. rewrite chs_skip_ws by exact Lm. rewrite A in *. rewrite B.
  split; [exact H|apply dropws_between; assumption].
Qed.

(* skipping layout as a unit: either the run stops before the insertion point, or it reaches it and both runs agree from there *)
Lemma loc_skipall q lo lm q' :
  Bef q lo lm -> chs (skipall lo) = q' ++ r ->
  (q' <> [] /\ Bef q' (skipall lo) (skipall lm)) \/ (q' = [] /\ sim (skipall lo) (skipall lm)).
Proof.
  intros [A B] H. rewrite chs_skipall, A in H. destruct (skipped_between r g g0 b Hg Hb HG Hr q q' H) as [S1 S2].
  destruct q' as [|c q1].
  - right. split; [reflexivity|]. unfold sim. rewrite !chs_skipall, A, B, H. symmetry. apply S1. reflexivity.
  - left. split; [discriminate|]. unfold Bef. rewrite !chs_skipall, A, B. split; [exact H|apply S2; discriminate].
Qed.

Lemma sandwich_ne q lo X q' : chs lo = q ++ r -> suf X (chs lo) -> suf (q' ++ r) X -> q' <> [] -> exists q1, X = q1 ++ r /\ q1 <> [].
Proof. intros A S1 S2 N. destruct (sandwich q lo X q' A S1 S2) as (q1 & E & S3 & _). exists q1. split; [exact E|eapply suf_ne; eassumption]. Qed.

(* the body of one string part: it ends at the closing quote, strictly before the insertion point *)
Lemma loc_read_str_part : forall f fm q lo lm acc q',
  Bef q lo lm -> (len lo < f)%nat -> (len lm < fm)%nat ->
  chs (snd (read_str_part f lo acc)) = q' ++ r -> q' <> [] ->
  fst (read_str_part f lo acc) = fst (read_str_part fm lm acc) /\ Bef q' (snd (read_str_part f lo acc)) (snd (read_str_part fm lm acc)).
Proof.
  induction f as [|f IH]; intros fm q lo lm acc q' BF L Lm H D; [lia|]. destruct fm as [|fm]; [lia|].
  pose proof BF as [A B].
  destruct q as [|c q].
  { exfalso. cbn [app] in A. pose proof (suf_read_str_part (S f) lo acc) as S. rewrite H, A in S. apply suf_len in S. rewrite app_length in S. destruct q'; [congruence|cbn in S; lia]. }
  destruct (bef_ch _ _ _ _ BF) as [C1 C2]. destruct (bef_len _ _ _ BF) as [LA LB]. cbn [List.length] in LA, LB.
  cbn [read_str_part] in *. rewrite C1, C2 in *.
  destruct ((c =? 34) || (c =? 0))%N.
  { cbn [fst snd] in *. split; [reflexivity|]. rewrite A in H. apply app_inv_tail in H. subst q'. exact BF. }
  (* newline handling inside the string *)
  pose proof (suf_skip_nl (fuel_of lo) lo false) as S1.
  destruct (skip_nl (fuel_of lo) lo false) as [lo1 sk] eqn:EO. destruct (skip_nl (fuel_of lm) lm false) as [lm1 skm] eqn:EM. cbn [fst] in S1.
  destruct sk.
  - (* a line break was skipped *)
    set (lo2 := skip_ws (fuel_of lo1) lo1) in *.
    assert (S2 : suf (chs lo2) (chs lo1)) by apply suf_skip_ws.
    assert (S3 : suf (q' ++ r) (chs lo2)).
    { destruct ((ch lo2 =? 34) || (ch lo2 =? 0))%N; cbn [snd] in H; rewrite <- H; [apply suf_refl|]. eapply suf_trans; [apply suf_read_str_part|apply suf_read_char]. }
    destruct (sandwich_ne (c :: q) lo (chs lo1) q' A S1 (suf_trans _ _ _ S3 S2) D) as (q1 & E1 & N1).
    pose proof (loc_skip_nl (c :: q) (fuel_of lo) (fuel_of lm) lo lm false q1 BF ltac:(unfold fuel_of, len; lia) ltac:(unfold fuel_of, len; lia)) as LN.
    rewrite EO, EM in LN. cbn [fst snd] in LN. destruct (LN E1 N1) as [SK B1]. subst skm.
    destruct (sandwich_ne q1 lo1 (chs lo2) q' (proj1 B1) S2 S3 D) as (q2 & E2 & N2).
    pose proof (loc_skip_ws q1 (fuel_of lo1) (fuel_of lm1) lo1 lm1 q2 B1 ltac:(unfold fuel_of, len; lia) ltac:(unfold fuel_of, len; lia) E2 N2) as B2.
    fold lo2 in B2. set (lm2 := skip_ws (fuel_of lm1) lm1) in *.
    destruct q2 as [|c2 q2]; [congruence|]. destruct (bef_ch _ _ _ _ B2) as [D1 D2]. rewrite D1, D2 in *.
    destruct ((c2 =? 34) || (c2 =? 0))%N.
    + cbn [fst snd] in *. split; [reflexivity|]. rewrite E2 in H. apply app_inv_tail in H. subst q'. exact B2.
    + destruct (bef_len _ _ _ B2) as [LA2 LB2]. cbn [List.length] in LA2, LB2.
      pose proof (len_skip_ws (fuel_of lo1) lo1) as G1. pose proof (len_skip_nl (fuel_of lo) lo false) as G2. rewrite EO in G2. cbn [fst] in G2. fold lo2 in G1.
      pose proof (len_skip_ws (fuel_of lm1) lm1) as G3. pose proof (len_skip_nl (fuel_of lm) lm false) as G4. rewrite EM in G4. cbn [fst] in G4. fold lm2 in G3.
      apply (IH fm q2 (read_char lo2) (read_char lm2) _ q'); [apply (bef_read_char c2); exact B2| | |exact H|exact D]; rewrite len_read_char; lia.
  - (* an ordinary character *)
    assert (SK : skm = false).
    { (* the modified run sees the same character c, which is not a line break since the original did not skip *)
      unfold fuel_of in EO, EM. cbn [skip_nl] in EO, EM. rewrite C1 in EO. rewrite C2 in EM.
      destruct (bef_ne _ _ _ BF) as [N1 N2].
      assert (X1 : negb (match chs lo with [] => true | _ => false end) = true) by (destruct (chs lo); [congruence|reflexivity]).
      assert (X2 : negb (match chs lm with [] => true | _ => false end) = true) by (destruct (chs lm); [congruence|reflexivity]).
      rewrite X1 in EO. rewrite X2 in EM. rewrite andb_true_r in *.
      destruct ((c =? 10) || (c =? 13))%N.
      - exfalso. pose proof (skip_nl_true (List.length (chs lo)) (read_char lo)) as T. rewrite EO in T. cbn in T. discriminate.
      - inversion EM. reflexivity. }
    subst skm.
    apply (IH fm q (read_char lo) (read_char lm) _ q'); [apply (bef_read_char c); exact BF| | |exact H|exact D]; rewrite len_read_char; lia.
Qed.

Lemma suffix_of_r_nil X q' : suf X r -> X = q' ++ r -> q' = [].
Proof. intros S E. subst X. apply suf_len in S. rewrite app_length in S. destruct q'; [reflexivity|cbn in S; lia]. Qed.
Lemma sim_len l l' : sim l l' -> len l = len l'.
Proof. unfold sim, len. now intros ->. Qed.

(* a whole string token (several parts, layout between them): it ends before the insertion point, or its trailing
   layout skip reaches it and both runs agree from there on *)
Lemma loc_read_string' : forall f fm q lo lm acc e em q',
  Bef q lo lm -> (len lo < f)%nat -> (len lm < fm)%nat ->
  chs (snd (read_string' f lo acc e)) = q' ++ r ->
  fst (fst (read_string' f lo acc e)) = fst (fst (read_string' fm lm acc em)) /\
  (Bef q' (snd (read_string' f lo acc e)) (snd (read_string' fm lm acc em)) \/
   (q' = [] /\ sim (snd (read_string' f lo acc e)) (snd (read_string' fm lm acc em)))).
Proof.
  induction f as [|f IH]; intros fm q lo lm acc e em q' BF L Lm H; [lia|]. destruct fm as [|fm]; [lia|].
  pose proof BF as [A B]. destruct (bef_ne _ _ _ BF) as [N1 N2]. destruct (bef_len _ _ _ BF) as [LA LB].
  assert (X1 : negb (match chs lo with [] => true | _ => false end) = true) by (destruct (chs lo); [congruence|reflexivity]).
  assert (X2 : negb (match chs lm with [] => true | _ => false end) = true) by (destruct (chs lm); [congruence|reflexivity]).
  cbn [read_string'] in *. rewrite X1, X2 in *. rewrite !andb_true_r in *.
  destruct q as [|c q].
  - (* at the insertion point: the modified run sees a whitespace character, the original must not start a new part *)
    assert (CM : (ch lm =? 34)%N = false).
    { unfold ch. rewrite B, Hg. cbn [app]. apply N.eqb_neq. intros ->. discriminate Hb. }
    rewrite CM. destruct (ch lo =? 34)%N eqn:CO.
    + exfalso. cbn [app] in A.
      pose proof (len_read_str_part (fuel_of (read_char lo)) (read_char lo) (match acc with [] => acc | _ => acc ++ [10%N] end)) as H1.
      destruct (read_str_part (fuel_of (read_char lo)) (read_char lo) _) as [a1 l2]. cbn [snd] in H1.
      pose proof (len_read_char l2) as R3. set (l3 := read_char l2) in *.
      pose proof (len_skip_ws (fuel_of l3) l3) as R4. set (l4 := skip_ws (fuel_of l3) l3) in *.
      pose proof (len_skip_comments (fuel_of l4) l4) as R5. set (l5 := skip_comments (fuel_of l4) l4) in *.
      pose proof (len_read_string' f l5 a1 (line l3, pcn l3, pun l3)) as R6. rewrite len_read_char in H1.
      unfold len in R6 at 1. rewrite H in R6. rewrite app_length in R6. cbn [List.length] in LA. pose proof (len_pos lo N1). lia.
    + cbn [fst snd] in *. split; [reflexivity|]. left. cbn [app] in A. rewrite A in H. symmetry in H. apply eq_tail_nil in H. subst q'. exact BF.
  - destruct (bef_ch _ _ _ _ BF) as [C1 C2]. rewrite C1, C2 in *. cbn [List.length] in LA, LB.
    destruct (c =? 34)%N.
    2:{ cbn [fst snd] in *. split; [reflexivity|]. left. rewrite A in H. apply app_inv_tail in H. subst q'. exact BF. }
    pose proof (bef_read_char _ _ _ _ BF) as B1.
    set (acc0 := match acc with [] => acc | _ => acc ++ [10%N] end) in *.
    pose proof (suf_read_str_part (fuel_of (read_char lo)) (read_char lo) acc0) as S2.
    pose proof (len_read_str_part (fuel_of (read_char lo)) (read_char lo) acc0) as G2.
    pose proof (len_read_str_part (fuel_of (read_char lm)) (read_char lm) acc0) as G2m.
    pose proof (loc_read_str_part (fuel_of (read_char lo)) (fuel_of (read_char lm)) q (read_char lo) (read_char lm) acc0) as LP.
    destruct (read_str_part (fuel_of (read_char lo)) (read_char lo) acc0) as [a1 lo2].
    destruct (read_str_part (fuel_of (read_char lm)) (read_char lm) acc0) as [a1m lm2]. cbn [fst snd] in *.
    change (skip_comments (fuel_of (skip_ws (fuel_of (read_char lo2)) (read_char lo2))) (skip_ws (fuel_of (read_char lo2)) (read_char lo2))) with (skipall (read_char lo2)) in *.
    change (skip_comments (fuel_of (skip_ws (fuel_of (read_char lm2)) (read_char lm2))) (skip_ws (fuel_of (read_char lm2)) (read_char lm2))) with (skipall (read_char lm2)) in *.
    set (lo5 := skipall (read_char lo2)) in *. set (lm5 := skipall (read_char lm2)) in *.
    assert (S6 : suf (q' ++ r) (chs lo5)) by (rewrite <- H; apply suf_read_string').
    assert (S5 : suf (chs lo5) (chs (read_char lo2))) by apply suf_skipall.
    assert (S3 : suf (chs (read_char lo2)) (chs lo2)) by apply suf_read_char.
    destruct (sandwich q (read_char lo) (chs lo2) q' (proj1 B1) S2 (suf_trans _ _ _ S6 (suf_trans _ _ _ S5 S3))) as (q2 & E2 & _ & _).
    assert (NQ2 : q2 <> []).
    { intros ->. cbn [app] in E2. pose proof (suf_len _ _ S6) as Z1. pose proof (suf_len _ _ S5) as Z2. rewrite chs_read_char, E2 in Z2.
      rewrite app_length in Z1. destruct r; [congruence|]. cbn in *. lia. }
    destruct (LP q2 B1 ltac:(unfold fuel_of, len; lia) ltac:(unfold fuel_of, len; lia) E2 NQ2) as [EA B2]. subst a1m.
    destruct q2 as [|c2 q3]; [congruence|]. pose proof (bef_read_char _ _ _ _ B2) as B3.
    destruct (sandwich q3 (read_char lo2) (chs lo5) q' (proj1 B3) S5 S6) as (q5 & E5 & _ & _).
    destruct (bef_len _ _ _ B1) as [LA1 LB1]. rewrite len_read_char in G2, G2m.
    pose proof (len_skipall (read_char lo2)) as G5. pose proof (len_skipall (read_char lm2)) as G5m. rewrite len_read_char in G5, G5m. fold lo5 in G5. fold lm5 in G5m.
    destruct (loc_skipall q3 (read_char lo2) (read_char lm2) q5 B3 E5) as [[NQ5 B5]|[EQ5 SM]].
    + fold lo5 lm5 in B5. apply (IH fm q5 lo5 lm5 a1 _ _ q' B5); [lia|lia|exact H].
    + fold lo5 lm5 in SM. subst q5. cbn [app] in E5.
      assert (Q' : q' = []). { apply (suffix_of_r_nil (q' ++ r) q'); [|reflexivity]. rewrite E5 in S6. exact S6. }
      rewrite (read_string'_enough fm f lm5) by (rewrite <- (sim_len _ _ SM); lia).
      destruct (sim_read_string' f lo5 lm5 a1 (line (read_char lo2), pcn (read_char lo2), pun (read_char lo2)) (line (read_char lm2), pcn (read_char lm2), pun (read_char lm2)) SM) as [Y1 Y2].
      split; [exact Y1|]. right. split; [exact Q'|exact Y2].
Qed.

Notation read_ident := (read_ident is_letter_hi is_digit_hi).
Notation nt_core := (nt_core is_letter_hi is_digit_hi is_space_hi).
Notation next_token_aux := (next_token_aux is_letter_hi is_digit_hi is_space_hi).
Notation lex_all := (lex_all is_letter_hi is_digit_hi is_space_hi).

Definition ok_res (q' : list N) (ro rm : list token * lx) : Prop :=
  map shape (fst ro) = map shape (fst rm) /\
  (Bef q' (snd ro) (snd rm) \/ (q' = [] /\ sim (snd ro) (snd rm))).

Lemma loc_read_string_token q lo lm q' :
  Bef q lo lm -> chs (snd (read_string_token lo)) = q' ++ r -> ok_res q' (let '(tk, l') := read_string_token lo in ([tk], l')) (let '(tk, l') := read_string_token lm in ([tk], l')).
Proof.
  intros BF H. unfold read_string_token in *.
  pose proof (loc_read_string' (fuel_of lo) (fuel_of lm) q lo lm [] (0, 0, 0)%Z (0, 0, 0)%Z q' BF ltac:(unfold fuel_of, len; lia) ltac:(unfold fuel_of, len; lia)) as L.
  destruct (read_string' (fuel_of lo) lo [] (0, 0, 0)%Z) as [[lit [[el eb] eu]] l1].
  destruct (read_string' (fuel_of lm) lm [] (0, 0, 0)%Z) as [[litm [[elm ebm] eum]] l1m]. cbn [fst snd] in *.
  destruct (L H) as [E R]. subst litm. split; [reflexivity|exact R].
Qed.

Lemma b_letter : is_letter b = false. Proof. apply (ws_plain is_letter_hi is_digit_hi b Hb). Qed.
Lemma b_digit : is_digit b = false. Proof. apply (ws_plain is_letter_hi is_digit_hi b Hb). Qed.
Lemma b_hex : is_hex b = false. Proof. apply (ws_plain is_letter_hi is_digit_hi b Hb). Qed.
Lemma b_not k : is_ws k = false -> (b =? k)%N = false.
Proof. intros H. apply N.eqb_neq. intros ->. congruence. Qed.

Lemma loc_read_ident c q lo lm q' :
  Bef (c :: q) lo lm -> chs (snd (read_ident lo)) = q' ++ r ->
  fst (read_ident lo) = fst (read_ident lm) /\ Bef q' (snd (read_ident lo)) (snd (read_ident lm)).
Proof.
  intros BF H. pose proof BF as [A B]. unfold Lexer.read_ident in *. rewrite A, B in *. cbn [app] in *. destruct (is_letter c).
  - pose proof (loc_read_while (fun x => is_letter x || is_digit x) q (fuel_of lo) (fuel_of lm) (read_char lo) (read_char lm) [] q' (bef_read_char _ _ _ _ BF)) as L.
    destruct (bef_len _ _ _ BF) as [LA LB].
    destruct (read_while (fuel_of lo) _ (read_char lo) []) as [r1 l1]. destruct (read_while (fuel_of lm) _ (read_char lm) []) as [r1m l1m]. cbn [fst snd] in *.
    destruct (L ltac:(rewrite len_read_char; unfold fuel_of, len; lia) ltac:(rewrite len_read_char; unfold fuel_of, len; lia) H) as [E R];
      [right; rewrite b_letter, b_digit; reflexivity|]. subst r1m. split; [reflexivity|exact R].
  - cbn [fst snd] in *. split; [reflexivity|]. rewrite A in H. change (c :: q ++ r) with ((c :: q) ++ r) in H. apply app_inv_tail in H. subst q'. exact BF.
Qed.

Lemma no_cross X q' : suf X (tl r) -> X = q' ++ r -> False.
Proof. intros S E. subst X. apply suf_len in S. rewrite app_length in S. destruct r; [congruence|]. cbn in S. lia. Qed.

Lemma core_one c q1 lo lm q' ty : Bef (c :: q1) lo lm -> chs (read_char lo) = q' ++ r -> ok_res q' ([single ty lo], read_char lo) ([single ty lm], read_char lm).
Proof.
  intros BF H. destruct (bef_ch _ _ _ _ BF) as [C1 C2]. split; [unfold single, shape; cbn; rewrite C1, C2; reflexivity|]. left. cbn [snd].
  pose proof (bef_read_char _ _ _ _ BF) as B1. destruct B1 as [A1 B1]. rewrite A1 in H. apply app_inv_tail in H. subst q'. split; assumption.
Qed.
Lemma core_tok c q1 lo lm q' tko tkm : Bef (c :: q1) lo lm -> shape tko = shape tkm -> chs (read_char lo) = q' ++ r ->
  ok_res q' ([tko], read_char lo) ([tkm], read_char lm).
Proof.
  intros BF SH H. split; [cbn; rewrite SH; reflexivity|]. left. cbn [snd].
  pose proof (bef_read_char _ _ _ _ BF) as B1. destruct B1 as [A1 B1]. rewrite A1 in H. apply app_inv_tail in H. subst q'. split; assumption.
Qed.
Lemma core_two c lo lm q' ty d q2 : Bef (c :: d :: q2) lo lm -> chs (read_char (read_char lo)) = q' ++ r ->
  ok_res q' (let '(tk, l2) := double ty lo in ([tk], l2)) (let '(tk, l2) := double ty lm in ([tk], l2)).
Proof.
  intros BF H. destruct (bef_ch _ _ _ _ BF) as [C1 C2]. pose proof (bef_read_char _ _ _ _ BF) as B1. destruct (bef_ch _ _ _ _ B1) as [D1 D2].
  pose proof (bef_read_char _ _ _ _ B1) as B2. unfold double. cbn [fst snd]. split; [unfold shape; cbn; rewrite C1, C2, D1, D2; reflexivity|]. left.
  destruct B2 as [A2 B2]. rewrite A2 in H. apply app_inv_tail in H. subst q'. split; assumption.
Qed.
Lemma core_op c q1 lo lm q' k ty2 ty1 : Bef (c :: q1) lo lm -> is_ws k = false ->
  chs (snd (if (peek lo =? k)%N then (let '(tk, l2) := double ty2 lo in ([tk], l2)) else ([single ty1 lo], read_char lo))) = q' ++ r ->
  ok_res q' (if (peek lo =? k)%N then (let '(tk, l2) := double ty2 lo in ([tk], l2)) else ([single ty1 lo], read_char lo))
            (if (peek lm =? k)%N then (let '(tk, l2) := double ty2 lm in ([tk], l2)) else ([single ty1 lm], read_char lm)).
Proof.
  intros BF WK H. destruct q1 as [|d q2].
  - destruct (bef_peek1 _ _ _ BF) as [P1 P2]. rewrite P2, (b_not k WK). destruct (peek lo =? k)%N.
    + exfalso. unfold double in H. cbn [snd] in H. destruct BF as [A _]. apply (no_cross (chs (read_char (read_char lo))) q'); [|exact H].
      rewrite !chs_read_char, A. cbn [app tl]. apply suf_refl.
    + eapply core_one; [exact BF|exact H].
  - destruct (bef_peek2 _ _ _ _ _ BF) as [P1 P2]. rewrite P1, P2 in *. destruct (d =? k)%N.
    + eapply core_two; [exact BF|]. unfold double in H. exact H.
    + eapply core_one; [exact BF|exact H].
Qed.

Lemma ws35 : is_ws 61 = false /\ is_ws 38 = false /\ is_ws 124 = false. Proof. repeat split; reflexivity. Qed.

(* one token read starting before the insertion point and ending at or before it *)
Lemma loc_nt_core c q1 lo lm q' :
  Bef (c :: q1) lo lm -> chs (snd (fst (nt_core lo))) = q' ++ r ->
  ok_res q' (fst (nt_core lo)) (fst (nt_core lm)) /\ snd (nt_core lo) = false /\ snd (nt_core lm) = false.
Proof.
  intros BF H. pose proof BF as [A B]. destruct (bef_ch _ _ _ _ BF) as [C1 C2]. destruct (bef_ne _ _ _ BF) as [N1 N2].
  pose proof (bef_read_char _ _ _ _ BF) as B1. destruct (bef_len _ _ _ BF) as [LA LB]. cbn [List.length] in LA, LB.
  unfold LexLayout.nt_core in *. cbv zeta in *. cbn [fst snd] in *. rewrite C1, C2 in *.
  assert (X1 : match chs lo with [] => true | _ => false end = false) by (destruct (chs lo); [congruence|reflexivity]).
  assert (X2 : match chs lm with [] => true | _ => false end = false) by (destruct (chs lm); [congruence|reflexivity]).
  rewrite X1, X2 in *. cbn [orb] in *. split; [|split; reflexivity].
  destruct (c =? 0)%N.
  { cbn [fst snd] in *. split; [reflexivity|]. left. destruct B1 as [A1 B1']. rewrite A1 in H. apply app_inv_tail in H. subst q'. split; assumption. }
  destruct (c =? 42)%N; [eapply core_one; eassumption|].
  destruct (c =? 61)%N; [eapply (core_op c q1 lo lm q' 61); [exact BF|reflexivity|exact H]|].
  destruct (c =? 33)%N; [eapply (core_op c q1 lo lm q' 61); [exact BF|reflexivity|exact H]|].
  destruct (c =? 60)%N; [eapply (core_op c q1 lo lm q' 61); [exact BF|reflexivity|exact H]|].
  destruct (c =? 62)%N; [eapply (core_op c q1 lo lm q' 61); [exact BF|reflexivity|exact H]|].
  destruct (c =? 38)%N; [eapply (core_op c q1 lo lm q' 38); [exact BF|reflexivity|exact H]|].
  destruct (c =? 124)%N; [eapply (core_op c q1 lo lm q' 124); [exact BF|reflexivity|exact H]|].
  destruct (c =? 40)%N; [eapply core_one; eassumption|].
  destruct (c =? 41)%N; [eapply core_one; eassumption|].
  destruct (c =? 91)%N; [eapply core_one; eassumption|].
  destruct (c =? 93)%N; [eapply core_one; eassumption|].
  destruct (c =? 44)%N; [eapply core_one; eassumption|].
  destruct (c =? 58)%N; [eapply core_one; eassumption|].
  destruct (c =? 123)%N; [eapply core_one; eassumption|].
  destruct (c =? 125)%N; [eapply core_one; eassumption|].
  destruct (c =? 34)%N.
  { (* string *)
    apply (loc_read_string_token (c :: q1)); [exact BF|]. destruct (read_string_token lo) as [tk l1]. exact H. }
  destruct (c =? 96)%N.
  { (* raw string: the closing back quote lies before the insertion point *)
    pose proof (loc_read_while (fun x => negb (x =? 96)%N && negb (x =? 0)%N) q1 (fuel_of (read_char lo)) (fuel_of (read_char lm)) (read_char lo) (read_char lm) [] ) as L.
    pose proof (suf_read_while (fuel_of (read_char lo)) (fun x => negb (x =? 96)%N && negb (x =? 0)%N) (read_char lo) []) as S.
    destruct (read_while (fuel_of (read_char lo)) _ (read_char lo) []) as [body lo3]. destruct (read_while (fuel_of (read_char lm)) _ (read_char lm) []) as [bodym lm3]. cbn [fst snd] in *.
    destruct (sandwich q1 (read_char lo) (chs lo3) q' (proj1 B1) S ltac:(rewrite <- H; apply suf_read_char)) as (q3 & E3 & _ & _).
    assert (NQ3 : q3 <> []). { intros ->. cbn [app] in E3. apply (no_cross (chs (read_char lo3)) q'); [rewrite chs_read_char, E3; apply suf_refl|exact H]. }
    destruct (L q3 B1 ltac:(unfold fuel_of, len; lia) ltac:(unfold fuel_of, len; lia) E3 (or_introl NQ3)) as [EB B3]. subst bodym.
    split; [reflexivity|]. left. destruct q3 as [|c3 q4]; [congruence|]. pose proof (bef_read_char _ _ _ _ B3) as B4.
    destruct B4 as [A4 B4]. rewrite A4 in H. apply app_inv_tail in H. subst q'. split; assumption. }
  destruct (c =? 48)%N.
  { destruct q1 as [|d q2].
    - (* '0' is the last character before the insertion point *)
      destruct (bef_peek1 _ _ _ BF) as [P1 P2]. rewrite P2, (b_not 120 eq_refl). destruct (peek lo =? 120)%N.
      + exfalso. pose proof (suf_read_while (fuel_of (read_char (read_char lo))) is_hex (read_char (read_char lo)) []) as S.
        destruct (read_while _ is_hex (read_char (read_char lo)) []) as [h l3]. cbn [fst snd] in *.
        apply (no_cross (chs l3) q'); [|exact H]. eapply suf_trans; [exact S|]. rewrite !chs_read_char, A. cbn [app tl]. apply suf_refl.
      + pose proof (loc_read_while is_digit [c] (fuel_of lo) (fuel_of lm) lo lm [] q' BF ltac:(unfold fuel_of, len; lia) ltac:(unfold fuel_of, len; lia)) as L.
        destruct (read_while (fuel_of lo) is_digit lo []) as [d1 l3]. destruct (read_while (fuel_of lm) is_digit lm []) as [d1m l3m]. cbn [fst snd] in *.
        destruct (L H (or_intror b_digit)) as [E R]. subst d1m. split; [reflexivity|left; exact R].
    - destruct (bef_peek2 _ _ _ _ _ BF) as [P1 P2]. rewrite P1, P2 in *. destruct (d =? 120)%N.
      + pose proof (bef_read_char _ _ _ _ B1) as B2.
        pose proof (loc_read_while is_hex q2 (fuel_of (read_char (read_char lo))) (fuel_of (read_char (read_char lm))) (read_char (read_char lo)) (read_char (read_char lm)) [] q' B2
                      ltac:(unfold fuel_of, len; lia) ltac:(unfold fuel_of, len; lia)) as L.
        destruct (read_while _ is_hex (read_char (read_char lo)) []) as [h l3]. destruct (read_while _ is_hex (read_char (read_char lm)) []) as [hm l3m]. cbn [fst snd] in *.
        destruct (L H (or_intror b_hex)) as [E R]. subst hm. split; [reflexivity|left; exact R].
      + pose proof (loc_read_while is_digit (c :: d :: q2) (fuel_of lo) (fuel_of lm) lo lm [] q' BF ltac:(unfold fuel_of, len; lia) ltac:(unfold fuel_of, len; lia)) as L.
        destruct (read_while (fuel_of lo) is_digit lo []) as [d1 l3]. destruct (read_while (fuel_of lm) is_digit lm []) as [d1m l3m]. cbn [fst snd] in *.
        destruct (L H (or_intror b_digit)) as [E R]. subst d1m. split; [reflexivity|left; exact R]. }
  destruct (is_letter c).
  { (* identifier, keyword, string type *)
    pose proof (suf_read_ident is_letter_hi is_digit_hi lo) as S. pose proof (loc_read_ident c q1 lo lm) as L.
    destruct (read_ident lo) as [id lo3]. destruct (read_ident lm) as [idm lm3]. cbn [fst snd] in *.
    assert (S3 : suf (q' ++ r) (chs lo3)).
    { destruct ((ch lo3 =? 34)%N && negb (match chs lo3 with [] => true | _ => false end)); cbn [snd] in H; [|rewrite <- H; apply suf_refl].
      pose proof (suf_read_string_token lo3) as S4. destruct (read_string_token lo3) as [tk l4]. cbn [snd] in *. rewrite <- H. exact S4. }
    destruct (sandwich (c :: q1) lo (chs lo3) q' A S S3) as (q3 & E3 & _ & _).
    destruct (L q3 BF E3) as [EI B3]. subst idm.
    destruct q3 as [|c3 q4].
    - (* the identifier ends at the insertion point *)
      pose proof B3 as [A3 B3']. cbn [app] in A3, B3'.
      assert (CM : (ch lm3 =? 34)%N = false). { unfold ch. rewrite B3', Hg. cbn [app]. apply (b_not 34). reflexivity. }
      rewrite CM. cbn [andb]. destruct ((ch lo3 =? 34)%N && negb (match chs lo3 with [] => true | _ => false end)) eqn:Q.
      + exfalso. apply andb_prop in Q. destruct Q as [Q1 Q2]. apply N.eqb_eq in Q1.
        pose proof (len_read_string_strict lo3 Q1) as ST. destruct (read_string_token lo3) as [tk l4]. cbn [snd] in *.
        assert (NE3 : chs lo3 <> []) by (rewrite A3; exact Hr). specialize (ST NE3). unfold len in ST. rewrite H, A3, app_length in ST. lia.
      + cbn [fst snd] in *. split; [reflexivity|]. left. rewrite A3 in H. symmetry in H. apply eq_tail_nil in H. subst q'. exact B3.
    - destruct (bef_ch _ _ _ _ B3) as [D1 D2]. destruct (bef_ne _ _ _ B3) as [M1 M2]. rewrite D1, D2.
      assert (Y1 : negb (match chs lo3 with [] => true | _ => false end) = true) by (destruct (chs lo3); [congruence|reflexivity]).
      assert (Y2 : negb (match chs lm3 with [] => true | _ => false end) = true) by (destruct (chs lm3); [congruence|reflexivity]).
      rewrite D1, Y1 in H. rewrite Y1, Y2. rewrite andb_true_r in *. destruct (c3 =? 34)%N.
      + pose proof (loc_read_string_token (c3 :: q4) lo3 lm3 q' B3) as LS.
        destruct (read_string_token lo3) as [tk l4]. destruct (read_string_token lm3) as [tkm l4m]. cbn [fst snd] in *.
        destruct (LS H) as [SH R]. split; [|exact R]. cbn [map] in *. inversion SH. unfold shape. cbn. f_equal. assumption.
      + cbn [fst snd] in *. split; [reflexivity|]. left. rewrite E3 in H. apply app_inv_tail in H. subst q'. exact B3. }
  (* numbers and illegal characters *)
  assert (DM : forall x, is_digit c || (c =? 45)%N && is_digit x = true -> (c =? 45)%N = false -> is_digit c = true).
  { intros x Hx N45. rewrite N45 in Hx. cbn in Hx. rewrite orb_false_r in Hx. exact Hx. }
  destruct q1 as [|d q2].
  - destruct (bef_peek1 _ _ _ BF) as [P1 P2]. rewrite P2, b_digit, andb_false_r, orb_false_r.
    destruct (c =? 45)%N eqn:N45.
    + (* '-' right before the insertion point *)
      assert (DC : is_digit c = false) by (apply N.eqb_eq in N45; subst c; reflexivity). rewrite DC in *. cbn [orb andb] in *.
      destruct (is_digit (peek lo)) eqn:DP.
      * exfalso. pose proof (len_read_while_first (fuel_of (read_char lo)) is_digit (read_char lo)) as ST.
        destruct (read_while (fuel_of (read_char lo)) is_digit (read_char lo) []) as [d1 l3]. cbn [fst snd] in *.
        destruct B1 as [A1 _]. cbn [app] in A1.
        assert (CH1 : ch (read_char lo) = peek lo). { unfold ch, peek. rewrite chs_read_char, A. cbn. destruct r; reflexivity. }
        specialize (ST ltac:(unfold fuel_of, len; lia) ltac:(rewrite A1; exact Hr) ltac:(rewrite CH1; exact DP)).
        unfold len in ST. rewrite H, A1, app_length in ST. lia.
      * eapply core_tok; [exact BF|reflexivity|exact H].
    + rewrite andb_false_l, orb_false_r in H. destruct (is_digit c) eqn:DC.
      * pose proof (loc_read_while is_digit [c] (fuel_of lo) (fuel_of lm) lo lm [] q' BF ltac:(unfold fuel_of, len; lia) ltac:(unfold fuel_of, len; lia)) as L.
        destruct (read_while (fuel_of lo) is_digit lo []) as [d1 l3]. destruct (read_while (fuel_of lm) is_digit lm []) as [d1m l3m]. cbn [fst snd] in *.
        destruct (L H (or_intror b_digit)) as [E R]. subst d1m. split; [reflexivity|left; exact R].
      * eapply core_tok; [exact BF|reflexivity|exact H].
  - destruct (bef_peek2 _ _ _ _ _ BF) as [P1 P2]. rewrite P1, P2 in *.
    destruct (is_digit c || (c =? 45)%N && is_digit d) eqn:DD.
    + destruct (c =? 45)%N eqn:N45.
      * pose proof (loc_read_while is_digit (d :: q2) (fuel_of (read_char lo)) (fuel_of (read_char lm)) (read_char lo) (read_char lm) [] q' B1
                      ltac:(unfold fuel_of, len; lia) ltac:(unfold fuel_of, len; lia)) as L.
        destruct (read_while _ is_digit (read_char lo) []) as [d1 l3]. destruct (read_while _ is_digit (read_char lm) []) as [d1m l3m]. cbn [fst snd] in *.
        destruct (L H (or_intror b_digit)) as [E R]. subst d1m. split; [reflexivity|left; exact R].
      * pose proof (loc_read_while is_digit (c :: d :: q2) (fuel_of lo) (fuel_of lm) lo lm [] q' BF ltac:(unfold fuel_of, len; lia) ltac:(unfold fuel_of, len; lia)) as L.
        destruct (read_while (fuel_of lo) is_digit lo []) as [d1 l3]. destruct (read_while (fuel_of lm) is_digit lm []) as [d1m l3m]. cbn [fst snd] in *.
        destruct (L H (or_intror b_digit)) as [E R]. subst d1m. split; [reflexivity|left; exact R].
    + eapply core_tok; [exact BF|reflexivity|exact H].
Qed.

(* one call of the lexer *)
Lemma loc_next q lo lm ts lo' q' :
  Bef q lo lm -> next_token_aux lo = (ts, lo', false) -> chs lo' = q' ++ r ->
  exists tsm lm', next_token_aux lm = (tsm, lm', false) /\ map shape ts = map shape tsm /\ (Bef q' lo' lm' \/ leq lo' lm').
Proof.
  intros BF NT H. rewrite next_token_aux_core in *.
  pose proof (suf_skipall lo) as S1. pose proof (suf_nt_core is_letter_hi is_digit_hi is_space_hi (skipall lo)) as S2. rewrite NT in S2. cbn [fst snd] in S2.
  destruct (sandwich q lo (chs (skipall lo)) q' (proj1 BF) S1 ltac:(rewrite <- H; exact S2)) as (q1 & E1 & _ & _).
  destruct (loc_skipall q lo lm q1 BF E1) as [[NQ1 B1]|[EQ1 SM]].
  - destruct q1 as [|c q2]; [congruence|].
    pose proof (loc_nt_core c q2 (skipall lo) (skipall lm) q' B1) as L. rewrite NT in L. cbn [fst snd] in L.
    destruct (L H) as ((SH & R) & _ & FM).
    destruct (nt_core (skipall lm)) as [[tsm lm'] em] eqn:EM. cbn [fst snd] in *. subst em.
    exists tsm, lm'. split; [reflexivity|]. split; [exact SH|]. destruct R as [R|[_ R]]; [left; exact R|right; apply sim_leq; exact R].
  - destruct (sim_nt_core is_letter_hi is_digit_hi is_space_hi _ _ SM) as (SH & R & FL). rewrite NT in *. cbn [fst snd] in *.
    destruct (nt_core (skipall lm)) as [[tsm lm'] em] eqn:EM. cbn [fst snd] in *. subst em.
    exists tsm, lm'. split; [reflexivity|]. split; [exact SH|]. right. apply sim_leq. exact R.
Qed.

(* the original run reaches, after k tokens, a state whose remaining characters are exactly r *)
Fixpoint reaches (k : nat) (l : lx) : Prop :=
  match k with
  | O => chs l = r
  | S k' => exists ts l', next_token_aux l = (ts, l', false) /\ reaches k' l'
  end.
Lemma reaches_suf : forall k l, reaches k l -> suf r (chs l).
Proof.
  induction k as [|k IH]; intros l H; cbn in H; [rewrite H; apply suf_refl|]. destruct H as (ts & l' & NT & R).
  eapply suf_trans; [apply IH; exact R|]. pose proof (suf_next_token is_letter_hi is_digit_hi is_space_hi l) as S. rewrite NT in S. exact S.
Qed.

Theorem lex_all_between : forall k f q lo lm, Bef q lo lm -> reaches k lo -> map shape (lex_all f lm) = map shape (lex_all f lo).
Proof.
  induction k as [|k IH]; intros f q lo lm BF R.
  - cbn in R. destruct BF as [A B]. rewrite R in A. symmetry in A. apply eq_tail_nil in A. subst q. cbn [app] in B.
    apply lex_all_leq. apply (gap_leq g); [exact HG|]. rewrite B, R. reflexivity.
  - cbn in R. destruct R as (ts & lo' & NT & R). destruct f as [|f]; [reflexivity|]. cbn [Lexer.lex_all]. rewrite NT.
    destruct (reaches_suf _ _ R) as [q' E'].
    destruct (loc_next q lo lm ts lo' q' BF NT E') as (tsm & lm' & NTM & SH & RR). rewrite NTM. rewrite !map_app, SH. f_equal.
    destruct RR as [BF'|LQ]; [eapply IH; eassumption|]. symmetry. apply lex_all_leq. exact LQ.
Qed.
End LOC.

(* THE THEOREM (C19, layout between tokens): let the source be p ++ r with r non-empty, and suppose the lexer, run on it,
   stands after some number k of tokens exactly in front of r (so the split point is a point between two tokens).  Then for
   every gap g - whitespace characters and complete comments in any mix - that begins with a whitespace character, the
   source p ++ g ++ r has the same sequence of token types and literals.  (leading_layout covers k = 0 for arbitrary gaps.) *)
Theorem layout_between_tokens is_letter_hi is_digit_hi is_space_hi (p r g : list N) (k : nat) :
  r <> [] -> gap g -> (exists b g0, g = b :: g0 /\ is_ws b = true) ->
  reaches is_letter_hi is_digit_hi is_space_hi r k (init (p ++ r)) ->
  map shape (lex is_letter_hi is_digit_hi is_space_hi (p ++ g ++ r)) = map shape (lex is_letter_hi is_digit_hi is_space_hi (p ++ r)).
Proof.
  intros NR G (b & g0 & EG & WB) R. unfold lex.
  rewrite (lex_all_between is_letter_hi is_digit_hi is_space_hi r g g0 b EG WB G NR k (S (S (List.length (p ++ g ++ r)))) p (init (p ++ r)) (init (p ++ g ++ r))).
  - apply (f_equal (map shape)). apply lex_all_enough; unfold len, init; cbn [chs]; rewrite ?app_length; lia.
  - split; reflexivity.
  - exact R.
Qed.

(* the premise is satisfiable: in "ab(c" the lexer stands in front of "(c" after one token *)
Example reaches_example :
  reaches (fun _ => false) (fun _ => false) (fun _ => false) (t "(c") 1 (init (t "ab" ++ t "(c")).
Proof. cbn [reaches]. eexists. eexists. split; vm_compute; reflexivity. Qed.
