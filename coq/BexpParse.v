(* C02 (T1): the boolean-expression parser implements the usual reading.  Surface syntax in LL form
     expr ::= atom tail        tail ::= (empty) | && atom tail | || expr        atom ::= LEAF | ( expr ) | ! ( expr )
   ('!' binds tightest, then '&&', then '||', parentheses override).  Leaves are opaque token blocks with the parse result
   the leaf parser gives them (hypothesis leaf_spec; the leaf forms themselves are the subject of T2).  The parser returns
   exactly the tree [tree_expr false e]; a '!' in front of a parenthesis is pushed down to the leaves (De Morgan), which
   preserves value, evaluation order and short-circuit points (Theorem B). *)
From Coq Require Import List String Ascii ZArith NArith Lia Bool.
From Pory Require Import Lexer Ast Emitter Sem2 SpecLemmas Parser.
Import ListNotations.
Open Scope list_scope.

Inductive atom :=
| ALeaf (lt : list token) (l : leaf) (imp : impdata)
| APar (e : expr)
| ANot (e : expr)
with tail :=
| TNil
| TAnd (a : atom) (t : tail)
| TOr (e : expr)
with expr :=
| EX (a : atom) (t : tail).

Scheme atom_m := Induction for atom Sort Prop
  with tail_m := Induction for tail Sort Prop
  with expr_m := Induction for expr Sort Prop.
Combined Scheme surface_mutind from atom_m, tail_m, expr_m.

Definition tk (ty : toktype) : token := {| ttype := ty; tlit := []; tline := 0; tsb := 0; tsu := 0; teline := 0; teb := 0; teu := 0 |}.

Fixpoint print_atom (a : atom) : list token :=
  match a with
  | ALeaf lt _ _ => lt
  | APar e => tk LPAREN :: print_expr e ++ [tk RPAREN]
  | ANot e => tk NOT :: tk LPAREN :: print_expr e ++ [tk RPAREN]
  end
with print_tail (t : tail) : list token :=
  match t with
  | TNil => []
  | TAnd a t' => tk AND :: print_atom a ++ print_tail t'
  | TOr e => tk OR :: print_expr e
  end
with print_expr (e : expr) : list token :=
  match e with EX a t => print_atom a ++ print_tail t end.

(* the tree the parser must build; [n] = an odd number of enclosing '!(' *)
Definition andop (n : bool) : bop := if n then BOr else BAnd.
Definition orop (n : bool) : bop := if n then BAnd else BOr.
Fixpoint tree_atom (n : bool) (a : atom) : bexp :=
  match a with
  | ALeaf _ l _ => BLeaf (if n then neg_leaf l else l)
  | APar e => tree_expr n e
  | ANot e => tree_expr (negb n) e
  end
with tree_tail (n : bool) (L : bexp) (t : tail) : bexp :=
  match t with
  | TNil => L
  | TAnd a t' => tree_tail n (BBin (andop n) L (tree_atom n a)) t'
  | TOr e => BBin (orop n) L (tree_expr n e)
  end
with tree_expr (n : bool) (e : expr) : bexp :=
  match e with EX a t => tree_tail n (tree_atom n a) t end.

(* fuel the parser needs *)
Section F.
Variable F0 : nat.     (* fuel sufficient for every leaf *)
Fixpoint need_atom (a : atom) : nat :=
  match a with ALeaf lt _ _ => S (F0 + List.length lt) | APar e => S (need_expr e) | ANot e => S (need_expr e) end
with need_tail (t : tail) : nat :=
  match t with TNil => 1 | TAnd a t' => S (need_atom a + need_tail t') | TOr e => S (need_expr e) end
with need_expr (e : expr) : nat :=
  match e with EX a t => S (need_atom a + need_tail t) end.
End F.
Lemma need_leaf F0 lt l i : need_atom F0 (ALeaf lt l i) = S (F0 + List.length lt). Proof. reflexivity. Qed.
Lemma need_par F0 e : need_atom F0 (APar e) = S (need_expr F0 e). Proof. reflexivity. Qed.
Lemma need_not F0 e : need_atom F0 (ANot e) = S (need_expr F0 e). Proof. reflexivity. Qed.
Lemma need_nil F0 : need_tail F0 TNil = 1%nat. Proof. reflexivity. Qed.
Lemma need_and F0 a t : need_tail F0 (TAnd a t) = S (need_atom F0 a + need_tail F0 t). Proof. reflexivity. Qed.
Lemma need_or F0 e : need_tail F0 (TOr e) = S (need_expr F0 e). Proof. reflexivity. Qed.
Lemma need_ex F0 a t : need_expr F0 (EX a t) = S (need_atom F0 a + need_tail F0 t). Proof. reflexivity. Qed.
Ltac need_simpl H := rewrite ?need_leaf, ?need_par, ?need_not, ?need_nil, ?need_and, ?need_or, ?need_ex in H.

Definition imp_eq (a b : impdata) : Prop := idT a = idT b /\ idM a = idM b.
Lemma imp_eq_refl a : imp_eq a a. Proof. split; reflexivity. Qed.
Lemma imp_eq_add a a' b b' : imp_eq a a' -> imp_eq b b' -> imp_eq (impadd a b) (impadd a' b').
Proof. intros [H1 H2] [H3 H4]. unfold imp_eq, impadd. cbn. rewrite H1, H2, H3, H4. split; reflexivity. Qed.
Lemma imp_eq_add0 a a' : imp_eq a a' -> imp_eq (impadd a imp0) a'.
Proof. intros [H1 H2]. unfold imp_eq, impadd. cbn. rewrite !app_nil_r. auto. Qed.
Lemma imp_eq_trans a b c : imp_eq a b -> imp_eq b c -> imp_eq a c.
Proof. intros [H1 H2] [H3 H4]. split; congruence. Qed.

Fixpoint imp_atom (a : atom) : impdata :=
  match a with ALeaf _ _ imp => imp | APar e => imp_expr e | ANot e => imp_expr e end
with imp_tail (t : tail) : impdata :=
  match t with TNil => imp0 | TAnd a t' => impadd (imp_atom a) (imp_tail t') | TOr e => imp_expr e end
with imp_expr (e : expr) : impdata :=
  match e with EX a t => impadd (imp_atom a) (imp_tail t) end.

Ltac tteval := repeat match goal with |- context[tt_eqb ?a ?b] => is_constructor a; is_constructor b; let v := eval vm_compute in (tt_eqb a b) in change (tt_eqb a b) with v end.
Ltac isk E := unfold is; rewrite ?E; tteval.

Section PARSE.
Variable autovars : list (text * autovar).
Variable switches : list (text * text).
Variable env_errors : bool.
Variable parse_format : toks -> res (token * text * text * toks).
Variable consts : list (text * text).
Variable script : text.
Variable F0 : nat.

Notation bool_expr := (bool_expr autovars switches env_errors parse_format consts).
Notation right_side := (right_side autovars switches env_errors parse_format consts).
Notation leaf_expr := (leaf_expr autovars switches env_errors parse_format consts).

(* what is assumed of a leaf: it does not start like a parenthesised group, and the leaf parser turns exactly its tokens
   into [l] (with the inline texts/movements [imp]) and stops at the next token *)
(* what follows an expression is the closing parenthesis; what follows a leaf is an operator or the closing parenthesis *)
Definition stop (rest : list token) : Prop := exists x r, rest = x :: r /\ ttype x = RPAREN.
Definition follow (R : list token) : Prop := exists x r, R = x :: r /\ (ttype x = AND \/ ttype x = OR \/ ttype x = RPAREN).

Definition leaf_spec (lt : list token) (l : leaf) (imp : impdata) : Prop :=
  (exists x r, lt = x :: r /\ ttype x <> LPAREN /\ (ttype x = NOT -> exists y r', r = y :: r' /\ ttype y <> LPAREN)) /\
  forall f pre rest, (F0 + List.length lt <= f)%nat -> follow rest -> leaf_expr f script (pre :: lt ++ rest) = Ok (l, imp, rest).

Fixpoint wf_atom (a : atom) : Prop :=
  match a with ALeaf lt l imp => leaf_spec lt l imp | APar e => wf_expr e | ANot e => wf_expr e end
with wf_tail (t : tail) : Prop :=
  match t with TNil => True | TAnd a t' => wf_atom a /\ wf_tail t' | TOr e => wf_expr e end
with wf_expr (e : expr) : Prop :=
  match e with EX a t => wf_atom a /\ wf_tail t end.


Lemma is_true ty x : ttype x = ty -> is ty x = true.
Proof. intros H. unfold is, tt_eqb. rewrite H. destruct (toktype_eq_dec ty ty); [reflexivity|congruence]. Qed.
Lemma is_false ty x : ttype x <> ty -> is ty x = false.
Proof. intros H. unfold is, tt_eqb. destruct (toktype_eq_dec (ttype x) ty); [congruence|reflexivity]. Qed.

Definition Pexpr (e : expr) : Prop := wf_expr e -> forall n pre rest f, (need_expr F0 e <= f)%nat -> stop rest ->
  exists imp', bool_expr f false n script (pre :: print_expr e ++ rest) = Ok (tree_expr n e, imp', rest) /\ imp_eq imp' (imp_expr e).
Definition Patom (a : atom) : Prop :=
  (wf_atom a -> forall n pre R f, (need_atom F0 a <= f)%nat -> follow R ->
     exists imp', bool_expr f true n script (pre :: print_atom a ++ R) = Ok (tree_atom n a, imp', R) /\ imp_eq imp' (imp_atom a)) /\
  match a with APar e | ANot e => Pexpr e | ALeaf _ _ _ => True end.
Definition Ptail (t : tail) : Prop := wf_tail t -> forall n L rest f, (need_tail F0 t <= f)%nat -> stop rest ->
  exists imp', right_side f L false n script (print_tail t ++ rest) = Ok (tree_tail n L t, imp', rest) /\ imp_eq imp' (imp_tail t).


Lemma peekis_cons ty a b r : peekis ty (a :: b :: r) = is ty b.
Proof. reflexivity. Qed.
Lemma curis_cons ty a r : curis ty (a :: r) = is ty a.
Proof. reflexivity. Qed.
Lemma adv_cons2 a b r : adv (a :: b :: r) = b :: r.
Proof. reflexivity. Qed.
Lemma pk2_cons a b c r : pk 2 (a :: b :: c :: r) = c.
Proof. reflexivity. Qed.
Lemma leaf_guard pre x r R : ttype x <> LPAREN -> (ttype x = NOT -> exists y r', r = y :: r' /\ ttype y <> LPAREN) ->
  peekis LPAREN (pre :: (x :: r) ++ R) = false /\ peekis NOT (pre :: (x :: r) ++ R) && is LPAREN (pk 2 (pre :: (x :: r) ++ R)) = false.
Proof.
  intros NL NN. cbn [app]. rewrite !peekis_cons. split; [apply is_false; exact NL|].
  destruct (toktype_eq_dec (ttype x) NOT) as [E|E].
  - destruct (NN E) as (y & r' & -> & NY). cbn [app]. rewrite pk2_cons. rewrite (is_false LPAREN y NY). apply andb_false_r.
  - rewrite (is_false NOT x E). reflexivity.
Qed.

Lemma print_par e R : print_atom (APar e) ++ R = tk LPAREN :: print_expr e ++ tk RPAREN :: R.
Proof. cbn [print_atom app]. rewrite <- app_assoc. reflexivity. Qed.
Lemma print_not e R : print_atom (ANot e) ++ R = tk NOT :: tk LPAREN :: print_expr e ++ tk RPAREN :: R.
Proof. cbn [print_atom app]. rewrite <- app_assoc. reflexivity. Qed.

Lemma stop_nonempty rest : stop rest -> rest <> [].
Proof. intros (x & r & -> & _). discriminate. Qed.

(* after the first atom of an expression the parser continues with the tail *)
Lemma follow_nonempty R : follow R -> R <> [].
Proof. intros (x & r & -> & _). discriminate. Qed.
Lemma first_tok_tail t rest : stop rest -> exists x r, print_tail t ++ rest = x :: r /\
  match t with TNil => ttype x = RPAREN | TAnd _ _ => ttype x = AND | TOr _ => ttype x = OR end.
Proof.
  intros (x & r & -> & H1). destruct t as [|a t'|e]; cbn.
  - exists x, r. auto.
  - eexists _, _. split; reflexivity.
  - eexists _, _. split; reflexivity.
Qed.
Lemma follow_tail t rest : stop rest -> follow (print_tail t ++ rest).
Proof. intros ST. destruct (first_tok_tail t rest ST) as (x & r & -> & H). exists x, r. split; [reflexivity|]. destruct t; auto. Qed.


Theorem parser_builds_tree :
  (forall a, Patom a) /\
  (forall t, Ptail t) /\
  (forall e, Pexpr e).
Proof.
  apply surface_mutind.
  - (* leaf atom *)
    intros lt l imp. split; [|exact I]. intros [(x & r & -> & NL & NN) LS] n pre R f Hf HR. need_simpl Hf.
    destruct f as [|f]; [lia|]. rewrite bool_expr_unfold. cbn zeta.
    cbn [print_atom]. destruct (leaf_guard pre x r R NL NN) as [G1 G2].
    rewrite G1, G2. cbn [orb]. cbn [print_atom]. rewrite (LS f pre R ltac:(lia) HR). cbn beta iota.
    eexists. split; [reflexivity|apply imp_eq_refl].
  - (* ( e ) *)
    intros e IHe. split; [|exact IHe]. intros W n pre R f Hf HR. need_simpl Hf. destruct f as [|f]; [lia|].
    rewrite bool_expr_unfold. cbn zeta. rewrite print_par.
    assert (G1 : peekis LPAREN (pre :: tk LPAREN :: print_expr e ++ tk RPAREN :: R) = true) by reflexivity.
    rewrite G1. cbn [orb]. cbn [adv]. 
    destruct (IHe W n (tk LPAREN) (tk RPAREN :: R) f ltac:(lia)) as (imp' & E & IE).
    { exists (tk RPAREN), R. split; reflexivity. }
    change (adv (pre :: tk LPAREN :: print_expr e ++ tk RPAREN :: R)) with (tk LPAREN :: print_expr e ++ tk RPAREN :: R).
    rewrite E. cbn beta iota. rewrite curis_cons; change (is RPAREN (tk RPAREN)) with true; cbn [negb andb].
    destruct HR as (y & R' & -> & _). eexists. split; [reflexivity|exact IE].
  - (* ! ( e ) *)
    intros e IHe. split; [|exact IHe]. intros W n pre R f Hf HR. need_simpl Hf. destruct f as [|f]; [lia|].
    rewrite bool_expr_unfold. cbn zeta. rewrite print_not.
    assert (G1 : peekis LPAREN (pre :: tk NOT :: tk LPAREN :: print_expr e ++ tk RPAREN :: R) = false) by reflexivity.
    assert (G2 : peekis NOT (pre :: tk NOT :: tk LPAREN :: print_expr e ++ tk RPAREN :: R) && is LPAREN (pk 2 (pre :: tk NOT :: tk LPAREN :: print_expr e ++ tk RPAREN :: R)) = true) by reflexivity.
    rewrite G1, G2. cbn [orb].
    destruct (IHe W (negb n) (tk LPAREN) (tk RPAREN :: R) f ltac:(lia)) as (imp' & E & IE).
    { exists (tk RPAREN), R. split; reflexivity. }
    change (adv (adv (pre :: tk NOT :: tk LPAREN :: print_expr e ++ tk RPAREN :: R))) with (tk LPAREN :: print_expr e ++ tk RPAREN :: R).
    rewrite E. cbn beta iota. rewrite curis_cons; change (is RPAREN (tk RPAREN)) with true; cbn [negb andb].
    destruct HR as (y & R' & -> & _). eexists. split; [reflexivity|exact IE].
  - (* empty tail *)
    intros _ n L rest f Hf (x & r & -> & N0). need_simpl Hf. destruct f as [|f]; [lia|].
    assert (N1 : ttype x <> AND) by congruence. assert (N2 : ttype x <> OR) by congruence.
    rewrite right_side_unfold. cbn [print_tail app]. rewrite !curis_cons. rewrite (is_false AND x N1), (is_false OR x N2).
    eexists. split; [reflexivity|apply imp_eq_refl].
  - (* && atom tail *)
    intros a [IHa _] t IHt [Wa Wt] n L rest f Hf ST. need_simpl Hf. destruct f as [|f]; [lia|].
    rewrite right_side_unfold. cbn [print_tail app]. assert (C1 : curis AND (tk AND :: print_atom a ++ print_tail t ++ rest) = true) by reflexivity.
    rewrite <- app_assoc. rewrite C1.
    destruct (IHa Wa n (tk AND) (print_tail t ++ rest) f ltac:(lia)) as (imp1 & E1 & I1).
    { apply follow_tail; exact ST. }
    rewrite E1. cbn beta iota.
    destruct (IHt Wt n (BBin (if n then BOr else BAnd) L (tree_atom n a)) rest f ltac:(lia) ST) as (imp2 & E2 & I2).
    rewrite E2. cbn beta iota. eexists. split; [reflexivity|]. apply imp_eq_add; assumption.
  - (* || expr *)
    intros e IHe We n L rest f Hf ST. need_simpl Hf. destruct f as [|f]; [lia|].
    rewrite right_side_unfold. cbn [print_tail app].
    assert (C1 : curis AND (tk OR :: print_expr e ++ rest) = false) by reflexivity.
    assert (C2 : curis OR (tk OR :: print_expr e ++ rest) = true) by reflexivity.
    rewrite C1, C2. destruct (IHe We n (tk OR) rest f ltac:(lia) ST) as (imp1 & E1 & I1). rewrite E1. cbn beta iota.
    eexists. split; [reflexivity|exact I1].
  - (* atom tail, not in single-operand mode *)
    intros a [IHa IHin] t IHt [Wa Wt] n pre rest f Hf ST. need_simpl Hf. destruct f as [|f]; [lia|].
    pose proof (stop_nonempty _ ST) as NE.
    destruct (first_tok_tail t rest ST) as (x & r & ER & HX).
    rewrite bool_expr_unfold. cbn zeta. cbn [print_expr]. rewrite <- app_assoc.
    destruct a as [lt l imp|e|e].
    + (* leaf first *)
      destruct Wa as [(x0 & r0 & -> & NL & NN) LS].
      cbn [print_atom]. destruct (leaf_guard pre x0 r0 (print_tail t ++ rest) NL NN) as [G1 G2].
      rewrite G1, G2. cbn [orb]. cbn [print_atom].
      rewrite (LS f pre (print_tail t ++ rest) ltac:(need_simpl Hf; lia)) by (apply follow_tail; exact ST). cbn beta iota.
      destruct (IHt Wt n (BLeaf (if n then neg_leaf l else l)) rest f ltac:(lia) ST) as (imp2 & E2 & I2).
      rewrite E2. cbn beta iota. eexists. split; [reflexivity|]. cbn [imp_expr imp_atom]. apply imp_eq_add; [apply imp_eq_refl|exact I2].
    + (* ( e ) first *)
      rewrite print_par.
      assert (G1 : peekis LPAREN (pre :: tk LPAREN :: print_expr e ++ tk RPAREN :: print_tail t ++ rest) = true) by reflexivity.
      rewrite G1. cbn [orb].
      destruct (IHin Wa n (tk LPAREN) (tk RPAREN :: print_tail t ++ rest) f ltac:(need_simpl Hf; lia)) as (imp1 & E1 & I1).
      { exists (tk RPAREN), (print_tail t ++ rest). split; reflexivity. }
      change (adv (pre :: tk LPAREN :: print_expr e ++ tk RPAREN :: print_tail t ++ rest)) with (tk LPAREN :: print_expr e ++ tk RPAREN :: print_tail t ++ rest).
      rewrite E1. cbn beta iota. rewrite curis_cons; change (is RPAREN (tk RPAREN)) with true; cbn [negb andb].
      rewrite ER. rewrite !peekis_cons, ?adv_cons2.
      destruct t as [|a' t'|e'].
      * assert (N1 : ttype x <> AND) by congruence. assert (N2 : ttype x <> OR) by congruence. rewrite (is_false AND x N1), (is_false OR x N2). cbn [orb].
        cbn [print_tail app] in ER. subst rest. eexists. split; [reflexivity|].
        cbn [imp_expr imp_atom imp_tail]. apply imp_eq_trans with (b := imp_expr e); [exact I1|].
        split; cbn; now rewrite app_nil_r.
      * rewrite (is_true AND x HX). cbn [orb]. rewrite <- ER.
        destruct (IHt Wt n (tree_expr n e) rest f ltac:(lia) ST) as (imp2 & E2 & I2). rewrite E2. cbn beta iota.
        eexists. split; [reflexivity|]. apply imp_eq_add; assumption.
      * rewrite (is_true OR x HX). rewrite orb_true_r. rewrite <- ER.
        destruct (IHt Wt n (tree_expr n e) rest f ltac:(lia) ST) as (imp2 & E2 & I2). rewrite E2. cbn beta iota.
        eexists. split; [reflexivity|]. apply imp_eq_add; assumption.
    + (* ! ( e ) first *)
      rewrite print_not.
      assert (G1 : peekis LPAREN (pre :: tk NOT :: tk LPAREN :: print_expr e ++ tk RPAREN :: print_tail t ++ rest) = false) by reflexivity.
      assert (G2 : peekis NOT (pre :: tk NOT :: tk LPAREN :: print_expr e ++ tk RPAREN :: print_tail t ++ rest) && is LPAREN (pk 2 (pre :: tk NOT :: tk LPAREN :: print_expr e ++ tk RPAREN :: print_tail t ++ rest)) = true) by reflexivity.
      rewrite G1, G2. cbn [orb].
      destruct (IHin Wa (negb n) (tk LPAREN) (tk RPAREN :: print_tail t ++ rest) f ltac:(need_simpl Hf; lia)) as (imp1 & E1 & I1).
      { exists (tk RPAREN), (print_tail t ++ rest). split; reflexivity. }
      change (adv (adv (pre :: tk NOT :: tk LPAREN :: print_expr e ++ tk RPAREN :: print_tail t ++ rest))) with (tk LPAREN :: print_expr e ++ tk RPAREN :: print_tail t ++ rest).
      rewrite E1. cbn beta iota. rewrite curis_cons; change (is RPAREN (tk RPAREN)) with true; cbn [negb andb].
      rewrite ER. rewrite !peekis_cons, ?adv_cons2.
      destruct t as [|a' t'|e'].
      * assert (N1 : ttype x <> AND) by congruence. assert (N2 : ttype x <> OR) by congruence. rewrite (is_false AND x N1), (is_false OR x N2). cbn [orb].
        cbn [print_tail app] in ER. subst rest. eexists. split; [reflexivity|].
        cbn [imp_expr imp_atom imp_tail]. apply imp_eq_trans with (b := imp_expr e); [exact I1|].
        split; cbn; now rewrite app_nil_r.
      * rewrite (is_true AND x HX). cbn [orb]. rewrite <- ER.
        destruct (IHt Wt n (tree_expr (negb n) e) rest f ltac:(lia) ST) as (imp2 & E2 & I2). rewrite E2. cbn beta iota.
        eexists. split; [reflexivity|]. apply imp_eq_add; assumption.
      * rewrite (is_true OR x HX). rewrite orb_true_r. rewrite <- ER.
        destruct (IHt Wt n (tree_expr (negb n) e) rest f ltac:(lia) ST) as (imp2 & E2 & I2). rewrite E2. cbn beta iota.
        eexists. split; [reflexivity|]. apply imp_eq_add; assumption.
Qed.

(* ---------- the leaf forms without AutoVar commands and without value(): leaf_spec holds for them ---------- *)
Definition cr (x : token) : text := creplace consts (tlit x).
Definition opnd (ops : list token) : text := join sp (map cr ops).

Lemma adv_cons_ne a l : l <> [] -> adv (a :: l) = l.
Proof. destruct l; [congruence|reflexivity]. Qed.

Lemma collect_until_spec stopf : forall ops x r parts f,
  Forall (fun k => stopf k = false) ops -> Forall (fun k => ttype k <> EOF) ops -> stopf x = true -> ttype x <> EOF ->
  (List.length ops < f)%nat ->
  collect_until consts f stopf (ops ++ x :: r) parts = Some (parts ++ map cr ops, x :: r).
Proof.
  induction ops as [|o ops IH]; intros x r parts f H1 H2 Hx Hx' Hf.
  - destruct f; [cbn in Hf; lia|]. cbn. rewrite Hx. rewrite app_nil_r. reflexivity.
  - destruct f; [cbn in Hf; lia|]. inversion H1 as [|? ? S1 S2]; subst. inversion H2 as [|? ? E1 E2]; subst.
    cbn [app collect_until cur hd]. rewrite S1. rewrite adv_cons_ne by (destruct ops; discriminate).
    assert (C : curis EOF (ops ++ x :: r) = false).
    { destruct ops as [|o2 ops2]; cbn [app]; rewrite curis_cons; apply is_false; [exact Hx'|]. inversion E2; assumption. }
    rewrite C. rewrite (IH x r _ f S2 E2 Hx Hx') by (cbn in Hf; lia). cbn [map]. rewrite <- app_assoc. reflexivity.
Qed.

Definition kindtok (k : token) : Prop := ttype k = VAR \/ ttype k = FLAG \/ ttype k = DEFEATED.
Definition kind_of (k : token) : lkind := if is VAR k then KVar else if is FLAG k then KFlag else KDefeated.
Definition operand_ok (ops : list token) : Prop := ops <> [] /\ Forall (fun k => ttype k <> RPAREN /\ ttype k <> EOF) ops.
Definition mkleaf (k : token) (ops : list token) (o : cmpop) (v : text) (strict : bool) : leaf :=
  {| lk := kind_of k; loperand := opnd ops; lline := tline (hd eof0 ops); lop := o; lvalue := v; lstrict := strict; lpre := None |}.

Lemma operand_collect ops rp r f : operand_ok ops -> ttype rp = RPAREN -> (List.length ops < f)%nat ->
  collect_until consts f (is RPAREN) (ops ++ rp :: r) [] = Some (map cr ops, rp :: r).
Proof.
  intros [_ H] Hr Hf. rewrite (collect_until_spec (is RPAREN) ops rp r [] f); [reflexivity| | | | |exact Hf].
  - eapply Forall_impl; [|exact H]. intros a [A _]. apply is_false; exact A.
  - eapply Forall_impl; [|exact H]. intros a [_ A]. exact A.
  - apply is_true; exact Hr.
  - congruence.
Qed.


(* what the leaf parser does after 'K ( operand )' *)
Definition leaf_tail (f : nat) (k : token) (ops : list token) (R : toks) : res (leaf * impdata * toks) :=
  match kind_of k with
  | KVar => do (o, v, strict, ts5) <- cond_var_operator consts f R; Ok (mkleaf k ops o v strict, imp0, ts5)
  | KFlag => do (o, v, ts5) <- cond_flag_operator R "flag"; Ok (mkleaf k ops o v false, imp0, ts5)
  | KDefeated => do (o, v, ts5) <- cond_flag_operator R "defeated"; Ok (mkleaf k ops o v false, imp0, ts5)
  end.

Lemma leaf_head f pre k lp ops rp R : kindtok k -> ttype lp = LPAREN -> operand_ok ops -> ttype rp = RPAREN -> R <> [] ->
  (List.length ops < f)%nat ->
  leaf_expr f script (pre :: k :: lp :: ops ++ rp :: R) = leaf_tail f k ops R.
Proof.
  intros Hk Hlp Hops Hrp HR Hf.
  pose proof (operand_collect ops rp R f Hops Hrp Hf) as HC.
  destruct Hops as [NE HO]. destruct ops as [|o1 ops']; [congruence|]. inversion HO as [|? ? [O1 O1'] HO']; subst.
  unfold leaf_expr. cbn [app].
  rewrite (peekis_cons NOT pre k).
  assert (KN : is NOT k = false) by (destruct Hk as [E|[E|E]]; isk E; reflexivity). rewrite KN. cbn beta iota zeta.
  unfold peek_is_autovar. rewrite !peekis_cons.
  assert (KI : is IDENT k = false) by (destruct Hk as [E|[E|E]]; isk E; reflexivity). rewrite KI. cbn [andb negb].
  assert (KG : negb (is VAR k) && true && negb (is FLAG k) && negb (is DEFEATED k) = false) by (destruct Hk as [E|[E|E]]; isk E; reflexivity).
  rewrite KG. rewrite adv_cons2. unfold expect_peek. rewrite peekis_cons, (is_true LPAREN lp Hlp). rewrite adv_cons2.
  rewrite peekis_cons, (is_false RPAREN o1 O1). rewrite adv_cons2. cbn [app] in HC. rewrite HC.
  rewrite (adv_cons_ne rp R HR). unfold leaf_tail, mkleaf, opnd, kind_of. cbn [cur hd].
  destruct (is VAR k); [reflexivity|]. destruct (is FLAG k); reflexivity.
Qed.

Lemma leaf_head_not f pre nt k lp ops rp R : ttype nt = NOT -> kindtok k -> ttype lp = LPAREN -> operand_ok ops -> ttype rp = RPAREN -> R <> [] ->
  (List.length ops < f)%nat ->
  leaf_expr f script (pre :: nt :: k :: lp :: ops ++ rp :: R) =
  Ok (mkleaf k ops OEq (match kind_of k with KVar => t "0" | _ => t "FALSE" end) false, imp0, R).
Proof.
  intros Hnt Hk Hlp Hops Hrp HR Hf.
  pose proof (operand_collect ops rp R f Hops Hrp Hf) as HC.
  destruct Hops as [NE HO]. destruct ops as [|o1 ops']; [congruence|]. inversion HO as [|? ? [O1 O1'] HO']; subst.
  unfold leaf_expr. cbn [app].
  rewrite (peekis_cons NOT pre nt). rewrite (is_true NOT nt Hnt). rewrite adv_cons2. cbn beta iota zeta.
  unfold peek_is_autovar. rewrite !peekis_cons.
  assert (KI : is IDENT k = false) by (destruct Hk as [E|[E|E]]; isk E; reflexivity). rewrite KI. cbn [andb negb].
  assert (KG : negb (is VAR k) && true && negb (is FLAG k) && negb (is DEFEATED k) = false) by (destruct Hk as [E|[E|E]]; isk E; reflexivity).
  rewrite KG. rewrite adv_cons2. unfold expect_peek. rewrite peekis_cons, (is_true LPAREN lp Hlp). rewrite adv_cons2.
  rewrite peekis_cons, (is_false RPAREN o1 O1). rewrite adv_cons2. cbn [app] in HC. rewrite HC.
  rewrite (adv_cons_ne rp R HR). unfold mkleaf, opnd, kind_of. cbn [cur hd]. cbn beta iota zeta.
  destruct (is VAR k); [reflexivity|]. destruct (is FLAG k); reflexivity.
Qed.

Lemma kindtok_not_lparen k : kindtok k -> ttype k <> LPAREN /\ ttype k <> NOT.
Proof. intros [E|[E|E]]; rewrite E; split; discriminate. Qed.

(* K ( operand ) : set / non-zero *)
Lemma leaf_bare k lp ops rp : (1 <= F0)%nat -> kindtok k -> ttype lp = LPAREN -> operand_ok ops -> ttype rp = RPAREN ->
  leaf_spec (k :: lp :: ops ++ [rp])
            (mkleaf k ops (match kind_of k with KVar => ONe | _ => OEq end) (match kind_of k with KVar => t "0" | _ => t "TRUE" end) false) imp0.
Proof.
  intros HF Hk Hlp Hops Hrp. split.
  - exists k, (lp :: ops ++ [rp]). split; [reflexivity|]. destruct (kindtok_not_lparen k Hk) as [A B]. split; [exact A|congruence].
  - intros f pre rest Hf (x & r & -> & Hx). cbn [List.length] in Hf. rewrite app_length in Hf. cbn [List.length] in Hf.
    cbn [app]. rewrite <- app_assoc. cbn [app].
    rewrite (leaf_head f pre k lp ops rp (x :: r) Hk Hlp Hops Hrp ltac:(discriminate) ltac:(lia)).
    unfold leaf_tail. destruct (kind_of k).
    + unfold cond_flag_operator. cbn [cur hd]. destruct Hx as [E|[E|E]]; rewrite E; reflexivity.
    + unfold cond_var_operator, is_cmp_tok. cbn [cur hd]. destruct Hx as [E|[E|E]]; rewrite E; reflexivity.
    + unfold cond_flag_operator. cbn [cur hd]. destruct Hx as [E|[E|E]]; rewrite E; reflexivity.
Qed.

(* ! K ( operand ) : unset / zero *)
Lemma leaf_not nt k lp ops rp : (1 <= F0)%nat -> ttype nt = NOT -> kindtok k -> ttype lp = LPAREN -> operand_ok ops -> ttype rp = RPAREN ->
  leaf_spec (nt :: k :: lp :: ops ++ [rp])
            (mkleaf k ops OEq (match kind_of k with KVar => t "0" | _ => t "FALSE" end) false) imp0.
Proof.
  intros HF Hnt Hk Hlp Hops Hrp. split.
  - exists nt, (k :: lp :: ops ++ [rp]). split; [reflexivity|]. split; [congruence|]. intros _.
    exists k, (lp :: ops ++ [rp]). split; [reflexivity|]. apply (kindtok_not_lparen k Hk).
  - intros f pre rest Hf FR. cbn [List.length] in Hf. rewrite app_length in Hf. cbn [List.length] in Hf.
    cbn [app]. rewrite <- app_assoc. cbn [app].
    apply (leaf_head_not f pre nt k lp ops rp rest Hnt Hk Hlp Hops Hrp (follow_nonempty _ FR)). lia.
Qed.

(* flag ( operand ) ==|!= TRUE|FALSE *)
Lemma leaf_flagcmp k lp ops rp o v : (1 <= F0)%nat -> ttype k = FLAG \/ ttype k = DEFEATED -> ttype lp = LPAREN -> operand_ok ops -> ttype rp = RPAREN ->
  ttype o = EQ \/ ttype o = NEQ -> ttype v = TRUE \/ ttype v = FALSE ->
  leaf_spec (k :: lp :: ops ++ [rp; o; v])
            (mkleaf k ops (if is EQ o then OEq else ONe) (if is TRUE v then t "TRUE" else t "FALSE") false) imp0.
Proof.
  intros HF Hk Hlp Hops Hrp Ho Hv. assert (Hk' : kindtok k) by (unfold kindtok; tauto). split.
  - exists k, (lp :: ops ++ [rp; o; v]). split; [reflexivity|]. destruct (kindtok_not_lparen k Hk') as [A B]. split; [exact A|congruence].
  - intros f pre rest Hf FR. cbn [List.length] in Hf. rewrite app_length in Hf. cbn [List.length] in Hf.
    cbn [app]. rewrite <- app_assoc. cbn [app].
    rewrite (leaf_head f pre k lp ops rp (o :: v :: rest) Hk' Hlp Hops Hrp ltac:(discriminate) ltac:(lia)).
    pose proof (follow_nonempty _ FR) as NE.
    assert (T : cond_flag_operator (o :: v :: rest) "flag" = Ok (if is EQ o then OEq else ONe, if is TRUE v then t "TRUE" else t "FALSE", rest) /\
                cond_flag_operator (o :: v :: rest) "defeated" = Ok (if is EQ o then OEq else ONe, if is TRUE v then t "TRUE" else t "FALSE", rest)).
    { unfold cond_flag_operator. cbn [cur hd]. rewrite adv_cons2, !curis_cons, (adv_cons_ne v rest NE).
      destruct Ho as [Eo|Eo], Hv as [Ev|Ev]; rewrite Eo; isk Eo; isk Ev; split; reflexivity. }
    destruct T as [T1 T2]. unfold leaf_tail, kind_of. destruct Hk as [E|E]; isk E; [rewrite T1|rewrite T2]; reflexivity.
Qed.

(* var ( operand ) OP value-tokens *)
Definition value_ok (vals : list token) : Prop :=
  vals <> [] /\ ttype (hd eof0 vals) <> VALUE /\
  Forall (fun k => ttype k <> RPAREN /\ ttype k <> AND /\ ttype k <> OR /\ ttype k <> EOF) vals.

Lemma leaf_varcmp k lp ops rp o op vals : (1 <= F0)%nat -> ttype k = VAR -> ttype lp = LPAREN -> operand_ok ops -> ttype rp = RPAREN ->
  is_cmp_tok o = Some op -> value_ok vals ->
  leaf_spec (k :: lp :: ops ++ rp :: o :: vals) (mkleaf k ops op (opnd vals) false) imp0.
Proof.
  intros HF Hk Hlp Hops Hrp Ho (VN & VH & VF). assert (Hk' : kindtok k) by (unfold kindtok; tauto). split.
  - exists k, (lp :: ops ++ rp :: o :: vals). split; [reflexivity|]. destruct (kindtok_not_lparen k Hk') as [A B]. split; [exact A|congruence].
  - intros f pre rest Hf (x & r & -> & Hx). cbn [List.length] in Hf. rewrite app_length in Hf. cbn [List.length] in Hf.
    cbn [app]. rewrite <- app_assoc. cbn [app].
    rewrite (leaf_head f pre k lp ops rp (o :: vals ++ x :: r) Hk' Hlp Hops Hrp ltac:(discriminate) ltac:(lia)).
    unfold leaf_tail, kind_of. isk Hk. unfold cond_var_operator. cbn [cur hd]. rewrite Ho.
    assert (NE : vals ++ x :: r <> []) by (destruct vals; discriminate). rewrite (adv_cons_ne o _ NE).
    destruct vals as [|v1 vals']; [congruence|]. inversion VF as [|? ? (V1 & V2 & V3 & V4) VF']; subst. cbn [hd] in VH.
    cbn [app]. rewrite !curis_cons, (is_false RPAREN v1 V1), (is_false VALUE v1 VH).
    change (v1 :: vals' ++ x :: r) with ((v1 :: vals') ++ x :: r).
    rewrite (collect_until_spec (fun tk0 => is RPAREN tk0 || is AND tk0 || is OR tk0) (v1 :: vals') x r [] f).
    + reflexivity.
    + eapply Forall_impl; [|exact VF]. intros a (A1 & A2 & A3 & _). rewrite (is_false _ a A1), (is_false _ a A2), (is_false _ a A3). reflexivity.
    + eapply Forall_impl; [|exact VF]. intros a (_ & _ & _ & A4). exact A4.
    + destruct Hx as [E|[E|E]]; isk E; reflexivity.
    + destruct Hx as [E|[E|E]]; rewrite E; discriminate.
    + cbn [List.length] in *. lia.
Qed.
End PARSE.

(* ================= Theorem B: the tree means the written expression ================= *)
Section SEMB.
Variable St : Type.
Variable exec : cmd -> St -> stepres St.
Variable flag_set trainer_beaten : text -> St -> bool.
Variable cmp_var cmp_var_value : text -> text -> St -> comparison.
Notation ev := (eval_bexp St exec flag_set trainer_beaten cmp_var cmp_var_value).
Notation evl := (eval_leaf St exec flag_set trainer_beaten cmp_var cmp_var_value).
Notation lh := (leaf_holds St flag_set trainer_beaten cmp_var cmp_var_value).

Definition result := (list event * St * option bool)%type.
Definition negif (n : bool) (r : result) : result := let '(e, s, v) := r in (e, s, if n then option_map negb v else v).

(* evaluation of the written expression: left to right, '&&' stops at the first false operand, '||' at the first true one,
   '!( )' negates the value of the group; a leaf runs its AutoVar command (if any) and tests *)
Definition and_then (acc : result) (g : St -> result) : result :=
  match acc with
  | (e, s, Some true) => let '(e2, s2, r) := g s in (e ++ e2, s2, r)
  | _ => acc
  end.
Definition or_else (acc : result) (g : St -> result) : result :=
  match acc with
  | (e, s, Some false) => let '(e2, s2, r) := g s in (e ++ e2, s2, r)
  | _ => acc
  end.
Fixpoint sev_atom (a : atom) (s : St) : result :=
  match a with ALeaf _ l _ => evl l s | APar e => sev_expr e s | ANot e => negif true (sev_expr e s) end
with sev_tail (t : tail) (acc : result) : result :=
  match t with TNil => acc | TAnd a t' => sev_tail t' (and_then acc (sev_atom a)) | TOr e => or_else acc (sev_expr e) end
with sev_expr (e : expr) (s : St) : result :=
  match e with EX a t => sev_tail t (sev_atom a s) end.

(* leaves as the parser produces them: a flag-like leaf compares ==/!= against TRUE/FALSE *)
Definition leaf_ok (l : leaf) : Prop :=
  match lk l with
  | KVar => True
  | _ => (lop l = OEq \/ lop l = ONe) /\ (lvalue l = t "TRUE" \/ lvalue l = t "FALSE")
  end.
Fixpoint lok_atom (a : atom) : Prop :=
  match a with ALeaf _ l _ => leaf_ok l | APar e => lok_expr e | ANot e => lok_expr e end
with lok_tail (t : tail) : Prop :=
  match t with TNil => True | TAnd a t' => lok_atom a /\ lok_tail t' | TOr e => lok_expr e end
with lok_expr (e : expr) : Prop :=
  match e with EX a t => lok_atom a /\ lok_tail t end.

Lemma cmp_holds_negate o c : cmp_holds (negate_op o) c = negb (cmp_holds o c).
Proof. destruct o, c; reflexivity. Qed.

Lemma flag_truthy_negate l : (lop l = OEq \/ lop l = ONe) -> (lvalue l = t "TRUE" \/ lvalue l = t "FALSE") ->
  flag_truthy (neg_leaf l) = negb (flag_truthy l).
Proof. unfold flag_truthy, neg_leaf. cbn. intros [E|E] [V|V]; rewrite E, V; reflexivity. Qed.

Lemma eqb_negb_r a b : Bool.eqb a (negb b) = negb (Bool.eqb a b).
Proof. destruct a, b; reflexivity. Qed.

Lemma leaf_holds_negate l s : leaf_ok l -> lh (neg_leaf l) s = negb (lh l s).
Proof.
  unfold leaf_ok, leaf_holds. change (lk (neg_leaf l)) with (lk l). destruct (lk l).
  - intros [A B]. rewrite (flag_truthy_negate l A B). apply eqb_negb_r.
  - intros _. cbn. apply cmp_holds_negate.
  - intros [A B]. rewrite (flag_truthy_negate l A B). apply eqb_negb_r.
Qed.

Lemma eval_leaf_negate l s (n : bool) : leaf_ok l -> evl (if n then neg_leaf l else l) s = negif n (evl l s).
Proof.
  intros H. destruct n.
  - unfold eval_leaf. change (lpre (neg_leaf l)) with (lpre l). destruct (lpre l) as [p|].
    + destruct (exec p s) as [s'|]; cbn; [rewrite (leaf_holds_negate l s' H)|]; reflexivity.
    + cbn. rewrite (leaf_holds_negate l s H). reflexivity.
  - unfold negif. destruct (evl l s) as [[e s'] v]. reflexivity.
Qed.

Lemma negif_negb n r : negif (negb n) r = negif n (negif true r).
Proof. destruct r as [[e s] [v|]], n; cbn; try reflexivity. now rewrite negb_involutive. Qed.

Lemma and_step n L A acc g s : ev L s = negif n acc -> (forall s1, ev A s1 = negif n (g s1)) ->
  ev (BBin (andop n) L A) s = negif n (and_then acc g).
Proof.
  intros HL HA. cbn [eval_bexp]. rewrite HL. destruct acc as [[e s1] [[|]|]], n; cbn; try reflexivity.
  - rewrite HA. destruct (g s1) as [[e2 s2] r]. reflexivity.
  - rewrite HA. destruct (g s1) as [[e2 s2] r]. reflexivity.
Qed.
Lemma or_step n L A acc g s : ev L s = negif n acc -> (forall s1, ev A s1 = negif n (g s1)) ->
  ev (BBin (orop n) L A) s = negif n (or_else acc g).
Proof.
  intros HL HA. cbn [eval_bexp]. rewrite HL. destruct acc as [[e s1] [[|]|]], n; cbn; try reflexivity.
  - rewrite HA. destruct (g s1) as [[e2 s2] r]. reflexivity.
  - rewrite HA. destruct (g s1) as [[e2 s2] r]. reflexivity.
Qed.

Theorem tree_means_written :
  (forall a, lok_atom a -> forall n s, ev (tree_atom n a) s = negif n (sev_atom a s)) /\
  (forall t, lok_tail t -> forall n L acc s, ev L s = negif n acc -> ev (tree_tail n L t) s = negif n (sev_tail t acc)) /\
  (forall e, lok_expr e -> forall n s, ev (tree_expr n e) s = negif n (sev_expr e s)).
Proof.
  apply surface_mutind.
  - intros lt l imp H n s. cbn [tree_atom sev_atom eval_bexp]. apply eval_leaf_negate. exact H.
  - intros e IH H n s. exact (IH H n s).
  - intros e IH H n s. cbn [tree_atom sev_atom]. rewrite (IH H (negb n) s). apply negif_negb.
  - intros _ n L acc s HL. exact HL.
  - intros a IHa t IHt [Ha Ht] n L acc s HL. cbn [tree_tail sev_tail]. apply (IHt Ht).
    apply and_step; [exact HL|]. intros s1. apply (IHa Ha).
  - intros e IH H n L acc s HL. cbn [tree_tail sev_tail]. apply or_step; [exact HL|]. intros s1. apply (IH H).
  - intros a IHa t IHt [Ha Ht] n s. cbn [tree_expr sev_expr]. apply (IHt Ht). apply (IHa Ha).
Qed.

(* ---- without AutoVar leaves the evaluation is a plain boolean value, and that value is the precedence reading:
        OR over the '||'-separated groups of the AND over their '&&'-separated atoms ---- *)
Fixpoint flat_tail (cur : list atom) (t : tail) : list (list atom) :=
  match t with TNil => [cur] | TAnd a t' => flat_tail (cur ++ [a]) t' | TOr e => cur :: flat_expr e end
with flat_expr (e : expr) : list (list atom) :=
  match e with EX a t => flat_tail [a] t end.

Fixpoint den_atom (s : St) (a : atom) : bool :=
  match a with ALeaf _ l _ => lh l s | APar e => den_expr s e | ANot e => negb (den_expr s e) end
with den_tail (s : St) (acc : bool) (t : tail) : bool :=
  match t with TNil => acc | TAnd a t' => den_tail s (acc && den_atom s a) t' | TOr e => acc || den_expr s e end
with den_expr (s : St) (e : expr) : bool :=
  match e with EX a t => den_tail s (den_atom s a) t end.

Lemma den_is_or_of_ands s :
  (forall t cur, den_tail s (forallb (den_atom s) cur) t = existsb (forallb (den_atom s)) (flat_tail cur t)) /\
  (forall e, den_expr s e = existsb (forallb (den_atom s)) (flat_expr e)).
Proof.
  assert (H : (forall a : atom, True) /\
              (forall t cur, den_tail s (forallb (den_atom s) cur) t = existsb (forallb (den_atom s)) (flat_tail cur t)) /\
              (forall e, den_expr s e = existsb (forallb (den_atom s)) (flat_expr e))).
  { apply surface_mutind; try (intros; exact I).
    - intros cur. cbn. now rewrite orb_false_r.
    - intros a _ t IH cur. cbn [den_tail flat_tail]. rewrite <- IH. rewrite forallb_app. cbn. now rewrite andb_true_r.
    - intros e IH cur. cbn [den_tail flat_tail existsb]. now rewrite IH.
    - intros a _ t IH. cbn [den_expr flat_expr]. rewrite <- IH. cbn. now rewrite andb_true_r. }
  exact (proj2 H).
Qed.

Fixpoint pure_atom (a : atom) : Prop :=
  match a with ALeaf _ l _ => lpre l = None | APar e => pure_expr e | ANot e => pure_expr e end
with pure_tail (t : tail) : Prop :=
  match t with TNil => True | TAnd a t' => pure_atom a /\ pure_tail t' | TOr e => pure_expr e end
with pure_expr (e : expr) : Prop :=
  match e with EX a t => pure_atom a /\ pure_tail t end.

Lemma sev_pure :
  (forall a, pure_atom a -> forall s, sev_atom a s = ([], s, Some (den_atom s a))) /\
  (forall t, pure_tail t -> forall s b, sev_tail t ([], s, Some b) = ([], s, Some (den_tail s b t))) /\
  (forall e, pure_expr e -> forall s, sev_expr e s = ([], s, Some (den_expr s e))).
Proof.
  apply surface_mutind.
  - intros lt l imp H s. cbn [sev_atom den_atom]. unfold eval_leaf. rewrite H. reflexivity.
  - intros e IH H s. exact (IH H s).
  - intros e IH H s. cbn [sev_atom den_atom]. rewrite (IH H s). reflexivity.
  - intros _ s b. reflexivity.
  - intros a IHa t IHt [Ha Ht] s b. cbn [sev_tail den_tail]. destruct b; cbn [and_then andb].
    + rewrite (IHa Ha s). cbn [app]. apply (IHt Ht).
    + apply (IHt Ht).
  - intros e IH H s b. cbn [sev_tail den_tail]. destruct b; cbn [or_else orb]; [reflexivity|]. rewrite (IH H s). reflexivity.
  - intros a IHa t IHt [Ha Ht] s. cbn [sev_expr den_expr]. rewrite (IHa Ha s). apply (IHt Ht).
Qed.
End SEMB.

(* ================= the two halves together ================= *)
Section TOP.
Variable autovars : list (text * autovar).
Variable switches : list (text * text).
Variable env_errors : bool.
Variable parse_format : toks -> res (token * text * text * toks).
Variable consts : list (text * text).
Variable script : text.
Variable F0 : nat.
Variable St : Type.
Variable exec : cmd -> St -> stepres St.
Variable flag_set trainer_beaten : text -> St -> bool.
Variable cmp_var cmp_var_value : text -> text -> St -> comparison.

(* a condition '( e )' as it stands after if / elif / while / do-while: the parser consumes exactly the tokens of e, stops at the
   closing parenthesis, and the tree it returns evaluates (events, final state, value, short-circuit) like the written expression *)
Theorem condition_parses_to_its_meaning e lp rest f :
  wf_expr autovars switches env_errors parse_format consts script F0 e -> lok_expr e ->
  (need_expr F0 e <= f)%nat -> stop rest ->
  exists T imp', bool_expr autovars switches env_errors parse_format consts f false false script (lp :: print_expr e ++ rest) = Ok (T, imp', rest) /\
    imp_eq imp' (imp_expr e) /\
    forall s, eval_bexp St exec flag_set trainer_beaten cmp_var cmp_var_value T s =
              sev_expr St exec flag_set trainer_beaten cmp_var cmp_var_value e s.
Proof.
  intros W L Hf ST.
  destruct (proj2 (proj2 (parser_builds_tree autovars switches env_errors parse_format consts script F0)) e W false lp rest f Hf ST) as (imp' & E & I).
  exists (tree_expr false e), imp'. split; [exact E|]. split; [exact I|]. intros s.
  rewrite (proj2 (proj2 (tree_means_written St exec flag_set trainer_beaten cmp_var cmp_var_value)) e L false s).
  unfold negif. destruct (sev_expr _ _ _ _ _ _ e s) as [[ev0 s0] r]. reflexivity.
Qed.

(* without AutoVar leaves: no events, state unchanged, and the value is the OR over '||'-groups of the AND over '&&'-atoms *)
Corollary condition_value_is_precedence_reading e lp rest f :
  wf_expr autovars switches env_errors parse_format consts script F0 e -> lok_expr e -> pure_expr e ->
  (need_expr F0 e <= f)%nat -> stop rest ->
  exists T imp', bool_expr autovars switches env_errors parse_format consts f false false script (lp :: print_expr e ++ rest) = Ok (T, imp', rest) /\
    forall s, eval_bexp St exec flag_set trainer_beaten cmp_var cmp_var_value T s =
              ([], s, Some (existsb (forallb (den_atom St flag_set trainer_beaten cmp_var cmp_var_value s)) (flat_expr e))).
Proof.
  intros W L P Hf ST. destruct (condition_parses_to_its_meaning e lp rest f W L Hf ST) as (T & imp' & E & _ & H).
  exists T, imp'. split; [exact E|]. intros s. rewrite H.
  rewrite (proj2 (proj2 (sev_pure St exec flag_set trainer_beaten cmp_var cmp_var_value)) e P s).
  rewrite (proj2 (den_is_or_of_ands St flag_set trainer_beaten cmp_var cmp_var_value s) e). reflexivity.
Qed.
End TOP.

(* ================= the premises are satisfiable: a concrete condition ================= *)
Section EXAMPLE.
Variable autovars : list (text * autovar).
Variable switches : list (text * text).
Variable env_errors : bool.
Variable parse_format : toks -> res (token * text * text * toks).
Variable consts : list (text * text).
Variable script : text.

Definition tkl (ty : toktype) (lit : string) : token :=
  {| ttype := ty; tlit := t lit; tline := 1; tsb := 0; tsu := 0; teline := 1; teb := 0; teu := 0 |}.

Lemma mkleaf_ok k ops o v strict :
  (kind_of k = KVar \/ ((o = OEq \/ o = ONe) /\ (v = t "TRUE" \/ v = t "FALSE"))) -> leaf_ok (mkleaf consts k ops o v strict).
Proof. unfold leaf_ok, mkleaf. cbn. intros [E|H]; [rewrite E; exact I|]. destruct (kind_of k); auto. Qed.

(*  flag(A) && !(var(B) == 1 || !defeated(T)) || flag(C)  *)
Definition lf_a := [tkl FLAG "flag"; tkl LPAREN "("; tkl IDENT "A"; tkl RPAREN ")"].
Definition lf_b := [tkl VAR "var"; tkl LPAREN "("; tkl IDENT "B"; tkl RPAREN ")"; tkl EQ "=="; tkl INT "1"].
Definition lf_t := [tkl NOT "!"; tkl DEFEATED "defeated"; tkl LPAREN "("; tkl IDENT "T"; tkl RPAREN ")"].
Definition lf_c := [tkl FLAG "flag"; tkl LPAREN "("; tkl IDENT "C"; tkl RPAREN ")"].
Definition l_a := mkleaf consts (tkl FLAG "flag") [tkl IDENT "A"] OEq (t "TRUE") false.
Definition l_b := mkleaf consts (tkl VAR "var") [tkl IDENT "B"] OEq (opnd consts [tkl INT "1"]) false.
Definition l_t := mkleaf consts (tkl DEFEATED "defeated") [tkl IDENT "T"] OEq (t "FALSE") false.
Definition l_c := mkleaf consts (tkl FLAG "flag") [tkl IDENT "C"] OEq (t "TRUE") false.
Definition e_ex : expr :=
  EX (ALeaf lf_a l_a imp0)
     (TAnd (ANot (EX (ALeaf lf_b l_b imp0) (TOr (EX (ALeaf lf_t l_t imp0) TNil))))
           (TOr (EX (ALeaf lf_c l_c imp0) TNil))).

Ltac side := first [ discriminate | reflexivity | lia
                   | (left; reflexivity) | (right; left; reflexivity) | (right; right; reflexivity)
                   | (split; [discriminate|repeat constructor; discriminate]) ].

Example premises_hold :
  wf_expr autovars switches env_errors parse_format consts script 1 e_ex /\ lok_expr e_ex /\ pure_expr e_ex.
Proof.
  split; [|split].
  - cbn [e_ex wf_expr wf_atom wf_tail]. repeat match goal with |- _ /\ _ => split | |- True => exact I end.
    + apply (leaf_bare autovars switches env_errors parse_format consts script 1 (tkl FLAG "flag") (tkl LPAREN "(") [tkl IDENT "A"] (tkl RPAREN ")")); side.
    + apply (leaf_varcmp autovars switches env_errors parse_format consts script 1 (tkl VAR "var") (tkl LPAREN "(") [tkl IDENT "B"] (tkl RPAREN ")") (tkl EQ "==") OEq [tkl INT "1"]); try side.
    + apply (leaf_not autovars switches env_errors parse_format consts script 1 (tkl NOT "!") (tkl DEFEATED "defeated") (tkl LPAREN "(") [tkl IDENT "T"] (tkl RPAREN ")")); side.
    + apply (leaf_bare autovars switches env_errors parse_format consts script 1 (tkl FLAG "flag") (tkl LPAREN "(") [tkl IDENT "C"] (tkl RPAREN ")")); side.
  - cbn [e_ex lok_expr lok_atom lok_tail]. repeat match goal with |- _ /\ _ => split | |- True => exact I end; apply mkleaf_ok; first [left; reflexivity | right; split; [left; reflexivity | first [left; reflexivity|right; reflexivity]]].
  - cbn [e_ex pure_expr pure_atom pure_tail]. repeat split.
Qed.

(* its precedence reading:  (A && !(B==1 || !T)) || C  as groups [[A; !(..)]; [C]] *)
Example reading_of_example : List.map (@List.length atom) (flat_expr e_ex) = [2; 1]%nat.
Proof. reflexivity. Qed.
End EXAMPLE.

(* ================= what the parsed leaf forms mean (the manual's table) ================= *)
Section LEAFMEANING.
Variable consts : list (text * text).
Variable St : Type.
Variable flag_set trainer_beaten : text -> St -> bool.
Variable cmp_var cmp_var_value : text -> text -> St -> comparison.
Notation lh := (leaf_holds St flag_set trainer_beaten cmp_var cmp_var_value).

Lemma kind_flag k : ttype k = FLAG -> kind_of k = KFlag.
Proof. intros E. unfold kind_of. isk E. reflexivity. Qed.
Lemma kind_defeated k : ttype k = DEFEATED -> kind_of k = KDefeated.
Proof. intros E. unfold kind_of. isk E. reflexivity. Qed.
Lemma kind_var k : ttype k = VAR -> kind_of k = KVar.
Proof. intros E. unfold kind_of. isk E. reflexivity. Qed.

(* flag(X) / flag(X) == TRUE / != FALSE : set;   !flag(X) / == FALSE / != TRUE : unset *)
Theorem flag_leaf_meaning k ops (eq tr : bool) s : ttype k = FLAG ->
  lh (mkleaf consts k ops (if eq then OEq else ONe) (if tr then t "TRUE" else t "FALSE") false) s =
  Bool.eqb (flag_set (opnd consts ops) s) (Bool.eqb eq tr).
Proof. intros E. unfold leaf_holds, mkleaf. cbn. rewrite (kind_flag k E). destruct eq, tr; reflexivity. Qed.

Theorem defeated_leaf_meaning k ops (eq tr : bool) s : ttype k = DEFEATED ->
  lh (mkleaf consts k ops (if eq then OEq else ONe) (if tr then t "TRUE" else t "FALSE") false) s =
  Bool.eqb (trainer_beaten (opnd consts ops) s) (Bool.eqb eq tr).
Proof. intros E. unfold leaf_holds, mkleaf. cbn. rewrite (kind_defeated k E). destruct eq, tr; reflexivity. Qed.

(* var(X) OP v : the written operator;  var(X) : != 0;  !var(X) : == 0   (leaf_bare / leaf_not give ONe "0" / OEq "0") *)
Theorem var_leaf_meaning k ops o v s : ttype k = VAR ->
  lh (mkleaf consts k ops o v false) s = cmp_holds o (cmp_var (opnd consts ops) v s).
Proof. intros E. unfold leaf_holds, mkleaf. cbn. rewrite (kind_var k E). reflexivity. Qed.
End LEAFMEANING.
