(* C12 - poryswitch in STATEMENT position, from the block to the PROGRAM and to the compile outcome (the lift of TwinParse.v).

   The twin of a token stream  U ++ z  with a statement poryswitch at z is  U ++ body ++ rest : body = the tokens of the
   statements of the selected case (the last case labelled with the -s value, else the last case labelled '_'), rest = the
   tokens behind the closing brace of the poryswitch; every token keeps its position (boundary B18).  This file proves, for
   ONE poryswitch directly in the block of a TOP-LEVEL SCRIPT (any statements in front of it in the block, any top-level
   statements in front of and behind the script, other poryswitches anywhere else, also inside the selected case):

   MAIN STATEMENTS (all closed under the global context; pf = the format() operator with format_advs / format_local /
   format_lt, theorems for Format.parse_format; the *_compile theorems are about Compile.compile itself)

   twin_program_at   parse_program (U ++ z) = Ok p1  ==>  exists p2, parse_program (U ++ body ++ rest) = Ok p2 /\
                     TagRename.shape_program p1 = TagRename.shape_program p2 (same program up to loop / switch tags and
                     command ids), and the twin is strictly shorter.  Position of the poryswitch: the top-level loop reaches
                     the `script` keyword (Independence.tops_run from the initial state), header of the script, the run b1 of
                     statements of its block in front of z (TwinParse.srun), poryswitch header and case table at z, selected
                     entry (ss, imp').  Selected case GIVEN by its tokens: body ++ ra lies behind the header and in front of
                     the closing brace, is a run of statements giving exactly (ss, imp'), ra starts with '}' or a case label.
   twin_program      the same with the selected case FOUND: exists l key l1 l2 tsc ra tsn body, the case table is rev l,
                     l = l1 ++ (key, (ss, imp')) :: l2 with key not in l2, key = the switch value or ('_' and the value labels no
                     case), the case is written at tsc (TwinParse.case_seq / case_at), adv (adv tsc) = body ++ ra, and the twin
                     U ++ body ++ rest parses to a program of the same shape.  No premise about look-ahead, no premise LC:
                     in the block of a script the `continue` scope is empty (boundary B1 needs a loop around the poryswitch).
   twin_compile_at   lex src = U ++ z, lex src' = U ++ body ++ rest, src parses  ==>
                     Compile.compile .. src = Compile.compile .. src'   (same text, or same emitter error): C12's first
                     sentence for the simplest program shape, from source to output.   twin_compile: the existential form.
   no_case_program, no_case_compile   same position, no case for the -s value and no '_', normal mode: parse_program answers
                     the error "no poryswitch case found" at the poryswitch token; Compile.compile = OutErr of it (C12's last
                     sentence at program level).
   twin_step, twin_steps, twin_steps_compile   several poryswitches, replaced one after the other (each step: all hypotheses
                     of twin_compile_at, about the program reached so far): every chain keeps the compile outcome.  A
                     poryswitch nested inside the selected case of a poryswitch is directly in the block after the first step.
   Proof steps of twin_program_at: twin_script_block_at (the block step of TwinParse with the case given); srun_ids / block_ids
   (SrcWf.gw_all, HoistProgram.pi_all, ParseWf.wf_all: the ids of the statements in front of, inside, behind the case body lie
   in three disjoint ranges); one_renaming (the shifts s1, s2, identity are ONE renaming, injective everywhere:
   TagRename.extend); Independence.add_implicit_g / pstmts_g (hoisting and patching commute with it: same hoisting state, same
   labels); Independence.tops_run_context (statements in front of the script); parse_tops_lists (the rest of the loop reads
   only constants and hoisting state); parse_tops_fuel (the twin is shorter); dup_mov_shape (the name check sees the same names).
   Examples: twin_compile_example (hypotheses of twin_compile_at on a program with const, text, three scripts, a shared
   inline text, 3 cases; the theorem gives the equality of the outcomes), twin_compile_example_nontrivial, no_case_example,
   chain_step1 / chain_step2 / chain_example (nested poryswitch, two steps), other_case_error_counterexample (BOUNDARY: a
   syntax error in a case that is not selected makes the original fail while the twin compiles: all cases are parsed).

   NOT PROVED: (B) the poryswitch nested in control constructs (if / while / do / switch bodies; there LC is needed:
   TwinParse.continue_counterexample) and in the inline scripts of a mapscripts statement; (C) a single statement about
   "all poryswitches replaced at once" (twin_steps_compile asks for the hypotheses of every intermediate program);
   the case "the original does not parse" (then nothing is said about the twin, see other_case_error_counterexample);
   text / movement / mart poryswitches at program level (PorySwitchLists.v has them at statement level). *)
From Coq Require Import List String Ascii ZArith NArith Lia Bool.
From Pory Require Import Lexer Ast Parser Consume Independence.
From Pory Require PorySwitchLists FuelOk TagRename ProgSrc TwinParse SrcWf HoistProgram ParseWf LabelSim Worklist Tr Compile Format.
Import ListNotations.
Open Scope list_scope.

(* ------------------------------------------------------------------------------------------------------------ *)
(* Part 1: a renaming only looks at the ids that occur: tags (TagRename.atags) and command ids (HoistProgram.cmds) *)
(* ------------------------------------------------------------------------------------------------------------ *)
Lemma mp_bexp_ext_h (h h' : cmd -> cmd) e :
  (forall c, In c (HoistProgram.bexp_cmds e) -> h c = h' c) -> TagRename.mp_bexp h e = TagRename.mp_bexp h' e.
Proof.
  induction e as [l|o a IHa b IHb]; intros H; cbn [TagRename.mp_bexp].
  - f_equal. unfold TagRename.mp_leaf. f_equal. cbn [HoistProgram.bexp_cmds] in H. destruct (lpre l) as [c|]; [|reflexivity].
    cbn [option_map]. f_equal. apply H. left. reflexivity.
  - cbn [HoistProgram.bexp_cmds] in H. rewrite IHa, IHb; [reflexivity| |]; intros c Hc; apply H; apply in_or_app; auto.
Qed.

Lemma mp_stmts_ext_h g (h h' : cmd -> cmd) : forall ss,
  (forall c, In c (HoistProgram.cmds ss) -> h c = h' c) -> TagRename.mp_stmts g h ss = TagRename.mp_stmts g h' ss.
Proof.
  apply (LabelSim.stmts_ind2
           (fun s => (forall c, In c (HoistProgram.stmt_cmds s) -> h c = h' c) -> TagRename.mp_stmt g h s = TagRename.mp_stmt g h' s)
           (fun ss => (forall c, In c (HoistProgram.cmds ss) -> h c = h' c) -> TagRename.mp_stmts g h ss = TagRename.mp_stmts g h' ss)).
  - reflexivity.
  - intros s r IHs IHr H. cbn [TagRename.mp_stmts map]. rewrite HoistProgram.cmds_cons in H. f_equal.
    + apply IHs. intros c Hc. apply H. apply in_or_app. left. exact Hc.
    + apply IHr. intros c Hc. apply H. apply in_or_app. right. exact Hc.
  - intros c H. cbn [TagRename.mp_stmt]. f_equal. apply H. left. reflexivity.
  - reflexivity.
  - intros conds els Hc He H. cbn [TagRename.mp_stmt]. rewrite HoistProgram.stmt_cmds_if in H. f_equal.
    + apply map_ext_in. intros cb Hcb. rewrite Forall_forall in Hc. f_equal.
      * apply mp_bexp_ext_h. intros c Hx. apply H. apply in_or_app. left. unfold HoistProgram.conds_cmds. apply in_flat_map.
        exists cb. split; [exact Hcb|]. apply in_or_app. left. exact Hx.
      * apply (Hc cb Hcb). intros c Hx. apply H. apply in_or_app. left. unfold HoistProgram.conds_cmds. apply in_flat_map.
        exists cb. split; [exact Hcb|]. apply in_or_app. right. exact Hx.
    + destruct els as [b|]; [|reflexivity]. cbn [option_map]. f_equal. apply He.
      intros c Hx. apply H. apply in_or_app. right. exact Hx.
  - intros tg c b Hb H. cbn [TagRename.mp_stmt]. cbn [HoistProgram.stmt_cmds] in H. f_equal.
    + destruct c as [e|]; [|reflexivity]. cbn [option_map]. f_equal. apply mp_bexp_ext_h. intros c Hx. apply H. apply in_or_app. left. exact Hx.
    + apply Hb. intros c0 Hx. apply H. apply in_or_app. right. exact Hx.
  - intros tg b c Hb H. cbn [TagRename.mp_stmt]. cbn [HoistProgram.stmt_cmds] in H. f_equal.
    + apply Hb. intros c0 Hx. apply H. apply in_or_app. left. exact Hx.
    + apply mp_bexp_ext_h. intros c0 Hx. apply H. apply in_or_app. right. exact Hx.
  - reflexivity.
  - reflexivity.
  - intros tg o ol cases Hc H. cbn [TagRename.mp_stmt]. rewrite HoistProgram.stmt_cmds_switch in H. f_equal.
    apply map_ext_in. intros c Hin. unfold TagRename.mp_case_with. f_equal. rewrite Forall_forall in Hc. apply (Hc c Hin).
    intros c0 Hx. apply H. unfold HoistProgram.cases_cmds. apply in_flat_map. exists c. split; assumption.
Qed.

(* the ids of a statement list: all tags (also those of break / continue) and all command ids *)
Definition ids (ss : list stmt) : list nat := TagRename.atags ss ++ map cid (HoistProgram.cmds ss).
Definition imp_ids (i : impdata) : list nat := map itCid (idT i) ++ map imCid (idM i).

Lemma ids_app a b x : In x (ids (a ++ b)) <-> In x (ids a) \/ In x (ids b).
Proof.
  unfold ids, TagRename.atags. rewrite HoistProgram.cmds_app, flat_map_app, map_app, !in_app_iff. tauto.
Qed.
Lemma imp_ids_add a b x : In x (imp_ids (impadd a b)) <-> In x (imp_ids a) \/ In x (imp_ids b).
Proof. unfold imp_ids, impadd. cbn [idT idM]. rewrite !map_app, !in_app_iff. tauto. Qed.

Lemma g_stmts_ext g g' ss : (forall n, In n (ids ss) -> g n = g' n) -> map (g_stmt g) ss = map (g_stmt g') ss.
Proof.
  intros H. rewrite !TwinParse.g_stmts_mp.
  rewrite (TagRename.mp_stmts_ext g g' (g_cmd g) ss) by (intros x Hx; apply H; unfold ids; apply in_or_app; left; exact Hx).
  apply mp_stmts_ext_h. intros c Hc. unfold g_cmd. f_equal. apply H. unfold ids. apply in_or_app. right. apply in_map. exact Hc.
Qed.

Lemma g_imp_ext g g' i : (forall n, In n (imp_ids i) -> g n = g' n) -> g_imp g i = g_imp g' i.
Proof.
  intros H. unfold g_imp. f_equal.
  - apply map_ext_in. intros it Hit. unfold g_it. f_equal. apply H. unfold imp_ids. apply in_or_app. left. apply in_map. exact Hit.
  - apply map_ext_in. intros im Him. unfold g_im. f_equal. apply H. unfold imp_ids. apply in_or_app. right. apply in_map. exact Him.
Qed.

Lemma g_stmts_id ss : map (g_stmt (fun n => n)) ss = ss.
Proof.
  rewrite TwinParse.g_stmts_mp.
  assert (E : forall g h b, (forall c : cmd, h c = c) -> (forall n : nat, g n = n) -> TagRename.mp_stmts g h b = b).
  { intros g h b Hh Hg. revert b.
    apply (LabelSim.stmts_ind2 (fun s => TagRename.mp_stmt g h s = s) (fun b => TagRename.mp_stmts g h b = b)).
    - reflexivity.
    - intros s r Hs Hr. change (TagRename.mp_stmt g h s :: TagRename.mp_stmts g h r = s :: r). rewrite Hs, Hr. reflexivity.
    - intros c. cbn [TagRename.mp_stmt]. rewrite Hh. reflexivity.
    - reflexivity.
    - intros conds els Hc He. cbn [TagRename.mp_stmt].
      assert (Eb : forall e, TagRename.mp_bexp h e = e).
      { induction e as [l|o a IHa b IHb]; cbn [TagRename.mp_bexp]; [|rewrite IHa, IHb; reflexivity].
        f_equal. unfold TagRename.mp_leaf. destruct l as [k op li o v s pre]. cbn. f_equal. destruct pre; cbn; [rewrite Hh|]; reflexivity. }
      f_equal.
      + induction Hc as [|[e b] r Hb _ IH]; [reflexivity|]. cbn [map fst snd] in *. unfold TagRename.mp_stmts in Hb. rewrite Eb, Hb, IH. reflexivity.
      + destruct els as [b|]; [|reflexivity]. cbn [option_map LabelSim.opt_ind] in *. unfold TagRename.mp_stmts in He. rewrite He. reflexivity.
    - intros tg c b Hb. cbn [TagRename.mp_stmt]. unfold TagRename.mp_stmts in Hb. rewrite Hg, Hb. f_equal.
      destruct c as [e|]; [|reflexivity]. cbn [option_map]. f_equal.
      induction e as [l|o a IHa b' IHb]; cbn [TagRename.mp_bexp]; [|rewrite IHa, IHb; reflexivity].
      f_equal. unfold TagRename.mp_leaf. destruct l as [k op li o v s pre]. cbn. f_equal. destruct pre; cbn; [rewrite Hh|]; reflexivity.
    - intros tg b c Hb. cbn [TagRename.mp_stmt]. unfold TagRename.mp_stmts in Hb. rewrite Hg, Hb. f_equal.
      induction c as [l|o a IHa b' IHb]; cbn [TagRename.mp_bexp]; [|rewrite IHa, IHb; reflexivity].
      f_equal. unfold TagRename.mp_leaf. destruct l as [k op li o v s pre]. cbn. f_equal. destruct pre; cbn; [rewrite Hh|]; reflexivity.
    - intros tg. cbn [TagRename.mp_stmt]. rewrite Hg. reflexivity.
    - intros tg. cbn [TagRename.mp_stmt]. rewrite Hg. reflexivity.
    - intros tg o ol cases Hc. cbn [TagRename.mp_stmt]. rewrite Hg. f_equal.
      induction Hc as [|[[[d v] ln] b] r Hb _ IH]; [reflexivity|]. cbn [map]. rewrite IH. f_equal.
      unfold TagRename.mp_case_with. cbn [fst snd]. unfold Emitter.sc_body, TagRename.mp_stmts in Hb. cbn [snd] in Hb. rewrite Hb. reflexivity. }
  apply E; [|reflexivity]. intros [n a tk i]. reflexivity.
Qed.

Lemma g_imp_id i : g_imp (fun n => n) i = i.
Proof.
  destruct i as [a b]. unfold g_imp. cbn [idT idM]. f_equal.
  - rewrite <- (map_id a) at 2. apply map_ext. intros [x1 x2 x3 x4 x5]. reflexivity.
  - rewrite <- (map_id b) at 2. apply map_ext. intros [x1 x2 x3 x4 x5]. reflexivity.
Qed.

(* ------------------------------------------------------------------------------------------------------------ *)
(* Part 2: where the ids of parsed statements lie: a statement parsed from x that ends at y (its last token) has   *)
(* all its tags, command ids and inline-data ids in [len y, len x]; a run from x to z in (len z, len x]; a script  *)
(* block from x to its closing brace in [.., len x].                                                              *)
(* ------------------------------------------------------------------------------------------------------------ *)
Section BOUNDS.
Variable av : list (text * autovar).
Variable sw : list (text * text).
Variable ee : bool.
Variable pf : toks -> res (token * text * text * toks).
Variable c : list (text * text).
Hypothesis pf_advs : format_advs pf.

Lemma span_ids script T lo hi ss imp :
  HoistProgram.span sw ee pf T script lo hi (HoistProgram.cmds ss) imp ->
  (forall n, In n (map cid (HoistProgram.cmds ss)) -> (lo <= n <= hi)%nat) /\ (forall n, In n (imp_ids imp) -> (lo <= n <= hi)%nat).
Proof.
  intros (HT & HM & HC). split.
  - intros n Hn. apply in_map_iff in Hn. destruct Hn as (cm & <- & Hc).
    destruct (HC (script, cm)) as [B _]; [apply in_map; exact Hc|]. exact B.
  - intros n Hn. unfold imp_ids in Hn. apply in_app_or in Hn. destruct Hn as [Hn|Hn]; apply in_map_iff in Hn; destruct Hn as (it & <- & Hit).
    + specialize (HT it Hit). lia.
    + specialize (HM it Hit). lia.
Qed.

Lemma stmt_ids f script x ss imp y : eof_ended x ->
  parse_stmt av sw ee pf c f script [] [] x = Ok (ss, imp, y) ->
  (forall n, In n (ids ss) -> (len y <= n <= len x)%nat) /\ (forall n, In n (imp_ids imp) -> (len y <= n <= len x)%nat).
Proof.
  intros E H.
  destruct (SrcWf.gw_all av sw pf c pf_advs ee f) as (Gstmt & _).
  destruct (ParseWf.wf_all av sw ee pf c f) as (Wstmt & _).
  destruct (HoistProgram.pi_all av sw ee pf pf_advs x c f) as (Pstmt & _).
  pose proof (Gstmt _ _ _ _ _ _ _ E H) as (_ & GT & _).
  pose proof (Wstmt _ _ _ _ _ _ _ H) as SC. cbn in SC.
  pose proof (Pstmt _ _ _ _ _ _ _ (advs_refl x) H) as SP.
  destruct (span_ids _ _ _ _ _ _ SP) as [C1 C2]. split; [|exact C2].
  intros n Hn. unfold ids in Hn. apply in_app_or in Hn. destruct Hn as [Hn|Hn]; [|apply C1; exact Hn].
  apply (TagRename.atags_in_tags _ _ SC) in Hn. rewrite Forall_forall in GT. specialize (GT n Hn). lia.
Qed.

Lemma srun_ids script x ss imp z : TwinParse.srun av sw ee pf c script [] [] x ss imp z -> eof_ended x ->
  (forall n, In n (ids ss) -> (len z < n <= len x)%nat) /\ (forall n, In n (imp_ids imp) -> (len z < n <= len x)%nat).
Proof.
  induction 1 as [x|x f ss imp y ss' imp' z B H L R IH]; intros E.
  - split; intros n [].
  - pose proof (TwinParse.a_stmt2 av sw ee pf c pf_advs _ _ _ _ _ _ _ _ H) as A.
    assert (E' : eof_ended (adv y)) by (eapply advs_eof; [apply advs_adv_r; exact A|exact E]).
    destruct (IH E') as [I1 I2]. destruct (stmt_ids _ _ _ _ _ _ E H) as [S1 S2].
    pose proof (advs_len _ _ (TwinParse.srun_advs av sw ee pf c pf_advs _ _ _ _ _ _ _ R)) as Lz.
    pose proof (advs_len _ _ A) as Ly.
    assert (La : (len (adv y) < len y)%nat) by (destruct y as [|a [|b r]]; cbn in L |- *; lia).
    split; intros n Hn.
    + apply ids_app in Hn. destruct Hn as [Hn|Hn]; [specialize (S1 n Hn)|specialize (I1 n Hn)]; lia.
    + apply imp_ids_add in Hn. destruct Hn as [Hn|Hn]; [specialize (S2 n Hn)|specialize (I2 n Hn)]; lia.
Qed.

Lemma block_ids f script start x b imp y : eof_ended x ->
  parse_block av sw ee pf c f script [] [] start x [] imp0 = Ok (b, imp, y) ->
  (forall n, In n (ids b) -> (n <= len x)%nat) /\ (forall n, In n (imp_ids imp) -> (n <= len x)%nat).
Proof.
  intros E H.
  destruct (SrcWf.gw_all av sw pf c pf_advs ee f) as (_ & Gblock & _).
  pose proof (Gblock _ _ _ _ _ _ _ _ _ _ (len x) E H (Nat.le_refl _) (SrcWf.good_nil _ _)) as (_ & GT & _).
  pose proof (ParseWf.parse_block_scoped av sw ee pf c _ _ _ _ _ _ _ H) as SC.
  pose proof (HoistProgram.parse_block_span av sw ee pf pf_advs x c _ _ _ _ _ _ _ (advs_refl x) H) as SP.
  destruct (span_ids _ _ _ _ _ _ SP) as [C1 C2]. split.
  - intros n Hn. unfold ids in Hn. apply in_app_or in Hn. destruct Hn as [Hn|Hn]; [|apply C1; exact Hn].
    apply (TagRename.atags_in_tags _ _ SC) in Hn. rewrite Forall_forall in GT. specialize (GT n Hn). lia.
  - intros n Hn. apply C2. exact Hn.
Qed.
End BOUNDS.

(* ------------------------------------------------------------------------------------------------------------ *)
(* Part 3: the three shifts are ONE renaming, injective everywhere and equal to the shifts on the ids in use      *)
(* ------------------------------------------------------------------------------------------------------------ *)
Lemma one_renaming (z tw ra rest : toks) lbody b1 i1 ss imp' b3 i3 :
  len tw = (lbody + len rest)%nat -> (len rest < len ra)%nat -> (lbody + len ra < len z)%nat ->
  (forall n, In n (ids b1) \/ In n (imp_ids i1) -> (len z < n)%nat) ->
  (forall n, In n (ids ss) \/ In n (imp_ids imp') -> (len ra < n <= lbody + len ra)%nat) ->
  (forall n, In n (ids b3) \/ In n (imp_ids i3) -> (n <= len rest)%nat) ->
  exists G : nat -> nat, (forall a b, G a = G b -> a = b) /\
    map (g_stmt (sh z tw)) b1 ++ map (g_stmt (sh ra rest)) ss ++ b3 = map (g_stmt G) (b1 ++ ss ++ b3) /\
    impadd (g_imp (sh z tw) i1) (impadd (g_imp (sh ra rest) imp') i3) = g_imp G (impadd i1 (impadd imp' i3)).
Proof.
  intros Ltw Lr Lz H1 H2 H3.
  set (G0 := fun n => if (len z <? n)%nat then sh z tw n else if (len ra <? n)%nat then sh ra rest n else n).
  set (T := ids (b1 ++ ss ++ b3) ++ imp_ids (impadd i1 (impadd imp' i3))).
  assert (R : forall n, In n T -> (len z < n)%nat \/ (len ra < n <= lbody + len ra)%nat \/ (n <= len rest)%nat).
  { intros n Hn. unfold T in Hn. apply in_app_or in Hn. destruct Hn as [Hn|Hn].
    - apply ids_app in Hn. destruct Hn as [Hn|Hn]; [left; apply H1; auto|]. apply ids_app in Hn.
      destruct Hn as [Hn|Hn]; [right; left; apply H2; auto|right; right; apply H3; auto].
    - apply imp_ids_add in Hn. destruct Hn as [Hn|Hn]; [left; apply H1; auto|]. apply imp_ids_add in Hn.
      destruct Hn as [Hn|Hn]; [right; left; apply H2; auto|right; right; apply H3; auto]. }
  assert (S1 : forall n, sh z tw n = (n - (len z - len tw))%nat).
  { intros n. unfold sh. destruct (Nat.leb_spec (len z) (len tw)); [lia|reflexivity]. }
  assert (S2 : forall n, sh ra rest n = (n - (len ra - len rest))%nat).
  { intros n. unfold sh. destruct (Nat.leb_spec (len ra) (len rest)); [lia|reflexivity]. }
  assert (INJ : TagRename.inj_on G0 T).
  { intros a b Ha Hb. unfold G0. rewrite !S1, !S2. pose proof (R a Ha) as Ra. pose proof (R b Hb) as Rb.
    destruct (Nat.ltb_spec (len z) a); destruct (Nat.ltb_spec (len ra) a);
      destruct (Nat.ltb_spec (len z) b); destruct (Nat.ltb_spec (len ra) b); lia. }
  exists (TagRename.extend G0 T). split; [apply TagRename.extend_inj; exact INJ|].
  assert (AG : forall n, In n T -> TagRename.extend G0 T n = G0 n) by (intros n Hn; apply TagRename.extend_agree; exact Hn).
  assert (T1 : forall n, In n (ids b1) \/ In n (imp_ids i1) -> In n T).
  { intros n [Hn|Hn]; unfold T; apply in_or_app; [left; apply ids_app; auto|right; apply imp_ids_add; auto]. }
  assert (T2 : forall n, In n (ids ss) \/ In n (imp_ids imp') -> In n T).
  { intros n [Hn|Hn]; unfold T; apply in_or_app; [left; apply ids_app; right; apply ids_app; auto|right; apply imp_ids_add; right; apply imp_ids_add; auto]. }
  assert (T3 : forall n, In n (ids b3) \/ In n (imp_ids i3) -> In n T).
  { intros n [Hn|Hn]; unfold T; apply in_or_app; [left; apply ids_app; right; apply ids_app; auto|right; apply imp_ids_add; right; apply imp_ids_add; auto]. }
  assert (E1 : forall n, In n (ids b1) \/ In n (imp_ids i1) -> sh z tw n = TagRename.extend G0 T n).
  { intros n Hn. rewrite (AG n (T1 n Hn)). unfold G0. specialize (H1 n Hn). destruct (Nat.ltb_spec (len z) n); [reflexivity|lia]. }
  assert (E2 : forall n, In n (ids ss) \/ In n (imp_ids imp') -> sh ra rest n = TagRename.extend G0 T n).
  { intros n Hn. rewrite (AG n (T2 n Hn)). unfold G0. specialize (H2 n Hn).
    destruct (Nat.ltb_spec (len z) n); [lia|]. destruct (Nat.ltb_spec (len ra) n); [reflexivity|lia]. }
  assert (E3 : forall n, In n (ids b3) \/ In n (imp_ids i3) -> n = TagRename.extend G0 T n).
  { intros n Hn. rewrite (AG n (T3 n Hn)). unfold G0. specialize (H3 n Hn).
    destruct (Nat.ltb_spec (len z) n); [lia|]. destruct (Nat.ltb_spec (len ra) n); [lia|reflexivity]. }
  split.
  - rewrite !map_app. f_equal; [apply g_stmts_ext; auto|]. f_equal; [apply g_stmts_ext; auto|].
    rewrite <- (g_stmts_id b3) at 1. apply g_stmts_ext. intros n Hn. apply (E3 n). auto.
  - rewrite !TwinParse.g_imp_add. f_equal; [apply g_imp_ext; auto|]. f_equal; [apply g_imp_ext; auto|].
    rewrite <- (g_imp_id i3) at 1. apply g_imp_ext. intros n Hn. apply (E3 n). auto.
Qed.

(* ------------------------------------------------------------------------------------------------------------ *)
(* Part 4: shapes of shifted top-level statements; the name check and the rest of the loop do not see the ids     *)
(* ------------------------------------------------------------------------------------------------------------ *)
Lemma shape_g_ostmts g o : TagRename.shape_opt (g_ostmts g o) = TagRename.shape_opt o.
Proof. destruct o as [b|]; [|reflexivity]. cbn [g_ostmts TagRename.shape_opt option_map]. rewrite TwinParse.shape_g_stmts. reflexivity. Qed.

Lemma shape_g_top g tp : TagRename.shape_top (g_top g tp) = TagRename.shape_top tp.
Proof.
  destruct tp as [n gl b|v l| |n gl tk st|n gl tk it its|n gl plain tables]; try reflexivity.
  - cbn [g_top TagRename.shape_top]. rewrite TwinParse.shape_g_stmts. reflexivity.
  - cbn [g_top TagRename.shape_top]. f_equal.
    + rewrite map_map. apply map_ext. intros m. unfold TagRename.shape_ms, g_ms. cbn [msType msName msScript]. rewrite shape_g_ostmts. reflexivity.
    + rewrite map_map. apply map_ext. intros tb. unfold TagRename.shape_tm, g_tm. cbn [tmType tmName tmEntries]. f_equal.
      rewrite map_map. apply map_ext. intros e. unfold TagRename.shape_te, g_te. cbn [teCond teCondLit teCmp teName teScript].
      rewrite shape_g_ostmts. reflexivity.
Qed.

Lemma shifted_shape ra rb d d' : shifted ra rb d d' -> map TagRename.shape_top d' = map TagRename.shape_top d.
Proof.
  intros [S1 S2]. destruct (Nat.le_ge_cases (len ra) (len rb)) as [L|L].
  - rewrite (S1 L), map_map. apply map_ext. intros tp. apply shape_g_top.
  - rewrite (S2 L), map_map. symmetry. apply map_ext. intros tp. apply shape_g_top.
Qed.

Lemma dup_mov_shape : forall l1 l2 seen, map TagRename.shape_top l1 = map TagRename.shape_top l2 -> dup_mov seen l1 = dup_mov seen l2.
Proof.
  induction l1 as [|t1 r1 IH]; intros [|t2 r2] seen H; try discriminate H; [reflexivity|].
  cbn [map] in H. injection H as Ht Hr.
  destruct t1 as [n1 g1 b1|v1 ln1| |n1 g1 tk1 st1|n1 g1 tk1 it1 itk1|n1 g1 p1 tb1];
    destruct t2 as [n2 g2 b2|v2 ln2| |n2 g2 tk2 st2|n2 g2 tk2 it2 itk2|n2 g2 p2 tb2]; cbn [TagRename.shape_top] in Ht; try discriminate Ht;
    cbn [dup_mov]; try (apply IH; exact Hr).
  injection Ht as -> -> -> ->. destruct (assoc seen n2); [reflexivity|]. apply IH. exact Hr.
Qed.

Section LOOP.
Variable av : list (text * autovar).
Variable sw : list (text * text).
Variable ee : bool.
Variable pf : toks -> res (token * text * text * toks).
Hypothesis pf_advs : format_advs pf.
Hypothesis pf_lt : format_lt pf.

(* the loop reads of the state only the constants and the hoisting state; it appends to the two lists *)
Lemma parse_tops_lists : forall f st st2 ts stf, pconsts st2 = pconsts st -> ph st2 = ph st ->
  parse_tops av sw ee pf f st ts = Ok stf ->
  exists d e, ptops stf = ptops st ++ d /\ ptexts stf = ptexts st ++ e /\
    parse_tops av sw ee pf f st2 ts = Ok {| pconsts := pconsts stf; ph := ph stf; ptops := ptops st2 ++ d; ptexts := ptexts st2 ++ e |}.
Proof.
  induction f as [|f IH]; intros st st2 ts stf Ec Eh H; [discriminate H|].
  rewrite parse_tops_step in H |- *. destruct (curis EOF ts).
  - inversion H; subst. exists [], []. rewrite !app_nil_r. split; [reflexivity|]. split; [reflexivity|].
    rewrite <- Ec, <- Eh. destruct st2; reflexivity.
  - rewrite Ec, Eh. destruct (top_step av sw ee pf f (pconsts st) (ph st) ts) as [[[[[c' h'] tps] txs] y]| | |]; try discriminate H.
    destruct (IH (st_add st c' h' tps txs) (st_add st2 c' h' tps txs) _ _ eq_refl eq_refl H) as (d & e & P1 & P2 & P3).
    unfold st_add in P1, P2, P3. cbn [ptops ptexts] in P1, P2, P3.
    exists (tps ++ d), (txs ++ e). rewrite P1, P2, !app_assoc. split; [reflexivity|]. split; [reflexivity|]. exact P3.
Qed.

Lemma parse_tops_fuel st ts f g : eof_ended ts -> (5 * len ts + 4 <= f)%nat -> (5 * len ts + 4 <= g)%nat ->
  parse_tops av sw ee pf f st ts = parse_tops av sw ee pf g st ts.
Proof.
  intros E. apply (TwinParse.fuel_up (fun f => parse_tops av sw ee pf f st ts)). intros k K.
  apply (FuelOk.parse_tops_st av sw ee pf pf_advs pf_lt); assumption.
Qed.
End LOOP.

(* ------------------------------------------------------------------------------------------------------------ *)
(* Part 5: from the block to the PROGRAM: one poryswitch directly in the block of a top-level script             *)
(* ------------------------------------------------------------------------------------------------------------ *)
Lemma Gw_step_back (z y : toks) : eof_ended y -> z <> [] -> curis EOF z = false -> Gw z 0 (adv y) -> Gw z 1 y.
Proof.
  intros E N C G. destruct (Nat.lt_ge_cases (len y) 2) as [L|L]; [|apply TwinParse.Gw_back; assumption].
  exfalso. destruct (TwinParse.single_eof y E L) as [CE AE]. rewrite AE in G. destruct G as (u & K & _).
  destruct u as [|a u].
  - cbn [app] in K. subst y. congruence.
  - subst y. cbn [app List.length] in L. rewrite app_length in L. destruct z; [congruence|cbn in L; lia].
Qed.

(* the block step of TwinParse.twin_script_block with the selected case GIVEN: the tokens body, followed by ra, lie inside the
   poryswitch (behind its header ts1, in front of its closing brace ts2), they are a run of statements that gives exactly
   the selected entry (ss, imp') of the case table, and ra starts with '}' (brace form, or last case in colon form) or with
   the label of the next case (colon form).  TwinParse.twin_block_step shows that such body / ra exist: the body of the
   last case labelled with the switch value, else of the last case labelled '_'. *)
Section BLOCKAT.
Variable av : list (text * autovar).
Variable sw : list (text * text).
Variable ee : bool.
Variable pf : toks -> res (token * text * text * toks).
Variable c : list (text * text).
Hypothesis pf_advs : format_advs pf.
Hypothesis pf_local : format_local pf.
Hypothesis pf_lt : format_lt pf.
Local Notation srun := (TwinParse.srun av sw ee pf c).
Local Notation P_block := (parse_block av sw ee pf c).

Lemma twin_script_block_at script x b1 i1 z sc sv ts1 F cases ts2 ss imp' body ra start f b imp y :
  eof_ended x -> srun script [] [] x b1 i1 z ->
  curis PORYSWITCH z = true -> poryswitch_header sw ee z = Ok (sc, sv, ts1) -> (5 * len z <= F)%nat ->
  parse_pory_cases av sw ee pf c F script [] [] (cur ts1) ts1 [] = Ok (cases, ts2) ->
  PorySwitchLists.pory_select cases sv = Some (ss, imp') ->
  advs ts1 (body ++ ra) -> srun script [] [] (body ++ ra) ss imp' ra -> advs ra ts2 ->
  (curis RBRACE ra = true \/ curis IDENT ra = true \/ curis INT ra = true) ->
  (5 * len x + 3 <= f)%nat ->
  P_block f script [] [] start x [] imp0 = Ok (b, imp, y) ->
  exists pre b3 i3,
    x = pre ++ z /\ b = b1 ++ ss ++ b3 /\ imp = impadd i1 (impadd imp' i3) /\
    P_block f script [] [] start (adv ts2) [] imp0 = Ok (b3, i3, y) /\
    let rest := adv ts2 in let s1 := sh z (body ++ rest) in let s2 := sh ra rest in
    P_block f script [] [] start (pre ++ body ++ rest) [] imp0 =
      Ok (map (g_stmt s1) b1 ++ map (g_stmt s2) ss ++ b3, impadd (g_imp s1 i1) (impadd (g_imp s2 imp') i3), y).
Proof.
  intros E R1 CP HH BF HC SEL AB RR AR RAK Bf H.
  pose proof (TwinParse.srun_advs av sw ee pf c pf_advs _ _ _ _ _ _ _ R1) as A0. destruct (advs_suffix _ _ A0) as (pre & EX).
  pose proof (advs_eof _ _ A0 E) as Ez. pose proof (advs_len _ _ A0) as Lz.
  assert (Az1 : advs z ts1) by (eapply poryswitch_header_advs; [exact HH|apply advs_refl]).
  pose proof (advs_len _ _ Az1) as L1. pose proof (advs_len _ _ AB) as L2. pose proof (advs_len _ _ AR) as L3.
  pose proof (adv_len ts2) as L4. rewrite app_length in L2.
  assert (Ebx : eof_ended (body ++ ra)) by (eapply advs_eof; [exact AB|]; eapply advs_eof; eassumption).
  pose proof (TwinParse.srun_advs av sw ee pf c pf_advs _ _ _ _ _ _ _ RR) as ARR.
  pose proof (advs_eof _ _ ARR Ebx) as Era. pose proof (advs_eof _ _ AR Era) as E2.
  assert (Erest : eof_ended (adv ts2)) by (eapply advs_eof; [apply advs_adv_r, advs_refl|exact E2]).
  (* the original *)
  rewrite (TwinParse.block_srun av sw ee pf c pf_advs pf_lt _ _ _ _ _ _ _ R1 E f start [] imp0 Bf) in H. cbn [app] in H.
  rewrite TwinParse.impadd_imp0_l in H.
  rewrite (TwinParse.block_pory_step av sw ee pf c pf_advs pf_lt script [] [] z sc sv ts1 F cases ts2 Ez CP HH BF HC f start b1 i1) in H by lia.
  rewrite SEL in H. rewrite TwinParse.block_acc in H.
  destruct (P_block f script [] [] start (adv ts2) [] imp0) as [[[b3 i3] y3]| | |] eqn:E3; try discriminate H.
  injection H as Hb Hi Hy. subst y3.
  (* the look-ahead conditions *)
  assert (Q : is COLON (cur ra) = false /\ is LPAREN (cur ra) = false /\ is ELSE (cur ra) = false /\ is ELSEIF (cur ra) = false).
  { destruct RAK as [K|[K|K]]; repeat split; (eapply is_excl; [exact K|discriminate]). }
  destruct Q as (Q1 & Q2 & Q3 & Q4).
  pose proof (TwinParse.block_ok_start av sw ee pf c _ _ _ _ _ _ _ _ _ E3) as (P1 & P2 & P3 & P4).
  assert (la2 : TwinParse.LA ra (adv ts2)) by (unfold TwinParse.LA; rewrite Q1, Q2, Q3, Q4, P1, P2, P3, P4; auto).
  assert (RANE : ra <> []) by (destruct Era; assumption).
  assert (RNE : adv ts2 <> []) by (destruct Erest; assumption).
  assert (GR : Gw ra 0 ra) by (exists []; split; [reflexivity|cbn; lia]).
  pose proof (TwinParse.srun_swap av sw ee pf c pf_advs pf_local pf_lt ra (adv ts2) script [] [] _ _ _ _ RANE RNE la2 (or_introl eq_refl) RR Ebx GR) as RS2.
  cbn [map] in RS2. rewrite (swap_app ra (adv ts2) body) in RS2. rewrite (swap_app ra (adv ts2) [] : swap ra (adv ts2) ra = adv ts2) in RS2.
  pose proof (TwinParse.srun_start av sw ee pf c _ _ _ _ _ _ _ _ _ _ _ _ RS2 E3) as (T1 & T2 & T3 & T4).
  assert (la1 : TwinParse.LA z (body ++ adv ts2)).
  { pose proof (TagRename.BlockStep.curis_type _ _ CP) as TY. unfold TwinParse.LA, is. rewrite TY. unfold is in T1, T2, T3, T4.
    rewrite T1, T2, T3, T4. auto. }
  assert (ZNE : z <> []) by (destruct Ez; assumption).
  assert (Etw : eof_ended (body ++ adv ts2)) by (apply ProgSrc.eof_ended_app; exact Erest).
  assert (TNE : body ++ adv ts2 <> []) by (destruct Etw; assumption).
  assert (GZ : Gw z 0 z) by (exists []; split; [reflexivity|cbn; lia]).
  pose proof (TwinParse.srun_swap av sw ee pf c pf_advs pf_local pf_lt z (body ++ adv ts2) script [] [] _ _ _ _ ZNE TNE la1 (or_introl eq_refl) R1 E GZ) as RS1.
  cbn [map] in RS1. rewrite EX in RS1 at 1. rewrite (swap_app z (body ++ adv ts2) pre) in RS1.
  rewrite (swap_app z (body ++ adv ts2) [] : swap z (body ++ adv ts2) z = body ++ adv ts2) in RS1.
  exists pre, b3, i3. split; [exact EX|]. split; [rewrite <- Hb, app_assoc; reflexivity|].
  split; [rewrite <- Hi, TwinParse.impadd_assoc; reflexivity|]. split; [reflexivity|]. cbv zeta.
  assert (Etwin : eof_ended (pre ++ body ++ adv ts2)) by (apply ProgSrc.eof_ended_app; exact Etw).
  assert (Ltw : (len (pre ++ body ++ adv ts2) <= len x)%nat) by (rewrite EX, !app_length; lia).
  rewrite (TwinParse.block_srun av sw ee pf c pf_advs pf_lt _ _ _ _ _ _ _ RS1 Etwin f start [] imp0) by lia. cbn [app].
  rewrite TwinParse.impadd_imp0_l.
  rewrite (TwinParse.block_srun av sw ee pf c pf_advs pf_lt _ _ _ _ _ _ _ RS2 Etw f start) by (rewrite !app_length in *; lia).
  rewrite TwinParse.block_acc, E3. rewrite <- app_assoc, TwinParse.impadd_assoc. reflexivity.
Qed.
End BLOCKAT.

Definition st0 : pstate := {| pconsts := []; ph := hst0; ptops := []; ptexts := [] |}.

Section PROGRAM.
Variable av : list (text * autovar).
Variable sw : list (text * text).
Variable ee : bool.
Variable pf : toks -> res (token * text * text * toks).
Hypothesis pf_advs : format_advs pf.
Hypothesis pf_local : format_local pf.
Hypothesis pf_lt : format_lt pf.

Lemma parse_script_eq c f xs g t1 t2 t3 :
  scope_modifier true xs = Ok (g, t1) -> expect_peek IDENT t1 = Some t2 -> expect_peek LBRACE t2 = Some t3 ->
  parse_script av sw ee pf c f xs =
  match parse_block av sw ee pf c f (tlit (cur t2)) [] [] (cur t3) (adv t3) [] imp0 with
  | Ok (b, imp, ts4) => Ok (tlit (cur t2), g, b, imp, ts4) | Err e => Err e | Panic => Panic | Fuel => Fuel end.
Proof. intros H1 H2 H3. unfold parse_script. cbv zeta. rewrite H1. cbv beta iota. rewrite H2, H3. reflexivity. Qed.

Lemma top_step_script f c h xs : ttype (cur xs) = SCRIPT ->
  top_step av sw ee pf f c h xs =
  match parse_script av sw ee pf c f xs with
  | Ok (name, g, b, imp, ts1) => let '(h', ps) := add_implicit imp h in Ok (c, h', [TScript name g (map (pstmt ps) b)], [], ts1)
  | Err e => Err e | Panic => Panic | Fuel => Fuel end.
Proof. intros E. unfold top_step. rewrite E. reflexivity. Qed.

Lemma curis_of_type ty x : ttype (cur x) = ty -> curis ty x = true.
Proof. intros E. unfold curis, is. rewrite E. unfold tt_eqb. destruct (toktype_eq_dec ty ty); congruence. Qed.

Local Notation srun := (TwinParse.srun av sw ee pf).
Local Notation case_seq := (TwinParse.case_seq av sw ee pf).
Local Notation case_at := (TwinParse.case_at av sw ee pf).

Theorem twin_program_at T f1 st1 xs g t1 t2 t3 b1 i1 z sc sv ts1 F cases ts2 ss imp' body ra p1 :
  let c := pconsts st1 in let name := tlit (cur t2) in
  eof_ended T ->
  tops_run av sw ee pf (5 * len T + 4) st0 T f1 st1 xs ->
  ttype (cur xs) = SCRIPT ->
  scope_modifier true xs = Ok (g, t1) -> expect_peek IDENT t1 = Some t2 -> expect_peek LBRACE t2 = Some t3 ->
  srun c name [] [] (adv t3) b1 i1 z ->
  curis PORYSWITCH z = true -> poryswitch_header sw ee z = Ok (sc, sv, ts1) -> (5 * len z <= F)%nat ->
  parse_pory_cases av sw ee pf c F name [] [] (cur ts1) ts1 [] = Ok (cases, ts2) ->
  PorySwitchLists.pory_select cases sv = Some (ss, imp') ->
  advs ts1 (body ++ ra) -> srun c name [] [] (body ++ ra) ss imp' ra -> advs ra ts2 ->
  (curis RBRACE ra = true \/ curis IDENT ra = true \/ curis INT ra = true) ->
  parse_program av sw ee pf T = Ok p1 ->
  exists U p2,
    T = U ++ z /\
    (len (U ++ body ++ adv ts2) < len T)%nat /\
    parse_program av sw ee pf (U ++ body ++ adv ts2) = Ok p2 /\
    TagRename.shape_program p1 = TagRename.shape_program p2.
Proof.
  intros c name E RUN TY SM EP1 EP2 R1 CP HH BF HC SEL AB RR AR RAK HP.
  (* the original *)
  unfold parse_program in HP.
  destruct (parse_tops av sw ee pf (5 * len T + 4) {| pconsts := []; ph := hst0; ptops := []; ptexts := [] |} T) as [stf| | |] eqn:PT; try discriminate HP.
  destruct (dup_text [] (checked_texts ee stf)) as [xd|] eqn:DT; [unfold err_tok in HP; discriminate HP|].
  destruct (dup_mov [] (checked_tops ee stf)) as [tkd|] eqn:DM; [unfold err_tok in HP; discriminate HP|].
  injection HP as <-.
  fold st0 in PT. rewrite (tops_run_parse_tops _ _ _ _ _ _ _ _ _ _ RUN) in PT.
  destruct (tops_run_eof av sw ee pf pf_advs _ _ _ _ _ _ RUN E (Nat.le_refl _)) as [Exs Bf1].
  destruct f1 as [|f]; [lia|].
  rewrite parse_tops_step in PT.
  assert (NE : curis EOF xs = false) by (apply (TwinParse.curis_excl SCRIPT EOF); [apply curis_of_type; exact TY|discriminate]).
  rewrite NE in PT. rewrite (top_step_script _ _ _ _ TY) in PT. rewrite (parse_script_eq _ _ _ _ _ _ _ SM EP1 EP2) in PT.
  fold c name in PT.
  destruct (parse_block av sw ee pf c f name [] [] (cur t3) (adv t3) [] imp0) as [[[b imp] y]| | |] eqn:PB; try discriminate PT.
  destruct (add_implicit imp (ph st1)) as [h' ps] eqn:AI. cbv beta iota in PT.
  (* stream facts *)
  pose proof (expect_peek_some _ _ _ EP1) as Q2. pose proof (expect_peek_some _ _ _ EP2) as Q3.
  assert (A1 : advs xs t1) by (eapply scope_modifier_advs; [exact SM|apply advs_refl]).
  assert (A3 : advs xs (adv t3)) by (apply advs_adv_r; rewrite Q3; apply advs_adv_r; rewrite Q2; apply advs_adv_r; exact A1).
  assert (Et1 : eof_ended t1) by (eapply advs_eof; eassumption).
  assert (Et3 : eof_ended t3) by (rewrite Q3, Q2; eapply advs_eof; [apply advs_adv_r, advs_adv_r, advs_refl|exact Et1]).
  remember (adv t3) as x eqn:Dx.
  assert (Ex : eof_ended x) by (eapply advs_eof; eassumption).
  pose proof (advs_len _ _ A3) as Lx.
  destruct (twin_script_block_at av sw ee pf c pf_advs pf_local pf_lt name x b1 i1 z sc sv ts1 F cases ts2 ss imp' body ra (cur t3) f b imp y
              Ex R1 CP HH BF HC SEL AB RR AR RAK ltac:(lia) PB)
    as (pre & b3 & i3 & EX & Hb & Hi & PB3 & PBT).
  cbv zeta in PBT.
  remember (adv ts2) as rest eqn:Drest. remember (body ++ rest) as tw eqn:Dtw.
  (* lengths *)
  pose proof (TwinParse.srun_advs av sw ee pf c pf_advs _ _ _ _ _ _ _ R1) as A0.
  pose proof (advs_eof _ _ A0 Ex) as Ez.
  assert (Az1 : advs z ts1) by (eapply poryswitch_header_advs; [exact HH|apply advs_refl]).
  pose proof (FuelOk.poryswitch_header_lt _ _ _ _ _ _ HH Ez) as L1.
  pose proof (TwinParse.srun_advs av sw ee pf c pf_advs _ _ _ _ _ _ _ RR) as ARR.
  assert (Ets1 : eof_ended ts1) by (eapply advs_eof; eassumption).
  assert (Ebody : eof_ended (body ++ ra)) by (eapply advs_eof; eassumption).
  pose proof (advs_eof _ _ ARR Ebody) as Era.
  pose proof (advs_eof _ _ AR Era) as E2.
  assert (RB : curis RBRACE ts2 = true).
  { assert (B1 : (5 * len ts1 <= F)%nat) by lia.
    destruct (TwinParse.cases_table_acc av sw ee pf c pf_advs pf_lt _ _ _ _ _ _ _ _ _ Ets1 B1 HC) as (l0 & _ & RB0 & _). exact RB0. }
  assert (Erest : eof_ended rest) by (rewrite Drest; eapply advs_eof; [apply advs_adv_r, advs_refl|exact E2]).
  assert (LR : (len rest < len ra)%nat).
  { assert (NE2 : ttype (cur ts2) <> EOF) by (apply TwinParse.curis_eof_ne; eapply TwinParse.curis_excl; [exact RB|discriminate]).
    pose proof (adv_strict ts2 E2 NE2) as S2. pose proof (advs_len _ _ AR) as S3. rewrite Drest. lia. }
  assert (Lb : (len body + len ra < len z)%nat).
  { pose proof (advs_len _ _ AB) as S1. rewrite app_length in S1. lia. }
  assert (Ltwl : len tw = (len body + len rest)%nat) by (rewrite Dtw; apply app_length).
  (* ids: the three shifts are one injective renaming G *)
  destruct (srun_ids av sw ee pf c pf_advs _ _ _ _ _ R1 Ex) as [I1a I1b].
  destruct (srun_ids av sw ee pf c pf_advs _ _ _ _ _ RR Ebody) as [I2a I2b].
  destruct (block_ids av sw ee pf c pf_advs _ _ _ _ _ _ _ Erest PB3) as [I3a I3b].
  assert (Lbr : len (body ++ ra) = (len body + len ra)%nat) by (apply app_length).
  destruct (one_renaming z tw ra rest (len body) b1 i1 ss imp' b3 i3 Ltwl LR Lb) as (G & Ginj & GB & GI).
  { intros n [Hn|Hn]; [specialize (I1a n Hn)|specialize (I1b n Hn)]; lia. }
  { intros n [Hn|Hn]; [specialize (I2a n Hn)|specialize (I2b n Hn)]; lia. }
  { intros n [Hn|Hn]; [specialize (I3a n Hn)|specialize (I3b n Hn)]; lia. }
  rewrite <- Hb in GB. rewrite <- Hi in GI. rewrite GB, GI in PBT.
  (* the whole streams *)
  pose proof (tops_run_advs av sw ee pf pf_advs _ _ _ _ _ _ RUN) as AT.
  assert (ATz : advs T z) by (eapply advs_trans; [exact AT|]; eapply advs_trans; [exact A3|exact A0]).
  destruct (advs_suffix _ _ ATz) as (U & ET).
  assert (NEz : z <> []) by (destruct Ez; assumption).
  assert (CEz : curis EOF z = false) by (eapply TwinParse.curis_excl; [exact CP|discriminate]).
  assert (Etw : eof_ended tw) by (rewrite Dtw; apply ProgSrc.eof_ended_app; exact Erest).
  assert (TWNE : tw <> []) by (destruct Etw; assumption).
  assert (GZx : Gw z 0 x) by (exists pre; split; [exact EX|lia]).
  assert (Gt3 : Gw z 1 t3) by (apply Gw_step_back; [exact Et3|exact NEz|exact CEz|rewrite <- Dx; exact GZx]).
  assert (Gt2 : Gw z 2 t2) by (apply (G_adv_inv z NEz); [lia|rewrite <- Q3; exact Gt3]).
  assert (Gt1 : Gw z 3 t1) by (apply (G_adv_inv z NEz); [lia|rewrite <- Q2; exact Gt2]).
  assert (Gxs : Gw z 3 xs) by (eapply G_advs; [exact A1|exact Gt1]).
  (* the statements in front of the script, in the twin *)
  assert (CK : class_ok z tw) by (unfold class_ok; rewrite (TagRename.BlockStep.curis_type _ _ CP); discriminate).
  assert (Gxs0 : Gw z 0 xs) by (eapply G_le; [|exact Gxs]; lia).
  destruct (tops_run_context av sw ee pf pf_advs pf_local z tw Ez TWNE CK _ _ _ _ _ _ RUN Gxs0 st0 eq_refl eq_refl)
    as (d & d' & e & P1 & P2 & SH & RUN').
  cbn [ptops ptexts st0 app] in P1, P2, RUN'.
  assert (SWT : swap z tw T = U ++ tw) by (rewrite ET; apply swap_app).
  rewrite SWT in RUN'.
  remember {| pconsts := pconsts st1; ph := ph st1; ptops := d'; ptexts := e |} as st1' eqn:Dst1'.
  (* the script statement, in the twin *)
  remember (st_add st1' c h' [TScript name g (map (g_stmt G) (map (pstmt ps) b))] []) as st2' eqn:Dst2'.
  assert (STEP : parse_tops av sw ee pf (S f) st1' (swap z tw xs) = parse_tops av sw ee pf f st2' (adv y)).
  { rewrite parse_tops_step. rewrite (swap_curis z tw EOF xs) by (eapply G_le; [|exact Gxs]; lia). rewrite NE.
    rewrite top_step_script by (rewrite (swap_cur z tw xs) by (eapply G_le; [|exact Gxs]; lia); exact TY).
    rewrite (parse_script_eq _ _ _ g (swap z tw t1) (swap z tw t2) (swap z tw t3)).
    2:{ apply (scope_modifier_swap z tw NEz TWNE _ _ _ _ SM). eapply G_le; [|exact Gt1]; lia. }
    2:{ rewrite (swap_expect_peek z tw NEz TWNE IDENT t1) by (eapply G_le; [|exact Gt1]; lia). rewrite EP1. reflexivity. }
    2:{ rewrite (swap_expect_peek z tw NEz TWNE LBRACE t2) by exact Gt2. rewrite EP2. reflexivity. }
    rewrite (swap_cur z tw t2) by (eapply G_le; [|exact Gt2]; lia).
    rewrite (swap_cur z tw t3 Gt3). rewrite (swap_adv z tw NEz TWNE t3 Gt3). rewrite <- Dx. rewrite EX, swap_app.
    rewrite Dst1'. cbn [pconsts ph]. fold c name. rewrite PBT. rewrite add_implicit_g, AI. cbn [fst snd].
    rewrite (pstmts_g G Ginj). rewrite Dst2', Dst1'. reflexivity. }
  (* the rest of the loop *)
  assert (Ec2 : pconsts st2' = pconsts (st_add st1 c h' [TScript name g (map (pstmt ps) b)] [])) by (rewrite Dst2', Dst1'; reflexivity).
  assert (Eh2 : ph st2' = ph (st_add st1 c h' [TScript name g (map (pstmt ps) b)] [])) by (rewrite Dst2', Dst1'; reflexivity).
  destruct (parse_tops_lists av sw ee pf f _ st2' _ _ Ec2 Eh2 PT) as (d2 & e2 & Q1 & Q2' & PT').
  cbn [st_add ptops ptexts] in Q1, Q2'. rewrite P1 in Q1. rewrite P2, app_nil_r in Q2'.
  assert (TX2 : ptexts st2' = e) by (rewrite Dst2', Dst1'; cbn [st_add ptexts]; apply app_nil_r).
  assert (TP2 : ptops st2' = d' ++ [TScript name g (map (g_stmt G) (map (pstmt ps) b))]) by (rewrite Dst2', Dst1'; reflexivity).
  rewrite TX2, TP2 in PT'.
  remember {| pconsts := pconsts stf; ph := ph stf; ptops := (d' ++ [TScript name g (map (g_stmt G) (map (pstmt ps) b))]) ++ d2; ptexts := e ++ e2 |} as stf' eqn:Dstf'.
  assert (SHP : map TagRename.shape_top (ptops stf') = map TagRename.shape_top (ptops stf)).
  { rewrite Dstf', Q1. cbn [ptops]. rewrite !map_app. rewrite (shifted_shape _ _ _ _ SH). cbn [map TagRename.shape_top].
    rewrite TwinParse.shape_g_stmts. reflexivity. }
  (* the twin program *)
  assert (LT : (len (U ++ tw) < len T)%nat).
  { rewrite ET, !app_length, Ltwl. pose proof (advs_len _ _ ARR) as S1. lia. }
  assert (ETw : eof_ended (U ++ tw)) by (apply ProgSrc.eof_ended_app; exact Etw).
  assert (PP : parse_tops av sw ee pf (5 * len (U ++ tw) + 4) st0 (U ++ tw) = Ok stf').
  { rewrite (parse_tops_fuel av sw ee pf pf_advs pf_lt st0 (U ++ tw) _ (5 * len T + 4) ETw) by lia.
    rewrite (tops_run_parse_tops _ _ _ _ _ _ _ _ _ _ RUN'). rewrite STEP. exact PT'. }
  exists U.
  exists {| tops := ptops stf' ++ hmovs (ph stf'); texts := htexts (ph stf') ++ ptexts stf' |}.
  split; [exact ET|]. split; [exact LT|].
  assert (PHE : ph stf' = ph stf) by (rewrite Dstf'; reflexivity).
  assert (TXE : ptexts stf' = ptexts stf) by (rewrite Dstf', Q2'; reflexivity).
  split.
  - unfold parse_program. fold st0. rewrite PP.
    assert (CT : checked_texts ee stf' = checked_texts ee stf) by (unfold checked_texts; rewrite PHE, TXE; reflexivity).
    rewrite CT, DT.
    assert (CM : dup_mov [] (checked_tops ee stf') = dup_mov [] (checked_tops ee stf)).
    { apply dup_mov_shape. unfold checked_tops. rewrite PHE. destruct ee; [rewrite !map_app, SHP; reflexivity|exact SHP]. }
    rewrite CM, DM. reflexivity.
  - unfold TagRename.shape_program. cbn [tops texts]. rewrite PHE, TXE. f_equal. rewrite !map_app, SHP. reflexivity.
Qed.

(* the selected case exists: TwinParse.twin_block_step finds it (the last case labelled with the switch value, else the last
   case labelled '_'), so the twin is determined by the position of the poryswitch alone *)
Theorem twin_program T f1 st1 xs g t1 t2 t3 b1 i1 z sc sv ts1 F cases ts2 ss imp' p1 :
  let c := pconsts st1 in let name := tlit (cur t2) in
  eof_ended T ->
  tops_run av sw ee pf (5 * len T + 4) st0 T f1 st1 xs ->
  ttype (cur xs) = SCRIPT ->
  scope_modifier true xs = Ok (g, t1) -> expect_peek IDENT t1 = Some t2 -> expect_peek LBRACE t2 = Some t3 ->
  srun c name [] [] (adv t3) b1 i1 z ->
  curis PORYSWITCH z = true -> poryswitch_header sw ee z = Ok (sc, sv, ts1) -> (5 * len z <= F)%nat ->
  parse_pory_cases av sw ee pf c F name [] [] (cur ts1) ts1 [] = Ok (cases, ts2) ->
  PorySwitchLists.pory_select cases sv = Some (ss, imp') ->
  parse_program av sw ee pf T = Ok p1 ->
  exists U l key l1 l2 tsc ra tsn body p2,
    T = U ++ z /\
    cases = rev l /\ l = l1 ++ (key, (ss, imp')) :: l2 /\ assoc l2 key = None /\
    (key = sval sv \/ (key = t "_" /\ assoc l (sval sv) = None)) /\
    case_seq c name [] [] ts1 l1 tsc /\ case_at c name [] [] tsc key ss imp' ra tsn /\ case_seq c name [] [] tsn l2 ts2 /\
    curis RBRACE ts2 = true /\ adv (adv tsc) = body ++ ra /\
    (len (U ++ body ++ adv ts2) < len T)%nat /\
    parse_program av sw ee pf (U ++ body ++ adv ts2) = Ok p2 /\
    TagRename.shape_program p1 = TagRename.shape_program p2.
Proof.
  intros c name E RUN TY SM EP1 EP2 R1 CP HH BF HC SEL HP.
  destruct (tops_run_eof av sw ee pf pf_advs _ _ _ _ _ _ RUN E (Nat.le_refl _)) as [Exs _].
  pose proof (expect_peek_some _ _ _ EP1) as Q2. pose proof (expect_peek_some _ _ _ EP2) as Q3.
  assert (A1 : advs xs t1) by (eapply scope_modifier_advs; [exact SM|apply advs_refl]).
  assert (A3 : advs xs (adv t3)) by (apply advs_adv_r; rewrite Q3; apply advs_adv_r; rewrite Q2; apply advs_adv_r; exact A1).
  pose proof (TwinParse.srun_advs av sw ee pf c pf_advs _ _ _ _ _ _ _ R1) as A0.
  assert (Ez : eof_ended z) by (eapply advs_eof; [exact A0|]; eapply advs_eof; eassumption).
  destruct (TwinParse.twin_block_step av sw ee pf c pf_advs pf_local pf_lt name [] [] z sc sv ts1 F cases ts2 ss imp' Ez CP HH BF HC SEL)
    as (l & key & l1 & l2 & tsc & ra & tsn & body & EQ & EL & NL & W & SQ1 & CA & SQ2 & RB & EB & RANE & LR & _ & _).
  pose proof CA as (LAB & KEY & RR & FORM).
  pose proof (TwinParse.case_seq_advs av sw ee pf c pf_advs _ _ _ _ _ _ SQ1) as Atsc.
  pose proof (TwinParse.case_seq_advs av sw ee pf c pf_advs _ _ _ _ _ _ SQ2) as A2.
  assert (AB : advs ts1 (body ++ ra)) by (rewrite <- EB; apply advs_adv_r, advs_adv_r; exact Atsc).
  assert (AR : advs ra ts2).
  { eapply advs_trans; [|exact A2]. destruct FORM as [(_ & _ & ->)|(_ & _ & ->)]; [apply advs_refl|apply advs_adv_r, advs_refl]. }
  assert (RAK : curis RBRACE ra = true \/ curis IDENT ra = true \/ curis INT ra = true).
  { destruct FORM as [(_ & _ & ->)|(_ & CR & _)]; [|left; exact CR].
    destruct SQ2 as [ts|ts k0 ss0 imp1 ra0 ts1' l0 ts' NR CA' SQ']; [left; exact RB|].
    destruct CA' as ([CI|CI] & _); [right; left; exact CI|right; right; exact CI]. }
  rewrite EB in RR.
  destruct (twin_program_at T f1 st1 xs g t1 t2 t3 b1 i1 z sc sv ts1 F cases ts2 ss imp' body ra p1
              E RUN TY SM EP1 EP2 R1 CP HH BF HC SEL AB RR AR RAK HP) as (U & p2 & ET & LT & HP2 & SHP).
  exists U, l, key, l1, l2, tsc, ra, tsn, body, p2.
  split; [exact ET|]. split; [exact EQ|]. split; [exact EL|]. split; [exact NL|]. split; [exact W|]. split; [exact SQ1|].
  split; [exact CA|]. split; [exact SQ2|]. split; [exact RB|]. split; [exact EB|]. split; [exact LT|]. split; [exact HP2|exact SHP].
Qed.
End PROGRAM.

(* ---------- the instance for the parser that Compile.compile runs, and the statement on compile outcomes ---------- *)
Definition twin_program_real av sw ee fc font ml :=
  twin_program av sw ee (Format.parse_format fc font ml ee)
    (real_format_advs fc font ml ee) (real_format_local fc font ml ee) (real_format_lt fc font ml ee).

Definition twin_program_at_real av sw ee fc font ml :=
  twin_program_at av sw ee (Format.parse_format fc font ml ee)
    (real_format_advs fc font ml ee) (real_format_local fc font ml ee) (real_format_lt fc font ml ee).

(* C12 for the simplest program shape, from source text to output text.  src: a source whose token stream is U ++ z with a
   poryswitch at z directly in the block of a top-level script (xs: the stream at the `script` keyword, reached by the
   top-level loop; b1: the statements of the block in front of the poryswitch); body: the tokens of the statements of the
   selected case, ra: the stream behind them; src': ANY source whose token stream is  U ++ body ++ (what follows the closing
   brace of the poryswitch), every token with its position.  If src parses, both compile to the same outcome (the same
   text, or the same emitter error). *)
Theorem twin_compile_at hl hd hs av sw ee fc font ml optimize mpath src f1 st1 xs g t1 t2 t3 b1 i1 z sc sv ts1 F cases ts2 ss imp' body ra p1 :
  let pf := Format.parse_format fc font ml ee in
  let T := lex hl hd hs src in
  let c := pconsts st1 in let name := tlit (cur t2) in
  tops_run av sw ee pf (5 * len T + 4) st0 T f1 st1 xs ->
  ttype (cur xs) = SCRIPT ->
  scope_modifier true xs = Ok (g, t1) -> expect_peek IDENT t1 = Some t2 -> expect_peek LBRACE t2 = Some t3 ->
  TwinParse.srun av sw ee pf c name [] [] (adv t3) b1 i1 z ->
  curis PORYSWITCH z = true -> poryswitch_header sw ee z = Ok (sc, sv, ts1) -> (5 * len z <= F)%nat ->
  parse_pory_cases av sw ee pf c F name [] [] (cur ts1) ts1 [] = Ok (cases, ts2) ->
  PorySwitchLists.pory_select cases sv = Some (ss, imp') ->
  advs ts1 (body ++ ra) -> TwinParse.srun av sw ee pf c name [] [] (body ++ ra) ss imp' ra -> advs ra ts2 ->
  (curis RBRACE ra = true \/ curis IDENT ra = true \/ curis INT ra = true) ->
  parse_program av sw ee pf T = Ok p1 ->
  forall U src', T = U ++ z -> lex hl hd hs src' = U ++ body ++ adv ts2 ->
    Compile.compile hl hd hs av sw ee fc font ml optimize mpath src =
    Compile.compile hl hd hs av sw ee fc font ml optimize mpath src'.
Proof.
  intros pf T c name RUN TY SM EP1 EP2 R1 CP HH BF HC SEL AB RR AR RAK HP U src' ET Hl.
  destruct (twin_program_at_real av sw ee fc font ml T f1 st1 xs g t1 t2 t3 b1 i1 z sc sv ts1 F cases ts2 ss imp' body ra p1
              (ProgSrc.lex_eof hl hd hs src) RUN TY SM EP1 EP2 R1 CP HH BF HC SEL AB RR AR RAK HP)
    as (U0 & p2 & ET0 & LT & HP2 & SHP).
  assert (EU : U0 = U) by (rewrite ET in ET0; apply app_inv_tail in ET0; symmetry; exact ET0).
  subst U0. rewrite <- Hl in HP2.
  exact (TagRename.compile_same_shape hl hd hs av av sw sw ee ee fc fc font font ml ml optimize mpath src src' p1 p2 HP HP2 SHP).
Qed.

Theorem twin_compile hl hd hs av sw ee fc font ml optimize mpath src f1 st1 xs g t1 t2 t3 b1 i1 z sc sv ts1 F cases ts2 ss imp' p1 :
  let pf := Format.parse_format fc font ml ee in
  let T := lex hl hd hs src in
  let c := pconsts st1 in let name := tlit (cur t2) in
  tops_run av sw ee pf (5 * len T + 4) st0 T f1 st1 xs ->
  ttype (cur xs) = SCRIPT ->
  scope_modifier true xs = Ok (g, t1) -> expect_peek IDENT t1 = Some t2 -> expect_peek LBRACE t2 = Some t3 ->
  TwinParse.srun av sw ee pf c name [] [] (adv t3) b1 i1 z ->
  curis PORYSWITCH z = true -> poryswitch_header sw ee z = Ok (sc, sv, ts1) -> (5 * len z <= F)%nat ->
  parse_pory_cases av sw ee pf c F name [] [] (cur ts1) ts1 [] = Ok (cases, ts2) ->
  PorySwitchLists.pory_select cases sv = Some (ss, imp') ->
  parse_program av sw ee pf T = Ok p1 ->
  exists U l key l1 l2 tsc ra tsn body,
    T = U ++ z /\
    cases = rev l /\ l = l1 ++ (key, (ss, imp')) :: l2 /\ assoc l2 key = None /\
    (key = sval sv \/ (key = t "_" /\ assoc l (sval sv) = None)) /\
    TwinParse.case_seq av sw ee pf c name [] [] ts1 l1 tsc /\ TwinParse.case_at av sw ee pf c name [] [] tsc key ss imp' ra tsn /\
    TwinParse.case_seq av sw ee pf c name [] [] tsn l2 ts2 /\
    curis RBRACE ts2 = true /\ adv (adv tsc) = body ++ ra /\
    (len (U ++ body ++ adv ts2) < len T)%nat /\
    forall src', lex hl hd hs src' = U ++ body ++ adv ts2 ->
      Compile.compile hl hd hs av sw ee fc font ml optimize mpath src =
      Compile.compile hl hd hs av sw ee fc font ml optimize mpath src'.
Proof.
  intros pf T c name RUN TY SM EP1 EP2 R1 CP HH BF HC SEL HP.
  destruct (twin_program_real av sw ee fc font ml T f1 st1 xs g t1 t2 t3 b1 i1 z sc sv ts1 F cases ts2 ss imp' p1
              (ProgSrc.lex_eof hl hd hs src) RUN TY SM EP1 EP2 R1 CP HH BF HC SEL HP)
    as (U & l & key & l1 & l2 & tsc & ra & tsn & body & p2 & ET & EQ & EL & NL & W & SQ1 & CA & SQ2 & RB & EB & LT & HP2 & SHP).
  exists U, l, key, l1, l2, tsc, ra, tsn, body.
  split; [exact ET|]. split; [exact EQ|]. split; [exact EL|]. split; [exact NL|]. split; [exact W|]. split; [exact SQ1|].
  split; [exact CA|]. split; [exact SQ2|]. split; [exact RB|]. split; [exact EB|]. split; [exact LT|].
  intros src' Hl. rewrite <- Hl in HP2.
  exact (TagRename.compile_same_shape hl hd hs av av sw sw ee ee fc fc font font ml ml optimize mpath src src' p1 p2 HP HP2 SHP).
Qed.

(* ------------------------------------------------------------------------------------------------------------ *)
(* Part 5b: no matching case and no '_' (normal mode): the PROGRAM is rejected, with the error at the poryswitch   *)
(* ------------------------------------------------------------------------------------------------------------ *)
Section NOCASE.
Variable av : list (text * autovar).
Variable sw : list (text * text).
Variable pf : toks -> res (token * text * text * toks).
Hypothesis pf_advs : format_advs pf.
Hypothesis pf_lt : format_lt pf.

Theorem no_case_program T f1 st1 xs g t1 t2 t3 b1 i1 z sc sv ts1 F cases ts2 :
  let c := pconsts st1 in let name := tlit (cur t2) in
  eof_ended T ->
  tops_run av sw true pf (5 * len T + 4) st0 T f1 st1 xs ->
  ttype (cur xs) = SCRIPT ->
  scope_modifier true xs = Ok (g, t1) -> expect_peek IDENT t1 = Some t2 -> expect_peek LBRACE t2 = Some t3 ->
  TwinParse.srun av sw true pf c name [] [] (adv t3) b1 i1 z ->
  curis PORYSWITCH z = true -> poryswitch_header sw true z = Ok (sc, sv, ts1) -> (5 * len z <= F)%nat ->
  parse_pory_cases av sw true pf c F name [] [] (cur ts1) ts1 [] = Ok (cases, ts2) ->
  PorySwitchLists.pory_select cases sv = None ->
  parse_program av sw true pf T = err_tok (cur z) "no poryswitch case found".
Proof.
  intros c name E RUN TY SM EP1 EP2 R1 CP HH BF HC SEL.
  unfold parse_program. fold st0. rewrite (tops_run_parse_tops _ _ _ _ _ _ _ _ _ _ RUN).
  destruct (tops_run_eof av sw true pf pf_advs _ _ _ _ _ _ RUN E (Nat.le_refl _)) as [Exs Bf1].
  destruct f1 as [|f]; [lia|].
  rewrite parse_tops_step.
  assert (NE : curis EOF xs = false) by (apply (TwinParse.curis_excl SCRIPT EOF); [apply curis_of_type; exact TY|discriminate]).
  rewrite NE. rewrite (top_step_script _ _ _ _ _ _ _ _ TY). rewrite (parse_script_eq _ _ _ _ _ _ _ _ _ _ _ SM EP1 EP2).
  fold c name.
  pose proof (expect_peek_some _ _ _ EP1) as Q2. pose proof (expect_peek_some _ _ _ EP2) as Q3.
  assert (A1 : advs xs t1) by (eapply scope_modifier_advs; [exact SM|apply advs_refl]).
  assert (A3 : advs xs (adv t3)) by (apply advs_adv_r; rewrite Q3; apply advs_adv_r; rewrite Q2; apply advs_adv_r; exact A1).
  assert (Ex : eof_ended (adv t3)) by (eapply advs_eof; eassumption).
  pose proof (advs_len _ _ A3) as Lx.
  pose proof (TwinParse.srun_advs av sw true pf c pf_advs _ _ _ _ _ _ _ R1) as A0.
  pose proof (advs_eof _ _ A0 Ex) as Ez. pose proof (advs_len _ _ A0) as Lz.
  rewrite (TwinParse.block_srun av sw true pf c pf_advs pf_lt _ _ _ _ _ _ _ R1 Ex f (cur t3) [] imp0) by lia.
  rewrite (TwinParse.block_pory_step av sw true pf c pf_advs pf_lt name [] [] z sc sv ts1 F cases ts2 Ez CP HH BF HC f (cur t3)) by lia.
  rewrite SEL. reflexivity.
Qed.
End NOCASE.

Theorem no_case_compile hl hd hs av sw fc font ml optimize mpath src f1 st1 xs g t1 t2 t3 b1 i1 z sc sv ts1 F cases ts2 :
  let pf := Format.parse_format fc font ml true in
  let T := lex hl hd hs src in
  let c := pconsts st1 in let name := tlit (cur t2) in
  tops_run av sw true pf (5 * len T + 4) st0 T f1 st1 xs ->
  ttype (cur xs) = SCRIPT ->
  scope_modifier true xs = Ok (g, t1) -> expect_peek IDENT t1 = Some t2 -> expect_peek LBRACE t2 = Some t3 ->
  TwinParse.srun av sw true pf c name [] [] (adv t3) b1 i1 z ->
  curis PORYSWITCH z = true -> poryswitch_header sw true z = Ok (sc, sv, ts1) -> (5 * len z <= F)%nat ->
  parse_pory_cases av sw true pf c F name [] [] (cur ts1) ts1 [] = Ok (cases, ts2) ->
  PorySwitchLists.pory_select cases sv = None ->
  exists e, Compile.compile hl hd hs av sw true fc font ml optimize mpath src = Compile.OutErr e /\
            emsg e = t "no poryswitch case found" /\ els e = tline (cur z) /\ ecs e = tsb (cur z).
Proof.
  intros pf T c name RUN TY SM EP1 EP2 R1 CP HH BF HC SEL.
  pose proof (no_case_program av sw pf (real_format_advs fc font ml true) (real_format_lt fc font ml true)
                T f1 st1 xs g t1 t2 t3 b1 i1 z sc sv ts1 F cases ts2 (ProgSrc.lex_eof hl hd hs src) RUN TY SM EP1 EP2 R1 CP HH BF HC SEL) as HP.
  unfold Compile.compile. fold T. fold pf. rewrite HP. unfold err_tok. eexists. split; [reflexivity|]. cbn [emsg els ecs]. auto.
Qed.

(* ------------------------------------------------------------------------------------------------------------ *)
(* Part 5c: SEVERAL poryswitches, one replacement after the other.  twin_step src src': src' is a twin of src for   *)
(* ONE statement poryswitch directly in the block of a top-level script (all hypotheses of twin_compile_at).  The   *)
(* poryswitches left over (in other scripts, in front of or behind the replaced one, INSIDE the selected case: they *)
(* are directly in the block after the replacement) can be replaced in further steps: every chain of steps keeps   *)
(* the compile outcome.  (The hypotheses of each step are about the program reached so far.)                        *)
(* ------------------------------------------------------------------------------------------------------------ *)
Section CHAIN.
Variables (hl hd hs : N -> bool) (av : list (text * autovar)) (sw : list (text * text)) (ee : bool)
          (fc : Format.fontcfg) (font : text) (ml : Z).
Local Notation pf := (Format.parse_format fc font ml ee).

Definition twin_step (src src' : text) : Prop :=
  exists f1 st1 xs g t1 t2 t3 b1 i1 z sc sv ts1 F cases ts2 ss imp' body ra p1 U,
    let T := lex hl hd hs src in
    let c := pconsts st1 in let name := tlit (cur t2) in
    tops_run av sw ee pf (5 * len T + 4) st0 T f1 st1 xs /\
    ttype (cur xs) = SCRIPT /\
    scope_modifier true xs = Ok (g, t1) /\ expect_peek IDENT t1 = Some t2 /\ expect_peek LBRACE t2 = Some t3 /\
    TwinParse.srun av sw ee pf c name [] [] (adv t3) b1 i1 z /\
    curis PORYSWITCH z = true /\ poryswitch_header sw ee z = Ok (sc, sv, ts1) /\ (5 * len z <= F)%nat /\
    parse_pory_cases av sw ee pf c F name [] [] (cur ts1) ts1 [] = Ok (cases, ts2) /\
    PorySwitchLists.pory_select cases sv = Some (ss, imp') /\
    advs ts1 (body ++ ra) /\ TwinParse.srun av sw ee pf c name [] [] (body ++ ra) ss imp' ra /\ advs ra ts2 /\
    (curis RBRACE ra = true \/ curis IDENT ra = true \/ curis INT ra = true) /\
    parse_program av sw ee pf T = Ok p1 /\
    T = U ++ z /\ lex hl hd hs src' = U ++ body ++ adv ts2.

Inductive twin_steps : text -> text -> Prop :=
| steps_nil src : twin_steps src src
| steps_cons src src1 src' : twin_step src src1 -> twin_steps src1 src' -> twin_steps src src'.

Theorem twin_step_compile optimize mpath src src' : twin_step src src' ->
  Compile.compile hl hd hs av sw ee fc font ml optimize mpath src = Compile.compile hl hd hs av sw ee fc font ml optimize mpath src'.
Proof.
  intros (f1 & st1 & xs & g & t1 & t2 & t3 & b1 & i1 & z & sc & sv & ts1 & F & cases & ts2 & ss & imp' & body & ra & p1 & U & H).
  cbv zeta in H.
  destruct H as (RUN & TY & SM & EP1 & EP2 & R1 & CP & HH & BF & HC & SEL & AB & RR & AR & RAK & HP & ET & Hl).
  exact (twin_compile_at hl hd hs av sw ee fc font ml optimize mpath src f1 st1 xs g t1 t2 t3 b1 i1 z sc sv ts1 F cases ts2 ss imp' body ra p1
           RUN TY SM EP1 EP2 R1 CP HH BF HC SEL AB RR AR RAK HP U src' ET Hl).
Qed.

Theorem twin_steps_compile optimize mpath src src' : twin_steps src src' ->
  Compile.compile hl hd hs av sw ee fc font ml optimize mpath src = Compile.compile hl hd hs av sw ee fc font ml optimize mpath src'.
Proof.
  induction 1 as [src|src src1 src' S _ IH]; [reflexivity|]. rewrite (twin_step_compile optimize mpath _ _ S). exact IH.
Qed.
End CHAIN.

(* ------------------------------------------------------------------------------------------------------------ *)
(* Part 6: the hypotheses of twin_compile_at hold on a concrete program (a const, a text, a script with a loop and *)
(* an inline text in front; the script with a 3-case poryswitch, `lock` in front of it, a do-while loop and an      *)
(* inline text behind it; a script that shares an inline text behind): the theorem gives the equality of outcomes  *)
(* ------------------------------------------------------------------------------------------------------------ *)
Open Scope string_scope.
Definition nl1 := TagRename.nl1.
Definition tp_src : string :=
  "const N = 3" ++ nl1 ++ "text T1 { ""hi"" }" ++ nl1 ++
  "script Pre { while (flag(A)) { msgbox(""x"") break } }" ++ nl1 ++
  "script A {" ++ nl1 ++ " lock" ++ nl1 ++
  " poryswitch(GAME) {" ++ nl1 ++
  "   SAPPHIRE: release" ++ nl1 ++
  "   RUBY { while (flag(F)) { msgbox(""hi"") break } }" ++ nl1 ++
  "   _ { switch (var(V)) { case 1: end } }" ++ nl1 ++
  " }" ++ nl1 ++
  " do { faceplayer continue } while (var(X) == 2)" ++ nl1 ++ " msgbox(""bye"")" ++ nl1 ++ "}" ++ nl1 ++
  "script Post { msgbox(""x"") }".
Definition tp_twin : string :=
  "const N = 3" ++ nl1 ++ "text T1 { ""hi"" }" ++ nl1 ++
  "script Pre { while (flag(A)) { msgbox(""x"") break } }" ++ nl1 ++
  "script A {" ++ nl1 ++ " lock" ++ nl1 ++
  "                   " ++ nl1 ++
  "                    " ++ nl1 ++
  "          while (flag(F)) { msgbox(""hi"") break }  " ++ nl1 ++
  "                                        " ++ nl1 ++
  "  " ++ nl1 ++
  " do { faceplayer continue } while (var(X) == 2)" ++ nl1 ++ " msgbox(""bye"")" ++ nl1 ++ "}" ++ nl1 ++
  "script Post { msgbox(""x"") }".
Close Scope string_scope.
Definition nf := TagRename.nf.
Definition tp_T : toks := Eval vm_compute in lex nf nf nf (t tp_src).
Lemma tp_T_eq : lex nf nf nf (t tp_src) = tp_T. Proof. vm_compute. reflexivity. Qed.
Definition tp_pf := Format.parse_format TagRename.fc0 [] 0%Z true.


Lemma advs_at : forall n (a b : toks), (n < len a)%nat -> skipn n a = b -> advs a b.
Proof.
  induction n as [|n IH]; intros a b L E.
  - cbn in E. subst. apply advs_refl.
  - destruct a as [|x [|y r]]; cbn in L; try lia. apply advs_step. cbn [adv]. apply IH; [cbn; lia|exact E].
Qed.
Lemma srun_one av sw ee pf c script bs cs x f ss imp y z :
  (5 * len x + 2 <= f)%nat -> parse_stmt av sw ee pf c f script bs cs x = Ok (ss, imp, y) -> (2 <= len y)%nat -> adv y = z ->
  TwinParse.srun av sw ee pf c script bs cs x ss imp z.
Proof.
  intros B H L E. rewrite <- (app_nil_r ss), <- (TwinParse.impadd_imp0_r imp). econstructor; [exact B|exact H|exact L|].
  rewrite E. constructor.
Qed.

Example twin_compile_example :
  Compile.compile nf nf nf [] TagRename.sw0 true TagRename.fc0 [] 0%Z false None (t tp_src) =
  Compile.compile nf nf nf [] TagRename.sw0 true TagRename.fc0 [] 0%Z false None (t tp_twin).
Proof.
  eapply (twin_compile_at nf nf nf [] TagRename.sw0 true TagRename.fc0 [] 0%Z false None (t tp_src))
    with (xs := skipn 27 tp_T) (z := skipn 31 tp_T) (body := firstn 14 (skipn 41 tp_T)) (ra := skipn 55 tp_T) (U := firstn 31 tp_T).
  all: rewrite ?tp_T_eq.
  - (* the three statements in front of the script: const, text, script Pre *)
    let n := eval vm_compute in (5 * len tp_T + 4)%nat in change (5 * len tp_T + 4)%nat with n.
    eapply run_step; [vm_compute; reflexivity|vm_compute; reflexivity|vm_compute; reflexivity|].
    eapply run_step; [vm_compute; reflexivity|vm_compute; reflexivity|vm_compute; reflexivity|].
    eapply run_step; [vm_compute; reflexivity|vm_compute; reflexivity|vm_compute; reflexivity|].
    apply run_refl.
  - vm_compute; reflexivity.
  - vm_compute; reflexivity.
  - vm_compute; reflexivity.
  - vm_compute; reflexivity.
  - (* the statement `lock` in front of the poryswitch *)
    eapply srun_one; [apply Nat.le_refl|vm_compute; reflexivity|vm_compute; lia|vm_compute; reflexivity].
  - vm_compute; reflexivity.
  - vm_compute; reflexivity.
  - apply Nat.le_refl.
  - vm_compute; reflexivity.
  - vm_compute; reflexivity.
  - (* the body of the RUBY case lies behind the header ... *)
    match goal with |- advs ?a _ => let n := eval vm_compute in (len a - len (skipn 41 tp_T))%nat in apply (advs_at n) end;
      [vm_compute; lia|vm_compute; reflexivity].
  - (* ... it is one statement (a while loop) that gives exactly the selected entry *)
    eapply srun_one; [apply Nat.le_refl|vm_compute; reflexivity|vm_compute; lia|vm_compute; reflexivity].
  - (* ... and ends in front of the closing brace of the poryswitch *)
    match goal with |- advs _ ?b => let n := eval vm_compute in (len (skipn 55 tp_T) - len b)%nat in apply (advs_at n) end;
      [vm_compute; lia|vm_compute; reflexivity].
  - left. vm_compute. reflexivity.
  - vm_compute. reflexivity.
  - symmetry. apply firstn_skipn.
  - vm_compute. reflexivity.
Qed.
Example twin_compile_example_nontrivial :
  (exists out, Compile.compile nf nf nf [] TagRename.sw0 true TagRename.fc0 [] 0%Z false None (t tp_src) = Compile.OutText out) /\
  (exists p1 p2, parse_program [] TagRename.sw0 true tp_pf (lex nf nf nf (t tp_src)) = Ok p1 /\
                 parse_program [] TagRename.sw0 true tp_pf (lex nf nf nf (t tp_twin)) = Ok p2 /\ tops p1 <> tops p2).
Proof.
  split; [eexists; vm_compute; reflexivity|]. eexists. eexists. split; [vm_compute; reflexivity|]. split; [vm_compute; reflexivity|].
  intros H. vm_compute in H. discriminate H.
Qed.

(* ---------- no matching case, no '_': the hypotheses of no_case_compile hold on a concrete program ---------- *)
Open Scope string_scope.
Definition nc_src : string :=
  "text T1 { ""hi"" }" ++ nl1 ++
  "script A {" ++ nl1 ++ " lock" ++ nl1 ++
  " poryswitch(GAME) {" ++ nl1 ++
  "   SAPPHIRE: release" ++ nl1 ++
  "   EMERALD { end }" ++ nl1 ++
  " }" ++ nl1 ++ " msgbox(""bye"")" ++ nl1 ++ "}".
Close Scope string_scope.
Definition nc_T : toks := Eval vm_compute in lex nf nf nf (t nc_src).
Lemma nc_T_eq : lex nf nf nf (t nc_src) = nc_T. Proof. vm_compute. reflexivity. Qed.
Example no_case_example :
  exists e, Compile.compile nf nf nf [] TagRename.sw0 true TagRename.fc0 [] 0%Z false None (t nc_src) = Compile.OutErr e /\
            emsg e = t "no poryswitch case found" /\ els e = tline (cur (skipn 9 nc_T)) /\ ecs e = tsb (cur (skipn 9 nc_T)).
Proof.
  eapply (no_case_compile nf nf nf [] TagRename.sw0 TagRename.fc0 [] 0%Z false None (t nc_src))
    with (xs := skipn 5 nc_T) (z := skipn 9 nc_T).
  all: rewrite ?nc_T_eq.
  - let n := eval vm_compute in (5 * len nc_T + 4)%nat in change (5 * len nc_T + 4)%nat with n.
    eapply run_step; [vm_compute; reflexivity|vm_compute; reflexivity|vm_compute; reflexivity|].
    apply run_refl.
  - vm_compute; reflexivity.
  - vm_compute; reflexivity.
  - vm_compute; reflexivity.
  - vm_compute; reflexivity.
  - eapply srun_one; [apply Nat.le_refl|vm_compute; reflexivity|vm_compute; lia|vm_compute; reflexivity].
  - vm_compute; reflexivity.
  - vm_compute; reflexivity.
  - apply Nat.le_refl.
  - vm_compute; reflexivity.
  - vm_compute; reflexivity.
Qed.

(* ---------- a poryswitch nested inside the selected case of a poryswitch: a chain of two steps ---------- *)
Open Scope string_scope.
Definition ch_src0 : string :=
  "script A {" ++ nl1 ++
  " lock" ++ nl1 ++
  " poryswitch(GAME) {" ++ nl1 ++
  "   SAPPHIRE: release" ++ nl1 ++
  "   RUBY { faceplayer poryswitch(LANG) { EN: msgbox(""en"") DE { msgbox(""de"") } } }" ++ nl1 ++
  " }" ++ nl1 ++
  " end" ++ nl1 ++
  "}".
Definition ch_src1 : string :=
  "script A {" ++ nl1 ++
  " lock" ++ nl1 ++
  "  " ++ nl1 ++
  "  " ++ nl1 ++
  "          faceplayer poryswitch(LANG) { EN: msgbox(""en"") DE { msgbox(""de"") } } " ++ nl1 ++
  "  " ++ nl1 ++
  " end" ++ nl1 ++
  "}".
Definition ch_src2 : string :=
  "script A {" ++ nl1 ++
  " lock" ++ nl1 ++
  "  " ++ nl1 ++
  "  " ++ nl1 ++
  "          faceplayer                                          msgbox(""de"")      " ++ nl1 ++
  "  " ++ nl1 ++
  " end" ++ nl1 ++
  "}".
Close Scope string_scope.
Definition ch_sw : list (text * text) := [(t "GAME", t "RUBY"); (t "LANG", t "DE")].
Definition ch_T0 : toks := Eval vm_compute in lex nf nf nf (t ch_src0).
Definition ch_T1 : toks := Eval vm_compute in lex nf nf nf (t ch_src1).
Lemma ch_T0_eq : lex nf nf nf (t ch_src0) = ch_T0. Proof. vm_compute. reflexivity. Qed.
Lemma ch_T1_eq : lex nf nf nf (t ch_src1) = ch_T1. Proof. vm_compute. reflexivity. Qed.
Lemma srun_eq av sw ee pf c script bs cs x ss imp ss' imp' z :
  TwinParse.srun av sw ee pf c script bs cs x ss' imp' z -> ss' = ss -> imp' = imp -> TwinParse.srun av sw ee pf c script bs cs x ss imp z.
Proof. intros H -> ->. exact H. Qed.
Ltac srun_build :=
  first [ apply TwinParse.srun_nil
        | eapply TwinParse.srun_cons; [apply Nat.le_refl | vm_compute; reflexivity | vm_compute; lia | srun_build] ].

Example chain_step1 : twin_step nf nf nf [] ch_sw true TagRename.fc0 [] 0%Z (t ch_src0) (t ch_src1).
Proof.
  unfold twin_step.
  exists (5 * len ch_T0 + 4)%nat, st0, ch_T0.
  do 6 eexists. exists (skipn 4 ch_T0). do 8 eexists. exists (firstn 20 (skipn 14 ch_T0)), (skipn 34 ch_T0). eexists. exists (firstn 4 ch_T0).
  cbv zeta. rewrite ?ch_T0_eq.
  split; [apply run_refl|].
  split; [vm_compute; reflexivity|]. split; [vm_compute; reflexivity|]. split; [vm_compute; reflexivity|]. split; [vm_compute; reflexivity|].
  split; [srun_build|].
  split; [vm_compute; reflexivity|]. split; [vm_compute; reflexivity|]. split; [apply Nat.le_refl|].
  split; [vm_compute; reflexivity|]. split; [vm_compute; reflexivity|].
  split.
  { match goal with |- advs ?a _ => let n := eval vm_compute in (len a - len (skipn 14 ch_T0))%nat in apply (advs_at n) end;
      [vm_compute; lia|vm_compute; reflexivity]. }
  split; [eapply srun_eq; [srun_build|vm_compute; reflexivity|vm_compute; reflexivity]|].
  split.
  { match goal with |- advs _ ?b => let n := eval vm_compute in (len (skipn 34 ch_T0) - len b)%nat in apply (advs_at n) end;
      [vm_compute; lia|vm_compute; reflexivity]. }
  split; [left; vm_compute; reflexivity|]. split; [vm_compute; reflexivity|].
  split; [symmetry; apply firstn_skipn|vm_compute; reflexivity].
Qed.

Example chain_step2 : twin_step nf nf nf [] ch_sw true TagRename.fc0 [] 0%Z (t ch_src1) (t ch_src2).
Proof.
  unfold twin_step.
  exists (5 * len ch_T1 + 4)%nat, st0, ch_T1.
  do 6 eexists. exists (skipn 5 ch_T1). do 8 eexists. exists (firstn 4 (skipn 18 ch_T1)), (skipn 22 ch_T1). eexists. exists (firstn 5 ch_T1).
  cbv zeta. rewrite ?ch_T1_eq.
  split; [apply run_refl|].
  split; [vm_compute; reflexivity|]. split; [vm_compute; reflexivity|]. split; [vm_compute; reflexivity|]. split; [vm_compute; reflexivity|].
  split; [srun_build|].
  split; [vm_compute; reflexivity|]. split; [vm_compute; reflexivity|]. split; [apply Nat.le_refl|].
  split; [vm_compute; reflexivity|]. split; [vm_compute; reflexivity|].
  split.
  { match goal with |- advs ?a _ => let n := eval vm_compute in (len a - len (skipn 18 ch_T1))%nat in apply (advs_at n) end;
      [vm_compute; lia|vm_compute; reflexivity]. }
  split; [eapply srun_eq; [srun_build|vm_compute; reflexivity|vm_compute; reflexivity]|].
  split.
  { match goal with |- advs _ ?b => let n := eval vm_compute in (len (skipn 22 ch_T1) - len b)%nat in apply (advs_at n) end;
      [vm_compute; lia|vm_compute; reflexivity]. }
  split; [left; vm_compute; reflexivity|]. split; [vm_compute; reflexivity|].
  split; [symmetry; apply firstn_skipn|vm_compute; reflexivity].
Qed.

(* a poryswitch nested inside the selected case of a poryswitch: two steps; the outcome of the original is the outcome of
   the poryswitch-free program *)
Example chain_example :
  Compile.compile nf nf nf [] ch_sw true TagRename.fc0 [] 0%Z false None (t ch_src0) =
  Compile.compile nf nf nf [] ch_sw true TagRename.fc0 [] 0%Z false None (t ch_src2).
Proof.
  apply twin_steps_compile. eapply steps_cons; [exact chain_step1|]. eapply steps_cons; [exact chain_step2|]. apply steps_nil.
Qed.

(* ---------- BOUNDARY: the premise "the original parses" of twin_program / twin_compile cannot be replaced by "the twin
   parses": ALL cases of a statement poryswitch are parsed (parser.go:2025), so a syntax error in a case that is NOT selected
   makes the original fail ("missing '(' to start boolean expression") while the twin compiles.  Read literally, the sentence
   "no token of any other case influences the output" holds only among programs whose cases are all well formed. ---------- *)
Open Scope string_scope.
Definition oc_src : string := "script A { poryswitch(GAME) { SAPPHIRE { if } RUBY { lock } } }".
Definition oc_twin : string := "script A {                                           lock     }".
Close Scope string_scope.
Example other_case_error_counterexample :
  (exists e, TagRename.comp0 oc_src = Compile.OutErr e) /\
  (exists out, TagRename.comp0 oc_twin = Compile.OutText out) /\
  (let ts := lex nf nf nf (t oc_src) in
   lex nf nf nf (t oc_twin) = firstn 3 ts ++ [nth 14 ts eof0] ++ skipn 17 ts).
Proof.
  split; [eexists; vm_compute; reflexivity|]. split; [eexists; vm_compute; reflexivity|]. vm_compute. reflexivity.
Qed.
