(* Lemma 3 of C01: the chunk-graph semantics and the pc machine over the rendered instruction list agree, for every
   chunk order, under the executable well-formedness check [wf_render] (ids, references, label uniqueness, no fall off
   the end).  Part 1: the rendered code as a concatenation of blocks; positions. *)
From Coq Require Import List String Ascii ZArith NArith Lia Bool.
From Pory Require Import Lexer Ast Emitter Sem2 SemTgt EmitProps.
Import ListNotations.
Open Scope list_scope.

Section BLOCKS.
Variable mp : option text.
Variable name : text.
Variable glob : bool.
Variable G : list chunk.
Variable regs : list Z.

Definition body_of (c : chunk) (nx : Z) : list instr :=
  let '(b, _, fall) := render_branch mp name c nx in
  flat_map (render_stmt mp) (cstmts c) ++ b ++ (if fall then [] else [IBlank]).
Definition labelpart (i : Z) : list instr :=
  if (i =? 0)%Z then [ILabel name glob] else if zmem i regs then [ILabel (lbl name i) false] else [].
Definition block_of (i : Z) (nx : Z) : list instr :=
  match get_chunk G i with Some c => labelpart i ++ body_of c nx | None => [] end.

(* code of the chunks [l] when the chunk rendered after them is [nx] *)
Fixpoint blocks (l : list Z) (nx : Z) : list instr :=
  match l with
  | [] => []
  | i :: r => block_of i (hd nx r) ++ blocks r nx
  end.

Lemma blocks_app l1 l2 nx : blocks (l1 ++ l2) nx = blocks l1 (hd nx l2) ++ blocks l2 nx.
Proof.
  induction l1 as [|i r IH]; [reflexivity|]. cbn [app blocks]. rewrite IH, <- app_assoc. f_equal.
  destruct r; reflexivity.
Qed.

Fixpoint all_regs (l : list Z) (nx : Z) : list Z :=
  match l with
  | [] => []
  | i :: r => match get_chunk G i with
              | Some c => snd (fst (render_branch mp name c (hd nx r)))
              | None => []
              end ++ all_regs r nx
  end.
End BLOCKS.

(* render_chunks produces exactly the blocks, with the registered set it computed itself *)
Lemma render_bodies_blocks mp tl name G labels : forall order bodies regs0,
  render_bodies mp tl name G labels order = Ok (bodies, regs0) ->
  regs0 = all_regs mp name G order (-1) /\
  forall glob regs, flat_map (fun '(i, b) => labelpart name glob regs i ++ b) bodies = blocks mp name glob G regs order (-1).
Proof.
  induction order as [|i r IH]; intros bodies regs0 H; cbn [render_bodies] in H.
  - inversion H; subst. split; reflexivity.
  - cbn [all_regs blocks]. unfold block_of.
    replace (match r with n :: _ => n | [] => (-1)%Z end) with (hd (-1)%Z r) in H by (destruct r; reflexivity).
    destruct (get_chunk G i) as [c|] eqn:E.
    + destruct (clash tl labels (cstmts c)) as [[tk bb]|]; [discriminate|].
      unfold body_of. destruct (render_branch mp name c (hd (-1)%Z r)) as [[b rg] fall].
      destruct (render_bodies mp tl name G labels r) as [[rest regs']| | | |]; try discriminate.
      inversion H; subst. destruct (IH _ _ eq_refl) as [I1 I2]. split; [cbn; now rewrite I1|].
      intros glob regs. cbn [flat_map]. rewrite I2. now rewrite <- app_assoc.
    + destruct (IH _ _ H) as [I1 I2]. split; [exact I1|]. intros. cbn [app]. apply I2.
Qed.

Theorem render_chunks_blocks mp tl name glob G order code :
  render_chunks mp tl name glob G order = Ok code ->
  code = blocks mp name glob G (all_regs mp name G order (-1)) order (-1).
Proof.
  unfold render_chunks. destruct (render_bodies mp tl name G _ order) as [[bodies regs0]| | | |] eqn:E; try discriminate.
  intros H; inversion H; subst. destruct (render_bodies_blocks _ _ _ _ _ _ _ _ E) as [I1 I2]. subst regs0.
  unfold labelpart in I2. apply I2.
Qed.

(* ---------- Part 2: stepping the pc machine along a known suffix of the code ---------- *)
Definition lnames (is : list instr) : list text := map fst (labels_of is).
Lemma lnames_app a b : lnames (a ++ b) = lnames a ++ lnames b.
Proof. unfold lnames. now rewrite labels_of_app, map_app. Qed.

Lemma find_lbl_skip l pre : forall k post, ~ In l (lnames pre) -> find_lbl l (pre ++ post) k = find_lbl l post (k + List.length pre).
Proof.
  induction pre as [|i r IH]; intros k post H; cbn [app List.length]; [now rewrite Nat.add_0_r|].
  assert (H' : ~ In l (lnames r)).
  { intros X. apply H. destruct i; cbn; auto. }
  cbn [find_lbl]. destruct i; try (rewrite IH by exact H'; f_equal; lia).
  destruct (text_eqb name l) eqn:E.
  - exfalso. apply H. unfold text_eqb in E. destruct (list_eq_dec N.eq_dec name l); [|discriminate]. subst. now left.
  - rewrite IH by exact H'. f_equal. lia.
Qed.

Lemma text_eqb_refl x : text_eqb x x = true.
Proof. unfold text_eqb. destruct (list_eq_dec N.eq_dec x x); [reflexivity|congruence]. Qed.

Lemma find_lbl_here l g pre post : ~ In l (lnames pre) -> find_lbl l (pre ++ ILabel l g :: post) 0 = Some (List.length pre).
Proof. intros H. rewrite find_lbl_skip by exact H. cbn. now rewrite text_eqb_refl. Qed.

Lemma find_lbl_none l is : forall k, ~ In l (lnames is) -> find_lbl l is k = None.
Proof.
  induction is as [|i r IH]; intros k H; [reflexivity|].
  assert (H' : ~ In l (lnames r)) by (intros X; apply H; destruct i; cbn; auto).
  cbn [find_lbl]. destruct i; try (apply IH; exact H').
  destruct (text_eqb name l) eqn:E; [|apply IH; exact H'].
  exfalso. apply H. unfold text_eqb in E. destruct (list_eq_dec N.eq_dec name l); [|discriminate]. subst. now left.
Qed.

Lemma skipn_cons_nth {A} (l : list A) pc x rest : skipn pc l = x :: rest -> nth_error l pc = Some x /\ skipn (S pc) l = rest.
Proof.
  revert l. induction pc as [|pc IH]; intros l H.
  - destruct l; inversion H; subst. split; reflexivity.
  - destruct l as [|y l]; [discriminate|]. cbn in H. destruct (IH _ H) as [H1 H2]. split; [exact H1|exact H2].
Qed.

Lemma skipn_length_app {A} (a b : list A) : skipn (List.length a) (a ++ b) = b.
Proof. induction a; cbn; auto. Qed.

Section TGT.
Variable St : Type.
Variable exec : cmd -> St -> stepres St.
Variable flag_set trainer_beaten : text -> St -> bool.
Variable cmp_var cmp_var_value : text -> text -> St -> comparison.
Variable case_matches : text -> text -> St -> bool.
Variable code : list instr.

Notation tstep := (tstep St exec flag_set trainer_beaten cmp_var cmp_var_value case_matches code).
Notation tsteps := (steps (@tfinal) tstep).

Definition noop (i : instr) : bool :=
  match i with ILabel _ _ | IMarker _ | IBlank | IData _ _ | ILine _ => true | _ => false end.

Lemma step_noop pc r sw s i rest :
  skipn pc code = i :: rest -> noop i = true -> tsteps 1 (TAt pc r sw) s [] (TAt (S pc) r sw) s /\ skipn (S pc) code = rest.
Proof.
  intros H N. destruct (skipn_cons_nth _ _ _ _ H) as [H1 H2]. split; [|exact H2].
  apply steps_one; [reflexivity|]. cbn. rewrite H1. destruct i; try discriminate; reflexivity.
Qed.

(* a run of no-op instructions *)
Lemma steps_noops pc r sw s (pre : list instr) rest :
  skipn pc code = pre ++ rest -> forallb noop pre = true ->
  exists pc', tsteps (List.length pre) (TAt pc r sw) s [] (TAt pc' r sw) s /\ skipn pc' code = rest.
Proof.
  revert pc. induction pre as [|i p IH]; intros pc H N.
  - exists pc. split; [constructor|exact H].
  - cbn in N. apply andb_prop in N. destruct N as [N1 N2]. cbn [app] in H.
    destruct (step_noop pc r sw s i (p ++ rest) H N1) as [S1 H2].
    destruct (IH _ H2 N2) as (pc' & S2 & H3). exists pc'. split; [|exact H3].
    change (List.length (i :: p)) with (1 + List.length p)%nat. change (@nil event) with (@nil event ++ @nil event).
    eapply steps_trans; eauto.
Qed.

Lemma marker_noop mp0 line : forallb noop (marker mp0 line) = true.
Proof. unfold marker. destruct mp0; reflexivity. Qed.
End TGT.

(* decompositions of a duplicate-free order are unique *)
Lemma split_unique (l1 l1' l2 l2' : list Z) d :
  NoDup (l1 ++ d :: l2) -> l1 ++ d :: l2 = l1' ++ d :: l2' -> l1 = l1' /\ l2 = l2'.
Proof.
  revert l1'. induction l1 as [|x l1 IH]; intros l1' ND E.
  - destruct l1' as [|y l1']; cbn in E; [inversion E; auto|].
    exfalso. injection E as E1 E2. subst y. cbn in ND. apply NoDup_cons_iff in ND. destruct ND as [ND _].
    apply ND. rewrite E2. apply in_or_app. right. now left.
  - destruct l1' as [|y l1']; cbn in E.
    + exfalso. injection E as E1 E2. subst x. cbn in ND. apply NoDup_cons_iff in ND. destruct ND as [ND _].
      apply ND. apply in_or_app. right. now left.
    + injection E as E1 E2. subst y. cbn in ND. apply NoDup_cons_iff in ND. destruct ND as [_ ND].
      destruct (IH _ ND E2) as [-> ->]. auto.
Qed.

(* number of chunks rendered after chunk d *)
Fixpoint after (d : Z) (l : list Z) : nat :=
  match l with [] => 0%nat | x :: r => if (x =? d)%Z then List.length r else after d r end.
Lemma after_split l1 d l2 : ~ In d l1 -> after d (l1 ++ d :: l2) = List.length l2.
Proof.
  induction l1 as [|x l1 IH]; intros H; cbn.
  - now rewrite Z.eqb_refl.
  - destruct (x =? d)%Z eqn:E; [apply Z.eqb_eq in E; subst; exfalso; apply H; now left|]. apply IH. intros X. apply H. now right.
Qed.
Lemma nodup_notin (l1 : list Z) d l2 : NoDup (l1 ++ d :: l2) -> ~ In d l1.
Proof. intros ND X. apply NoDup_remove_2 in ND. apply ND. apply in_or_app. now left. Qed.

(* ---------- Part 3: the simulation ---------- *)
Section SIM.
Variable St : Type.
Variable exec : cmd -> St -> stepres St.
Variable flag_set trainer_beaten : text -> St -> bool.
Variable cmp_var cmp_var_value : text -> text -> St -> comparison.
Variable case_matches : text -> text -> St -> bool.
Variable mp : option text.
Variable name : text.
Variable glob : bool.
Variable G : list chunk.
Variable regs : list Z.
Variable order : list Z.
Variable code : list instr.

Notation tstep := (tstep St exec flag_set trainer_beaten cmp_var cmp_var_value case_matches code).
Notation tsteps := (steps (@tfinal) tstep).
Notation gstep := (gstep St exec flag_set trainer_beaten cmp_var cmp_var_value case_matches G).
Notation gsteps := (steps (@gfinal) gstep).
Notation blocks := (blocks mp name glob G regs).
Notation block_of := (block_of mp name glob G regs).
Notation labelpart := (labelpart name glob regs).

(* what may follow a chunk: a real chunk of the order, or (where the renderer writes `return`) the end of the script *)
Definition real (d : Z) : Prop := In d order.
Definition real_or_ret (d : Z) : Prop := d = (-1)%Z \/ In d order.
Definition targets_ok (c : chunk) : Prop :=
  match cbr c with
  | Some (BrJump d) => real d
  | Some (BrBreak d) => real_or_ret d
  | Some (BrLeaf _ tr fa) => real tr /\ real_or_ret fa
  | Some (BrSwitch _ _ cases def dest) =>
      Forall (fun '(_, _, d) => real d) cases /\ match def with Some dd => real dd | None => real_or_ret dest end
  | None => real_or_ret (cret c)
  end.

Hypothesis Hcode : code = blocks order (-1).
Hypothesis Hnd : NoDup order.
Hypothesis Hids : forall d, In d order -> (0 <= d)%Z /\ exists c, get_chunk G d = Some c /\ cid c = d.
Hypothesis HG : forall c, In c G -> In (cid c) order /\ get_chunk G (cid c) = Some c.
Hypothesis Hlbl : NoDup (lnames code).
Hypothesis Htargets : forall c, In c G -> targets_ok c.
Hypothesis Hregs : forall l1 c l2 y, order = l1 ++ cid c :: l2 -> get_chunk G (cid c) = Some c ->
  In y (snd (fst (render_branch mp name c (hd (-1)%Z l2)))) -> zmem y regs = true /\ y <> 0%Z.
Hypothesis Hlast : forall l1 c, order = l1 ++ [cid c] -> get_chunk G (cid c) = Some c ->
  snd (render_branch mp name c (-1)%Z) = false.

Inductive mstate : gstate -> tstate -> Prop :=
| ms_at c rem done l1 l2 pc r sw b rg fall :
    order = l1 ++ cid c :: l2 -> get_chunk G (cid c) = Some c -> cstmts c = done ++ rem ->
    render_branch mp name c (hd (-1)%Z l2) = (b, rg, fall) ->
    skipn pc code = flat_map (render_stmt mp) rem ++ b ++ (if fall then [] else [IBlank]) ++ blocks l2 (-1) ->
    mstate (GAt c rem) (TAt pc r sw)
| ms_final o : mstate (GFinal o) (TFinal o).

Lemma code_split l1 d l2 : order = l1 ++ d :: l2 -> code = blocks l1 d ++ block_of d (hd (-1)%Z l2) ++ blocks l2 (-1).
Proof. intros H. rewrite Hcode, H, blocks_app. reflexivity. Qed.

Lemma labelpart_noop d : forallb noop (labelpart d) = true.
Proof. unfold RenderSim.labelpart. destruct (d =? 0)%Z; [reflexivity|]. destruct (zmem d regs); reflexivity. Qed.

(* from the start of a chunk's block the machine reaches the first statement of the chunk *)
Lemma enter_chunk l1 d l2 c pc r sw s :
  order = l1 ++ d :: l2 -> get_chunk G d = Some c ->
  skipn pc code = block_of d (hd (-1)%Z l2) ++ blocks l2 (-1) ->
  exists j pc', tsteps j (TAt pc r sw) s [] (TAt pc' r sw) s /\ mstate (GAt c (cstmts c)) (TAt pc' r sw).
Proof.
  intros Ho Hc Hs. unfold RenderSim.block_of in Hs. rewrite Hc in Hs. rewrite <- app_assoc in Hs.
  destruct (steps_noops St exec flag_set trainer_beaten cmp_var cmp_var_value case_matches code pc r sw s _ _ Hs (labelpart_noop d)) as (pc' & S1 & H1).
  exists (List.length (labelpart d)), pc'. split; [exact S1|].
  assert (Hd : cid c = d). { destruct (Hids d) as [_ (c' & E & I)]; [rewrite Ho; apply in_or_app; right; now left|]. congruence. }
  unfold body_of in H1. destruct (render_branch mp name c (hd (-1)%Z l2)) as [[b rg] fall] eqn:EB.
  eapply (ms_at c (cstmts c) [] l1 l2); try rewrite Hd; eauto.
  rewrite H1, <- !app_assoc. reflexivity.
Qed.

(* a generated label is found at the start of its chunk's block *)
Lemma jump_chunk l1 d l2 :
  order = l1 ++ d :: l2 -> zmem d regs = true -> d <> 0%Z ->
  jump code (lbl name d) = TAt (List.length (blocks l1 d)) RNone None /\
  skipn (List.length (blocks l1 d)) code = block_of d (hd (-1)%Z l2) ++ blocks l2 (-1).
Proof.
  intros Ho Hz H0. pose proof (code_split _ _ _ Ho) as C.
  split; [|pose proof (skipn_length_app (blocks l1 d) (block_of d (hd (-1)%Z l2) ++ blocks l2 (-1))) as K; rewrite <- C in K; exact K].
  destruct (Hids d) as [_ (c & E & I)]; [rewrite Ho; apply in_or_app; right; now left|].
  unfold jump. rewrite C. unfold RenderSim.block_of. rewrite E. unfold RenderSim.labelpart.
  destruct (d =? 0)%Z eqn:Z0; [apply Z.eqb_eq in Z0; contradiction|]. rewrite Hz. cbn [app].
  rewrite find_lbl_here; [reflexivity|].
  intros X. pose proof Hlbl as ND. rewrite C in ND. unfold RenderSim.block_of in ND. rewrite E in ND.
  unfold RenderSim.labelpart in ND. rewrite Z0, Hz in ND. cbn [app] in ND. rewrite lnames_app in ND.
  apply NoDup_remove_2 in ND. apply ND. apply in_or_app. left. exact X.
Qed.

Lemma ggoto_real d c : get_chunk G d = Some c -> ggoto G d = GAt c (cstmts c).
Proof. intros H. unfold ggoto. now rewrite H. Qed.

Lemma real_split d : In d order -> exists l1 l2 c, order = l1 ++ d :: l2 /\ get_chunk G d = Some c /\ cid c = d /\ (0 <= d)%Z.
Proof.
  intros H. destruct (in_split _ _ H) as (l1 & l2 & E). destruct (Hids d H) as [P (c & E1 & E2)].
  exists l1, l2, c. auto.
Qed.

(* the end of a chunk: return, fall through into the next block, or a goto to a registered label *)
Lemma goto_sim c l1 l2 d m1 x rg fall pc r sw s :
  order = l1 ++ cid c :: l2 ->
  goto_or_fall name d (hd (-1)%Z l2) m1 = (x, rg, fall) ->
  (forall y, In y rg -> zmem y regs = true /\ y <> 0%Z) ->
  (if m1 then real_or_ret d else real d) ->
  skipn pc code = x ++ (if fall then [] else [IBlank]) ++ blocks l2 (-1) ->
  exists j B', tsteps j (TAt pc r sw) s [] B' s /\ mstate (if m1 then ggoto_ret G d else ggoto G d) B' /\
    (j = 0%nat -> exists c', (if m1 then ggoto_ret G d else ggoto G d) = GAt c' (cstmts c') /\ (after (cid c') order < after (cid c) order)%nat).
Proof.
  intros Ho Hg Hrg Hd Hs. unfold goto_or_fall in Hg.
  destruct (m1 && (d =? -1)%Z) eqn:M.
  - (* return *)
    injection Hg as <- <- <-. apply andb_prop in M. destruct M as [-> M]. apply Z.eqb_eq in M. subst d.
    cbn [app] in Hs. destruct (skipn_cons_nth _ _ _ _ Hs) as [N _].
    exists 1%nat, (TFinal OReturn). split; [|split].
    + apply steps_one; [reflexivity|]. cbn. rewrite N. reflexivity.
    + unfold ggoto_ret. cbn. constructor.
    + discriminate.
  - assert (Dr : In d order).
    { destruct m1; [|exact Hd]. destruct Hd as [->|Hd]; [discriminate M|exact Hd]. }
    assert (Gd : (if m1 then ggoto_ret G d else ggoto G d) = ggoto G d).
    { destruct m1; [|reflexivity]. unfold ggoto_ret. destruct (d =? -1)%Z; [discriminate M|reflexivity]. }
    rewrite Gd. destruct (real_split d Dr) as (k1 & k2 & cd & Eo & Ec & Ei & Ep).
    rewrite (ggoto_real _ _ Ec).
    destruct (d =? hd (-1)%Z l2)%Z eqn:F.
    + (* fall through: the next block is that of d *)
      injection Hg as <- <- <-. apply Z.eqb_eq in F. cbn [app] in Hs.
      destruct l2 as [|d' l2']; cbn [hd] in F; [lia|]. subst d'.
      assert (Eo2 : order = (l1 ++ [cid c]) ++ d :: l2') by (rewrite Ho, <- app_assoc; reflexivity).
      cbn [RenderSim.blocks] in Hs.
      destruct (enter_chunk _ _ _ _ pc r sw s Eo2 Ec Hs) as (j & pc' & S1 & M1). exists j, (TAt pc' r sw). split; [exact S1|]. split; [exact M1|].
      intros _. exists cd. split; [reflexivity|]. rewrite Ei.
      pose proof Hnd as ND1. rewrite Eo2 in ND1. rewrite Eo2 at 1. rewrite (after_split _ _ _ (nodup_notin _ _ _ ND1)).
      pose proof Hnd as ND2. rewrite Ho in ND2. rewrite Ho. rewrite (after_split _ _ _ (nodup_notin _ _ _ ND2)). cbn. lia.
    + (* goto *)
      injection Hg as <- <- <-. cbn [app] in Hs. destruct (skipn_cons_nth _ _ _ _ Hs) as [N _].
      destruct (Hrg d (or_introl eq_refl)) as [Z1 Z2].
      destruct (jump_chunk _ _ _ Eo Z1 Z2) as [J1 J2].
      destruct (enter_chunk _ _ _ _ _ RNone None s Eo Ec J2) as (j & pc' & S1 & M1).
      exists (1 + j)%nat, (TAt pc' RNone None). split; [|split; [exact M1|discriminate]].
      change (@nil event) with (@nil event ++ @nil event). eapply steps_trans; [|exact S1].
      apply steps_one; [reflexivity|]. cbn. rewrite N, J1. reflexivity.
Qed.

(* a jump to a registered chunk label lands on that chunk *)
Lemma jump_enter d s :
  In d order -> zmem d regs = true -> d <> 0%Z ->
  exists j B', tsteps j (jump code (lbl name d)) s [] B' s /\ mstate (ggoto G d) B'.
Proof.
  intros Dr Z1 Z2. destruct (real_split d Dr) as (k1 & k2 & cd & Eo & Ec & Ei & Ep).
  destruct (jump_chunk _ _ _ Eo Z1 Z2) as [J1 J2]. rewrite J1, (ggoto_real _ _ Ec).
  destruct (enter_chunk _ _ _ _ _ RNone None s Eo Ec J2) as (j & pc' & S1 & M1). eauto.
Qed.

(* the position of a label the author wrote *)
Lemma after_label_split l ss rest :
  after_label l ss = Some rest -> exists done g tk, ss = done ++ SLabel l g tk :: rest.
Proof.
  revert rest. induction ss as [|x r IH]; intros rest H; cbn in H; [discriminate|].
  destruct x as [cm|n0 g0 tk0|conds els|tg cnd b|tg b cnd|tg|tg|tg o ol cases];
    try (destruct (IH _ H) as (d0 & g & tk & E); eexists (_ :: d0), g, tk; cbn; now rewrite E).
  destruct (text_eqb n0 l) eqn:Q.
  - inversion H; subst. unfold text_eqb in Q. destruct (list_eq_dec N.eq_dec n0 l); [|discriminate]. subst.
    exists [], g0, tk0. reflexivity.
  - destruct (IH _ H) as (d0 & g & tk & E). exists (SLabel n0 g0 tk0 :: d0), g, tk. cbn. now rewrite E.
Qed.

Lemma graph_find_label_in l : forall cs c ss, graph_find_label l cs = Some (GAt c ss) -> In c cs /\ after_label l (cstmts c) = Some ss.
Proof.
  induction cs as [|x r IH]; intros c ss H; cbn in H; [discriminate|].
  destruct (after_label l (cstmts x)) eqn:A.
  - inversion H; subst. split; [now left|exact A].
  - destruct (IH _ _ H). split; [now right|assumption].
Qed.

Lemma render_stmts_app a b : flat_map (render_stmt mp) (a ++ b) = flat_map (render_stmt mp) a ++ flat_map (render_stmt mp) b.
Proof. apply flat_map_app. Qed.

Lemma user_label_jump l c ss s :
  graph_find_label l G = Some (GAt c ss) ->
  exists j B', tsteps j (jump code l) s [] B' s /\ mstate (GAt c ss) B'.
Proof.
  intros H. destruct (graph_find_label_in _ _ _ _ H) as [Hc Ha].
  destruct (after_label_split _ _ _ Ha) as (done & g & tk & Es).
  destruct (HG c Hc) as [Ho Hg]. destruct (real_split _ Ho) as (k1 & k2 & cd & Eo & Ec & Ei & Ep).
  assert (cd = c) by congruence. subst cd.
  pose proof (code_split _ _ _ Eo) as C. unfold RenderSim.block_of in C. rewrite Ec in C. unfold body_of in C.
  destruct (render_branch mp name c (hd (-1)%Z k2)) as [[b rg] fall] eqn:EB.
  rewrite Es, render_stmts_app in C. cbn [flat_map render_stmt] in C.
  set (pre := blocks k1 (cid c) ++ labelpart (cid c) ++ flat_map (render_stmt mp) done ++ marker mp (tline tk)) in *.
  set (post := flat_map (render_stmt mp) ss ++ b ++ (if fall then [] else [IBlank]) ++ blocks k2 (-1)).
  assert (C2 : code = pre ++ ILabel l g :: post).
  { rewrite C. unfold pre, post. repeat rewrite <- app_assoc. cbn [app]. reflexivity. }
  assert (NP : ~ In l (lnames pre)).
  { intros X. pose proof Hlbl as ND. rewrite C2, lnames_app in ND. cbn in ND. apply NoDup_remove_2 in ND. apply ND. apply in_or_app. now left. }
  pose proof (find_lbl_here _ g _ post NP) as F. rewrite <- C2 in F. unfold jump. rewrite F.
  assert (SK : skipn (List.length pre) code = ILabel l g :: post).
  { pose proof (skipn_length_app pre (ILabel l g :: post)) as K. rewrite <- C2 in K. exact K. }
  destruct (step_noop St exec flag_set trainer_beaten cmp_var cmp_var_value case_matches code _ RNone None s _ _ SK eq_refl) as [S1 SK2].
  exists 1%nat, (TAt (S (List.length pre)) RNone None). split; [exact S1|].
  eapply (ms_at c ss (done ++ [SLabel l g tk]) k1 k2); eauto.
  rewrite <- app_assoc. exact Es.
Qed.

Hypothesis Hsimple : forall c, In c G -> Forall (fun st => is_simple st = true) (cstmts c).
Hypothesis Hpre : forall c l tr fa p, In c G -> cbr c = Some (BrLeaf l tr fa) -> lpre l = Some p ->
  is_name p "end" = false /\ is_name p "return" = false /\ is_name p "goto" = false.
Hypothesis Hgoto : forall c cm l, In c G -> In (SCmd cm) (cstmts c) -> is_name cm "goto" = true -> cargs cm = [l] ->
  graph_find_label l G = None -> ~ In l (lnames code).

Lemma steps_cons1 B s B1 s1 ev j B2 s2 ev2 :
  tsteps 1 B s ev B1 s1 -> tsteps j B1 s1 ev2 B2 s2 -> tsteps (1 + j) B s (ev ++ ev2) B2 s2.
Proof. intros. eapply steps_trans; eauto. Qed.

Lemma none_branch_eq c nx : cbr c = None -> (cret c =? -1)%Z = false ->
  render_branch mp name c nx = goto_or_fall name (cret c) nx false.
Proof. intros H E. unfold render_branch, goto_or_fall. rewrite H, E. cbn. reflexivity. Qed.

(* the compare / goto_if pair of a leaf jumps to its target iff the leaf holds *)
Lemma leaf_cmp_sim l tr pc r sw s rest :
  skipn pc code = render_leaf_cmp name l tr ++ rest ->
  exists j, if leaf_holds St flag_set trainer_beaten cmp_var cmp_var_value l s
            then tsteps (1 + j) (TAt pc r sw) s [] (jump code (lbl name tr)) s
            else exists pc' r' sw', tsteps (1 + j) (TAt pc r sw) s [] (TAt pc' r' sw') s /\ skipn pc' code = rest.
Proof.
  unfold render_leaf_cmp, leaf_holds. intros H. destruct (lk l).
  - (* flag *)
    cbn [app] in H. destruct (skipn_cons_nth _ _ _ _ H) as [N K]. exists 0%nat.
    destruct (flag_truthy l) eqn:FT; destruct (flag_set (loperand l) s) eqn:FS; cbn [Bool.eqb].
    + apply steps_one; [reflexivity|]. cbn. rewrite N, FS. reflexivity.
    + eexists _, _, _. split; [apply steps_one; [reflexivity|]; cbn; rewrite N, FS; reflexivity|exact K].
    + eexists _, _, _. split; [apply steps_one; [reflexivity|]; cbn; rewrite N, FS; reflexivity|exact K].
    + apply steps_one; [reflexivity|]. cbn. rewrite N, FS. reflexivity.
  - (* var *)
    cbn [app] in H. destruct (skipn_cons_nth _ _ _ _ H) as [N K]. destruct (skipn_cons_nth _ _ _ _ K) as [N2 K2].
    exists 1%nat.
    set (cv := (if lstrict l then cmp_var_value else cmp_var) (loperand l) (lvalue l) s).
    assert (S1 : tsteps 1 (TAt pc r sw) s [] (TAt (S pc) (RCmp cv) sw) s).
    { apply steps_one; [reflexivity|]. cbn. rewrite N. reflexivity. }
    destruct (cmp_holds (lop l) cv) eqn:CH.
    + change (@nil event) with (@nil event ++ @nil event). eapply steps_trans; [exact S1|].
      apply steps_one; [reflexivity|]. unfold SemTgt.tstep. rewrite N2. cbn beta iota zeta. rewrite CH. reflexivity.
    + eexists _, _, _. split; [|exact K2]. change (@nil event) with (@nil event ++ @nil event). eapply steps_trans; [exact S1|].
      apply steps_one; [reflexivity|]. unfold SemTgt.tstep. rewrite N2. cbn beta iota zeta. rewrite CH. reflexivity.
  - (* defeated *)
    cbn [app] in H. destruct (skipn_cons_nth _ _ _ _ H) as [N K]. destruct (skipn_cons_nth _ _ _ _ K) as [N2 K2].
    exists 1%nat.
    assert (S1 : tsteps 1 (TAt pc r sw) s [] (TAt (S pc) (RFlag (trainer_beaten (loperand l) s)) sw) s).
    { apply steps_one; [reflexivity|]. cbn. rewrite N. reflexivity. }
    destruct (Bool.eqb (trainer_beaten (loperand l) s) (flag_truthy l)) eqn:CH.
    + change (@nil event) with (@nil event ++ @nil event). eapply steps_trans; [exact S1|].
      apply steps_one; [reflexivity|]. unfold SemTgt.tstep. rewrite N2. cbn beta iota zeta. rewrite CH. reflexivity.
    + eexists _, _, _. split; [|exact K2]. change (@nil event) with (@nil event ++ @nil event). eapply steps_trans; [exact S1|].
      apply steps_one; [reflexivity|]. unfold SemTgt.tstep. rewrite N2. cbn beta iota zeta. rewrite CH. reflexivity.
Qed.

(* the case lines of a switch: the first matching case jumps to its chunk, otherwise control reaches what follows *)
Lemma cases_sim operand (m : text -> bool) s r : forall (cases : list (text * Z * Z)) pc rest,
  (forall v, m v = case_matches operand v s) ->
  Forall (fun '(_, _, d) => real d /\ zmem d regs = true /\ d <> 0%Z) cases ->
  skipn pc code = flat_map (fun '(v, vl, d) => marker mp vl ++ [ICase v (lbl name d)]) cases ++ rest ->
  exists j, match first_case cases m with
            | Some d => exists B', tsteps j (TAt pc r (Some operand)) s [] B' s /\ mstate (ggoto G d) B'
            | None => exists pc', tsteps j (TAt pc r (Some operand)) s [] (TAt pc' r (Some operand)) s /\ skipn pc' code = rest
            end.
Proof.
  induction cases as [|[[v vl] d] cs IH]; intros pc rest Hm HF Hk.
  - exists 0%nat. cbn. exists pc. split; [constructor|exact Hk].
  - cbn [flat_map] in Hk. rewrite <- !app_assoc in Hk. apply Forall_cons_iff in HF. destruct HF as [(Dr & Dz & D0) HF'].
    destruct (steps_noops St exec flag_set trainer_beaten cmp_var cmp_var_value case_matches code pc r (Some operand) s _ _ Hk (marker_noop mp _)) as (pc1 & S1 & K1).
    cbn [app] in K1. destruct (skipn_cons_nth _ _ _ _ K1) as [N K2].
    cbn [first_case]. destruct (m v) eqn:MV.
    + destruct (jump_enter d s Dr Dz D0) as (j & B' & SJ & MJ).
      exists (List.length (marker mp vl) + (1 + j))%nat, B'. split; [|exact MJ].
      change (@nil event) with (@nil event ++ (@nil event ++ @nil event)). eapply steps_trans; [exact S1|].
      eapply steps_trans; [|exact SJ]. apply steps_one; [reflexivity|]. cbn. rewrite N, <- Hm, MV. reflexivity.
    + destruct (IH _ _ Hm HF' K2) as [j IHj].
      exists (List.length (marker mp vl) + (1 + j))%nat.
      assert (S2 : tsteps 1 (TAt pc1 r (Some operand)) s [] (TAt (S pc1) r (Some operand)) s).
      { apply steps_one; [reflexivity|]. cbn. rewrite N, <- Hm, MV. reflexivity. }
      destruct (first_case cs m).
      * destruct IHj as (B' & SJ & MJ). exists B'. split; [|exact MJ].
        change (@nil event) with (@nil event ++ (@nil event ++ @nil event)). eapply steps_trans; [exact S1|]. eapply steps_trans; eauto.
      * destruct IHj as (pc' & SJ & KJ). exists pc'. split; [|exact KJ].
        change (@nil event) with (@nil event ++ (@nil event ++ @nil event)). eapply steps_trans; [exact S1|]. eapply steps_trans; eauto.
Qed.

Definition rank (a : gstate) : nat := match a with GAt c _ => after (cid c) order | GFinal _ => 0%nat end.

(* one graph step is matched by target steps with the same events; only a fall-through into a later chunk costs no step *)
Lemma render_step A B s ev A' s' :
  mstate A B -> gfinal A = None -> gstep A s = (ev, A', s') ->
  exists j B', tsteps j B s ev B' s' /\ mstate A' B' /\ (j = 0%nat -> (rank A' < rank A)%nat).
Proof.
  intros M F E. destruct M as [c rem done l1 l2 pc r sw b rg fall Ho Hc Hs Hb Hk|o]; [|discriminate].
  assert (Hin : In c G) by (eapply get_chunk_in; eauto).
  assert (Hrg : forall y, In y rg -> zmem y regs = true /\ y <> 0%Z).
  { intros y Hy. eapply (Hregs l1 c l2 y Ho Hc). rewrite Hb. exact Hy. }
  destruct rem as [|st rest].
  - (* end of the statements: the brancher *)
    cbn [flat_map app] in Hk. cbn [Sem2.gstep] in E.
    destruct (cbr c) as [[d|d|l tr fa|operand ol cases def dest]|] eqn:EB.
    + (* jump *)
      unfold render_branch in Hb. rewrite EB in Hb. injection E as <- <- <-.
      pose proof (Htargets c Hin) as T. unfold targets_ok in T. rewrite EB in T.
      destruct (goto_sim c l1 l2 d false b rg fall pc r sw s Ho Hb Hrg T Hk) as (j & B' & S1 & M1 & R1).
      exists j, B'. split; [exact S1|]. split; [exact M1|]. intros J0. destruct (R1 J0) as (c' & EA & LT). cbn in EA. rewrite EA. exact LT.
    + (* break / continue *)
      unfold render_branch in Hb. rewrite EB in Hb. injection E as <- <- <-.
      pose proof (Htargets c Hin) as T. unfold targets_ok in T. rewrite EB in T.
      destruct (goto_sim c l1 l2 d true b rg fall pc r sw s Ho Hb Hrg T Hk) as (j & B' & S1 & M1 & R1).
      exists j, B'. split; [exact S1|]. split; [exact M1|]. intros J0. destruct (R1 J0) as (c' & EA & LT). cbn in EA. rewrite EA. exact LT.
    + (* a leaf of a condition, with its AutoVar preamble *)
      pose proof (Htargets c Hin) as T. unfold targets_ok in T. rewrite EB in T. destruct T as [Ttr Tfa].
      unfold render_branch in Hb. rewrite EB in Hb.
      destruct (goto_or_fall name fa (hd (-1)%Z l2) true) as [[x rg0] fall0] eqn:GF. injection Hb as <- <- <-.
      assert (Hrg0 : forall y, In y rg0 -> zmem y regs = true /\ y <> 0%Z) by (intros y Hy; apply Hrg; now right).
      destruct (Hrg tr (or_introl eq_refl)) as [Ztr Ntr].
      rewrite <- !app_assoc in Hk.
      (* what happens after the preamble, from any register state *)
      assert (REST : forall pc2 r2 sw2 s2, skipn pc2 code = marker mp (lline l) ++ render_leaf_cmp name l tr ++ x ++ (if fall0 then [] else [IBlank]) ++ blocks l2 (-1) ->
                exists j B', (1 <= j)%nat /\ tsteps j (TAt pc2 r2 sw2) s2 [] B' s2 /\
                  mstate (if leaf_holds St flag_set trainer_beaten cmp_var cmp_var_value l s2 then ggoto G tr else ggoto_ret G fa) B').
      { intros pc2 r2 sw2 s2 K.
        destruct (steps_noops St exec flag_set trainer_beaten cmp_var cmp_var_value case_matches code pc2 r2 sw2 s2 _ _ K (marker_noop mp _)) as (pc3 & S3 & K3).
        destruct (leaf_cmp_sim l tr pc3 r2 sw2 s2 _ K3) as [j4 L4].
        destruct (leaf_holds St flag_set trainer_beaten cmp_var cmp_var_value l s2).
        - destruct (jump_enter tr s2 Ttr Ztr Ntr) as (j5 & B5 & S5 & M5).
          exists (List.length (marker mp (lline l)) + ((1 + j4) + j5))%nat, B5. split; [lia|]. split; [|exact M5].
          change (@nil event) with (@nil event ++ (@nil event ++ @nil event)). eapply steps_trans; [exact S3|]. eapply steps_trans; eauto.
        - destruct L4 as (pc4 & r4 & sw4 & S4 & K4).
          destruct (goto_sim c l1 l2 fa true x rg0 fall0 pc4 r4 sw4 s2 Ho GF Hrg0 Tfa K4) as (j5 & B5 & S5 & M5 & _).
          exists (List.length (marker mp (lline l)) + ((1 + j4) + j5))%nat, B5. split; [lia|]. split; [|exact M5].
          change (@nil event) with (@nil event ++ (@nil event ++ @nil event)). eapply steps_trans; [exact S3|]. eapply steps_trans; eauto. }
      unfold Sem2.eval_leaf in E. destruct (lpre l) as [p|] eqn:LP.
      * (* preamble command *)
        destruct (Hpre c l tr fa p Hin EB LP) as (P1 & P2 & P3).
        cbn [app] in Hk. destruct (skipn_cons_nth _ _ _ _ Hk) as [N K2].
        destruct (exec p s) as [s1|] eqn:EX.
        -- assert (S1 : tsteps 1 (TAt pc r sw) s [p] (TAt (S pc) RNone None) s1).
           { apply steps_one; [reflexivity|]. cbn. rewrite N, P1, P2, P3, EX. reflexivity. }
           destruct (REST (S pc) RNone None s1 K2) as (j & B' & _ & S2 & M2).
           destruct (leaf_holds St flag_set trainer_beaten cmp_var cmp_var_value l s1); injection E as <- <- <-;
             (exists (1 + j)%nat, B'; split; [|split; [exact M2|discriminate]]; change [p] with ([p] ++ @nil event); eapply steps_trans; eauto).
        -- injection E as <- <- <-. exists 1%nat, (TFinal OStopped). split; [|split; [constructor|discriminate]].
           apply steps_one; [reflexivity|]. cbn. rewrite N, P1, P2, P3, EX. reflexivity.
      * cbn [app] in Hk. destruct (REST pc r sw s Hk) as (j & B' & J1 & S2 & M2).
        destruct (leaf_holds St flag_set trainer_beaten cmp_var cmp_var_value l s); injection E as <- <- <-;
          (exists j, B'; split; [exact S2|split; [exact M2|intros X; exfalso; lia]]).
    + (* switch *)
      pose proof (Htargets c Hin) as T. unfold targets_ok in T. rewrite EB in T. destruct T as [Tc Td].
      unfold render_branch in Hb. rewrite EB in Hb.
      set (hdr := marker mp ol ++ [ISwitch operand]) in *.
      set (cs := flat_map (fun '(v, vl, d) => marker mp vl ++ [ICase v (lbl name d)]) cases) in *.
      set (crg := map (fun '(_, _, d) => d) cases) in *.
      (* the tail after the case lines, as a goto_or_fall *)
      assert (TAIL : exists x rgt m1 dt, b = hdr ++ cs ++ x /\ rg = crg ++ rgt /\
                goto_or_fall name dt (hd (-1)%Z l2) m1 = (x, rgt, fall) /\ (if m1 then real_or_ret dt else real dt) /\
                (match def with Some dd => ggoto G dd | None => ggoto_ret G dest end) = (if m1 then ggoto_ret G dt else ggoto G dt)).
      { destruct def as [dd|].
        - exists (fst (fst (goto_or_fall name dd (hd (-1)%Z l2) false))), (snd (fst (goto_or_fall name dd (hd (-1)%Z l2) false))), false, dd.
          unfold goto_or_fall in *. cbn [andb] in *. destruct (dd =? hd (-1)%Z l2)%Z; injection Hb as <- <- <-; cbn [fst snd];
            rewrite ?app_nil_r; repeat split; auto.
        - exists (fst (fst (goto_or_fall name dest (hd (-1)%Z l2) true))), (snd (fst (goto_or_fall name dest (hd (-1)%Z l2) true))), true, dest.
          unfold goto_or_fall in *. cbn [andb] in *.
          destruct (dest =? -1)%Z eqn:D1.
          + apply Z.eqb_eq in D1. subst dest. destruct (-1 =? hd (-1)%Z l2)%Z eqn:D2.
            * (* falling off the end of the script: excluded *)
              exfalso. apply Z.eqb_eq in D2. destruct l2 as [|d2 l2'].
              -- pose proof (Hlast l1 c Ho Hc) as HL. unfold render_branch in HL. rewrite EB in HL. cbn in HL. discriminate HL.
              -- cbn in D2. destruct (Hids d2) as [P _]; [rewrite Ho; apply in_or_app; right; right; now left|]. lia.
            * injection Hb as <- <- <-. cbn [fst snd]. rewrite ?app_nil_r. repeat split; auto.
          + destruct (dest =? hd (-1)%Z l2)%Z; injection Hb as <- <- <-; cbn [fst snd]; rewrite ?app_nil_r; repeat split; auto. }
      destruct TAIL as (x & rgt & m1 & dt & -> & -> & GT & RT & GE).
      unfold hdr in Hk. rewrite <- !app_assoc in Hk.
      destruct (steps_noops St exec flag_set trainer_beaten cmp_var cmp_var_value case_matches code pc r sw s _ _ Hk (marker_noop mp _)) as (pc1 & S1 & K1).
      cbn [app] in K1. destruct (skipn_cons_nth _ _ _ _ K1) as [N K2].
      assert (S2 : tsteps 1 (TAt pc1 r sw) s [] (TAt (S pc1) r (Some operand)) s).
      { apply steps_one; [reflexivity|]. cbn. rewrite N. reflexivity. }
      assert (CF : Forall (fun '(_, _, d) => real d /\ zmem d regs = true /\ d <> 0%Z) cases).
      { apply Forall_forall. intros [[v vl] d] Hd. rewrite Forall_forall in Tc. specialize (Tc _ Hd). cbn in Tc.
        destruct (Hrg d) as [Z1 Z2]; [apply in_or_app; left; unfold crg; apply in_map_iff; exists (v, vl, d); auto|]. auto. }
      destruct (cases_sim operand (fun v => case_matches operand v s) s r cases (S pc1) _ (fun v => eq_refl) CF K2) as [j CS].
      destruct (first_case cases (fun v => case_matches operand v s)) as [d|].
      * injection E as <- <- <-. destruct CS as (B' & S3 & M3). exists (List.length (marker mp ol) + (1 + j))%nat, B'. split; [|split; [exact M3|intros X; exfalso; lia]].
        change (@nil event) with (@nil event ++ (@nil event ++ @nil event)). eapply steps_trans; [exact S1|]. eapply steps_trans; eauto.
      * destruct CS as (pc3 & S3 & K3).
        assert (Hrgt : forall y, In y rgt -> zmem y regs = true /\ y <> 0%Z) by (intros y Hy; apply Hrg; apply in_or_app; now right).
        destruct (goto_sim c l1 l2 dt m1 x rgt fall pc3 r (Some operand) s Ho GT Hrgt RT K3) as (j4 & B4 & S4 & M4 & _).
        assert (EA : A' = (if m1 then ggoto_ret G dt else ggoto G dt) /\ ev = [] /\ s' = s).
        { destruct def; injection E as <- <- <-; rewrite <- GE; auto. }
        destruct EA as (-> & -> & ->).
        exists (List.length (marker mp ol) + (1 + (j + j4)))%nat, B4. split; [|split; [exact M4|intros X; exfalso; lia]].
        change (@nil event) with (@nil event ++ (@nil event ++ (@nil event ++ @nil event))).
        eapply steps_trans; [exact S1|]. eapply steps_trans; [exact S2|]. eapply steps_trans; eauto.
    + (* no brancher: end / return / continue at the return chunk *)
      pose proof (Htargets c Hin) as T. unfold targets_ok in T. rewrite EB in T.
      destruct (cret c =? -1)%Z eqn:R1.
      * unfold render_branch in Hb. rewrite EB, R1 in Hb. injection Hb as <- <- <-. injection E as <- <- <-.
        cbn [app] in Hk. destruct (skipn_cons_nth _ _ _ _ Hk) as [N _].
        exists 1%nat. destruct (cend c); eexists; (split; [apply steps_one; [reflexivity|]; cbn; rewrite N; reflexivity|split; [constructor|discriminate]]).
      * rewrite (none_branch_eq c _ EB R1) in Hb. injection E as <- <- <-.
        assert (T' : real (cret c)) by (destruct T as [T|T]; [rewrite T in R1; discriminate|exact T]).
        destruct (goto_sim c l1 l2 (cret c) false b rg fall pc r sw s Ho Hb Hrg T' Hk) as (j & B' & S1 & M1 & RK).
        exists j, B'. split; [exact S1|]. split; [exact M1|]. intros J0. destruct (RK J0) as (c' & EA & LT). cbn in EA. rewrite EA. exact LT.
  - (* a statement of the chunk *)
    assert (Sst : is_simple st = true).
    { pose proof (Hsimple c Hin) as FS. rewrite Hs in FS. apply Forall_app in FS. destruct FS as [_ FS]. inversion FS; assumption. }
    cbn [flat_map] in Hk. rewrite <- !app_assoc in Hk.
    destruct st as [cm|n g tk| | | | | | ]; try discriminate Sst.
    + (* command *)
      cbn [render_stmt] in Hk. rewrite <- app_assoc in Hk.
      destruct (steps_noops St exec flag_set trainer_beaten cmp_var cmp_var_value case_matches code pc r sw s _ _ Hk (marker_noop mp _)) as (pc1 & S1 & K1).
      cbn [app] in K1. destruct (skipn_cons_nth _ _ _ _ K1) as [N K2].
      cbn [Sem2.gstep] in E.
      assert (STEP : forall B' ev0 s0, tstep (TAt pc1 r sw) s = (ev0, B', s0) -> mstate A' B' -> ev0 = ev -> s0 = s' ->
                     exists j B'', tsteps j (TAt pc r sw) s ev B'' s' /\ mstate A' B'' /\ (j = 0%nat -> (rank A' < rank (GAt c (SCmd cm :: rest)))%nat)).
      { intros B' ev0 s0 T MM -> ->. exists (List.length (marker mp (tline (ctok cm))) + 1)%nat, B'. split; [|split; [exact MM|intros X; exfalso; lia]].
        change ev with ([] ++ ev). eapply steps_trans; [exact S1|]. apply steps_one; [reflexivity|exact T]. }
      destruct (is_name cm "end") eqn:N1.
      { injection E as <- <- <-. eapply STEP; [cbn; rewrite N, N1; reflexivity|constructor|reflexivity|reflexivity]. }
      destruct (is_name cm "return") eqn:N2.
      { injection E as <- <- <-. eapply STEP; [cbn; rewrite N, N1, N2; reflexivity|constructor|reflexivity|reflexivity]. }
      destruct (is_name cm "goto") eqn:N3.
      { destruct (cargs cm) as [|l [|l' ar]] eqn:AR.
        - injection E as <- <- <-. eapply STEP; [cbn; rewrite N, N1, N2, N3, AR; reflexivity|constructor|reflexivity|reflexivity].
        - destruct (graph_find_label l G) as [a'|] eqn:GF.
          + injection E as <- <- <-. destruct a' as [c' ss|o].
            * destruct (user_label_jump _ _ _ s GF) as (j & B' & SJ & MJ).
              exists (List.length (marker mp (tline (ctok cm))) + (1 + j))%nat, B'. split; [|split; [exact MJ|intros X; exfalso; lia]].
              change (@nil event) with (@nil event ++ (@nil event ++ @nil event)). eapply steps_trans; [exact S1|].
              eapply steps_trans; [|exact SJ]. apply steps_one; [reflexivity|]. cbn. rewrite N, N1, N2, N3, AR. reflexivity.
            * exfalso. clear - GF. induction G as [|x g0 IH]; cbn in GF; [discriminate|]. destruct (after_label l (cstmts x)); [discriminate|auto].
          + injection E as <- <- <-.
            assert (NL : ~ In l (lnames code)).
            { eapply (Hgoto c cm l Hin); eauto. rewrite Hs. apply in_or_app. right. now left. }
            eapply STEP; [cbn; rewrite N, N1, N2, N3, AR; unfold jump; rewrite (find_lbl_none _ _ 0%nat NL); reflexivity|constructor|reflexivity|reflexivity].
        - injection E as <- <- <-. eapply STEP; [cbn; rewrite N, N1, N2, N3, AR; reflexivity|constructor|reflexivity|reflexivity]. }
      destruct (exec cm s) as [s1|] eqn:EX.
      * injection E as <- <- <-. eapply STEP; [cbn; rewrite N, N1, N2, N3, EX; reflexivity| |reflexivity|reflexivity].
        eapply (ms_at c rest (done ++ [SCmd cm]) l1 l2); eauto. rewrite <- app_assoc. exact Hs.
      * injection E as <- <- <-. eapply STEP; [cbn; rewrite N, N1, N2, N3, EX; reflexivity|constructor|reflexivity|reflexivity].
    + (* label *)
      cbn [render_stmt] in Hk. cbn [Sem2.gstep] in E. injection E as <- <- <-.
      assert (NO : forallb noop (marker mp (tline tk) ++ [ILabel n g]) = true) by (rewrite forallb_app, marker_noop; reflexivity).
      destruct (steps_noops St exec flag_set trainer_beaten cmp_var cmp_var_value case_matches code pc r sw s _ _ Hk NO) as (pc1 & S1 & K1).
      eexists _, (TAt pc1 r sw). split; [exact S1|]. split.
      * eapply (ms_at c rest (done ++ [SLabel n g tk]) l1 l2); eauto. rewrite <- app_assoc. exact Hs.
      * rewrite app_length. cbn. intros X. exfalso. lia.
Qed.

Notation grun := (run (@gfinal) gstep).
Notation trun := (run (@tfinal) tstep).

Lemma m_final A B : mstate A B -> gfinal A = tfinal B.
Proof. destruct 1; reflexivity. Qed.

(* forward: whatever the chunk graph does in n steps, the rendered code does in some number of steps *)
Theorem render_sim_fwd A B : mstate A B -> forall n s, exists m, grun n A s = trun m B s.
Proof.
  intros M n. revert A B M. induction n as [|n IH]; intros A B M s.
  - exists 0%nat. cbn. rewrite <- (m_final _ _ M). reflexivity.
  - destruct (gfinal A) as [o|] eqn:F.
    + exists 0%nat. rewrite (run_final _ _ _ _ (S n) A s o F). rewrite (m_final _ _ M) in F. now rewrite (run_final _ _ _ _ 0%nat B s o F).
    + cbn [run]. rewrite F. destruct (gstep A s) as [[ev A'] s'] eqn:E.
      destruct (render_step _ _ _ _ _ _ M F E) as (j & B' & S1 & M' & _).
      destruct (IH _ _ M' s') as (m' & R). exists (j + m')%nat.
      rewrite (run_steps _ _ _ _ _ _ _ _ _ _ S1 m'). rewrite R. destruct (trun m' B' s'); reflexivity.
Qed.

Lemma res_le_prepend (ev : list event) (r1 r2 : result) :
  res_le r1 r2 -> res_le (ev ++ fst r1, snd r1) (ev ++ fst r2, snd r2).
Proof.
  intros [[x Hx] Hd]. split; cbn.
  - exists x. rewrite Hx. now rewrite app_assoc.
  - intros o Ho. specialize (Hd o Ho). rewrite Hd. reflexivity.
Qed.

(* backward: whatever the rendered code does in m steps is a prefix of what the chunk graph does (the same once finished) *)
Theorem render_sim_bwd : forall m k A B, mstate A B -> rank A = k -> forall s, exists n, res_le (trun m B s) (grun n A s).
Proof.
  induction m as [m IHm] using lt_wf_ind. induction k as [k IHk] using lt_wf_ind. intros A B M RK s.
  destruct (tfinal B) as [o|] eqn:FB.
  - exists 0%nat. rewrite (run_final _ _ _ _ m B s o FB). rewrite <- (m_final _ _ M) in FB. rewrite (run_final _ _ _ _ 0%nat A s o FB). apply res_le_refl.
  - destruct m as [|m'].
    + exists 0%nat. cbn. rewrite FB. rewrite <- (m_final _ _ M) in FB. rewrite FB. apply res_le_refl.
    + assert (FA : gfinal A = None) by (rewrite (m_final _ _ M); exact FB).
      destruct (gstep A s) as [[ev A'] s'] eqn:E.
      destruct (render_step _ _ _ _ _ _ M FA E) as (j & B' & S1 & M' & RJ).
      destruct j as [|j'].
      * (* no target step: the graph fell through into a later chunk *)
        assert (EQ : B' = B /\ ev = [] /\ s' = s) by (inversion S1; auto). destruct EQ as (-> & -> & ->).
        rewrite <- RK in IHk. destruct (IHk (rank A') (RJ eq_refl) A' B M' eq_refl s) as (n' & R).
        exists (S n'). cbn [run]. rewrite FA, E. destruct (grun n' A' s) as [t1 st1]. cbn. exact R.
      * destruct (le_lt_dec (S j') (S m')) as [LE|LT].
        -- (* the m target steps go beyond this graph step *)
           assert (EQ : S m' = (S j' + (S m' - S j'))%nat) by lia.
           destruct (IHm (S m' - S j')%nat ltac:(lia) (rank A') A' B' M' eq_refl s') as (n' & R).
           exists (S n'). rewrite EQ. rewrite (run_steps _ _ _ _ _ _ _ _ _ _ S1 (S m' - S j')%nat).
           cbn [run]. rewrite FA, E. destruct (grun n' A' s') as [t1 st1].
           apply (res_le_prepend ev (trun (S m' - S j') B' s') (t1, st1)). exact R.
        -- (* the m target steps end inside this graph step *)
           exists 1%nat.
           assert (EQ : trun (S j') B s = grun 1 A s).
           { replace (S j') with (S j' + 0)%nat by lia. rewrite (run_steps _ _ _ _ _ _ _ _ _ _ S1 0%nat).
             cbn [run]. rewrite FA, E. cbn [run]. rewrite (m_final _ _ M'). destruct (tfinal B'); reflexivity. }
           rewrite <- EQ. apply run_mono. lia.
Qed.

(* the script's entry label is found at the start of chunk 0 *)
Lemma entry_sim s : In 0%Z order -> exists j B', tsteps j (jump code name) s [] B' s /\ mstate (ggoto G 0) B'.
Proof.
  intros Dr. destruct (real_split 0%Z Dr) as (k1 & k2 & c0 & Eo & Ec & Ei & Ep).
  pose proof (code_split _ _ _ Eo) as C. rewrite (ggoto_real _ _ Ec).
  assert (SK : skipn (List.length (blocks k1 0)) code = block_of 0 (hd (-1)%Z k2) ++ blocks k2 (-1)).
  { pose proof (skipn_length_app (blocks k1 0) (block_of 0 (hd (-1)%Z k2) ++ blocks k2 (-1))) as K. rewrite <- C in K. exact K. }
  assert (J : jump code name = TAt (List.length (blocks k1 0)) RNone None).
  { unfold jump. pose proof C as C'. unfold RenderSim.block_of in C'. rewrite Ec in C'. unfold RenderSim.labelpart in C'. cbn [Z.eqb app] in C'.
    assert (NP : ~ In name (lnames (blocks k1 0))).
    { intros X. pose proof Hlbl as ND. rewrite C', lnames_app in ND. cbn in ND. apply NoDup_remove_2 in ND. apply ND. apply in_or_app. now left. }
    pose proof (find_lbl_here name glob (blocks k1 0) (body_of mp name c0 (hd (-1)%Z k2) ++ blocks k2 (-1)) NP) as F.
    cbn [app] in C'. rewrite <- C' in F. rewrite F. reflexivity. }
  rewrite J. destruct (enter_chunk _ _ _ _ _ RNone None s Eo Ec SK) as (j & pc' & S1 & M1). eauto.
Qed.

(* runs from a state that reaches a matched state silently *)
Lemma run_from A B0 :
  (forall s, exists j B', tsteps j B0 s [] B' s /\ mstate A B') ->
  (forall n s, exists m, grun n A s = trun m B0 s) /\ (forall m s, exists n, res_le (trun m B0 s) (grun n A s)).
Proof.
  intros H. split.
  - intros n s. destruct (H s) as (j & B' & S1 & M1). destruct (render_sim_fwd _ _ M1 n s) as (m & R).
    exists (j + m)%nat. rewrite (run_steps _ _ _ _ _ _ _ _ _ _ S1 m), R. destruct (trun m B' s); reflexivity.
  - intros m s. destruct (H s) as (j & B' & S1 & M1).
    destruct (le_lt_dec j m) as [LE|LT].
    + destruct (render_sim_bwd (m - j)%nat _ _ _ M1 eq_refl s) as (n & R). exists n.
      replace m with (j + (m - j))%nat by lia. rewrite (run_steps _ _ _ _ _ _ _ _ _ _ S1 (m - j)%nat).
      destruct (trun (m - j) B' s); exact R.
    + exists 0%nat. assert (EQ : trun j B0 s = grun 0 A s).
      { replace j with (j + 0)%nat by lia. rewrite (run_steps _ _ _ _ _ _ _ _ _ _ S1 0%nat). cbn [run].
        rewrite (m_final _ _ M1). destruct (tfinal B'); reflexivity. }
      rewrite <- EQ. apply run_mono. lia.
Qed.

(* THE THEOREM of lemma 3: started at the script's entry label, the rendered code behaves like the chunk graph started at chunk 0 *)
Theorem render_sim_entry : In 0%Z order ->
  (forall n s, exists m, grun n (ggoto G 0) s = trun m (jump code name) s) /\
  (forall m s, exists n, res_le (trun m (jump code name) s) (grun n (ggoto G 0) s)).
Proof. intros H. apply run_from. intros s. apply entry_sim. exact H. Qed.

(* ... and the same from every label the author wrote *)
Theorem render_sim_label l c ss : graph_find_label l G = Some (GAt c ss) ->
  (forall n s, exists m, grun n (GAt c ss) s = trun m (jump code l) s) /\
  (forall m s, exists n, res_le (trun m (jump code l) s) (grun n (GAt c ss) s)).
Proof. intros H. apply run_from. intros s. apply user_label_jump. exact H. Qed.
End SIM.
