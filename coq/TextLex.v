(* C09, lexer and parser side: from the source characters of a text to the lines the emitter writes.

   Part 1  the string reader on characters (Lexer.read_str_part, read_string'):
             read_str_part_spec         one "..." part, ANY content: the literal is [part_lit content] - every character kept
                                        (backslashes included) except that a line break with the whitespace after it is one space
             part_lit_plain / _keep / _backslash / _break, backslash_quote_ends_part    readings of [part_lit]
             read_string'_spec          adjacent parts separated by layout (whitespace, comments) only: ONE literal, the parts
                                        glued by a newline ([lit_parts])
   Part 2  tokens (nt_core / next_token_aux / lex):
             nt_core_string, next_string                 a STRING token whose literal is [lit_parts parts]
             nt_core_typed_string, next_typed_string     identifier immediately followed by a quote: STRINGTYPE + STRING
             lex_text_stmt              the token stream of   text NAME { [TYPE]"part" "part" ... }   for any layout
   Part 3  the parser: text_value_string / _typed / _format / _inv, pory_text_inv, parse_text_inv, parse_text_plain / _scoped,
           parse_program_text_stmt
   Part 4  lines: terminated_lines, lit_parts_lines, literal_directive_lines
   Part 5  compile_text_stmt          source characters -> emitted label and directives, whole pipeline (Compile.compile)
   Part 6  program_texts_terminated   EVERY text of EVERY parsed program (inline "...", TYPE"...", format(), text statements,
                                        poryswitch) ends with the terminator of its type, with one exception (see FINDING 1)
           program_text_blocks        ... and is emitted as label + one directive per line of its value
   Examples at the end (hypotheses satisfiable, concrete runs, two findings). *)
From Coq Require Import List String Ascii ZArith NArith Lia Bool.
From Pory Require Import Lexer Ast LexLayout LexBetween.
From Pory Require LexInv LexPos Parser.
Import ListNotations.
Open Scope list_scope.

(* ====================================================================================================== *)
(* Part 1. The string reader on characters                                                                 *)
(* ====================================================================================================== *)

(* what one "..." part contributes to the literal: every character is kept as it is - a backslash and the character
   after it included - except that a line break (\n or \r) together with all the whitespace that follows it becomes
   one space *)
Definition is_nl (c : N) : bool := ((c =? 10) || (c =? 13))%N.
Fixpoint collapse (skipping : bool) (s : list N) : text :=
  match s with
  | [] => []
  | c :: r => if skipping then (if is_ws c then collapse true r else c :: collapse false r)
              else if is_nl c then 32%N :: collapse true r else c :: collapse false r
  end.
Definition part_lit (body : list N) : text := collapse false body.

(* the characters allowed between the quotes of one part: anything but the quote and NUL (NUL is the lexer's end marker) *)
Definition body_ok (b : list N) : Prop := Forall (fun c => c <> 34%N /\ c <> 0%N) b.
(* the reader stops at: end of input, a quote, a NUL *)
Definition stops (r : list N) : Prop := r = [] \/ hd 0%N r = 34%N \/ hd 0%N r = 0%N.

Lemma ch_hd l : ch l = hd 0%N (chs l).
Proof. unfold ch. destruct (chs l); reflexivity. Qed.

Fixpoint dropnl (s : list N) : list N := match s with c :: r => if is_nl c then dropnl r else s | [] => [] end.
Definition starts_nl (s : list N) : bool := match s with c :: _ => is_nl c | [] => false end.

Lemma skip_nl_chs : forall f l sk, (len l < f)%nat ->
  chs (fst (skip_nl f l sk)) = dropnl (chs l) /\ snd (skip_nl f l sk) = sk || starts_nl (chs l).
Proof.
  induction f as [|f IH]; intros l sk L; [lia|]. cbn [skip_nl]. rewrite ch_hd. unfold len in L.
  destruct (chs l) as [|c r] eqn:E; cbn [hd dropnl starts_nl].
  - rewrite andb_false_r. cbn [fst snd]. rewrite orb_false_r. auto.
  - cbn [negb]. rewrite andb_true_r. fold (is_nl c). destruct (is_nl c) eqn:Q.
    + destruct (IH (read_char l) true) as [A B]; [rewrite len_read_char; unfold len; rewrite E; cbn in *; lia|].
      rewrite A, B, chs_read_char, E. cbn [tl]. rewrite orb_true_r. auto.
    + cbn [fst snd]. rewrite orb_false_r. auto.
Qed.

Lemma is_nl_ws c : is_nl c = true -> is_ws c = true.
Proof. unfold is_nl, is_ws. intros H. apply orb_prop in H. destruct H as [H|H]; rewrite H; rewrite ?orb_true_r; reflexivity. Qed.
Lemma dropws_dropnl s : dropws (dropnl s) = dropws s.
Proof. induction s as [|c r IH]; [reflexivity|]. cbn [dropnl]. destruct (is_nl c) eqn:Q; [|reflexivity]. cbn [dropws]. rewrite (is_nl_ws c Q). exact IH. Qed.
Lemma dropnl_len s : (List.length (dropnl s) <= List.length s)%nat.
Proof. induction s as [|c r IH]; cbn; [lia|]. destruct (is_nl c); cbn; lia. Qed.

Lemma stops_dropws r : stops r -> dropws r = r.
Proof. intros [->|[H|H]]; [reflexivity| |]; destruct r as [|c r]; try reflexivity; cbn in H; subst; reflexivity. Qed.
Lemma dropws_app_stop b r : stops r -> dropws (b ++ r) = dropws b ++ r.
Proof. intros S. induction b as [|c b IH]; cbn [app dropws]; [apply stops_dropws; exact S|]. destruct (is_ws c); [exact IH|reflexivity]. Qed.

Lemma collapse_true b : collapse true b = match dropws b with [] => [] | d :: r => d :: collapse false r end.
Proof. induction b as [|c b IH]; [reflexivity|]. cbn [collapse dropws]. destruct (is_ws c); [exact IH|reflexivity]. Qed.

Lemma body_ok_dropws b : body_ok b -> body_ok (dropws b).
Proof. intros H. induction H as [|c b Hc Hb IH]; [constructor|]. cbn [dropws]. destruct (is_ws c); [exact IH|constructor; assumption]. Qed.

Lemma stops_ch l : stops (chs l) -> ((ch l =? 34) || (ch l =? 0))%N = true.
Proof. rewrite ch_hd. intros [->|[->| ->]]; reflexivity. Qed.

(* (1)+(2) one part: for every content, the reader returns the collapsed content and stops exactly at the terminator *)
Lemma read_str_part_spec : forall f body l acc rest,
  body_ok body -> stops rest -> chs l = body ++ rest -> (List.length body < f)%nat ->
  exists l', read_str_part f l acc = (acc ++ part_lit body, l') /\ chs l' = rest.
Proof.
  unfold part_lit.
  induction f as [|f IH]; intros body l acc rest OK ST E L; [lia|]. cbn [read_str_part].
  destruct body as [|c b].
  - cbn [app] in E. rewrite stops_ch by (rewrite E; exact ST). exists l. cbn [collapse]. rewrite app_nil_r. auto.
  - inversion OK as [|c' b' [C1 C2] OKb]; subst c' b'. cbn [app] in E.
    rewrite ch_hd, E. cbn [hd]. apply N.eqb_neq in C1, C2. rewrite C1, C2. cbn [orb].
    destruct (skip_nl_chs (fuel_of l) l false ltac:(unfold fuel_of, len; lia)) as [A B].
    destruct (skip_nl (fuel_of l) l false) as [l1 sk]. cbn [fst snd] in A, B. rewrite E in A, B. cbn [orb starts_nl] in B. subst sk.
    cbn [collapse]. destruct (is_nl c) eqn:Q.
    + (* a line break: skip it and the whitespace after it *)
      assert (E2 : chs (skip_ws (fuel_of l1) l1) = dropws b ++ rest).
      { rewrite chs_skip_ws by (unfold fuel_of; lia). rewrite A, dropws_dropnl. change (c :: b ++ rest) with ((c :: b) ++ rest).
        rewrite (dropws_app_stop _ _ ST). cbn [dropws]. rewrite (is_nl_ws c Q). reflexivity. }
      set (l2 := skip_ws (fuel_of l1) l1) in *. rewrite collapse_true.
      pose proof (body_ok_dropws b OKb) as OK2. pose proof (dropws_len b) as LD.
      destruct (dropws b) as [|d b2].
      * cbn [app] in E2. rewrite stops_ch by (rewrite E2; exact ST). exists l2. auto.
      * inversion OK2 as [|d' b2' [D1 D2] OKb2]; subst d' b2'. cbn [app] in E2. rewrite ch_hd, E2. cbn [hd].
        apply N.eqb_neq in D1, D2. rewrite D1, D2. cbn [orb].
        destruct (IH b2 (read_char l2) ((acc ++ [32%N]) ++ [d]) rest OKb2 ST) as (l' & R & Cl').
        { rewrite chs_read_char, E2. reflexivity. } { cbn [List.length] in *. lia. }
        exists l'. rewrite R. split; [|exact Cl']. f_equal. rewrite <- !app_assoc. reflexivity.
    + destruct (IH b (read_char l) (acc ++ [c]) rest OKb ST) as (l' & R & Cl').
      { rewrite chs_read_char, E. reflexivity. } { cbn [List.length] in *. lia. }
      exists l'. rewrite R. split; [|exact Cl']. f_equal. rewrite <- app_assoc. reflexivity.
Qed.

(* (1) a part without line breaks is taken over character by character *)
Lemma part_lit_plain b : Forall (fun c => is_nl c = false) b -> part_lit b = b.
Proof. unfold part_lit. induction 1 as [|c b Hc _ IH]; [reflexivity|]. cbn [collapse]. rewrite Hc, IH. reflexivity. Qed.
(* (2) every character that is not a line break is kept - in particular a backslash: escape sequences reach the emitter as written *)
Lemma part_lit_keep c r : is_nl c = false -> part_lit (c :: r) = c :: part_lit r.
Proof. unfold part_lit. intros H. cbn [collapse]. rewrite H. reflexivity. Qed.
Lemma part_lit_backslash r : part_lit (92%N :: r) = 92%N :: part_lit r.
Proof. apply part_lit_keep. reflexivity. Qed.
(* (2) a raw line break and the whitespace (blanks, tabs, further line breaks) after it become one space *)
Lemma part_lit_break c r : is_nl c = true -> part_lit (c :: r) = 32%N :: part_lit (dropws r).
Proof.
  unfold part_lit. intros H. cbn [collapse]. rewrite H, collapse_true. f_equal.
  assert (W : forall s, dropws (dropws s) = dropws s).
  { induction s as [|x s IH]; [reflexivity|]. cbn [dropws]. destruct (is_ws x) eqn:E; [exact IH|]. cbn [dropws]. rewrite E. reflexivity. }
  destruct (dropws r) as [|d r2] eqn:E; [reflexivity|]. cbn [collapse].
  assert (Wd : is_ws d = false).
  { specialize (W r). rewrite E in W. cbn [dropws] in W. destruct (is_ws d); [|reflexivity].
    pose proof (dropws_len r2) as L. rewrite W in L. cbn in L. lia. }
  destruct (is_nl d) eqn:Q; [rewrite (is_nl_ws d Q) in Wd; discriminate|reflexivity].
Qed.
Lemma collapse_snoc_backslash : forall b sk, collapse sk (b ++ [92%N]) = collapse sk b ++ [92%N].
Proof.
  induction b as [|c b IH]; intros sk; [destruct sk; reflexivity|]. cbn [app collapse]. destruct sk.
  - destruct (is_ws c); [apply IH|]. rewrite IH. reflexivity.
  - destruct (is_nl c); rewrite IH; reflexivity.
Qed.
(* (2) a backslash does not protect a quote: the part ends at the first quote, the literal ends with the backslash *)
Corollary backslash_quote_ends_part f b l acc rest :
  body_ok b -> chs l = b ++ 92%N :: 34%N :: rest -> (S (List.length b) < f)%nat ->
  exists l', read_str_part f l acc = (acc ++ part_lit b ++ [92%N], l') /\ chs l' = 34%N :: rest.
Proof.
  intros OK E L. destruct (read_str_part_spec f (b ++ [92%N]) l acc (34%N :: rest)) as (l' & R & C).
  - apply Forall_app. split; [exact OK|]. repeat constructor; discriminate.
  - right. left. reflexivity.
  - rewrite <- app_assoc. exact E.
  - rewrite app_length. cbn. lia.
  - exists l'. rewrite R. unfold part_lit. rewrite collapse_snoc_backslash. auto.
Qed.

(* ---------- the whole literal: adjacent parts, separated by layout only, are one literal ---------- *)

(* the parts are joined by a newline; Go tests "the builder is not empty", so empty leading parts leave no newline *)
Definition glue (acc b : text) : text := match acc with [] => b | _ => acc ++ 10%N :: b end.
(* a literal in the source: parts (content, layout after the closing quote) *)
Definition part := (list N * list N)%type.
Definition src_parts (ps : list part) : list N := flat_map (fun p : part => 34%N :: fst p ++ 34%N :: snd p) ps.
Definition lit_from (acc : text) (ps : list part) : text := fold_left (fun a (p : part) => glue a (part_lit (fst p))) ps acc.
Definition lit_parts (ps : list part) : text := lit_from [] ps.
Definition part_ok (p : part) : Prop := body_ok (fst p) /\ gap (snd p).
(* what follows the literal (after layout) is not another quote *)
Definition no_quote (r : list N) : Prop := hd 0%N (skipped r) <> 34%N.

Lemma read_string'_stop f l acc e : hd 0%N (chs l) <> 34%N -> read_string' f l acc e = (acc, e, l).
Proof. intros H. destruct f as [|f]; [reflexivity|]. cbn [read_string']. rewrite ch_hd. apply N.eqb_neq in H. rewrite H. reflexivity. Qed.

Lemma skipped_quote s : skipped (34%N :: s) = 34%N :: s.
Proof. apply skipped_stop; reflexivity. Qed.

Lemma glue_eq acc b : (match acc with [] => acc | _ => acc ++ [10%N] end) ++ b = glue acc b.
Proof. destruct acc as [|a acc]; [reflexivity|]. unfold glue. rewrite <- app_assoc. reflexivity. Qed.

(* one turn of the loop: the part, its closing quote, and the layout behind it *)
Lemma read_string'_step f l acc e b rest :
  body_ok b -> chs l = 34%N :: b ++ 34%N :: rest ->
  exists e' l5, read_string' (S f) l acc e = read_string' f l5 (glue acc (part_lit b)) e' /\ chs l5 = skipped rest.
Proof.
  intros OKb E. cbn [read_string']. rewrite ch_hd, E. cbn [hd].
  change ((34 =? 34)%N && negb false) with true. cbv iota.
  destruct (read_str_part_spec (fuel_of (read_char l)) b (read_char l) (match acc with [] => acc | _ => acc ++ [10%N] end) (34%N :: rest) OKb
              ltac:(right; left; reflexivity)) as (l2 & R & C2).
  { rewrite chs_read_char, E. reflexivity. }
  { unfold fuel_of. rewrite chs_read_char, E. cbn [tl]. rewrite app_length. lia. }
  rewrite R, glue_eq.
  eexists. exists (skipall (read_char l2)). split; [reflexivity|].
  rewrite chs_skipall, chs_read_char, C2. reflexivity.
Qed.

Lemma src_parts_cons b g ps r : src_parts ((b, g) :: ps) ++ r = 34%N :: b ++ 34%N :: g ++ src_parts ps ++ r.
Proof. unfold src_parts. cbn [flat_map fst snd]. cbn [app]. repeat (rewrite <- ?app_assoc; cbn [app]). reflexivity. Qed.

Lemma read_string'_spec : forall ps p f l acc e r,
  Forall part_ok (p :: ps) -> no_quote r -> chs l = src_parts (p :: ps) ++ r -> (len l < f)%nat ->
  exists e' l', read_string' f l acc e = (lit_from acc (p :: ps), e', l') /\ chs l' = skipped r.
Proof.
  induction ps as [|p' ps IH]; intros [b g] f l acc e r OK NQ E L; (destruct f as [|f]; [lia|]);
    inversion OK as [|x y [OKb Gg] OK']; subst x y; cbn [fst snd] in OKb, Gg; rewrite src_parts_cons in E.
  - cbn [src_parts flat_map app] in E.
    destruct (read_string'_step f l acc e b (g ++ r) OKb E) as (e' & l5 & R & C5).
    rewrite (gap_skipped g Gg) in C5.
    exists e', l5. rewrite R, read_string'_stop by (rewrite C5; exact NQ). auto.
  - destruct (read_string'_step f l acc e b (g ++ src_parts (p' :: ps) ++ r) OKb E) as (e' & l5 & R & C5).
    rewrite (gap_skipped g Gg) in C5.
    assert (C5' : chs l5 = src_parts (p' :: ps) ++ r).
    { rewrite C5. destruct p' as [b' g']. rewrite src_parts_cons. apply skipped_quote. }
    destruct (IH p' f l5 (glue acc (part_lit b)) e' r OK' NQ C5') as (e'' & l' & R' & C').
    { unfold len in *. rewrite C5'. rewrite E in L. cbn [List.length] in L. rewrite app_length in L. cbn [List.length] in L. rewrite app_length in L. lia. }
    exists e'', l'. rewrite R, R'. auto.
Qed.

(* ====================================================================================================== *)
(* Part 2. Tokens                                                                                          *)
(* ====================================================================================================== *)

Lemma read_string_token_spec p ps l r :
  Forall part_ok (p :: ps) -> no_quote r -> chs l = src_parts (p :: ps) ++ r ->
  exists tk l', read_string_token l = (tk, l') /\ ttype tk = STRING /\ tlit tk = lit_parts (p :: ps) /\ tline tk = line l /\ chs l' = skipped r.
Proof.
  intros OK NQ E. unfold read_string_token.
  destruct (read_string'_spec ps p (fuel_of l) l [] (0, 0, 0)%Z r OK NQ E ltac:(unfold fuel_of, len; lia)) as ([[el eb] eu] & l' & R & C).
  rewrite R. eexists. exists l'. split; [reflexivity|]. cbn [ttype tlit tline]. auto.
Qed.

Lemma read_while_run p : forall f x l acc r,
  Forall (fun c => p c = true) x -> (r = [] \/ p (hd 0%N r) = false) -> chs l = x ++ r -> (List.length x < f)%nat ->
  exists l', read_while f p l acc = (rev acc ++ x, l') /\ chs l' = r.
Proof.
  induction f as [|f IH]; intros x l acc r Hx Hr E L; [lia|]. cbn [read_while]. destruct x as [|c x].
  - cbn [app] in E. rewrite E. rewrite app_nil_r. destruct Hr as [->|Hr]; [exists l; auto|]. destruct r as [|d r]; [exists l; auto|].
    cbn [hd] in Hr. rewrite Hr. exists l. auto.
  - inversion Hx as [|c' x' Hc Hx']; subst c' x'. cbn [app] in E. rewrite E, Hc.
    destruct (IH x (read_char l) (c :: acc) r Hx' Hr) as (l' & R & C); [rewrite chs_read_char, E; reflexivity|cbn [List.length] in L; lia|].
    exists l'. rewrite R. cbn [rev]. rewrite <- app_assoc. auto.
Qed.

Section TOK.
Variable is_letter_hi is_digit_hi is_space_hi : N -> bool.
Notation is_letter := (is_letter is_letter_hi).
Notation is_digit := (is_digit is_digit_hi).
Notation read_ident := (read_ident is_letter_hi is_digit_hi).
Notation nt_core := (nt_core is_letter_hi is_digit_hi is_space_hi).
Notation next_token_aux := (next_token_aux is_letter_hi is_digit_hi is_space_hi).
Notation lex_all := (lex_all is_letter_hi is_digit_hi is_space_hi).
Notation lex := (lex is_letter_hi is_digit_hi is_space_hi).

(* an identifier: a letter, then letters and digits *)
Definition ident_char (c : N) : bool := is_letter c || is_digit c.
Definition is_ident (id : list N) : Prop :=
  match id with [] => False | c :: cs => is_letter c = true /\ Forall (fun x => ident_char x = true) cs end.
(* the identifier ends here *)
Definition ident_ends (r : list N) : Prop := r = [] \/ ident_char (hd 0%N r) = false.

Lemma read_ident_spec c cs l r :
  is_ident (c :: cs) -> ident_ends r -> chs l = (c :: cs) ++ r ->
  exists l', read_ident l = (c :: cs, l') /\ chs l' = r.
Proof.
  intros [Hc Hcs] Hr E. unfold Lexer.read_ident. cbn [app] in E. rewrite E, Hc.
  destruct (read_while_run (fun x => is_letter x || is_digit x) (fuel_of l) cs (read_char l) [] r Hcs Hr) as (l' & R & C).
  { rewrite chs_read_char, E. reflexivity. } { unfold fuel_of. rewrite E. cbn [List.length]. rewrite app_length. lia. }
  rewrite R. exists l'. auto.
Qed.

Lemma letter_tests c : is_letter c = true ->
  (c =? 0)%N = false /\ (c =? 42)%N = false /\ (c =? 61)%N = false /\ (c =? 33)%N = false /\ (c =? 60)%N = false /\ (c =? 62)%N = false /\
  (c =? 38)%N = false /\ (c =? 124)%N = false /\ (c =? 40)%N = false /\ (c =? 41)%N = false /\ (c =? 91)%N = false /\ (c =? 93)%N = false /\
  (c =? 44)%N = false /\ (c =? 58)%N = false /\ (c =? 123)%N = false /\ (c =? 125)%N = false /\ (c =? 34)%N = false /\ (c =? 96)%N = false /\
  (c =? 48)%N = false.
Proof. intros H. repeat split; apply N.eqb_neq; intros ->; discriminate H. Qed.

(* the token reader at a quote *)
Lemma nt_core_string p ps l r :
  Forall part_ok (p :: ps) -> no_quote r -> chs l = src_parts (p :: ps) ++ r ->
  exists tk l', nt_core l = ([tk], l', false) /\ ttype tk = STRING /\ tlit tk = lit_parts (p :: ps) /\ tline tk = line l /\ chs l' = skipped r.
Proof.
  intros OK NQ E. destruct (read_string_token_spec p ps l r OK NQ E) as (tk & l' & R & T).
  exists tk, l'. split; [|exact T]. unfold LexLayout.nt_core. rewrite ch_hd. destruct p as [b g]. rewrite src_parts_cons in E. rewrite E. cbn [hd].
  cbn [N.eqb Pos.eqb orb]. rewrite R. reflexivity.
Qed.

(* the token reader at an identifier that is not followed by a quote *)
Lemma nt_core_ident id l r :
  is_ident id -> ident_ends r -> hd 0%N r <> 34%N -> chs l = id ++ r ->
  exists tk l', nt_core l = ([tk], l', false) /\ ttype tk = lookup_kw keywords id /\ tlit tk = id /\ tline tk = line l /\ chs l' = r.
Proof.
  intros ID Hr NQ E. destruct id as [|c cs]; [destruct ID|]. destruct (read_ident_spec c cs l r ID Hr E) as (l' & R & C).
  destruct ID as [Hc _]. destruct (letter_tests c Hc) as (T0 & T1 & T2 & T3 & T4 & T5 & T6 & T7 & T8 & T9 & T10 & T11 & T12 & T13 & T14 & T15 & T16 & T17 & T18).
  unfold LexLayout.nt_core. rewrite ch_hd. cbn [app] in E. rewrite E. cbn [hd orb].
  rewrite T0, T1, T2, T3, T4, T5, T6, T7, T8, T9, T10, T11, T12, T13, T14, T15, T16, T17, T18, Hc, R.
  rewrite ch_hd, C. apply N.eqb_neq in NQ. rewrite NQ. cbn [andb fst snd]. eexists. exists l'. split; [reflexivity|]. cbn [ttype tlit tline]. auto.
Qed.

(* (3) the token reader at an identifier immediately followed by a quote: a STRINGTYPE token, then the STRING token *)
Lemma nt_core_typed_string id p ps l r :
  is_ident id -> Forall part_ok (p :: ps) -> no_quote r -> chs l = id ++ src_parts (p :: ps) ++ r ->
  exists ty tk l', nt_core l = ([ty; tk], l', false) /\ ttype ty = STRINGTYPE /\ tlit ty = id /\ tline ty = line l /\
                   ttype tk = STRING /\ tlit tk = lit_parts (p :: ps) /\ chs l' = skipped r.
Proof.
  intros ID OK NQ E. destruct id as [|c cs]; [destruct ID|].
  assert (Hr : ident_ends (src_parts (p :: ps) ++ r)).
  { right. destruct p as [b g]. rewrite src_parts_cons. cbn [hd]. reflexivity. }
  destruct (read_ident_spec c cs l _ ID Hr E) as (l3 & R & C).
  destruct (read_string_token_spec p ps l3 r OK NQ C) as (tk & l' & RS & T1' & T2' & _ & T3').
  destruct ID as [Hc _]. destruct (letter_tests c Hc) as (T0 & T1 & T2 & T3 & T4 & T5 & T6 & T7 & T8 & T9 & T10 & T11 & T12 & T13 & T14 & T15 & T16 & T17 & T18).
  unfold LexLayout.nt_core. rewrite ch_hd. cbn [app] in E. rewrite E. cbn [hd orb].
  rewrite T0, T1, T2, T3, T4, T5, T6, T7, T8, T9, T10, T11, T12, T13, T14, T15, T16, T17, T18, Hc, R.
  assert (Q : (ch l3 =? 34)%N && negb (match chs l3 with [] => true | _ => false end) = true).
  { rewrite ch_hd, C. destruct p as [b g]. rewrite src_parts_cons. reflexivity. }
  rewrite Q, RS. cbn [fst snd]. eexists. exists tk, l'. split; [reflexivity|]. cbn [ttype tlit tline]. repeat (split; [reflexivity|]). auto.
Qed.

(* ---------- with layout in front: one call of the lexer ---------- *)
Lemma skipped_letter c s : is_letter c = true -> skipped (c :: s) = c :: s.
Proof.
  intros H. apply skipped_stop.
  - destruct (is_ws c) eqn:W; [|reflexivity]. destruct (ws_plain is_letter_hi is_digit_hi c W) as [A _]. congruence.
  - unfold atc. destruct (c =? 35)%N eqn:A; [apply N.eqb_eq in A; subst c; discriminate H|].
    destruct (c =? 47)%N eqn:B; [apply N.eqb_eq in B; subst c; discriminate H|]. reflexivity.
Qed.

Lemma next_string g p ps l r :
  gap g -> Forall part_ok (p :: ps) -> no_quote r -> chs l = g ++ src_parts (p :: ps) ++ r ->
  exists tk l', next_token_aux l = ([tk], l', false) /\ ttype tk = STRING /\ tlit tk = lit_parts (p :: ps) /\ chs l' = skipped r.
Proof.
  intros G OK NQ E. rewrite next_token_aux_core.
  destruct (nt_core_string p ps (skipall l) r OK NQ) as (tk & l' & R & T1 & T2 & _ & T3).
  { rewrite chs_skipall, E, (gap_skipped g G). destruct p as [b g']. rewrite src_parts_cons. apply skipped_quote. }
  exists tk, l'. auto.
Qed.

Lemma next_typed_string g id p ps l r :
  gap g -> is_ident id -> Forall part_ok (p :: ps) -> no_quote r -> chs l = g ++ id ++ src_parts (p :: ps) ++ r ->
  exists ty tk l', next_token_aux l = ([ty; tk], l', false) /\ ttype ty = STRINGTYPE /\ tlit ty = id /\
                   ttype tk = STRING /\ tlit tk = lit_parts (p :: ps) /\ chs l' = skipped r.
Proof.
  intros G ID OK NQ E. rewrite next_token_aux_core.
  destruct (nt_core_typed_string id p ps (skipall l) r ID OK NQ) as (ty & tk & l' & R & T1 & T2 & _ & T3).
  { rewrite chs_skipall, E, (gap_skipped g G). destruct id as [|c cs]; [destruct ID|]. apply skipped_letter. apply ID. }
  exists ty, tk, l'. auto.
Qed.

Lemma next_ident g id l r :
  gap g -> is_ident id -> ident_ends r -> hd 0%N r <> 34%N -> chs l = g ++ id ++ r ->
  exists tk l', next_token_aux l = ([tk], l', false) /\ ttype tk = lookup_kw keywords id /\ tlit tk = id /\ chs l' = r /\
                tline tk = line (skipall l).
Proof.
  intros G ID Hr NQ E. rewrite next_token_aux_core.
  destruct (nt_core_ident id (skipall l) r ID Hr NQ) as (tk & l' & R & T1 & T2 & T4 & T3).
  { rewrite chs_skipall, E, (gap_skipped g G). destruct id as [|c cs]; [destruct ID|]. apply skipped_letter. apply ID. }
  exists tk, l'. auto.
Qed.

Lemma next_lbrace g l r : gap g -> chs l = g ++ 123%N :: r ->
  exists tk l', next_token_aux l = ([tk], l', false) /\ ttype tk = LBRACE /\ tlit tk = [123%N] /\ chs l' = r.
Proof.
  intros G E. rewrite next_token_aux_core.
  assert (C : chs (skipall l) = 123%N :: r) by (rewrite chs_skipall, E, (gap_skipped g G); apply skipped_stop; reflexivity).
  unfold LexLayout.nt_core. rewrite ch_hd, C. cbn [hd N.eqb Pos.eqb orb fst snd].
  eexists. eexists. split; [reflexivity|]. unfold single. cbn [ttype tlit]. rewrite ch_hd, C, chs_read_char, C. auto.
Qed.

Lemma next_rbrace g l r : gap g -> chs l = g ++ 125%N :: r ->
  exists tk l', next_token_aux l = ([tk], l', false) /\ ttype tk = RBRACE /\ tlit tk = [125%N] /\ chs l' = r.
Proof.
  intros G E. rewrite next_token_aux_core.
  assert (C : chs (skipall l) = 125%N :: r) by (rewrite chs_skipall, E, (gap_skipped g G); apply skipped_stop; reflexivity).
  unfold LexLayout.nt_core. rewrite ch_hd, C. cbn [hd N.eqb Pos.eqb orb fst snd].
  eexists. eexists. split; [reflexivity|]. unfold single. cbn [ttype tlit]. rewrite ch_hd, C, chs_read_char, C. auto.
Qed.

Lemma next_eof g l : gap g -> chs l = g ->
  exists tk l', next_token_aux l = ([tk], l', true) /\ ttype tk = EOF /\ tlit tk = [].
Proof.
  intros G E. rewrite next_token_aux_core.
  assert (C : chs (skipall l) = []) by (rewrite chs_skipall, E; rewrite <- (app_nil_r g); rewrite (gap_skipped g G); reflexivity).
  unfold LexLayout.nt_core. rewrite C. cbn [orb fst snd]. eexists. eexists. split; [reflexivity|]. auto.
Qed.

(* chaining calls *)
Lemma lex_all_more f l ts l' : next_token_aux l = (ts, l', false) -> (len l < f)%nat ->
  lex_all f l = ts ++ lex_all (pred f) l' /\ (len l' < pred f)%nat.
Proof.
  intros H L. pose proof (next_token_progress _ _ _ _ _ _ H) as P. destruct f as [|f]; [lia|]. cbn [Lexer.lex_all pred]. rewrite H. split; [reflexivity|lia].
Qed.
Lemma lex_all_last f l ts l' : next_token_aux l = (ts, l', true) -> (len l < f)%nat -> lex_all f l = ts.
Proof. intros H L. destruct f as [|f]; [lia|]. cbn [Lexer.lex_all]. rewrite H. reflexivity. Qed.

(* layout in front of a character that can neither continue an identifier nor open a string *)
Lemma gap_then g c r : gap g -> ident_char c = false -> c <> 34%N -> ident_ends (g ++ c :: r) /\ hd 0%N (g ++ c :: r) <> 34%N.
Proof.
  intros G Hc Nc. destruct G as [|w g W _|body t g _ _ _|body t g _ _ _]; unfold ident_ends; cbn [app hd].
  - split; [right; exact Hc|exact Nc].
  - destruct (ws_plain is_letter_hi is_digit_hi w W) as (A & B & _). split; [right; unfold ident_char; rewrite A, B; reflexivity|].
    intros ->. discriminate W.
  - split; [right; reflexivity|discriminate].
  - split; [right; reflexivity|discriminate].
Qed.
(* non-empty layout separates an identifier from whatever follows *)
Lemma gap_sep g r : gap g -> g <> [] -> ident_ends (g ++ r) /\ hd 0%N (g ++ r) <> 34%N.
Proof.
  intros G NE. destruct G as [|w g W _|body t g _ _ _|body t g _ _ _]; [congruence| | |]; unfold ident_ends; cbn [app hd].
  - destruct (ws_plain is_letter_hi is_digit_hi w W) as (A & B & _). split; [right; unfold ident_char; rewrite A, B; reflexivity|].
    intros ->. discriminate W.
  - split; [right; reflexivity|discriminate].
  - split; [right; reflexivity|discriminate].
Qed.

(* ---------- the token stream of a text statement, any layout ---------- *)
(* text NAME { [TYPE]"part" "part" ... }   with layout g0 .. g4 between the tokens (g1 not empty) *)
Definition text_stmt_src (g0 g1 name g2 g3 tyid : list N) (ps : list part) (g4 : list N) : list N :=
  g0 ++ t "text" ++ g1 ++ name ++ g2 ++ 123%N :: g3 ++ tyid ++ src_parts ps ++ 125%N :: g4.

Lemma text_is_ident : is_ident (t "text").
Proof. split; [reflexivity|]. repeat constructor. Qed.

Theorem lex_text_stmt g0 g1 name g2 g3 tyid p ps g4 :
  gap g0 -> gap g1 -> g1 <> [] -> is_ident name -> gap g2 -> gap g3 -> (tyid = [] \/ is_ident tyid) ->
  Forall part_ok (p :: ps) -> gap g4 ->
  map shape (lex (text_stmt_src g0 g1 name g2 g3 tyid (p :: ps) g4)) =
    [(TEXT, t "text"); (lookup_kw keywords name, name); (LBRACE, [123%N])] ++
    (match tyid with [] => [] | _ => [(STRINGTYPE, tyid)] end) ++
    [(STRING, lit_parts (p :: ps)); (RBRACE, [125%N]); (EOF, [])] /\
  (* the statement is reported at the line of its keyword: 1 + the newlines of the layout in front of it *)
  tline (hd Parser.eof0 (lex (text_stmt_src g0 g1 name g2 g3 tyid (p :: ps) g4))) = (1 + LexInv.nl g0)%Z.
Proof.
  intros G0 G1 NE1 IDn G2 G3 TY OK G4. unfold Lexer.lex.
  set (src := text_stmt_src g0 g1 name g2 g3 tyid (p :: ps) g4).
  assert (L0 : (len (init src) < S (S (List.length src)))%nat) by (unfold len, init; cbn [chs]; lia).
  assert (C0 : chs (init src) = src) by reflexivity.
  assert (LN : line (skipall (init src)) = (1 + LexInv.nl g0)%Z).
  { assert (I0 : LexInv.Inv (1 + LexInv.nl src)%Z (init src)) by (split; cbn [init line chs]; lia).
    assert (I1 : LexInv.Inv (1 + LexInv.nl src)%Z (skipall (init src))) by (unfold skipall; apply LexInv.inv_skip_comments, LexInv.inv_skip_ws, I0).
    destruct I1 as [_ I1]. rewrite chs_skipall, C0 in I1. unfold src, text_stmt_src in I1. rewrite (gap_skipped g0 G0) in I1.
    set (R := g1 ++ name ++ g2 ++ 123%N :: g3 ++ tyid ++ src_parts (p :: ps) ++ 125%N :: g4) in I1.
    assert (SK : skipped (t "text" ++ R) = t "text" ++ R) by (exact (skipped_letter 116%N (t "ext" ++ R) eq_refl)).
    rewrite SK, (LexPos.nl_app g0) in I1. unfold src, text_stmt_src. fold R. lia. }
  generalize dependent (init src). generalize (S (S (List.length src))). intros f l0 L0 C0 LN.
  unfold src, text_stmt_src in C0. clear src.
  (* text *)
  destruct (gap_sep g1 (name ++ g2 ++ 123%N :: g3 ++ tyid ++ src_parts (p :: ps) ++ 125%N :: g4) G1 NE1) as [E1 Q1].
  destruct (next_ident g0 (t "text") l0 _ G0 text_is_ident E1 Q1 C0) as (k1 & l1 & N1 & T1 & V1 & C1 & LN1).
  destruct (lex_all_more f l0 _ _ N1 L0) as [R1 L1]. rewrite R1. clear R1 N1.
  (* name *)
  destruct (gap_then g2 123%N (g3 ++ tyid ++ src_parts (p :: ps) ++ 125%N :: g4) G2 eq_refl ltac:(discriminate)) as [E2 Q2].
  destruct (next_ident g1 name l1 _ G1 IDn E2 Q2 C1) as (k2 & l2 & N2 & T2 & V2 & C2 & _).
  destruct (lex_all_more _ l1 _ _ N2 L1) as [R2 L2]. rewrite R2. clear R2 N2.
  (* { *)
  destruct (next_lbrace g2 l2 _ G2 C2) as (k3 & l3 & N3 & T3 & V3 & C3).
  destruct (lex_all_more _ l2 _ _ N3 L2) as [R3 L3]. rewrite R3. clear R3 N3.
  (* the literal *)
  assert (NQ : no_quote (125%N :: g4)) by (unfold no_quote; rewrite skipped_stop by reflexivity; discriminate).
  assert (S4 : exists tks l4, next_token_aux l3 = (tks, l4, false) /\
             map shape tks = (match tyid with [] => [] | _ => [(STRINGTYPE, tyid)] end) ++ [(STRING, lit_parts (p :: ps))] /\
             chs l4 = 125%N :: g4).
  { destruct TY as [->|IDt].
    - cbn [app] in C3. destruct (next_string g3 p ps l3 _ G3 OK NQ C3) as (tk & l4 & N4 & T4 & V4 & C4).
      exists [tk], l4. split; [exact N4|]. split; [cbn; unfold shape; rewrite T4, V4; reflexivity|]. rewrite C4. apply skipped_stop; reflexivity.
    - destruct (next_typed_string g3 tyid p ps l3 _ G3 IDt OK NQ C3) as (ty & tk & l4 & N4 & T4 & V4 & T4' & V4' & C4).
      exists [ty; tk], l4. split; [exact N4|]. split; [|rewrite C4; apply skipped_stop; reflexivity].
      destruct tyid as [|c cs]; [destruct IDt|]. cbn. unfold shape. rewrite T4, V4, T4', V4'. reflexivity. }
  destruct S4 as (tks & l4 & N4 & SH4 & C4).
  destruct (lex_all_more _ l3 _ _ N4 L3) as [R4 L4]. rewrite R4. clear R4 N4.
  (* } *)
  destruct (next_rbrace [] l4 g4 gap_nil C4) as (k5 & l5 & N5 & T5 & V5 & C5).
  destruct (lex_all_more _ l4 _ _ N5 L4) as [R5 L5]. rewrite R5. clear R5 N5.
  (* end of input *)
  destruct (next_eof g4 l5 G4 C5) as (k6 & l6 & N6 & T6 & V6).
  rewrite (lex_all_last _ l5 _ _ N6 L5).
  split; [|cbn [app hd]; rewrite LN1; exact LN].
  rewrite !map_app, SH4. cbn [map app]. unfold shape. rewrite T1, V1, T2, V2, T3, V3, T5, V5, T6, V6. rewrite <- app_assoc. reflexivity.
Qed.

End TOK.

(* ====================================================================================================== *)
(* Part 3. The parser: text values, text statements                                                        *)
(* ====================================================================================================== *)
From Pory Require Import Emitter Props1 TopProps Parser Consume.

Lemma is_iff ty tk : is ty tk = true <-> ttype tk = ty.
Proof. unfold is, tt_eqb. destruct (toktype_eq_dec (ttype tk) ty); split; congruence. Qed.
Lemma is_ty ty tk : ttype tk = ty -> is ty tk = true.
Proof. apply is_iff. Qed.
Lemma is_not ty tk : ttype tk <> ty -> is ty tk = false.
Proof. intros H. destruct (is ty tk) eqn:E; [|reflexivity]. apply is_iff in E. congruence. Qed.
Lemma is_other ty ty' tk : ttype tk = ty' -> ty' <> ty -> is ty tk = false.
Proof. intros H N. apply is_not. congruence. Qed.

(* the text carries its terminator: it ends with the suffix its type asks for (nothing is asked of other types) *)
Definition ends_with_terminator (v ty : text) : Prop :=
  match text_suffix ty with Some suf => exists p, v = p ++ suf | None => True end.
Lemma terminate_ends s ty : ends_with_terminator (terminate s ty) ty.
Proof. unfold ends_with_terminator. destruct (text_suffix ty) as [suf|] eqn:E; [|exact I]. apply (terminate_spec s ty suf E). Qed.

Section PARSE.
Variable autovars : list (text * autovar).
Variable switches : list (text * text).
Variable env_errors : bool.
Variable parse_format : toks -> res (token * text * text * toks).
Notation text_value := (text_value parse_format).
Notation pory_text_cases := (pory_text_cases parse_format).
Notation pory_text := (pory_text switches env_errors parse_format).
Notation parse_text := (parse_text switches env_errors parse_format).
Notation parse_tops := (parse_tops autovars switches env_errors parse_format).
Notation parse_program := (parse_program autovars switches env_errors parse_format).

(* ---------- parseTextValue: the three origins of a text value ---------- *)
Theorem text_value_string ts : ttype (cur ts) = STRING ->
  text_value ts = Ok (terminate (tlit (cur ts)) [], [], ts).
Proof. intros H. unfold Parser.text_value, curis. rewrite (is_other FORMAT STRING _ H), (is_ty STRING _ H) by discriminate. reflexivity. Qed.

(* (3) the type prefix is recorded as the type of the text, and selects the terminator *)
Theorem text_value_typed ts : ttype (cur ts) = STRINGTYPE -> ttype (cur (adv ts)) = STRING ->
  text_value ts = Ok (terminate (tlit (cur (adv ts))) (tlit (cur ts)), tlit (cur ts), adv ts).
Proof.
  intros H H2. unfold Parser.text_value, curis.
  rewrite (is_other FORMAT STRINGTYPE _ H), (is_other STRING STRINGTYPE _ H), (is_ty STRINGTYPE _ H), (is_ty STRING _ H2) by discriminate. reflexivity.
Qed.

Theorem text_value_format ts tk v sty ts1 : ttype (cur ts) = FORMAT -> parse_format ts = Ok (tk, v, sty, ts1) ->
  text_value ts = Ok (terminate v sty, sty, ts1).
Proof. intros H E. unfold Parser.text_value, curis. rewrite (is_ty FORMAT _ H), E. reflexivity. Qed.

(* ... and there is no other: whatever parseTextValue returns is a terminated literal / formatted text *)
Theorem text_value_inv ts v sty ts' : text_value ts = Ok (v, sty, ts') ->
  (ttype (cur ts) = STRING /\ sty = [] /\ ts' = ts /\ v = terminate (tlit (cur ts)) []) \/
  (ttype (cur ts) = STRINGTYPE /\ ttype (cur (adv ts)) = STRING /\ sty = tlit (cur ts) /\ ts' = adv ts /\
     v = terminate (tlit (cur (adv ts))) (tlit (cur ts))) \/
  (ttype (cur ts) = FORMAT /\ exists tk s, parse_format ts = Ok (tk, s, sty, ts') /\ v = terminate s sty).
Proof.
  intros H. unfold Parser.text_value, curis in H.
  destruct (is FORMAT (cur ts)) eqn:F.
  - right. right. apply is_iff in F. split; [exact F|]. destruct (parse_format ts) as [[[[tk s] sty'] ts1]| | |]; try discriminate.
    inversion H; subst. eauto.
  - destruct (is STRING (cur ts)) eqn:S1.
    + left. apply is_iff in S1. inversion H; subst. auto.
    + destruct (is STRINGTYPE (cur ts)) eqn:S2; [|discriminate]. right. left. apply is_iff in S2.
      destruct (is STRING (cur (adv ts))) eqn:S3; [|discriminate]. apply is_iff in S3. cbn in H. inversion H; subst. auto.
Qed.

Corollary text_value_terminated ts v sty ts' : text_value ts = Ok (v, sty, ts') -> exists s, v = terminate s sty.
Proof.
  intros H. destruct (text_value_inv _ _ _ _ H) as [(_ & -> & _ & ->)|[(_ & _ & -> & _ & ->)|(_ & tk & s & _ & ->)]]; eauto.
Qed.

(* ---------- poryswitch texts ---------- *)
Lemma assoc_in {B} (l : list (text * B)) k v : assoc l k = Some v -> exists k', In (k', v) l.
Proof.
  induction l as [|[a b] r IH]; cbn; [discriminate|]. destruct (text_eqb a k); [intros H; inversion H; subst; eauto|].
  intros H. destruct (IH H) as [k' K]. eauto.
Qed.

Definition case_ok (c : text * (text * text)) : Prop := exists s, fst (snd c) = terminate s (snd (snd c)).

Lemma pory_text_cases_ok : forall f start ts acc r ts',
  pory_text_cases f start ts acc = Ok (r, ts') -> Forall case_ok acc -> Forall case_ok r.
Proof.
  induction f as [|f IH]; intros start ts acc r ts' H A; [discriminate|]. cbn [Parser.pory_text_cases] in H.
  ok_split H; try assumption.
  all: match goal with K : Parser.pory_text_cases _ _ _ _ _ = Ok _ |- _ => eapply IH; [exact K|] end.
  all: constructor; [|assumption].
  all: match goal with K : Parser.text_value _ _ = Ok _ |- _ => destruct (text_value_terminated _ _ _ _ K) as [s ->]; exists s; reflexivity end.
Qed.

(* the value selected by a poryswitch is one of the case values, so it is terminated - except that with no matching case, no
   default case and environment errors off the text is EMPTY and has NO terminator (Go: parsePoryswitchTextStatement) *)
Theorem pory_text_inv f ts v sty ts' : pory_text f ts = Ok (v, sty, ts') ->
  (exists s, v = terminate s sty) \/ (v = [] /\ sty = [] /\ env_errors = false).
Proof.
  intros H. unfold Parser.pory_text in H.
  destruct (poryswitch_header switches env_errors ts) as [[[sc sv] ts1]| | |]; try discriminate.
  destruct (Parser.pory_text_cases parse_format f (cur ts1) ts1 []) as [[cases ts2]| | |] eqn:C; try discriminate.
  pose proof (pory_text_cases_ok _ _ _ _ _ _ C (Forall_nil _)) as OK.
  assert (G : forall k v0 sty0, assoc cases k = Some (v0, sty0) -> exists s, v0 = terminate s sty0).
  { intros k v0 sty0 K. destruct (assoc_in _ _ _ K) as [k' I]. rewrite Forall_forall in OK. destruct (OK _ I) as [s E]. exists s. exact E. }
  destruct (assoc cases (sval sv)) as [[v0 sty0]|] eqn:A1.
  - inversion H; subst. left. eapply G; eassumption.
  - destruct (assoc cases (t "_")) as [[v0 sty0]|] eqn:A2.
    + inversion H; subst. left. eapply G; eassumption.
    + destruct env_errors; [discriminate|]. inversion H; subst. right. auto.
Qed.

(* ---------- the text statement ---------- *)
Theorem parse_text_inv f ts td ts' : parse_text f ts = Ok (td, ts') ->
  xtok td = cur ts /\
  ((exists s, xvalue td = terminate s (xtype td)) \/ (xvalue td = [] /\ xtype td = [] /\ env_errors = false)).
Proof.
  intros H. unfold Parser.parse_text in H.
  destruct (scope_modifier true ts) as [[g ts1]| | |]; try discriminate.
  destruct (expect_peek IDENT ts1) as [ts2|]; [|discriminate].
  destruct (expect_peek LBRACE ts2) as [ts3|]; [|discriminate]. cbv zeta in H.
  destruct (curis PORYSWITCH (adv ts3)).
  - destruct (Parser.pory_text switches env_errors parse_format f (adv ts3)) as [[[v sty] ts5]| | |] eqn:P; try discriminate.
    destruct (expect_peek RBRACE ts5); [|discriminate]. inversion H; subst. cbn [xtok xvalue xtype]. split; [reflexivity|].
    eapply pory_text_inv; eassumption.
  - destruct (Parser.text_value parse_format (adv ts3)) as [[[v sty] ts5]| | |] eqn:P; try discriminate.
    destruct (expect_peek RBRACE ts5); [|discriminate]. inversion H; subst. cbn [xtok xvalue xtype]. split; [reflexivity|].
    left. eapply text_value_terminated; eassumption.
Qed.

(* text [ (global|local) ] NAME { "..." }  and  text NAME { TYPE"..." } : exactly these tokens are consumed (the result stream
   starts at the closing brace), label, value with its terminator, type, scope *)
Definition value_toks (tyo : option token) (s : token) : list token := match tyo with Some ty => [ty; s] | None => [s] end.
Definition value_type (tyo : option token) : text := match tyo with Some ty => tlit ty | None => [] end.
Definition value_ok (tyo : option token) : Prop := match tyo with Some ty => ttype ty = STRINGTYPE | None => True end.

Ltac pstep := cbv beta iota zeta; cbn [negb andb pk nth cur hd adv app].

Theorem parse_text_plain f kw nm lb tyo s rb rest :
  ttype nm = IDENT -> ttype lb = LBRACE -> value_ok tyo -> ttype s = STRING -> ttype rb = RBRACE ->
  parse_text f (kw :: nm :: lb :: value_toks tyo s ++ rb :: rest) =
    Ok ({| xname := tlit nm; xvalue := terminate (tlit s) (value_type tyo); xtype := value_type tyo; xglob := true; xtok := kw |},
        rb :: rest).
Proof.
  intros Hn Hl Hv Hs Hr. unfold Parser.parse_text, scope_modifier, expect_peek, peekis, curis.
  destruct tyo as [ty|]; cbn [value_toks value_ok value_type app] in *; pstep.
  - rewrite (is_other LPAREN IDENT nm Hn) by discriminate. pstep. rewrite (is_ty IDENT nm Hn). pstep.
    rewrite (is_ty LBRACE lb Hl). pstep. rewrite (is_other PORYSWITCH STRINGTYPE ty Hv) by discriminate.
    rewrite (text_value_typed (ty :: s :: rb :: rest) Hv Hs). pstep. rewrite (is_ty RBRACE rb Hr). reflexivity.
  - rewrite (is_other LPAREN IDENT nm Hn) by discriminate. pstep. rewrite (is_ty IDENT nm Hn). pstep.
    rewrite (is_ty LBRACE lb Hl). pstep. rewrite (is_other PORYSWITCH STRING s Hs) by discriminate.
    rewrite (text_value_string (s :: rb :: rest) Hs). pstep. rewrite (is_ty RBRACE rb Hr). reflexivity.
Qed.

Theorem parse_text_scoped f kw lp sc rp nm lb tyo s rb rest :
  ttype lp = LPAREN -> (ttype sc = GLOBAL \/ ttype sc = LOCAL) -> ttype rp = RPAREN ->
  ttype nm = IDENT -> ttype lb = LBRACE -> value_ok tyo -> ttype s = STRING -> ttype rb = RBRACE ->
  parse_text f (kw :: lp :: sc :: rp :: nm :: lb :: value_toks tyo s ++ rb :: rest) =
    Ok ({| xname := tlit nm; xvalue := terminate (tlit s) (value_type tyo); xtype := value_type tyo; xglob := is GLOBAL sc; xtok := kw |},
        rb :: rest).
Proof.
  intros Hlp Hsc Hrp Hn Hl Hv Hs Hr. unfold Parser.parse_text, scope_modifier, expect_peek, peekis, curis.
  assert (X : negb (is GLOBAL sc) && negb (is LOCAL sc) = false).
  { destruct Hsc as [G|L]; [rewrite (is_ty GLOBAL sc G); reflexivity|rewrite (is_ty LOCAL sc L), andb_false_r; reflexivity]. }
  destruct tyo as [ty|]; cbn [value_toks value_ok value_type app] in *; pstep.
  - rewrite (is_ty LPAREN lp Hlp). pstep. rewrite X. pstep. rewrite (is_ty RPAREN rp Hrp). pstep. rewrite (is_ty IDENT nm Hn). pstep.
    rewrite (is_ty LBRACE lb Hl). pstep. rewrite (is_other PORYSWITCH STRINGTYPE ty Hv) by discriminate.
    rewrite (text_value_typed (ty :: s :: rb :: rest) Hv Hs). pstep. rewrite (is_ty RBRACE rb Hr). reflexivity.
  - rewrite (is_ty LPAREN lp Hlp). pstep. rewrite X. pstep. rewrite (is_ty RPAREN rp Hrp). pstep. rewrite (is_ty IDENT nm Hn). pstep.
    rewrite (is_ty LBRACE lb Hl). pstep. rewrite (is_other PORYSWITCH STRING s Hs) by discriminate.
    rewrite (text_value_string (s :: rb :: rest) Hs). pstep. rewrite (is_ty RBRACE rb Hr). reflexivity.
Qed.

(* ---------- a text statement inside a program ---------- *)
Lemma parse_tops_text f st ts td ts1 : ttype (cur ts) = TEXT -> parse_text f ts = Ok (td, ts1) ->
  parse_tops (S f) st ts =
  parse_tops f {| pconsts := pconsts st; ph := ph st; ptops := ptops st ++ [TTextStmt]; ptexts := ptexts st ++ [td] |} (adv ts1).
Proof.
  intros H E. cbn [Parser.parse_tops]. unfold curis. rewrite (is_other EOF TEXT _ H) by discriminate. rewrite H, E. reflexivity.
Qed.
Lemma parse_tops_eof f st ts : ttype (cur ts) = EOF -> parse_tops (S f) st ts = Ok st.
Proof. intros H. cbn [Parser.parse_tops]. unfold curis. rewrite (is_ty EOF _ H). reflexivity. Qed.

(* the program that consists of one text statement *)
Theorem parse_program_text_stmt kw nm lb tyo s rb eof :
  ttype kw = TEXT -> ttype nm = IDENT -> ttype lb = LBRACE -> value_ok tyo -> ttype s = STRING -> ttype rb = RBRACE -> ttype eof = EOF ->
  parse_program (kw :: nm :: lb :: value_toks tyo s ++ [rb; eof]) =
    Ok {| tops := [TTextStmt];
          texts := [{| xname := tlit nm; xvalue := terminate (tlit s) (value_type tyo); xtype := value_type tyo; xglob := true; xtok := kw |}] |}.
Proof.
  intros Hk Hn Hl Hv Hs Hr He. unfold Parser.parse_program.
  remember (5 * List.length (kw :: nm :: lb :: value_toks tyo s ++ [rb; eof]) + 4)%nat as F eqn:EF.
  destruct F as [|[|F]]; [cbn [List.length] in EF; lia|cbn [List.length] in EF; lia|].
  rewrite (parse_tops_text (S F) _ (kw :: nm :: lb :: value_toks tyo s ++ [rb; eof]) _ _ Hk (parse_text_plain (S F) kw nm lb tyo s rb [eof] Hn Hl Hv Hs Hr)).
  cbn [adv]. rewrite (parse_tops_eof F _ [eof] He). unfold checked_texts, checked_tops. destruct env_errors; cbn; reflexivity.
Qed.

End PARSE.

(* ====================================================================================================== *)
(* Part 4. From the literal to the emitted lines                                                           *)
(* ====================================================================================================== *)

Definition no10 (s : text) : Prop := Forall (fun c => c <> 10%N) s.

Lemma collapse_no10 : forall b sk, no10 (collapse sk b).
Proof.
  induction b as [|c b IH]; intros sk; [constructor|]. cbn [collapse]. destruct sk.
  - destruct (is_ws c) eqn:W; [apply IH|]. constructor; [|apply IH]. intros ->. discriminate W.
  - destruct (is_nl c) eqn:Q; [constructor; [discriminate|apply IH]|]. constructor; [|apply IH]. intros ->. discriminate Q.
Qed.

Lemma split_nl_line a : forall cur, no10 a -> split_nl a cur = [rev cur ++ a].
Proof.
  induction a as [|c a IH]; intros cur H; cbn [split_nl]; [rewrite app_nil_r; reflexivity|].
  inversion H as [|c' a' Hc Ha]; subst. apply N.eqb_neq in Hc. rewrite Hc. rewrite IH by exact Ha. cbn [rev]. rewrite <- app_assoc. reflexivity.
Qed.
Lemma split_nl_app a b : forall cur, no10 a -> split_nl (a ++ 10%N :: b) cur = (rev cur ++ a) :: split_nl b [].
Proof.
  induction a as [|c a IH]; intros cur H; cbn [split_nl app]; [rewrite app_nil_r; reflexivity|].
  inversion H as [|c' a' Hc Ha]; subst. apply N.eqb_neq in Hc. rewrite Hc. rewrite IH by exact Ha. cbn [rev]. rewrite <- app_assoc. reflexivity.
Qed.

Lemma suffix_no10 ty suf : text_suffix ty = Some suf -> no10 suf.
Proof.
  unfold text_suffix. destruct (text_eqb ty []); [intros H; inversion H; repeat constructor; discriminate|].
  destruct (text_eqb ty (t "ascii")); [intros H; inversion H; repeat constructor; discriminate|].
  destruct (text_eqb ty (t "braille")); [intros H; inversion H; repeat constructor; discriminate|discriminate].
Qed.

Lemma has_suffix_rev_last : forall rsuf a b, no10 rsuf -> has_suffix_rev (a ++ 10%N :: b) rsuf = has_suffix_rev a rsuf.
Proof.
  induction rsuf as [|x r1 IH]; intros a b H; [destruct a; reflexivity|]. inversion H as [|x' r' Hx Hr]; subst.
  destruct a as [|y a]; cbn [app has_suffix_rev].
  - apply N.eqb_neq in Hx. rewrite Hx. reflexivity.
  - rewrite IH by exact Hr. reflexivity.
Qed.

(* the terminator goes to the last line *)
Lemma terminate_last_line pre y ty : terminate (pre ++ 10%N :: y) ty = pre ++ 10%N :: terminate y ty.
Proof.
  unfold terminate. destruct (text_suffix ty) as [suf|] eqn:E; [|reflexivity]. pose proof (suffix_no10 ty suf E) as NS.
  unfold has_suffix. rewrite rev_app_distr. cbn [rev]. rewrite <- app_assoc. cbn [app].
  rewrite has_suffix_rev_last by (unfold no10; apply Forall_rev; exact NS).
  destruct (has_suffix_rev (rev y) (rev suf)); [reflexivity|]. rewrite <- app_assoc. reflexivity.
Qed.
Lemma terminate_no10 y ty : no10 y -> no10 (terminate y ty).
Proof.
  intros H. unfold terminate. destruct (text_suffix ty) as [suf|] eqn:E; [|exact H]. destruct (has_suffix y suf); [exact H|].
  apply Forall_app. split; [exact H|exact (suffix_no10 ty suf E)].
Qed.

Definition nl10 : text := [10%N].
Lemma join_cons_nl x L : join nl10 (x :: L) = x ++ flat_map (fun y => 10%N :: y) L.
Proof. revert x. induction L as [|y L IH]; intros x; [cbn; rewrite app_nil_r; reflexivity|]. change (join nl10 (x :: y :: L)) with (x ++ nl10 ++ join nl10 (y :: L)). rewrite IH. reflexivity. Qed.

(* lines that contain no newline, joined by newlines and terminated, are split into exactly these lines; the last one carries
   the terminator *)
Theorem terminated_lines : forall L ty, L <> [] -> Forall no10 L ->
  split_nl (terminate (join nl10 L) ty) [] = removelast L ++ [terminate (last L []) ty].
Proof.
  induction L as [|x L IH]; intros ty NE H; [congruence|]. inversion H as [|x' L' Hx HL]; subst.
  destruct L as [|y L].
  - cbn [join removelast last app]. apply split_nl_line. apply terminate_no10. exact Hx.
  - change (join nl10 (x :: y :: L)) with (x ++ 10%N :: join nl10 (y :: L)). rewrite terminate_last_line, split_nl_app by exact Hx.
    rewrite IH by (try discriminate; exact HL). reflexivity.
Qed.

(* the lines of a literal: the contents of its parts (leading empty parts do not count: see glue) *)
Fixpoint drop_empty (l : list text) : list text := match l with [] :: r => drop_empty r | _ => l end.
Definition lines_of (ps : list part) : list text :=
  match drop_empty (map (fun p : part => part_lit (fst p)) ps) with [] => [[]] | L => L end.

Lemma lit_from_nonempty : forall ps a acc, lit_from (a :: acc) ps = (a :: acc) ++ flat_map (fun y => 10%N :: y) (map (fun p : part => part_lit (fst p)) ps).
Proof.
  induction ps as [|[b g] ps IH]; intros a acc; [cbn; rewrite app_nil_r; reflexivity|].
  unfold lit_from in *. cbn [fold_left fst map flat_map]. unfold glue at 2. cbn [app]. rewrite IH. cbn [app]. rewrite <- app_assoc. reflexivity.
Qed.

Theorem lit_parts_lines ps : lit_parts ps = join nl10 (lines_of ps).
Proof.
  unfold lit_parts, lines_of. induction ps as [|[b g] ps IH]; [reflexivity|].
  cbn [map fst]. destruct (part_lit b) as [|a x] eqn:E.
  - cbn [drop_empty]. rewrite <- IH. unfold lit_from. cbn [fold_left fst]. rewrite E. reflexivity.
  - cbn [drop_empty]. rewrite join_cons_nl. unfold lit_from. cbn [fold_left fst]. rewrite E. cbn [glue]. apply lit_from_nonempty.
Qed.

Lemma lines_of_ok ps : lines_of ps <> [] /\ Forall no10 (lines_of ps).
Proof.
  unfold lines_of. assert (H : Forall no10 (drop_empty (map (fun p : part => part_lit (fst p)) ps))).
  { induction ps as [|[b g] ps IH]; [constructor|]. cbn [map fst]. destruct (part_lit b) as [|a x] eqn:E; [exact IH|].
    cbn [drop_empty]. constructor; [rewrite <- E; apply collapse_no10|]. clear. induction ps as [|[b' g'] ps IH]; constructor; [apply collapse_no10|exact IH]. }
  destruct (drop_empty _) as [|x L]; [split; [discriminate|repeat constructor]|split; [discriminate|exact H]].
Qed.

(* (4a) the directives of a text whose value is a terminated source literal: one per line of the literal, in order, exactly
   one terminator, at the end of the last line *)
Theorem literal_directive_lines ps ty :
  split_nl (terminate (lit_parts ps) ty) [] = removelast (lines_of ps) ++ [terminate (last (lines_of ps) []) ty].
Proof. rewrite lit_parts_lines. destruct (lines_of_ok ps) as [A B]. apply terminated_lines; assumption. Qed.

(* the terminator of a text that ends with it stands at the end of the last emitted line *)
Lemma split_nl_nonempty s : forall cur, split_nl s cur <> [].
Proof. induction s as [|c r IH]; intros cur; cbn [split_nl]; [discriminate|]. destruct (c =? 10)%N; [discriminate|apply IH]. Qed.
Lemma split_nl_snoc suf : no10 suf -> forall p cur,
  split_nl (p ++ suf) cur = removelast (split_nl p cur) ++ [last (split_nl p cur) [] ++ suf].
Proof.
  intros NS. induction p as [|c r IH]; intros cur; cbn [app split_nl].
  - rewrite split_nl_line by exact NS. reflexivity.
  - destruct (c =? 10)%N.
    + rewrite IH. pose proof (split_nl_nonempty r []) as NE. destruct (split_nl r []) as [|x L] eqn:E; [congruence|]. reflexivity.
    + apply IH.
Qed.
Theorem last_line_terminated v ty suf : text_suffix ty = Some suf -> ends_with_terminator v ty ->
  exists q, last (split_nl v []) [] = q ++ suf.
Proof.
  intros E H. unfold ends_with_terminator in H. rewrite E in H. destruct H as [p ->].
  rewrite (split_nl_snoc suf (suffix_no10 ty suf E)). rewrite last_last. eauto.
Qed.

(* (1) no line break inside the parts, first part not empty: the literal is the contents of the parts joined by newlines,
   and these contents are the lines *)
Lemma lines_of_plain ps : Forall (fun p : part => Forall (fun c => is_nl c = false) (fst p)) ps -> fst (hd ([], []) ps) <> [] ->
  lines_of ps = map (fun p : part => fst p) ps.
Proof.
  intros H NE. unfold lines_of.
  assert (E : map (fun p : part => part_lit (fst p)) ps = map (fun p : part => fst p) ps).
  { clear NE. induction H as [|p ps Hp _ IH]; [reflexivity|]. cbn [map]. rewrite (part_lit_plain _ Hp), IH. reflexivity. }
  rewrite E. destruct ps as [|[b g] ps]; [exfalso; apply NE; reflexivity|]. cbn [hd fst] in NE. cbn [map fst].
  destruct b as [|c b]; [congruence|]. reflexivity.
Qed.
Corollary lit_parts_plain ps : Forall (fun p : part => Forall (fun c => is_nl c = false) (fst p)) ps -> fst (hd ([], []) ps) <> [] ->
  lit_parts ps = join nl10 (map (fun p : part => fst p) ps).
Proof. intros H NE. rewrite lit_parts_lines, lines_of_plain by assumption. reflexivity. Qed.

(* ====================================================================================================== *)
(* Part 5. From source characters to the emitted lines                                                     *)
(* ====================================================================================================== *)
From Pory Require Compile Format.

Definition directive_of (tyid : text) : text := match tyid with [] => t "string" | _ => tyid end.

Lemma map_shape_cons ts ty lit rest : map shape ts = (ty, lit) :: rest ->
  exists k r, ts = k :: r /\ ttype k = ty /\ tlit k = lit /\ map shape r = rest.
Proof. destruct ts as [|k r]; [discriminate|]. cbn [map]. unfold shape at 1. intros H. inversion H. exists k, r. auto. Qed.
Lemma map_shape_nil ts : map shape ts = [] -> ts = [].
Proof. destruct ts; [reflexivity|discriminate]. Qed.
Ltac shape_list H :=
  repeat match type of H with
         | map shape ?l = (_, _) :: _ =>
             let k := fresh "k" in let r := fresh "r" in let A := fresh "Ty" in let B := fresh "Li" in let E := fresh "E" in
             destruct (map_shape_cons _ _ _ _ H) as (k & r & E & A & B & H'); clear H; rename H' into H; subst l
         end;
  match type of H with map shape ?l = [] => apply map_shape_nil in H; subst l end.

Section END2END.
Variable is_letter_hi is_digit_hi is_space_hi : N -> bool.
Variable autovars : list (text * autovar).
Variable switches : list (text * text).
Variable env_errors : bool.
Variable fc : Format.fontcfg.
Variable cli_font : text.
Variable cli_maxlen : Z.
Notation compile := (Compile.compile is_letter_hi is_digit_hi is_space_hi autovars switches env_errors fc cli_font cli_maxlen).

(* what the emitter writes for one text *)
Definition text_block (mpath : option text) (name : text) (glob : bool) (line : Z) (dir : text) (lines : list text) : list instr :=
  [ILabel name glob] ++ marker mpath line ++ map (fun l => IData dir l) lines.

(* (4) text NAME { [TYPE]"part" "part" ... } with any layout, compiled as a whole file: the label NAME, then one directive per
   line of the literal in order - .string, or the directive named by the prefix -; the terminator of the type stands exactly
   once, at the end of the last line *)
Theorem compile_text_stmt optimize mpath g0 g1 name g2 g3 tyid p ps g4 :
  gap g0 -> gap g1 -> g1 <> [] -> is_ident is_letter_hi is_digit_hi name -> lookup_kw keywords name = IDENT ->
  gap g2 -> gap g3 -> (tyid = [] \/ is_ident is_letter_hi is_digit_hi tyid) -> Forall part_ok (p :: ps) -> gap g4 ->
  compile optimize mpath (text_stmt_src g0 g1 name g2 g3 tyid (p :: ps) g4) =
    Compile.OutText (print_instrs mpath
      (text_block mpath name true (1 + LexInv.nl g0) (directive_of tyid)
         (removelast (lines_of (p :: ps)) ++ [terminate (last (lines_of (p :: ps)) []) tyid]))).
Proof.
  intros G0 G1 NE1 IDn KW G2 G3 TY OK G4. unfold Compile.compile.
  destruct (lex_text_stmt is_letter_hi is_digit_hi is_space_hi g0 g1 name g2 g3 tyid p ps g4 G0 G1 NE1 IDn G2 G3 TY OK G4) as [SH LN].
  rewrite KW in SH.
  generalize dependent (lex is_letter_hi is_digit_hi is_space_hi (text_stmt_src g0 g1 name g2 g3 tyid (p :: ps) g4)). intros ts SH LN.
  destruct tyid as [|c cs].
  - cbn [app] in SH. shape_list SH. cbn [hd] in LN.
    match goal with |- context[Parser.parse_program _ _ _ _ [?k1; ?k2; ?k3; ?k4; ?k5; ?k6]] =>
      change [k1; k2; k3; k4; k5; k6] with (k1 :: k2 :: k3 :: value_toks None k4 ++ [k5; k6]);
      rewrite (parse_program_text_stmt autovars switches env_errors (Format.parse_format fc cli_font cli_maxlen env_errors) k1 k2 k3 None k4 k5 k6) by (cbn [value_ok]; auto)
    end.
    unfold emit_program, emit_program_instrs. cbn [tops texts emit_tops emit_top emit_texts map app]. rewrite app_nil_r.
    unfold emit_text, text_block. cbn [xname xglob xtok xtype xvalue value_type directive_of].
    repeat match goal with H : tlit _ = _ |- _ => rewrite H end. rewrite LN, literal_directive_lines. reflexivity.
  - cbn [app] in SH. shape_list SH. cbn [hd] in LN.
    match goal with |- context[Parser.parse_program _ _ _ _ [?k1; ?k2; ?k3; ?k4; ?k5; ?k6; ?k7]] =>
      change [k1; k2; k3; k4; k5; k6; k7] with (k1 :: k2 :: k3 :: value_toks (Some k4) k5 ++ [k6; k7]);
      rewrite (parse_program_text_stmt autovars switches env_errors (Format.parse_format fc cli_font cli_maxlen env_errors) k1 k2 k3 (Some k4) k5 k6 k7) by (cbn [value_ok]; auto)
    end.
    unfold emit_program, emit_program_instrs. cbn [tops texts emit_tops emit_top emit_texts map app]. rewrite app_nil_r.
    unfold emit_text, text_block. cbn [xname xglob xtok xtype xvalue value_type directive_of].
    repeat match goal with H : tlit _ = _ |- _ => rewrite H end. rewrite LN, literal_directive_lines. reflexivity.
Qed.

End END2END.

(* ====================================================================================================== *)
(* Part 6. Every text of every program: inline texts, format(), text statements, poryswitch texts           *)
(* ====================================================================================================== *)

(* an inline text recorded by the parser / a text definition: its content is the result of formatTextTerminator *)
Definition it_ok (it : imptext) : Prop := exists s, tlit (itTok it) = terminate s (itType it).
Definition imp_ok (imp : impdata) : Prop := Forall it_ok (idT imp).
Definition tx_ok (x : textdef) : Prop := exists s, xvalue x = terminate s (xtype x).

Lemma imp_ok_0 : imp_ok imp0. Proof. constructor. Qed.
Lemma imp_ok_add a b : imp_ok a -> imp_ok b -> imp_ok (impadd a b).
Proof. unfold imp_ok. cbn [impadd idT]. intros A B. apply Forall_app. auto. Qed.
Lemma imp_ok_addT imp it m : imp_ok imp -> it_ok it -> imp_ok {| idT := idT imp ++ [it]; idM := m |}.
Proof. unfold imp_ok. cbn [idT]. intros A B. apply Forall_app. auto. Qed.
Lemma imp_ok_sameT imp m : imp_ok imp -> imp_ok {| idT := idT imp; idM := m |}.
Proof. exact (fun H => H). Qed.
Lemma it_ok_mk a b tk v sty sc : it_ok {| itCid := a; itArg := b; itTok := set_lit tk (terminate v sty); itType := sty; itScript := sc |}.
Proof. exists v. reflexivity. Qed.
Create HintDb imp.
#[global] Hint Resolve imp_ok_0 imp_ok_add imp_ok_addT imp_ok_sameT it_ok_mk : imp.
Ltac imp_solve := solve [eauto 12 with imp].

Section IMP.
Variable autovars : list (text * autovar).
Variable switches : list (text * text).
Variable ee : bool.
Variable parse_format : toks -> res (token * text * text * toks).
Variable consts : list (text * text).

(* (the inline origin) "..." , TYPE"..." and format(...) among the arguments of a command *)
Lemma command_args_ok : forall f script cmdtok cidv ts depth parts args imp r i ts',
  command_args switches ee parse_format consts f script cmdtok cidv ts depth parts args imp = Ok (r, i, ts') -> imp_ok imp -> imp_ok i.
Proof.
  induction f as [|f IH]; intros script cmdtok cidv ts depth parts args imp r i ts' H A; [discriminate|].
  cbn [command_args] in H. ok_split H; imp_solve.
Qed.
Hint Resolve command_args_ok : imp.
Lemma command_stmt_ok f script ts c i ts' : command_stmt switches ee parse_format consts f script ts = Ok (c, i, ts') -> imp_ok i.
Proof. intros H. unfold command_stmt in H. ok_split H; imp_solve. Qed.
Hint Resolve command_stmt_ok : imp.
Lemma var_or_autovar_ok f script ts r i ts' : var_or_autovar autovars switches ee parse_format consts f script ts = Ok (r, i, ts') -> imp_ok i.
Proof. intros H. unfold var_or_autovar in H. ok_split H; imp_solve. Qed.
Hint Resolve var_or_autovar_ok : imp.
Lemma leaf_expr_ok f script ts l i ts' : leaf_expr autovars switches ee parse_format consts f script ts = Ok (l, i, ts') -> imp_ok i.
Proof. intros H. unfold leaf_expr in H. ok_split H; imp_solve. Qed.
Hint Resolve leaf_expr_ok : imp.
Lemma bexp_ok : forall f,
  (forall single negated script ts e i ts', bool_expr autovars switches ee parse_format consts f single negated script ts = Ok (e, i, ts') -> imp_ok i) /\
  (forall left single negated script ts e i ts', right_side autovars switches ee parse_format consts f left single negated script ts = Ok (e, i, ts') -> imp_ok i).
Proof.
  induction f as [|f [IH1 IH2]]; [split; intros; discriminate|]. split.
  - intros single negated script ts e i ts' H. rewrite bool_expr_unfold in H. ok_split H; imp_solve.
  - intros left single negated script ts e i ts' H. rewrite right_side_unfold in H. ok_split H; imp_solve.
Qed.
Lemma bool_expr_ok f single negated script ts e i ts' :
  bool_expr autovars switches ee parse_format consts f single negated script ts = Ok (e, i, ts') -> imp_ok i.
Proof. apply (bexp_ok f). Qed.
Hint Resolve bool_expr_ok : imp.

Definition pcase_ok (c : text * (list stmt * impdata)) : Prop := imp_ok (snd (snd c)).

Definition IMPOK (f : nat) : Prop :=
  (forall script bs cs ts ss imp ts', parse_stmt autovars switches ee parse_format consts f script bs cs ts = Ok (ss, imp, ts') -> imp_ok imp) /\
  (forall script bs cs start ts acc imp ss imp' ts', parse_block autovars switches ee parse_format consts f script bs cs start ts acc imp = Ok (ss, imp', ts') -> imp_ok imp -> imp_ok imp') /\
  (forall script bs cs start ts acc imp ss imp' ts', parse_switch_block autovars switches ee parse_format consts f script bs cs start ts acc imp = Ok (ss, imp', ts') -> imp_ok imp -> imp_ok imp') /\
  (forall req script bs cs ts e b imp ts', parse_cond autovars switches ee parse_format consts f req script bs cs ts = Ok (e, b, imp, ts') -> imp_ok imp) /\
  (forall script bs cs ts ss imp ts', parse_if autovars switches ee parse_format consts f script bs cs ts = Ok (ss, imp, ts') -> imp_ok imp) /\
  (forall script bs cs ts acc imp l imp' ts', parse_elifs autovars switches ee parse_format consts f script bs cs ts acc imp = Ok (l, imp', ts') -> imp_ok imp -> imp_ok imp') /\
  (forall script bs cs ts ss imp ts', parse_switch autovars switches ee parse_format consts f script bs cs ts = Ok (ss, imp, ts') -> imp_ok imp) /\
  (forall script bs cs brace ts acc seen hasdef imp l imp' ts', parse_cases autovars switches ee parse_format consts f script bs cs brace ts acc seen hasdef imp = Ok (l, imp', ts') -> imp_ok imp -> imp_ok imp') /\
  (forall script bs cs ts ss imp ts', parse_pory autovars switches ee parse_format consts f script bs cs ts = Ok (ss, imp, ts') -> imp_ok imp) /\
  (forall script bs cs start ts acc l ts', parse_pory_cases autovars switches ee parse_format consts f script bs cs start ts acc = Ok (l, ts') -> Forall pcase_ok acc -> Forall pcase_ok l) /\
  (forall script bs cs multi ts acc imp ss imp' ts', parse_pory_stmts autovars switches ee parse_format consts f script bs cs multi ts acc imp = Ok (ss, imp', ts') -> imp_ok imp -> imp_ok imp').

Lemma pcase_assoc cases k ss imp : Forall pcase_ok cases -> assoc cases k = Some (ss, imp) -> imp_ok imp.
Proof. intros F A. destruct (assoc_in _ _ _ A) as [k' I]. rewrite Forall_forall in F. exact (F _ I). Qed.
Lemma pcase_cons k ss imp acc : imp_ok imp -> Forall pcase_ok acc -> Forall pcase_ok ((k, (ss, imp)) :: acc).
Proof. intros A B. constructor; [exact A|exact B]. Qed.
Hint Resolve pcase_cons : imp.

Lemma impok_all : forall f, IMPOK f.
Proof.
  induction f as [|f IH]; [unfold IMPOK; repeat split; intros; discriminate|].
  destruct IH as (Istmt & Iblock & Iswb & Icond & Iif & Ielifs & Iswitch & Icases & Ipory & Ipcases & Ipstmts).
  unfold IMPOK. repeat split.
  - intros script bs cs ts ss imp ts' H. rewrite parse_stmt_unfold in H. ok_split H; imp_solve.
  - intros script bs cs start ts acc imp ss imp' ts' H A. rewrite parse_block_unfold in H. ok_split H; imp_solve.
  - intros script bs cs start ts acc imp ss imp' ts' H A. rewrite parse_switch_block_unfold in H. ok_split H; imp_solve.
  - intros req script bs cs ts e b imp ts' H. rewrite parse_cond_unfold in H. ok_split H; imp_solve.
  - intros script bs cs ts ss imp ts' H. rewrite parse_if_unfold in H. ok_split H; imp_solve.
  - intros script bs cs ts acc imp l imp' ts' H A. rewrite parse_elifs_unfold in H. ok_split H; imp_solve.
  - intros script bs cs ts ss imp ts' H. rewrite parse_switch_unfold in H. ok_split H; imp_solve.
  - intros script bs cs brace ts acc seen hasdef imp l imp' ts' H A. rewrite parse_cases_unfold in H. ok_split H; imp_solve.
  - intros script bs cs ts ss imp ts' H. rewrite parse_pory_unfold in H. ok_split H;
      try imp_solve;
      match goal with C : parse_pory_cases _ _ _ _ _ _ _ _ _ _ _ [] = Ok _ |- _ => pose proof (Ipcases _ _ _ _ _ _ _ _ C (Forall_nil _)) as PC end;
      eapply pcase_assoc; eassumption.
  - intros script bs cs start ts acc l ts' H A. rewrite parse_pory_cases_unfold in H. ok_split H; imp_solve.
  - intros script bs cs multi ts acc imp ss imp' ts' H A. rewrite parse_pory_stmts_unfold in H. ok_split H; imp_solve.
Qed.

Lemma parse_block_ok f script bs cs start ts acc imp ss imp' ts' :
  parse_block autovars switches ee parse_format consts f script bs cs start ts acc imp = Ok (ss, imp', ts') -> imp_ok imp -> imp_ok imp'.
Proof. apply (impok_all f). Qed.
Hint Resolve parse_block_ok : imp.

Lemma parse_script_ok f ts n g b i ts' : parse_script autovars switches ee parse_format consts f ts = Ok (n, g, b, i, ts') -> imp_ok i.
Proof. intros H. unfold parse_script in H. ok_split H; imp_solve. Qed.

Lemma ms_table_ok : forall f mapname tyname ts i acc imp es imp' ts',
  ms_table autovars switches ee parse_format consts f mapname tyname ts i acc imp = Ok (es, imp', ts') -> imp_ok imp -> imp_ok imp'.
Proof.
  induction f as [|f IH]; intros mapname tyname ts i acc imp es imp' ts' H A; [discriminate|]. cbn [ms_table] in H. ok_split H; imp_solve.
Qed.
Hint Resolve ms_table_ok : imp.
Lemma ms_entries_ok : forall f mapname ts plain tables imp p' t' imp' ts',
  ms_entries autovars switches ee parse_format consts f mapname ts plain tables imp = Ok (p', t', imp', ts') -> imp_ok imp -> imp_ok imp'.
Proof.
  induction f as [|f IH]; intros mapname ts plain tables imp p' t' imp' ts' H A; [discriminate|]. cbn [ms_entries] in H. ok_split H; imp_solve.
Qed.
Hint Resolve ms_entries_ok : imp.
Lemma parse_mapscripts_ok f ts tp imp ts' : parse_mapscripts autovars switches ee parse_format consts f ts = Ok (tp, imp, ts') -> imp_ok imp.
Proof. intros H. unfold parse_mapscripts in H. ok_split H; imp_solve. Qed.
End IMP.

(* ---------- hoisting keeps the content ---------- *)
Lemma add_texts_ok : forall its h ps, Forall it_ok its -> Forall tx_ok (htexts h) -> Forall tx_ok (htexts (fst (add_texts its h ps))).
Proof.
  induction its as [|it r IH]; intros h ps A B; [exact B|]. inversion A as [|it' r' Hit Hr]; subst. cbn [add_texts].
  destruct (find_text (hset h) (tlit (itTok it)) (itType it)); [apply IH; assumption|].
  apply IH; [exact Hr|]. cbn [htexts]. apply Forall_app. split; [exact B|]. constructor; [|constructor].
  destruct Hit as [s E]. exists s. exact E.
Qed.
Lemma add_movs_htexts : forall ims h ps, htexts (fst (add_movs ims h ps)) = htexts h.
Proof.
  induction ims as [|im r IH]; intros h ps; [reflexivity|]. cbn [add_movs].
  destruct (assoc (hmset h) (mov_key (imToks im))); [apply IH|]. rewrite IH. reflexivity.
Qed.
Lemma add_implicit_ok imp h h' ps : add_implicit imp h = (h', ps) -> imp_ok imp -> Forall tx_ok (htexts h) -> Forall tx_ok (htexts h').
Proof.
  unfold add_implicit. intros H A B. pose proof (add_texts_ok (idT imp) h [] A B) as C.
  destruct (add_texts (idT imp) h []) as [h1 ps1]. cbn [fst] in C.
  pose proof (add_movs_htexts (idM imp) h1 ps1) as D. rewrite H in D. cbn [fst] in D. rewrite D. exact C.
Qed.

Section TOPS.
Variable autovars : list (text * autovar).
Variable switches : list (text * text).
Variable ee : bool.
Variable parse_format : toks -> res (token * text * text * toks).
Notation parse_tops := (parse_tops autovars switches ee parse_format).
Notation parse_program := (parse_program autovars switches ee parse_format).

(* a text statement may also be the empty poryswitch fallback (see pory_text_inv) *)
Definition tx_ok2 (x : textdef) : Prop := tx_ok x \/ (xvalue x = [] /\ xtype x = [] /\ ee = false).
Definition pst_ok (st : pstate) : Prop := Forall tx_ok (htexts (ph st)) /\ Forall tx_ok2 (ptexts st).

Lemma parse_tops_ok : forall f st ts st', parse_tops f st ts = Ok st' -> pst_ok st -> pst_ok st'.
Proof.
  induction f as [|f IH]; intros st ts st' H [A B]; [discriminate|]. cbn [Parser.parse_tops] in H.
  destruct (curis EOF ts); [inversion H; subst; split; assumption|].
  destruct (ttype (cur ts)); try discriminate H.
  - (* script *)
    destruct (parse_script autovars switches ee parse_format (pconsts st) f ts) as [[[[[n g] b] imp] ts1]| | |] eqn:P; try discriminate H.
    destruct (add_implicit imp (ph st)) as [h' ps] eqn:AI. apply (IH _ _ _ H). split; cbn [ph ptexts]; [|exact B].
    eapply add_implicit_ok; [exact AI|eapply parse_script_ok; exact P|exact A].
  - (* raw *)
    destruct (parse_raw ts) as [[tp ts1]| | |]; try discriminate H. apply (IH _ _ _ H). split; assumption.
  - (* text *)
    destruct (Parser.parse_text switches ee parse_format f ts) as [[td ts1]| | |] eqn:P; try discriminate H.
    apply (IH _ _ _ H). split; cbn [ph ptexts]; [exact A|]. apply Forall_app. split; [exact B|]. constructor; [|constructor].
    destruct (parse_text_inv switches ee parse_format f ts td ts1 P) as [_ [T|T]]; [left; exact T|right; exact T].
  - (* movement *)
    destruct (parse_movement switches ee f ts) as [[tp ts1]| | |]; try discriminate H. apply (IH _ _ _ H). split; assumption.
  - (* mart *)
    destruct (parse_mart switches ee (pconsts st) f ts) as [[tp ts1]| | |]; try discriminate H. apply (IH _ _ _ H). split; assumption.
  - (* mapscripts *)
    destruct (parse_mapscripts autovars switches ee parse_format (pconsts st) f ts) as [[[tp imp] ts1]| | |] eqn:P; try discriminate H.
    destruct (add_implicit imp (ph st)) as [h' ps] eqn:AI. apply (IH _ _ _ H). split; cbn [ph ptexts]; [|exact B].
    eapply add_implicit_ok; [exact AI|eapply parse_mapscripts_ok; exact P|exact A].
  - (* const *)
    destruct (parse_const f (pconsts st) ts) as [[c' ts1]| | |]; try discriminate H. apply (IH _ _ _ H). split; assumption.
Qed.

(* every text of a parsed program - hoisted from a command argument ("...", TYPE"...", format(...), in any statement of any
   script or mapscript) or written as a text statement - has been through formatTextTerminator with its own type: it ends with
   the terminator of its type.  The only exception is the empty text of a poryswitch text statement without matching case. *)
Theorem program_texts_terminated ts p : parse_program ts = Ok p ->
  Forall (fun x => ends_with_terminator (xvalue x) (xtype x) \/ (xvalue x = [] /\ xtype x = [] /\ ee = false)) (texts p).
Proof.
  intros H. unfold Parser.parse_program in H.
  destruct (Parser.parse_tops autovars switches ee parse_format (5 * List.length ts + 4) {| pconsts := []; ph := hst0; ptops := []; ptexts := [] |} ts)
    as [st| | |] eqn:P; try discriminate H.
  destruct (parse_tops_ok _ _ _ _ P) as [A B]; [split; constructor|].
  destruct (dup_text [] _); [discriminate H|].
  destruct (dup_mov [] _); [discriminate H|]. inversion H; subst. cbn [texts].
  apply Forall_app. split.
  - eapply Forall_impl; [|exact A]. intros x [s E]. left. rewrite E. apply terminate_ends.
  - eapply Forall_impl; [|exact B]. intros x [[s E]|E]; [left; rewrite E; apply terminate_ends|right; exact E].
Qed.

Corollary program_texts_terminated_strict ts p : ee = true -> parse_program ts = Ok p ->
  Forall (fun x => ends_with_terminator (xvalue x) (xtype x)) (texts p).
Proof.
  intros E H. eapply Forall_impl; [|exact (program_texts_terminated ts p H)]. intros x [T|(_ & _ & F)]; [exact T|congruence].
Qed.
End TOPS.

(* ---------- and every text of the program is emitted as its own block ---------- *)
Lemma emit_texts_in mpath : forall l k x, In x l -> exists pre post, emit_texts mpath l k = pre ++ emit_text mpath x ++ post.
Proof.
  induction l as [|y l IH]; intros k x I; [destruct I|]. cbn [emit_texts]. destruct I as [->|I].
  - eexists. eexists. reflexivity.
  - destruct (IH (S k) x I) as (pre & post & E). rewrite E. exists ((match k with O => [] | _ => [IBlank] end) ++ emit_text mpath y ++ pre), post.
    rewrite <- !app_assoc. reflexivity.
Qed.

Lemma emit_text_block mpath x :
  emit_text mpath x = text_block mpath (xname x) (xglob x) (tline (xtok x)) (directive x) (split_nl (xvalue x) []).
Proof. reflexivity. Qed.

(* the label, then one directive per line of the value, .string unless the type names another directive *)
Theorem program_text_blocks optimize mpath p out x : emit_program_instrs optimize mpath p = Emitter.Ok out -> In x (texts p) ->
  exists pre post, out = pre ++ text_block mpath (xname x) (xglob x) (tline (xtok x)) (directive x) (split_nl (xvalue x) []) ++ post.
Proof.
  intros H I. unfold emit_program_instrs in H.
  destruct (emit_tops mpath (map xname (texts p)) optimize (tops p) 0) as [[a n]| | | |]; try discriminate H.
  inversion H; subst. destruct (emit_texts_in mpath (texts p) n x I) as (pre & post & E). rewrite E, emit_text_block.
  exists (a ++ pre), post. rewrite <- app_assoc. reflexivity.
Qed.

(* ====================================================================================================== *)
(* Examples: the hypotheses are satisfiable, the model runs agree; two behaviours worth a look               *)
(* ====================================================================================================== *)
Module Examples.
Definition nohi (c : N) := false.
Definition fc0 : Format.fontcfg := {| Format.fcDefault := []; Format.fcFonts := [] |}.
Definition comp (ee : bool) (mpath : option text) (src : text) : Compile.outcome :=
  Compile.compile nohi nohi nohi [] [] ee fc0 [] 0%Z false mpath src.
Definition LF : string := String (ascii_of_nat 10) EmptyString.
Open Scope string_scope.

(* text T { "a\n" // c <LF>  "b" }   - two parts, a comment and a line break between them *)
Definition src1 : text := t ("text T { ""a\n"" // c" ++ LF ++ "  ""b"" }").
Definition parts1 : list part := [(t "a\n", t (" // c" ++ LF ++ "  ")); (t "b", t " ")].
Lemma gap_sp : gap (t " "). Proof. apply gap_ws; [reflexivity|apply gap_nil]. Qed.
Lemma parts1_ok : Forall part_ok parts1.
Proof.
  constructor; [|constructor; [|constructor]]; split; cbn [fst snd].
  - repeat constructor; discriminate.
  - apply gap_ws; [reflexivity|]. apply (gap_slash (t " c") 10%N (t "  ")); [repeat constructor; discriminate|left; reflexivity|].
    apply gap_ws; [reflexivity|]. exact gap_sp.
  - repeat constructor; discriminate.
  - exact gap_sp.
Qed.
Lemma T_ident : is_ident nohi nohi (t "T"). Proof. split; [reflexivity|constructor]. Qed.

Example ex_two_parts : forall mpath,
  comp false mpath src1 =
  Compile.OutText (print_instrs mpath
    ([ILabel (t "T") true] ++ marker mpath 1 ++ [IData (t "string") (t "a\n"); IData (t "string") (t "b$")])).
Proof.
  intros mpath. change src1 with (text_stmt_src [] (t " ") (t "T") (t " ") (t " ") [] parts1 []). unfold comp, parts1.
  rewrite compile_text_stmt; [reflexivity|apply gap_nil|exact gap_sp|discriminate|exact T_ident|reflexivity|exact gap_sp|exact gap_sp|left; reflexivity|exact parts1_ok|apply gap_nil].
Qed.
Example ex_two_parts_text :
  comp false None src1 = Compile.OutText (t ("T::" ++ LF ++ String (ascii_of_nat 9) (".string ""a\n""" ++ LF) ++ String (ascii_of_nat 9) (".string ""b$""" ++ LF))).
Proof. rewrite ex_two_parts. vm_compute. reflexivity. Qed.

(* text T{ascii"x"}  - a type prefix: STRINGTYPE token, directive .ascii, terminator \0 *)
Lemma ascii_ident : is_ident nohi nohi (t "ascii"). Proof. split; [reflexivity|repeat constructor]. Qed.
Example ex_ascii :
  comp false None (t "text T{ascii""x""}") = Compile.OutText (t ("T::" ++ LF ++ String (ascii_of_nat 9) (".ascii ""x\0""" ++ LF))).
Proof.
  change (t "text T{ascii""x""}") with (text_stmt_src [] (t " ") (t "T") [] [] (t "ascii") [(t "x", [])] []). unfold comp.
  rewrite compile_text_stmt; [vm_compute; reflexivity|apply gap_nil|exact gap_sp|discriminate|exact T_ident|reflexivity|apply gap_nil|apply gap_nil|right; exact ascii_ident| |apply gap_nil].
  constructor; [|constructor]. split; [repeat constructor; discriminate|apply gap_nil].
Qed.

(* escapes: quote a backslash quote b quote  is the literal a-backslash: the backslash does not protect the quote; what
   follows is lexed on its own *)
Example ex_backslash_quote :
  map shape (lex nohi nohi nohi (t """a\""b""")) = [(STRING, t "a\"); (STRINGTYPE, t "b"); (STRING, []); (EOF, [])].
Proof. vm_compute. reflexivity. Qed.
(* a raw line break inside a part, and the indentation after it, is one space *)
Example ex_raw_newline :
  map shape (lex nohi nohi nohi (t ("""a" ++ LF ++ "   b"""))) = [(STRING, t "a b"); (EOF, [])].
Proof. vm_compute. reflexivity. Qed.
(* an empty first part leaves no line (Go: the newline is written only when the builder is not empty) *)
Example ex_empty_first_part :
  comp false None (t "text T { """" ""b"" }") = Compile.OutText (t ("T::" ++ LF ++ String (ascii_of_nat 9) (".string ""b$""" ++ LF))).
Proof. vm_compute. reflexivity. Qed.

(* FINDING 1 (model = Go): a poryswitch text statement without matching case and without default, environment errors off,
   is emitted as an EMPTY text WITHOUT terminator - the exception in pory_text_inv / program_texts_terminated is real *)
Example ex_poryswitch_unterminated :
  comp false None (t "text T { poryswitch(X) { A: ""a"" } }") = Compile.OutText (t ("T::" ++ LF ++ String (ascii_of_nat 9) (".string """"" ++ LF))).
Proof. vm_compute. reflexivity. Qed.
(* FINDING 2 (model = Go): "already terminated" is a test on the characters: ascii"a\\0" ends with the characters \0, so no
   terminator is added, although the assembler reads \\ as one backslash followed by the digit 0 *)
Example ex_escaped_backslash_zero :
  comp false None (t "text T { ascii""a\\0"" }") = Compile.OutText (t ("T::" ++ LF ++ String (ascii_of_nat 9) (".ascii ""a\\0""" ++ LF))).
Proof. vm_compute. reflexivity. Qed.
End Examples.

(* ---------- axioms ---------- *)
