(* C01/C02/C03/C11: source semantics ≈ chunk-graph semantics for every body whose graph the verified checker accepts. *)
From Coq Require Import List String Ascii ZArith NArith Lia Bool.
From Pory Require Import Lexer Ast Emitter Sem2 Tr Check.
Import ListNotations.

Section S.
Variable St : Type.
Variable exec : cmd -> St -> stepres St.
Variable flag_set trainer_beaten : text -> St -> bool.
Variable cmp_var cmp_var_value : text -> text -> St -> comparison.
Variable case_matches : text -> text -> St -> bool.
Variable G : list chunk.
Variable brkT orgT : tagmap.
Variable find_label : text -> option sstate.

Notation sstep := (sstep St exec flag_set trainer_beaten cmp_var cmp_var_value case_matches find_label).
Notation gstep := (gstep St exec flag_set trainer_beaten cmp_var cmp_var_value case_matches G).

Definition label_lookup_agrees : Prop :=
  forall l (s : St),
    match find_label l, graph_find_label l G with
    | Some A', Some B0 => exists j B', steps gfinal gstep j B0 s [] B' s /\ match_states G brkT orgT A' B'
    | None, None => True
    | _, _ => False
    end.
Definition label_lookup_scoped : Prop := forall l A, find_label l = Some A -> scoped_state A.

Lemma tr_graph_sim body :
  (forall i c, get_chunk G i = Some c -> (0 <= i)%Z) ->
  tr_block G brkT orgT body 0 (-1) ->
  scoped None None body ->
  label_lookup_agrees -> label_lookup_scoped ->
  forall n s, exists m, (n <= m)%nat /\
    run sfinal sstep n (enter body Kstop) s = run gfinal gstep m (ggoto G 0) s.
Proof.
  intros Hid Htr Hsc HL1 HL2 n s.
  destruct (block_sim St exec flag_set trainer_beaten cmp_var cmp_var_value case_matches G brkT orgT Hid
              body 0%Z (-1)%Z Kstop s Htr (mc_stop G brkT orgT)) as (j & B & Hsteps & Hm).
  assert (SC : scoped_state (enter body Kstop)) by (apply scoped_enter; [exact Hsc | constructor]).
  destruct (graph_sim St exec flag_set trainer_beaten cmp_var cmp_var_value case_matches G brkT orgT Hid
              find_label HL1 HL2 _ _ Hm SC n s) as (m & Hle & R).
  exists (j + m)%nat. split; [lia|].
  rewrite (run_steps _ _ _ _ _ _ _ _ _ _ Hsteps m). rewrite R.
  destruct (run gfinal gstep m B s); reflexivity.
Qed.

Lemma checked_graph_sim fuel body :
  (forall i c, get_chunk G i = Some c -> (0 <= i)%Z) ->
  chk_block G brkT orgT fuel body 0 (-1) = true ->
  scoped None None body ->
  label_lookup_agrees -> label_lookup_scoped ->
  forall n s, exists m, (n <= m)%nat /\
    run sfinal sstep n (enter body Kstop) s = run gfinal gstep m (ggoto G 0) s.
Proof.
  intros Hid Hchk. apply tr_graph_sim; [exact Hid|]. exact (check_tr_sound G brkT orgT fuel body Hchk).
Qed.
End S.
