(* C14: 'step * N' in a movement list: N is read like strconv.ParseInt(.,0,64); accepted exactly for 1..9999 and
   expanded to exactly N copies, in place. *)
From Coq Require Import List String Ascii ZArith NArith Lia Bool.
From Pory Require Import Lexer Ast Parser.
Import ListNotations.
Open Scope list_scope.

Section P.
Variable switches : list (text * text).
Variable env_errors : bool.
Notation list_value := (list_value switches env_errors).

Definition at_multiplier (c : toktype) (ts : toks) : Prop :=
  curis c ts = false /\ curis PORYSWITCH ts = false /\ curis IDENT ts = true /\
  curis MUL (adv ts) = true /\ curis INT (adv (adv ts)) = true.

Lemma multiplier_accepted f c multi ts acc n :
  at_multiplier c ts -> go_parse_int (tlit (cur (adv (adv ts)))) = Some n -> (1 <= n <= 9999)%Z ->
  list_value (S f) (LMov c) multi ts acc =
    (if multi then list_value f (LMov c) multi (adv (adv (adv ts))) (acc ++ repeat (cur ts) (Z.to_nat n))
     else Ok (acc ++ repeat (cur ts) (Z.to_nat n), adv (adv (adv ts)))).
Proof.
  intros (H1 & H2 & H3 & H4 & H5) HP HR. rewrite list_value_unfold. cbn zeta. rewrite H1, H2, H3, H4, H5. cbn [negb]. rewrite HP.
  assert (E1 : (n <=? 0)%Z = false) by (apply Z.leb_gt; lia).
  assert (E2 : (n >? 9999)%Z = false) by (rewrite Z.gtb_ltb; apply Z.ltb_ge; lia).
  rewrite E1, E2.
  assert (R : forall k tk, repeat_tok k tk = repeat tk k) by (induction k; cbn; congruence).
  rewrite R. reflexivity.
Qed.

Lemma multiplier_rejected f c multi ts acc :
  at_multiplier c ts ->
  (match go_parse_int (tlit (cur (adv (adv ts)))) with Some n => (n <= 0 \/ 9999 < n)%Z | None => True end) ->
  exists e, list_value (S f) (LMov c) multi ts acc = Err e /\ els e = tline (cur (adv (adv ts))).
Proof.
  intros (H1 & H2 & H3 & H4 & H5) HR. rewrite list_value_unfold. cbn zeta. rewrite H1, H2, H3, H4, H5. cbn [negb].
  destruct (go_parse_int (tlit (cur (adv (adv ts))))) as [n|].
  - destruct (n <=? 0)%Z eqn:E1; [eexists; split; reflexivity|].
    destruct (n >? 9999)%Z eqn:E2; [eexists; split; reflexivity|].
    exfalso. apply Z.leb_gt in E1. rewrite Z.gtb_ltb in E2. apply Z.ltb_ge in E2. lia.
  - eexists; split; reflexivity.
Qed.
End P.

(* the number reader on the forms the lexer produces *)
Example multiplier_literals :
  go_parse_int (t "9999") = Some 9999%Z /\ go_parse_int (t "0x270F") = Some 9999%Z /\ go_parse_int (t "010") = Some 8%Z /\
  go_parse_int (t "10000") = Some 10000%Z /\ go_parse_int (t "0") = Some 0%Z /\ go_parse_int (t "-1") = Some (-1)%Z /\
  go_parse_int (t "9223372036854775808") = None /\ go_parse_int (t "08") = None /\ go_parse_int (t "0x") = None.
Proof. vm_compute. repeat split. Qed.
