(* C01: the source check src_ok of lemma 1 holds of every script body the parser accepts: every 'if' has a first
   condition, the values of a switch are distinct and it has at most one default, and the ids given to loops and
   switches (the number of tokens still to read at the keyword) are pairwise distinct. *)
From Coq Require Import List String Ascii ZArith NArith Lia Bool.
From Pory Require Import Lexer Ast Parser Emitter Sem2 Tr LabelSim RenderCheck Worklist Consume.
From Pory Require ParseWf.
Import ListNotations.
Open Scope list_scope.

(* the statements are fine, their ids are distinct and lie in (lo, hi] *)
Definition Good (lo hi : nat) (ss : list stmt) : Prop :=
  NoDup (tags ss) /\ Forall (fun tg => (lo < tg <= hi)%nat) (tags ss) /\ okb ss = true.

Lemma good_nil lo hi : Good lo hi [].
Proof. repeat split; constructor. Qed.
Lemma good_weaken lo hi lo' hi' ss : (lo' <= lo)%nat -> (hi <= hi')%nat -> Good lo hi ss -> Good lo' hi' ss.
Proof. intros A B (N & F & O). repeat split; auto. eapply Forall_impl; [|exact F]. cbn. intros; lia. Qed.
Lemma okb_app_intro a b : okb a = true -> okb b = true -> okb (a ++ b) = true.
Proof. unfold okb. rewrite swfb_app, ifokb_app, !andb_true_iff. tauto. Qed.
Lemma good_app lo mid hi a b : (lo <= mid <= hi)%nat -> Good mid hi a -> Good lo mid b -> Good lo hi (a ++ b).
Proof.
  intros LM (N1 & F1 & O1) (N2 & F2 & O2). repeat split.
  - rewrite tags_app. apply nodup_app_intro; auto. intros x I J. rewrite Forall_forall in F1, F2. specialize (F1 x I). specialize (F2 x J). lia.
  - rewrite tags_app. apply Forall_app. split; (eapply Forall_impl; [|eassumption]); cbn; intros; lia.
  - apply okb_app_intro; assumption.
Qed.
Lemma good_mid lo hi ss : Good lo hi ss -> (tags ss <> [] -> (lo < hi)%nat).
Proof. intros (_ & F & _) N. destruct (tags ss) as [|x r]; [congruence|]. inversion F; subst. lia. Qed.

Lemma okb_one s : swf1b s = true -> ifok1b s = true -> okb [s] = true.
Proof. intros A B. unfold okb. cbn. now rewrite A, B. Qed.
Lemma good_plain lo hi s : tags1 s = [] -> swf1b s = true -> ifok1b s = true -> Good lo hi [s].
Proof. intros T A B. repeat split; [cbn; rewrite T; constructor|cbn; rewrite T; constructor|apply okb_one; assumption]. Qed.

Lemma okb_swfb b : okb b = true -> swfb b = true /\ ifokb b = true.
Proof. unfold okb. rewrite andb_true_iff. tauto. Qed.

Lemma good_loop lo hi tg b s : (lo < tg <= hi)%nat -> Good lo (pred tg) b -> tags1 s = tg :: tags b ->
  (swfb b = true -> swf1b s = true) -> (ifokb b = true -> ifok1b s = true) -> Good lo hi [s].
Proof.
  intros R (N & F & O) T S1 S2. destruct (okb_swfb _ O) as [O1 O2]. repeat split.
  - cbn [tags]. rewrite T, app_nil_r. constructor; [|exact N]. intros I. rewrite Forall_forall in F. specialize (F _ I). lia.
  - cbn [tags]. rewrite T, app_nil_r. constructor; [exact R|]. eapply Forall_impl; [|exact F]. cbn. intros; lia.
  - apply okb_one; auto.
Qed.
Lemma good_while lo hi tg c b : (lo < tg <= hi)%nat -> Good lo (pred tg) b -> Good lo hi [SWhile tg c b].
Proof.
  intros R G. apply (good_loop lo hi tg b); auto using tags1_while.
Qed.
Lemma good_dowhile lo hi tg b c : (lo < tg <= hi)%nat -> Good lo (pred tg) b -> Good lo hi [SDoWhile tg b c].
Proof.
  intros R G. apply (good_loop lo hi tg b); auto using tags1_dowhile.
Qed.

(* condition / body pairs, case lists *)
Definition GoodC (lo hi : nat) (cs : list (bexp * list stmt)) : Prop :=
  NoDup (tags_conds cs) /\ Forall (fun tg => (lo < tg <= hi)%nat) (tags_conds cs) /\ Forall (fun cb => okb (snd cb) = true) cs.
Lemma goodc_nil lo hi : GoodC lo hi []. Proof. repeat split; constructor. Qed.
Lemma tags_conds_app a b : tags_conds (a ++ b) = tags_conds a ++ tags_conds b.
Proof. unfold tags_conds. now rewrite map_app, List.concat_app. Qed.
Lemma goodc_app lo mid hi a b : (lo <= mid <= hi)%nat -> GoodC mid hi a -> GoodC lo mid b -> GoodC lo hi (a ++ b).
Proof.
  intros LM (N1 & F1 & O1) (N2 & F2 & O2). repeat split.
  - rewrite tags_conds_app. apply nodup_app_intro; auto. intros x I J. rewrite Forall_forall in F1, F2. specialize (F1 x I). specialize (F2 x J). lia.
  - rewrite tags_conds_app. apply Forall_app. split; (eapply Forall_impl; [|eassumption]); cbn; intros; lia.
  - apply Forall_app. split; assumption.
Qed.
Lemma goodc_one lo hi e b : Good lo hi b -> GoodC lo hi [(e, b)].
Proof. intros (N & F & O). unfold GoodC, tags_conds. cbn. rewrite app_nil_r. repeat split; auto. Qed.
Lemma goodc_weaken lo hi lo' hi' cs : (lo' <= lo)%nat -> (hi <= hi')%nat -> GoodC lo hi cs -> GoodC lo' hi' cs.
Proof. intros A B (N & F & O). repeat split; auto. eapply Forall_impl; [|exact F]. cbn. intros; lia. Qed.

Lemma swf1b_if_intro conds els : Forall (fun cb : bexp * list stmt => swfb (snd cb) = true) conds ->
  match els with Some b => swfb b = true | None => True end -> swf1b (SIf conds els) = true.
Proof.
  intros A B.
  change (swf1b (SIf conds els)) with
    ((fix go (cs : list (bexp * list stmt)) : bool := match cs with [] => true | (_, b) :: r => swfl_local b && go r end) conds &&
     match els with Some b => swfl_local b | None => true end).
  apply andb_true_intro. split.
  - induction A as [|[e b] r H _ IH]; [reflexivity|]. cbn in H. rewrite swfl_local_eq, H. exact IH.
  - destruct els; [now rewrite swfl_local_eq|reflexivity].
Qed.
Lemma ifok1b_if_intro conds els : conds <> [] -> Forall (fun cb : bexp * list stmt => ifokb (snd cb) = true) conds ->
  match els with Some b => ifokb b = true | None => True end -> ifok1b (SIf conds els) = true.
Proof.
  intros NE A B.
  change (ifok1b (SIf conds els)) with
      (negb (match conds with [] => true | _ => false end) &&
       (fix go (cs : list (bexp * list stmt)) : bool := match cs with [] => true | (_, b) :: r => ifok_local b && go r end) conds &&
       match els with Some b => ifok_local b | None => true end).
  apply andb_true_intro. split; [apply andb_true_intro; split|].
  - destruct conds; [congruence|reflexivity].
  - clear NE. induction A as [|[e b] r H _ IH]; [reflexivity|]. cbn in H. rewrite ifok_local_eq, H. exact IH.
  - destruct els; [now rewrite ifok_local_eq|reflexivity].
Qed.

Lemma good_if lo mid hi conds els : (lo <= mid <= hi)%nat -> conds <> [] -> GoodC mid hi conds ->
  match els with Some b => Good lo mid b | None => (lo <= mid)%nat end -> Good lo hi [SIf conds els].
Proof.
  intros LM NE (N & F & O) E.
  assert (TE : NoDup (tags_opt els) /\ Forall (fun tg => (lo < tg <= mid)%nat) (tags_opt els) /\ match els with Some b => okb b = true | None => True end).
  { destruct els as [b|]; [destruct E as (A & B & C); auto|cbn; repeat split; constructor]. }
  destruct TE as (N2 & F2 & O2). repeat split.
  - cbn [tags]. rewrite tags1_if, app_nil_r. apply nodup_app_intro; auto. intros x I J. rewrite Forall_forall in F, F2. specialize (F x I). specialize (F2 x J). lia.
  - cbn [tags]. rewrite tags1_if, app_nil_r. apply Forall_app. split; (eapply Forall_impl; [|eassumption]); cbn; intros; lia.
  - apply okb_one.
    + apply swf1b_if_intro; [eapply Forall_impl; [|exact O]; intros cb H; apply (okb_swfb _ H)|destruct els; [apply (okb_swfb _ O2)|exact I]].
    + apply ifok1b_if_intro; [exact NE|eapply Forall_impl; [|exact O]; intros cb H; apply (okb_swfb _ H)|destruct els; [apply (okb_swfb _ O2)|exact I]].
Qed.

(* switch cases *)
Definition GoodK (lo hi : nat) (cs : list scase) : Prop :=
  NoDup (tags_cases cs) /\ Forall (fun tg => (lo < tg <= hi)%nat) (tags_cases cs) /\ Forall (fun c : scase => okb (sc_body c) = true) cs.
Lemma goodk_nil lo hi : GoodK lo hi []. Proof. repeat split; constructor. Qed.
Lemma goodk_app lo mid hi a b : (lo <= mid <= hi)%nat -> GoodK mid hi a -> GoodK lo mid b -> GoodK lo hi (a ++ b).
Proof.
  intros LM (N1 & F1 & O1) (N2 & F2 & O2). repeat split.
  - rewrite tags_cases_app. apply nodup_app_intro; auto. intros x I J. rewrite Forall_forall in F1, F2. specialize (F1 x I). specialize (F2 x J). lia.
  - rewrite tags_cases_app. apply Forall_app. split; (eapply Forall_impl; [|eassumption]); cbn; intros; lia.
  - apply Forall_app. split; assumption.
Qed.
Lemma goodk_one lo hi d v l b : Good lo hi b -> GoodK lo hi [(d, v, l, b)].
Proof. intros (N & F & O). unfold GoodK, tags_cases. cbn. rewrite app_nil_r. repeat split; auto. Qed.
Lemma goodk_weaken lo hi lo' hi' cs : (lo' <= lo)%nat -> (hi <= hi')%nat -> GoodK lo hi cs -> GoodK lo' hi' cs.
Proof. intros A B (N & F & O). repeat split; auto. eapply Forall_impl; [|exact F]. cbn. intros; lia. Qed.

Lemma nodupt_complete l : NoDup l -> nodupt l = true.
Proof.
  induction 1 as [|x r H _ IH]; [reflexivity|]. cbn. rewrite IH, andb_true_r. apply negb_true_iff. apply not_true_is_false. intros E.
  apply existsb_exists in E. destruct E as (y & Hy & E). apply text_eqb_iff in E. subst y. contradiction.
Qed.

Lemma swf1b_switch_intro tg op ol cases : wf_casesb cases = true -> Forall (fun c : scase => swfb (sc_body c) = true) cases ->
  swf1b (SSwitch tg op ol cases) = true.
Proof.
  intros W A.
  change (swf1b (SSwitch tg op ol cases)) with
    (wf_casesb cases && (fix go (cs : list scase) : bool := match cs with [] => true | c :: r => swfl_local (sc_body c) && go r end) cases).
  rewrite W. cbn [andb]. clear W. induction A as [|c r H _ IH]; [reflexivity|]. rewrite swfl_local_eq, H. exact IH.
Qed.
Lemma ifok1b_switch_intro tg op ol cases : cases <> [] -> Forall (fun c : scase => ifokb (sc_body c) = true) cases -> ifok1b (SSwitch tg op ol cases) = true.
Proof.
  intros NE A.
  change (ifok1b (SSwitch tg op ol cases)) with
      (negb (match cases with [] => true | _ => false end) &&
       (fix go (cs : list scase) : bool := match cs with [] => true | c :: r => ifok_local (sc_body c) && go r end) cases).
  apply andb_true_intro. split; [destruct cases; [congruence|reflexivity]|].
  clear NE. induction A as [|c r H _ IH]; [reflexivity|]. rewrite ifok_local_eq, H. exact IH.
Qed.
Lemma good_switch lo hi tg op ol cases : (lo < tg <= hi)%nat -> GoodK lo (pred tg) cases -> wf_casesb cases = true -> cases <> [] ->
  Good lo hi [SSwitch tg op ol cases].
Proof.
  intros R (N & F & O) W NE. repeat split.
  - cbn [tags]. rewrite tags1_switch, app_nil_r. constructor; [|exact N]. intros I. rewrite Forall_forall in F. specialize (F _ I). lia.
  - cbn [tags]. rewrite tags1_switch, app_nil_r. constructor; [exact R|]. eapply Forall_impl; [|exact F]. cbn. intros; lia.
  - apply okb_one.
    + apply swf1b_switch_intro; [exact W|]. eapply Forall_impl; [|exact O]. intros c H. apply (okb_swfb _ H).
    + apply ifok1b_switch_intro; [exact NE|]. eapply Forall_impl; [|exact O]. intros c H. apply (okb_swfb _ H).
Qed.

(* the bookkeeping of parse_cases: values seen so far, default seen so far *)
Definition KInv (acc : list scase) (seen : list text) (hasdef : bool) : Prop :=
  NoDup (case_values acc) /\ (forall v, In v (case_values acc) -> In v seen) /\
  (ndef acc <= 1)%nat /\ (hasdef = false -> ndef acc = 0%nat).
Lemma case_values_app a b : case_values (a ++ b) = case_values a ++ case_values b.
Proof. unfold case_values. now rewrite flat_map_app. Qed.
Lemma kinv_wf acc seen hasdef : KInv acc seen hasdef -> wf_casesb acc = true.
Proof.
  intros (N & _ & D & _). unfold wf_casesb. rewrite (nodupt_complete _ N). cbn [andb]. apply Nat.leb_le. exact D.
Qed.
Lemma kinv_case acc seen hasdef v l b : KInv acc seen hasdef -> existsb (text_eqb v) seen = false ->
  KInv (acc ++ [(false, v, l, b)]) (v :: seen) hasdef.
Proof.
  intros (N & S & D & HD) NS. repeat split.
  - rewrite case_values_app. cbn. apply nodup_app_intro; [exact N|repeat constructor; intros []|].
    intros x I [E0|[]]. subst x. apply S in I. assert (E : existsb (text_eqb v) seen = true) by (apply existsb_exists; exists v; split; [exact I|apply text_eqb_iff; reflexivity]). congruence.
  - intros x I. rewrite case_values_app in I. apply in_app_or in I. destruct I as [I|[<-|[]]]; [right; apply S; exact I|left; reflexivity].
  - rewrite ndef_app. unfold ndef at 2. cbn. lia.
  - intros H. rewrite ndef_app. unfold ndef at 2. cbn. rewrite (HD H). reflexivity.
Qed.
Lemma kinv_default acc seen b : KInv acc seen false -> KInv (acc ++ [(true, [], 0%Z, b)]) seen true.
Proof.
  intros (N & S & D & HD). repeat split.
  - rewrite case_values_app. cbn. rewrite app_nil_r. exact N.
  - intros x I. rewrite case_values_app in I. cbn in I. rewrite app_nil_r in I. apply S, I.
  - rewrite ndef_app. unfold ndef at 2. cbn. rewrite (HD eq_refl). lia.
  - discriminate.
Qed.

Lemma good_cons_plain lo hi s b : tags1 s = [] -> swf1b s = true -> ifok1b s = true -> Good lo hi b -> Good lo hi (s :: b).
Proof.
  intros T A B' (N & F & O). repeat split; [cbn [tags]; rewrite T; exact N|cbn [tags]; rewrite T; exact F|].
  destruct (okb_swfb _ O) as [O1 O2]. unfold okb. cbn. now rewrite A, B', O1, O2.
Qed.

(* ---------- the parser establishes Good ---------- *)
Section P.
Variable autovars : list (text * autovar).
Variable switches : list (text * text).
Variable parse_format : toks -> Parser.res (token * text * text * toks).
Variable consts : list (text * text).
Hypothesis parse_format_advs : forall ts tk v sty ts', parse_format ts = Parser.Ok (tk, v, sty, ts') -> forall a, advs a ts -> advs a ts'.
Variable ee : bool.

Notation parse_stmt := (parse_stmt autovars switches ee parse_format consts).
Notation parse_block := (parse_block autovars switches ee parse_format consts).
Notation parse_switch_block := (parse_switch_block autovars switches ee parse_format consts).
Notation parse_cond := (parse_cond autovars switches ee parse_format consts).
Notation parse_if := (parse_if autovars switches ee parse_format consts).
Notation parse_elifs := (parse_elifs autovars switches ee parse_format consts).
Notation parse_switch := (parse_switch autovars switches ee parse_format consts).
Notation parse_cases := (parse_cases autovars switches ee parse_format consts).
Notation parse_pory := (parse_pory autovars switches ee parse_format consts).
Notation parse_pory_cases := (parse_pory_cases autovars switches ee parse_format consts).
Notation parse_pory_stmts := (parse_pory_stmts autovars switches ee parse_format consts).
Notation len := (@List.length token).

Lemma bind_inv {X Y} (m : Parser.res X) (k : X -> Parser.res Y) r :
  match m with Parser.Ok x => k x | Err e => Err e | Panic => Panic | Fuel => Fuel end = Parser.Ok r ->
  exists x, m = Parser.Ok x /\ k x = Parser.Ok r.
Proof. destruct m; try discriminate. eauto. Qed.
Tactic Notation "bind" hyp(H) "as" simple_intropattern(p) "eqn" ident(E) :=
  apply bind_inv in H; destruct H as (p & E & H); cbn beta iota in H.

Definition pcases_good (lo hi : nat) (l : list (text * (list stmt * impdata))) : Prop :=
  forall k ss imp, In (k, (ss, imp)) l -> Good lo hi ss.

Definition GW (f : nat) : Prop :=
  (forall script bs cs ts ss imp ts', eof_ended ts -> parse_stmt f script bs cs ts = Parser.Ok (ss, imp, ts') -> Good (len ts') (len ts) ss) /\
  (forall script bs cs start ts acc imp ss imp' ts' hi, eof_ended ts -> parse_block f script bs cs start ts acc imp = Parser.Ok (ss, imp', ts') ->
      (len ts <= hi)%nat -> Good (len ts) hi acc -> Good (len ts') hi ss) /\
  (forall script bs cs start ts acc imp ss imp' ts' hi, eof_ended ts -> parse_switch_block f script bs cs start ts acc imp = Parser.Ok (ss, imp', ts') ->
      (len ts <= hi)%nat -> Good (len ts) hi acc -> Good (len ts') hi ss) /\
  (forall req script bs cs ts e b imp ts', eof_ended ts -> parse_cond f req script bs cs ts = Parser.Ok (e, b, imp, ts') ->
      (len ts' < len ts)%nat /\ Good (len ts') (pred (len ts)) b) /\
  (forall script bs cs ts ss imp ts', eof_ended ts -> parse_if f script bs cs ts = Parser.Ok (ss, imp, ts') -> Good (len ts') (len ts) ss) /\
  (forall script bs cs ts acc imp l imp' ts' hi, eof_ended ts -> parse_elifs f script bs cs ts acc imp = Parser.Ok (l, imp', ts') ->
      (len ts <= hi)%nat -> GoodC (len ts) hi acc -> GoodC (len ts') hi l) /\
  (forall script bs cs ts ss imp ts', eof_ended ts -> parse_switch f script bs cs ts = Parser.Ok (ss, imp, ts') -> Good (len ts') (len ts) ss) /\
  (forall script bs cs brace ts acc seen hasdef imp l imp' ts' hi, eof_ended ts ->
      parse_cases f script bs cs brace ts acc seen hasdef imp = Parser.Ok (l, imp', ts') ->
      (len ts <= hi)%nat -> GoodK (len ts) hi acc -> KInv acc seen hasdef -> GoodK (len ts') hi l /\ wf_casesb l = true) /\
  (forall script bs cs ts ss imp ts', eof_ended ts -> parse_pory f script bs cs ts = Parser.Ok (ss, imp, ts') -> Good (len ts') (len ts) ss) /\
  (forall script bs cs start ts acc l ts' hi, eof_ended ts -> parse_pory_cases f script bs cs start ts acc = Parser.Ok (l, ts') ->
      (len ts <= hi)%nat -> pcases_good (len ts) hi acc -> pcases_good (len ts') hi l) /\
  (forall script bs cs multi ts acc imp ss imp' ts' hi, eof_ended ts -> parse_pory_stmts f script bs cs multi ts acc imp = Parser.Ok (ss, imp', ts') ->
      (len ts <= hi)%nat -> Good (len ts) hi acc -> Good (len ts') hi ss).

(* facts about a sub-result reached by advancing *)
Lemma advs_facts a b : advs a b -> eof_ended a -> (len b <= len a)%nat /\ eof_ended b.
Proof. intros H E. split; [apply advs_len; exact H|eapply advs_eof; eassumption]. Qed.

Lemma gw_all : forall f, GW f.
Proof.
  induction f as [|f IH].
  - unfold GW. split; [|split; [|split; [|split; [|split; [|split; [|split; [|split; [|split; [|split]]]]]]]]]; intros; discriminate.
  - destruct IH as (Istmt & Iblock & Iswb & Icond & Iif & Ielifs & Iswitch & Icases & Ipory & Ipcases & Ipstmts).
    destruct (adv_all autovars switches parse_format consts parse_format_advs ee f) as (Astmt & Ablock & Aswb & Acond & Aif & Aelifs & Aswitch & Acases & Apory & Apcases & Apstmts).
    unfold GW. split; [|split; [|split; [|split; [|split; [|split; [|split; [|split; [|split; [|split]]]]]]]]].
    + (* parse_stmt *)
      intros script bs cs ts ss imp ts' EO H. rewrite parse_stmt_unfold in H.
      destruct (ttype (cur ts)) eqn:TY; try discriminate.
      * destruct (try_label ts) as [[l ts1]|] eqn:TL.
        -- inversion H; subst. unfold try_label in TL.
           destruct (peekis COLON ts); [inversion TL; subst; apply good_plain; reflexivity|].
           destruct (peekis LPAREN ts && _ && _ && _); inversion TL; subst; apply good_plain; reflexivity.
        -- bind H as [[c imp1] ts1] eqn E1. inversion H; subst. apply good_plain; reflexivity.
      * eapply Iif; eauto.
      * (* do *)
        destruct (expect_peek LBRACE ts) as [ts1|] eqn:P1; [|discriminate]. bind H as [[b imp1] ts2] eqn E2.
        destruct (expect_peek WHILE ts2) as [ts3|] eqn:P3; [|discriminate].
        destruct (expect_peek LPAREN ts3) as [ts4|] eqn:P4; [|discriminate]. bind H as [[e imp2] ts5] eqn E5. inversion H; subst.
        assert (S1 : (len ts1 < len ts)%nat).
        { rewrite (expect_peek_some _ _ _ P1). apply (peek_strict LBRACE); [exact EO|discriminate|]. unfold expect_peek in P1. destruct (peekis LBRACE ts); [reflexivity|discriminate]. }
        destruct (advs_facts ts ts1 ltac:(eauto 10 with adv) EO) as [L1 EO1].
        destruct (advs_facts ts1 (adv ts1) ltac:(eauto 10 with adv) EO1) as [L1a EO1a].
        pose proof (Iblock _ _ _ _ _ _ _ _ _ _ (len (adv ts1)) EO1a E2 ltac:(lia) (good_nil _ _)) as GB.
        destruct (advs_facts (adv ts1) ts2 ltac:(eauto 10 with adv) EO1a) as [L2 EO2].
        assert (A5 : advs ts2 ts') by (eapply bool_expr_advs; [exact parse_format_advs|exact E5|]; eapply advs_k_peek; [exact P4|]; eapply advs_k_peek; [exact P3|apply advs_refl]).
        destruct (advs_facts ts2 ts' A5 EO2) as [L5 EO5].
        apply good_dowhile; [lia|]. eapply good_weaken; [| |exact GB]; lia.
      * (* while *)
        bind H as [[[c b] imp1] ts1] eqn E1. inversion H; subst.
        destruct (Icond _ _ _ _ _ _ _ _ _ EO E1) as [L1 GB]. apply good_while; [lia|exact GB].
      * destruct bs as [|tg bs]; [discriminate|]. inversion H; subst. apply good_plain; reflexivity.
      * destruct cs as [|tg cs]; [discriminate|]. destruct (peekis RBRACE ts); [|discriminate]. inversion H; subst. apply good_plain; reflexivity.
      * eapply Iswitch; eauto.
      * eapply Ipory; eauto.
    + (* parse_block *)
      intros script bs cs start ts acc imp ss imp' ts' hi EO H LH Hacc. rewrite parse_block_unfold in H.
      destruct (curis RBRACE ts); [inversion H; subst; exact Hacc|].
      destruct (curis EOF ts); [discriminate|]. bind H as [[ss1 imp1] ts1] eqn E1.
      destruct (advs_facts ts ts1 ltac:(eauto 10 with adv) EO) as [L1 EO1].
      destruct (advs_facts ts1 (adv ts1) ltac:(eauto 10 with adv) EO1) as [L1a EO1a].
      eapply (Iblock _ _ _ _ _ _ _ _ _ _ hi EO1a H); [lia|].
      pose proof (Istmt _ _ _ _ _ _ _ EO E1) as GS.
      apply (good_app _ (len ts) hi); [lia|exact Hacc|]. eapply good_weaken; [| |exact GS]; lia.
    + (* parse_switch_block *)
      intros script bs cs start ts acc imp ss imp' ts' hi EO H LH Hacc. rewrite parse_switch_block_unfold in H.
      destruct (curis RBRACE ts || curis CASE ts || curis DEFAULT ts); [inversion H; subst; exact Hacc|].
      destruct (curis EOF ts); [discriminate|]. bind H as [[ss1 imp1] ts1] eqn E1.
      destruct (advs_facts ts ts1 ltac:(eauto 10 with adv) EO) as [L1 EO1].
      destruct (advs_facts ts1 (adv ts1) ltac:(eauto 10 with adv) EO1) as [L1a EO1a].
      eapply (Iswb _ _ _ _ _ _ _ _ _ _ hi EO1a H); [lia|].
      pose proof (Istmt _ _ _ _ _ _ _ EO E1) as GS.
      apply (good_app _ (len ts) hi); [lia|exact Hacc|]. eapply good_weaken; [| |exact GS]; lia.
    + (* parse_cond *)
      intros req script bs cs ts e b imp ts' EO H. rewrite parse_cond_unfold in H. bind H as [[e1 imp1] ts1] eqn E1.
      destruct (expect_peek LBRACE ts1) as [ts2|] eqn:P2; [|discriminate]. bind H as [[b1 imp2] ts3] eqn E3. inversion H; subst.
      assert (A1 : advs ts ts1).
      { destruct (req || negb (peekis LBRACE ts)).
        - destruct (expect_peek LPAREN ts) as [tsa|] eqn:PA; [|discriminate]. bind E1 as [[e0 imp0'] tsb] eqn EB. inversion E1; subst.
          eapply bool_expr_advs; [exact parse_format_advs|exact EB|]. eapply advs_k_peek; [exact PA|apply advs_refl].
        - inversion E1; subst. apply advs_refl. }
      destruct (advs_facts ts ts1 A1 EO) as [L1 EO1].
      assert (S2 : (len ts2 < len ts1)%nat).
      { rewrite (expect_peek_some _ _ _ P2). apply (peek_strict LBRACE); [exact EO1|discriminate|]. unfold expect_peek in P2. destruct (peekis LBRACE ts1); [reflexivity|discriminate]. }
      destruct (advs_facts ts1 ts2 ltac:(eauto 10 with adv) EO1) as [L2 EO2].
      destruct (advs_facts ts2 (adv ts2) ltac:(eauto 10 with adv) EO2) as [L2a EO2a].
      pose proof (Iblock _ _ _ _ _ _ _ _ _ _ (len (adv ts2)) EO2a E3 ltac:(lia) (good_nil _ _)) as GB.
      destruct (advs_facts (adv ts2) ts' ltac:(eauto 10 with adv) EO2a) as [L3 EO3].
      split; [lia|]. eapply good_weaken; [| |exact GB]; lia.
    + (* parse_if *)
      intros script bs cs ts ss imp ts' EO H. rewrite parse_if_unfold in H. bind H as [[[o l] imp1] ts1] eqn E1.
      destruct o as [e1|]; [|discriminate]. bind H as [[l0 imp2] t0] eqn E2.
      destruct (Icond _ _ _ _ _ _ _ _ _ EO E1) as [L1 G1].
      destruct (advs_facts ts ts1 (Acond _ _ _ _ _ _ _ _ _ E1 ts (advs_refl ts)) EO) as [_ EO1].
      pose proof (Ielifs _ _ _ _ _ _ _ _ _ (len ts1) EO1 E2 ltac:(lia) (goodc_nil _ _)) as G2.
      destruct (advs_facts ts1 t0 (Aelifs _ _ _ _ _ _ _ _ _ E2 ts1 (advs_refl ts1)) EO1) as [L2 EO2].
      assert (C : GoodC (len t0) (len ts) ((e1, l) :: l0)).
      { change ((e1, l) :: l0) with ([(e1, l)] ++ l0). apply (goodc_app _ (len ts1)); [lia| |exact G2].
        apply goodc_one. eapply good_weaken; [| |exact G1]; lia. }
      destruct (peekis ELSE t0).
      * cbn zeta in H. destruct (expect_peek LBRACE (adv t0)) as [ts4|] eqn:P4; [|discriminate]. bind H as [[eb imp3] ts5] eqn E5. inversion H; subst.
        destruct (advs_facts t0 (adv ts4) ltac:(apply advs_k_adv; eapply advs_k_peek; [exact P4|apply advs_k_adv, advs_refl]) EO2) as [L4 EO4].
        pose proof (Iblock _ _ _ _ _ _ _ _ _ _ (len (adv ts4)) EO4 E5 ltac:(lia) (good_nil _ _)) as GE.
        destruct (advs_facts (adv ts4) ts' (Ablock _ _ _ _ _ _ _ _ _ _ E5 _ (advs_refl _)) EO4) as [L5 _].
        apply (good_if _ (len t0)); [lia|discriminate|exact C|]. eapply good_weaken; [| |exact GE]; lia.
      * inversion H; subst. apply (good_if _ (len ts')); [lia|discriminate|exact C|lia].
    + (* parse_elifs *)
      intros script bs cs ts acc imp l imp' ts' hi EO H LH Hacc. rewrite parse_elifs_unfold in H.
      destruct (peekis ELSEIF ts); [|inversion H; subst; exact Hacc]. bind H as [[[o b1] imp1] ts1] eqn E1.
      destruct o as [e1|]; [|discriminate].
      destruct (advs_facts ts (adv ts) ltac:(apply advs_k_adv, advs_refl) EO) as [La EOa].
      destruct (Icond _ _ _ _ _ _ _ _ _ EOa E1) as [L1 G1].
      destruct (advs_facts (adv ts) ts1 (Acond _ _ _ _ _ _ _ _ _ E1 _ (advs_refl _)) EOa) as [_ EO1].
      eapply (Ielifs _ _ _ _ _ _ _ _ _ hi EO1 H); [lia|].
      apply (goodc_app _ (len ts)); [lia|exact Hacc|]. apply goodc_one. eapply good_weaken; [| |exact G1]; lia.
    + (* parse_switch *)
      intros script bs cs ts ss imp ts' EO H. rewrite parse_switch_unfold in H. cbn zeta in H.
      destruct (expect_peek LPAREN ts) as [ts1|] eqn:P1; [|discriminate]. bind H as [[r0 imp1] ts2] eqn E2. bind H as [[[operand oline] pre] ts3] eqn E3.
      destruct (expect_peek LBRACE ts3) as [ts4|] eqn:P4; [|discriminate]. bind H as [[l imp2] ts5] eqn E5.
      destruct l as [|c0 l]; [discriminate|]. inversion H; subst.
      assert (S1 : (len ts1 < len ts)%nat).
      { rewrite (expect_peek_some _ _ _ P1). apply (peek_strict LPAREN); [exact EO|discriminate|]. unfold expect_peek in P1. destruct (peekis LPAREN ts); [reflexivity|discriminate]. }
      assert (A3 : advs ts1 ts3).
      { destruct r0 as [[v c]|].
        - destruct (expect_peek RPAREN ts2) as [tsx|] eqn:PX; [|discriminate]. inversion E3; subst.
          eapply advs_k_peek; [exact PX|]. eapply var_or_autovar_advs; [exact parse_format_advs|exact E2|apply advs_refl].
        - bind E3 as [parts tsx] eqn EX. inversion E3; subst. apply advs_k_adv. eapply switch_operand_advs; [exact EX|]. apply advs_k_adv.
          eapply var_or_autovar_advs; [exact parse_format_advs|exact E2|apply advs_refl]. }
      destruct (advs_facts ts ts1 ltac:(eapply advs_k_peek; [exact P1|apply advs_refl]) EO) as [_ EO1].
      destruct (advs_facts ts1 ts3 A3 EO1) as [L3 EO3].
      destruct (advs_facts ts3 (adv ts4) ltac:(apply advs_k_adv; eapply advs_k_peek; [exact P4|apply advs_refl]) EO3) as [L4 EO4].
      destruct (Icases _ _ _ _ _ _ _ _ _ _ _ _ (len (adv ts4)) EO4 E5 ltac:(lia) (goodk_nil _ _)) as [GK WK].
      { repeat split; cbn; try constructor; try lia; try (intros v []). }
      destruct (advs_facts (adv ts4) ts' (Acases _ _ _ _ _ _ _ _ _ _ _ _ E5 _ (advs_refl _)) EO4) as [L5 _].
      assert (GS : Good (len ts') (len ts) [SSwitch (len ts) operand oline (c0 :: l)]).
      { apply good_switch; [lia| |exact WK|discriminate]. eapply goodk_weaken; [| |exact GK]; lia. }
      destruct pre as [c|]; [|exact GS]. cbn [app]. apply good_cons_plain; [reflexivity|reflexivity|reflexivity|exact GS].
    + (* parse_cases *)
      intros script bs cs brace ts acc seen hasdef imp l imp' ts' hi EO H LH Hacc KI. rewrite parse_cases_unfold in H.
      destruct (curis RBRACE ts); [inversion H; subst; split; [exact Hacc|eapply kinv_wf; exact KI]|].
      destruct (curis CASE ts).
      * cbn zeta in H. destruct (collect_until consts f (is COLON) (adv ts) []) as [[parts ts2]|] eqn:CU; [|discriminate].
        destruct (existsb _ seen) eqn:SEEN; [discriminate|]. bind H as [[b1 imp1] ts3] eqn E3.
        destruct (advs_facts ts (adv ts2) ltac:(apply advs_k_adv; eapply collect_until_advs; [exact CU|apply advs_k_adv, advs_refl]) EO) as [L2 EO2].
        pose proof (Iswb _ _ _ _ _ _ _ _ _ _ (len (adv ts2)) EO2 E3 ltac:(lia) (good_nil _ _)) as GB.
        destruct (advs_facts (adv ts2) ts3 (Aswb _ _ _ _ _ _ _ _ _ _ E3 _ (advs_refl _)) EO2) as [L3 EO3].
        eapply (Icases _ _ _ _ _ _ _ _ _ _ _ _ hi EO3 H); [lia| |apply kinv_case; assumption].
        apply (goodk_app _ (len ts)); [lia|exact Hacc|]. apply goodk_one. eapply good_weaken; [| |exact GB]; lia.
      * destruct (curis DEFAULT ts); [|discriminate]. destruct hasdef; [discriminate|].
        destruct (expect_peek COLON ts) as [ts1|] eqn:P1; [|discriminate]. bind H as [[b1 imp1] ts2] eqn E2.
        destruct (advs_facts ts (adv ts1) ltac:(apply advs_k_adv; eapply advs_k_peek; [exact P1|apply advs_refl]) EO) as [L1 EO1].
        pose proof (Iswb _ _ _ _ _ _ _ _ _ _ (len (adv ts1)) EO1 E2 ltac:(lia) (good_nil _ _)) as GB.
        destruct (advs_facts (adv ts1) ts2 (Aswb _ _ _ _ _ _ _ _ _ _ E2 _ (advs_refl _)) EO1) as [L2 EO2].
        eapply (Icases _ _ _ _ _ _ _ _ _ _ _ _ hi EO2 H); [lia| |apply kinv_default; assumption].
        apply (goodk_app _ (len ts)); [lia|exact Hacc|]. apply goodk_one. eapply good_weaken; [| |exact GB]; lia.
    + (* parse_pory *)
      intros script bs cs ts ss imp ts' EO H. rewrite parse_pory_unfold in H. cbn zeta in H. bind H as [[sc o] ts1] eqn E1. bind H as [l ts2] eqn E2.
      destruct (advs_facts ts ts1 ltac:(eapply poryswitch_header_advs; [exact E1|apply advs_refl]) EO) as [L1 EO1].
      assert (PC : pcases_good (len ts2) (len ts1) l) by (eapply (Ipcases _ _ _ _ _ _ _ _ (len ts1) EO1 E2); [lia|intros ? ? ? []]).
      destruct (advs_facts ts1 ts2 (Apcases _ _ _ _ _ _ _ _ E2 _ (advs_refl _)) EO1) as [L2 _].
      destruct (assoc l (sval o)) as [[ss0 imp0']|] eqn:A1.
      * inversion H; subst. destruct (ParseWf.assoc_in _ _ _ A1) as [X|[k X]]; (eapply good_weaken; [| |eapply PC; exact X]; lia).
      * destruct (assoc l (t "_")) as [[ss0 imp0']|] eqn:A2.
        -- inversion H; subst. destruct (ParseWf.assoc_in _ _ _ A2) as [X|[k X]]; (eapply good_weaken; [| |eapply PC; exact X]; lia).
        -- destruct ee; [discriminate|]. inversion H; subst. apply good_nil.
    + (* parse_pory_cases *)
      intros script bs cs start ts acc l ts' hi EO H LH Hacc. rewrite parse_pory_cases_unfold in H.
      destruct (curis RBRACE ts); [inversion H; subst; exact Hacc|].
      destruct (curis EOF ts); [discriminate|].
      destruct (negb (curis IDENT ts) && negb (curis INT ts)); [discriminate|]. cbn zeta in H.
      destruct (curis COLON (adv ts) || curis LBRACE (adv ts)); [|discriminate]. bind H as [[l0 i] t0] eqn E0.
      destruct (advs_facts ts (adv (adv ts)) ltac:(apply advs_k_adv, advs_k_adv, advs_refl) EO) as [La EOa].
      pose proof (Ipstmts _ _ _ _ _ _ _ _ _ _ (len (adv (adv ts))) EOa E0 ltac:(lia) (good_nil _ _)) as G0.
      destruct (advs_facts (adv (adv ts)) t0 (Apstmts _ _ _ _ _ _ _ _ _ _ E0 _ (advs_refl _)) EOa) as [L0 EO0].
      destruct (advs_facts t0 (adv t0) ltac:(apply advs_k_adv, advs_refl) EO0) as [L0a EO0a].
      assert (PC : forall nx, (nx <= len t0)%nat -> pcases_good nx hi ((tlit (cur ts), (l0, i)) :: acc)).
      { intros nx Hn k ss imp [X|X]; [inversion X; subst; eapply good_weaken; [| |exact G0]; lia|eapply good_weaken; [| |eapply Hacc; exact X]; lia]. }
      destruct (curis LBRACE (adv ts)).
      * destruct (negb (curis RBRACE t0)); [discriminate|]. eapply (Ipcases _ _ _ _ _ _ _ _ hi EO0a H); [lia|apply PC; lia].
      * eapply (Ipcases _ _ _ _ _ _ _ _ hi EO0 H); [lia|apply PC; lia].
    + (* parse_pory_stmts *)
      intros script bs cs multi ts acc imp ss imp' ts' hi EO H LH Hacc. rewrite parse_pory_stmts_unfold in H.
      destruct (curis RBRACE ts); [inversion H; subst; exact Hacc|]. bind H as [[l imp1] ts1] eqn E1.
      assert (S1 : Good (len ts1) (len ts) l /\ advs ts ts1).
      { destruct (curis PORYSWITCH ts); [split; [eapply Ipory; eauto|eapply Apory; [exact E1|apply advs_refl]]|split; [eapply Istmt; eauto|eapply Astmt; [exact E1|apply advs_refl]]]. }
      destruct S1 as [G1 A1]. destruct (advs_facts ts ts1 A1 EO) as [L1 EO1].
      destruct (advs_facts ts1 (adv ts1) ltac:(apply advs_k_adv, advs_refl) EO1) as [L1a EO1a].
      assert (GA : Good (len (adv ts1)) hi (acc ++ l)).
      { apply (good_app _ (len ts)); [lia|exact Hacc|]. eapply good_weaken; [| |exact G1]; lia. }
      destruct multi.
      * eapply (Ipstmts _ _ _ _ _ _ _ _ _ _ hi EO1a H); [lia|exact GA].
      * inversion H; subst. exact GA.
Qed.
End P.
