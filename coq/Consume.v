(* Every parsing function returns a token list obtained from its input by advancing: the remaining tokens only shrink, and
   the final (EOF) token is never dropped.  Used for the distinctness of loop / switch ids (SrcWf.v). *)
From Coq Require Import List String Ascii ZArith NArith Lia Bool.
From Pory Require Import Lexer Ast Parser.
Import ListNotations.
Open Scope list_scope.

(* ts' is reached from ts by advancing some number of times *)
Inductive advs : toks -> toks -> Prop :=
| advs_refl ts : advs ts ts
| advs_step ts ts' : advs (adv ts) ts' -> advs ts ts'.

Lemma advs_trans a b c : advs a b -> advs b c -> advs a c.
Proof. induction 1 as [|? ? ? IH]; intros K; [exact K|]. apply advs_step. auto. Qed.
Lemma advs_adv_r a b : advs a b -> advs a (adv b).
Proof. intros H. eapply advs_trans; [exact H|]. apply advs_step, advs_refl. Qed.
Lemma adv_len ts : (List.length (adv ts) <= List.length ts)%nat.
Proof. destruct ts as [|x [|y r]]; cbn; lia. Qed.
Lemma adv_last ts : last (adv ts) eof0 = last ts eof0.
Proof. destruct ts as [|x [|y r]]; reflexivity. Qed.
Lemma adv_nonempty ts : ts <> [] -> adv ts <> [].
Proof. destruct ts as [|x [|y r]]; [congruence|discriminate|discriminate]. Qed.
Lemma advs_len a b : advs a b -> (List.length b <= List.length a)%nat.
Proof. induction 1 as [|ts ts' ? IH]; [lia|]. pose proof (adv_len ts). lia. Qed.
Lemma advs_last a b : advs a b -> last b eof0 = last a eof0.
Proof. induction 1 as [|ts ts' ? IH]; [reflexivity|]. rewrite IH. apply adv_last. Qed.
Lemma advs_nonempty a b : advs a b -> a <> [] -> b <> [].
Proof. induction 1 as [|ts ts' ? IH]; [auto|]. intros N. apply IH, adv_nonempty, N. Qed.
Lemma expect_peek_some ty ts t : expect_peek ty ts = Some t -> t = adv ts.
Proof. unfold expect_peek. destruct (peekis ty ts); [intros H; inversion H; reflexivity|discriminate]. Qed.

(* token lists as the lexer produces them: non-empty, the last token is the EOF *)
Definition eof_ended (ts : toks) : Prop := ts <> [] /\ ttype (last ts eof0) = EOF.
Lemma advs_eof a b : advs a b -> eof_ended a -> eof_ended b.
Proof. intros H [N E]. split; [eapply advs_nonempty; eassumption|rewrite (advs_last _ _ H); exact E]. Qed.
Lemma adv_strict ts : eof_ended ts -> ttype (cur ts) <> EOF -> (List.length (adv ts) < List.length ts)%nat.
Proof.
  intros [N E] C. destruct ts as [|x [|y r]]; [congruence| |cbn; lia]. exfalso. apply C. exact E.
Qed.
Lemma peek_strict ty ts : eof_ended ts -> ty <> EOF -> peekis ty ts = true -> (List.length (adv ts) < List.length ts)%nat.
Proof.
  intros [N E] T P. destruct ts as [|x [|y r]]; [congruence| |cbn; lia]. exfalso. unfold peekis, pk in P. cbn in P, E.
  unfold is, tt_eqb in P. destruct (toktype_eq_dec (ttype x) ty); [|discriminate]. congruence.
Qed.

(* ---------- automation: every lemma has the shape  F .. ts .. = Ok (.., x) -> forall a, advs a ts -> advs a x ---------- *)
Create HintDb adv.
Lemma advs_k_adv a b : advs a b -> advs a (adv b). Proof. apply advs_adv_r. Qed.
Lemma advs_k_peek ty y x a : expect_peek ty y = Some x -> advs a y -> advs a x.
Proof. intros H K. rewrite (expect_peek_some _ _ _ H). apply advs_adv_r, K. Qed.
#[global] Hint Resolve advs_refl advs_k_adv advs_k_peek : adv.
Ltac advs_solve := solve [eauto 30 with adv].

(* case analysis of hypotheses  E : t = Ok r  (and t = Some r) until t is a call of a parsing function *)
Ltac ok_step H :=
  cbv beta iota zeta in H;
  lazymatch type of H with
  | Ok _ = Ok _ => inversion H; subst; clear H
  | Some _ = Some _ => inversion H; subst; clear H
  | None = Some _ => discriminate H
  | Err _ = Ok _ => discriminate H
  | Panic = Ok _ => discriminate H
  | Fuel = Ok _ => discriminate H
  | err_tok _ _ = Ok _ => discriminate H
  | err_range _ _ _ = Ok _ => discriminate H
  | (if ?c then _ else _) = _ => destruct c eqn:?
  | (match ?x with _ => _ end) = _ =>
      lazymatch x with
      | (if ?c then _ else _) => destruct c eqn:?
      | (match ?y with _ => _ end) => destruct y eqn:?
      | _ => destruct x eqn:?
      end
  | (let '(_, _) := ?x in _) = _ => destruct x eqn:?
  end.
Ltac ok_split H :=
  repeat (ok_step H);
  repeat match goal with
         | E : ?t = Ok _ |- _ => ok_step E
         end.

Section C.
Variable autovars : list (text * autovar).
Variable switches : list (text * text).
Variable parse_format : toks -> res (token * text * text * toks).
Variable consts : list (text * text).
Hypothesis parse_format_advs : forall ts tk v sty ts', parse_format ts = Ok (tk, v, sty, ts') -> forall a, advs a ts -> advs a ts'.
Hint Resolve parse_format_advs : adv.

Lemma poryswitch_header_advs ee ts sc sv ts' : poryswitch_header switches ee ts = Ok (sc, sv, ts') -> forall a, advs a ts -> advs a ts'.
Proof. intros H a A. unfold poryswitch_header in H. ok_split H; advs_solve. Qed.
Hint Resolve poryswitch_header_advs : adv.

Lemma list_advs ee : forall f,
  (forall k multi ts acc r ts', list_value switches ee f k multi ts acc = Ok (r, ts') -> forall a, advs a ts -> advs a ts') /\
  (forall k start ts acc r ts', list_cases switches ee f k start ts acc = Ok (r, ts') -> forall a, advs a ts -> advs a ts').
Proof.
  induction f as [|f [IH1 IH2]]; [split; intros; discriminate|]. split.
  - intros k multi ts acc r ts' H a A. rewrite list_value_unfold in H. ok_split H; advs_solve.
  - intros k start ts acc r ts' H a A. rewrite list_cases_unfold in H. ok_split H; advs_solve.
Qed.

Lemma list_value_advs ee f k multi ts acc r ts' : list_value switches ee f k multi ts acc = Ok (r, ts') -> forall a, advs a ts -> advs a ts'.
Proof. apply (list_advs ee f). Qed.
Hint Resolve list_value_advs : adv.

Lemma moves_operator_advs ee f ts r ts' : moves_operator switches ee f ts = Ok (r, ts') -> forall a, advs a ts -> advs a ts'.
Proof. intros H a A. unfold moves_operator, movement_value in H. ok_split H; advs_solve. Qed.
Hint Resolve moves_operator_advs : adv.

Lemma command_args_advs ee : forall f script cmdtok cidv ts depth parts args imp r i ts',
  command_args switches ee parse_format consts f script cmdtok cidv ts depth parts args imp = Ok (r, i, ts') -> forall a, advs a ts -> advs a ts'.
Proof.
  induction f as [|f IH]; intros script cmdtok cidv ts depth parts args imp r i ts' H a A; [discriminate|].
  cbn [command_args] in H. ok_split H; advs_solve.
Qed.
Hint Resolve command_args_advs : adv.

Lemma command_stmt_advs ee f script ts c i ts' : command_stmt switches ee parse_format consts f script ts = Ok (c, i, ts') -> forall a, advs a ts -> advs a ts'.
Proof. intros H a A. unfold command_stmt in H. ok_split H; advs_solve. Qed.
Hint Resolve command_stmt_advs : adv.

Lemma var_or_autovar_advs ee f script ts r i ts' : var_or_autovar autovars switches ee parse_format consts f script ts = Ok (r, i, ts') -> forall a, advs a ts -> advs a ts'.
Proof. intros H a A. unfold var_or_autovar in H. ok_split H; advs_solve. Qed.
Hint Resolve var_or_autovar_advs : adv.

Lemma collect_until_advs : forall f stop ts parts r ts', collect_until consts f stop ts parts = Some (r, ts') -> forall a, advs a ts -> advs a ts'.
Proof.
  induction f as [|f IH]; intros stop ts parts r ts' H a A; [discriminate|]. cbn [collect_until] in H.
  destruct (stop (cur ts)); [inversion H; subst; exact A|]. destruct (curis EOF (adv ts)); [discriminate|]. eapply IH; [exact H|advs_solve].
Qed.
Hint Resolve collect_until_advs : adv.

Lemma value_parts_advs : forall f vtok ts depth parts r ts', value_parts consts f vtok ts depth parts = Ok (r, ts') -> forall a, advs a ts -> advs a ts'.
Proof.
  induction f as [|f IH]; intros vtok ts depth parts r ts' H a A; [discriminate|]. cbn [value_parts] in H. ok_split H; advs_solve.
Qed.
Hint Resolve value_parts_advs : adv.

Lemma cond_var_operator_advs f ts o v st ts' : cond_var_operator consts f ts = Ok (o, v, st, ts') -> forall a, advs a ts -> advs a ts'.
Proof. intros H a A. unfold cond_var_operator in H. ok_split H; advs_solve. Qed.
Hint Resolve cond_var_operator_advs : adv.
Lemma cond_flag_operator_advs ts nm o v ts' : cond_flag_operator ts nm = Ok (o, v, ts') -> forall a, advs a ts -> advs a ts'.
Proof. intros H a A. unfold cond_flag_operator in H. ok_split H; advs_solve. Qed.
Hint Resolve cond_flag_operator_advs : adv.

Lemma leaf_expr_advs ee f script ts l i ts' : leaf_expr autovars switches ee parse_format consts f script ts = Ok (l, i, ts') -> forall a, advs a ts -> advs a ts'.
Proof. intros H a A. unfold leaf_expr in H. ok_split H; advs_solve. Qed.
Hint Resolve leaf_expr_advs : adv.

Lemma bexp_advs ee : forall f,
  (forall single negated script ts e i ts', bool_expr autovars switches ee parse_format consts f single negated script ts = Ok (e, i, ts') -> forall a, advs a ts -> advs a ts') /\
  (forall left single negated script ts e i ts', right_side autovars switches ee parse_format consts f left single negated script ts = Ok (e, i, ts') -> forall a, advs a ts -> advs a ts').
Proof.
  induction f as [|f [IH1 IH2]]; [split; intros; discriminate|]. split.
  - intros single negated script ts e i ts' H a A. rewrite bool_expr_unfold in H. ok_split H; advs_solve.
  - intros left single negated script ts e i ts' H a A. rewrite right_side_unfold in H. ok_split H; advs_solve.
Qed.
Lemma bool_expr_advs ee f single negated script ts e i ts' :
  bool_expr autovars switches ee parse_format consts f single negated script ts = Ok (e, i, ts') -> forall a, advs a ts -> advs a ts'.
Proof. apply (bexp_advs ee f). Qed.
Hint Resolve bool_expr_advs : adv.

Lemma switch_operand_advs : forall f orig ts parts r ts', switch_operand consts f orig ts parts = Ok (r, ts') -> forall a, advs a ts -> advs a ts'.
Proof.
  induction f as [|f IH]; intros orig ts parts r ts' H a A; [discriminate|]. cbn [switch_operand] in H. ok_split H; advs_solve.
Qed.
Hint Resolve switch_operand_advs : adv.

Lemma try_label_advs ts l ts' : try_label ts = Some (l, ts') -> forall a, advs a ts -> advs a ts'.
Proof. intros H a A. unfold try_label in H. repeat (ok_step H); advs_solve. Qed.
Hint Resolve try_label_advs : adv.

Definition ADV (ee : bool) (f : nat) : Prop :=
  (forall script bs cs ts ss imp ts', parse_stmt autovars switches ee parse_format consts f script bs cs ts = Ok (ss, imp, ts') -> forall a, advs a ts -> advs a ts') /\
  (forall script bs cs start ts acc imp ss imp' ts', parse_block autovars switches ee parse_format consts f script bs cs start ts acc imp = Ok (ss, imp', ts') -> forall a, advs a ts -> advs a ts') /\
  (forall script bs cs start ts acc imp ss imp' ts', parse_switch_block autovars switches ee parse_format consts f script bs cs start ts acc imp = Ok (ss, imp', ts') -> forall a, advs a ts -> advs a ts') /\
  (forall req script bs cs ts e b imp ts', parse_cond autovars switches ee parse_format consts f req script bs cs ts = Ok (e, b, imp, ts') -> forall a, advs a ts -> advs a ts') /\
  (forall script bs cs ts ss imp ts', parse_if autovars switches ee parse_format consts f script bs cs ts = Ok (ss, imp, ts') -> forall a, advs a ts -> advs a ts') /\
  (forall script bs cs ts acc imp l imp' ts', parse_elifs autovars switches ee parse_format consts f script bs cs ts acc imp = Ok (l, imp', ts') -> forall a, advs a ts -> advs a ts') /\
  (forall script bs cs ts ss imp ts', parse_switch autovars switches ee parse_format consts f script bs cs ts = Ok (ss, imp, ts') -> forall a, advs a ts -> advs a ts') /\
  (forall script bs cs brace ts acc seen hasdef imp l imp' ts', parse_cases autovars switches ee parse_format consts f script bs cs brace ts acc seen hasdef imp = Ok (l, imp', ts') -> forall a, advs a ts -> advs a ts') /\
  (forall script bs cs ts ss imp ts', parse_pory autovars switches ee parse_format consts f script bs cs ts = Ok (ss, imp, ts') -> forall a, advs a ts -> advs a ts') /\
  (forall script bs cs start ts acc l ts', parse_pory_cases autovars switches ee parse_format consts f script bs cs start ts acc = Ok (l, ts') -> forall a, advs a ts -> advs a ts') /\
  (forall script bs cs multi ts acc imp ss imp' ts', parse_pory_stmts autovars switches ee parse_format consts f script bs cs multi ts acc imp = Ok (ss, imp', ts') -> forall a, advs a ts -> advs a ts').

Lemma adv_all ee : forall f, ADV ee f.
Proof.
  induction f as [|f IH]; [unfold ADV; repeat split; intros; discriminate|].
  destruct IH as (Istmt & Iblock & Iswb & Icond & Iif & Ielifs & Iswitch & Icases & Ipory & Ipcases & Ipstmts).
  unfold ADV. repeat split.
  - intros script bs cs ts ss imp ts' H a A. rewrite parse_stmt_unfold in H. ok_split H; advs_solve.
  - intros script bs cs start ts acc imp ss imp' ts' H a A. rewrite parse_block_unfold in H. ok_split H; advs_solve.
  - intros script bs cs start ts acc imp ss imp' ts' H a A. rewrite parse_switch_block_unfold in H. ok_split H; advs_solve.
  - intros req script bs cs ts e b imp ts' H a A. rewrite parse_cond_unfold in H. ok_split H; advs_solve.
  - intros script bs cs ts ss imp ts' H a A. rewrite parse_if_unfold in H. ok_split H; advs_solve.
  - intros script bs cs ts acc imp l imp' ts' H a A. rewrite parse_elifs_unfold in H. ok_split H; advs_solve.
  - intros script bs cs ts ss imp ts' H a A. rewrite parse_switch_unfold in H. ok_split H; advs_solve.
  - intros script bs cs brace ts acc seen hasdef imp l imp' ts' H a A. rewrite parse_cases_unfold in H. ok_split H; advs_solve.
  - intros script bs cs ts ss imp ts' H a A. rewrite parse_pory_unfold in H. ok_split H; advs_solve.
  - intros script bs cs start ts acc l ts' H a A. rewrite parse_pory_cases_unfold in H. ok_split H; advs_solve.
  - intros script bs cs multi ts acc imp ss imp' ts' H a A. rewrite parse_pory_stmts_unfold in H. ok_split H; advs_solve.
Qed.
End C.

#[global] Hint Resolve poryswitch_header_advs list_value_advs moves_operator_advs command_args_advs command_stmt_advs
  var_or_autovar_advs collect_until_advs value_parts_advs cond_var_operator_advs cond_flag_operator_advs leaf_expr_advs
  bool_expr_advs switch_operand_advs try_label_advs : adv.

(* a deterministic solver for goals  advs a x : walk back from x through the hypotheses *)
Ltac advs_lem H :=
  first
  [ eapply poryswitch_header_advs; [exact H|] | eapply list_value_advs; [exact H|] | eapply moves_operator_advs; [exact H|]
  | eapply command_args_advs; [|exact H|] | eapply command_stmt_advs; [|exact H|] | eapply var_or_autovar_advs; [|exact H|]
  | eapply collect_until_advs; [exact H|] | eapply value_parts_advs; [exact H|] | eapply cond_var_operator_advs; [exact H|]
  | eapply cond_flag_operator_advs; [exact H|] | eapply leaf_expr_advs; [|exact H|] | eapply bool_expr_advs; [|exact H|]
  | eapply switch_operand_advs; [exact H|] | eapply try_label_advs; [exact H|] ].
Ltac advs_gox extra :=
  first
  [ assumption
  | apply advs_refl
  | apply advs_k_adv; advs_gox extra
  | match goal with
    | |- advs _ (if ?c then _ else _) => destruct c; advs_gox extra
    | H : expect_peek _ _ = Some ?x |- advs _ ?x => eapply advs_k_peek; [exact H|]; advs_gox extra
    | H : _ = Ok (_, ?x) |- advs _ ?x => first [advs_lem H | extra H]; try assumption; advs_gox extra
    | H : _ = Ok (_, _, ?x) |- advs _ ?x => first [advs_lem H | extra H]; try assumption; advs_gox extra
    | H : _ = Ok (_, _, _, ?x) |- advs _ ?x => first [advs_lem H | extra H]; try assumption; advs_gox extra
    | H : _ = Ok (_, _, _, _, ?x) |- advs _ ?x => first [advs_lem H | extra H]; try assumption; advs_gox extra
    | H : _ = Some (_, ?x) |- advs _ ?x => first [advs_lem H | extra H]; try assumption; advs_gox extra
    | H : forall _, _ |- advs _ _ => eapply H; [eassumption|]; advs_gox extra
    end ].
Ltac no_extra H := fail.
Ltac advs_go := advs_gox ltac:(fun K => no_extra K).

(* ---------- the top-level statements ---------- *)
Section C2.
Variable autovars : list (text * autovar).
Variable switches : list (text * text).
Variable parse_format : toks -> res (token * text * text * toks).
Hypothesis parse_format_advs : forall ts tk v sty ts', parse_format ts = Ok (tk, v, sty, ts') -> forall a, advs a ts -> advs a ts'.
Hint Resolve parse_format_advs : adv.

Lemma parse_block_advs consts ee f script bs cs start ts acc imp ss imp' ts' :
  parse_block autovars switches ee parse_format consts f script bs cs start ts acc imp = Ok (ss, imp', ts') -> forall a, advs a ts -> advs a ts'.
Proof. apply (adv_all autovars switches parse_format consts parse_format_advs ee f). Qed.
Hint Resolve parse_block_advs : adv.
Ltac ex1 H := eapply parse_block_advs; [exact H|].

Lemma scope_modifier_advs d ts g ts' : scope_modifier d ts = Ok (g, ts') -> forall a, advs a ts -> advs a ts'.
Proof. intros H a A. unfold scope_modifier in H. ok_split H; advs_gox ltac:(fun K => ex1 K). Qed.
Hint Resolve scope_modifier_advs : adv.
Ltac ex2 H := first [ex1 H | eapply scope_modifier_advs; [exact H|]].
Lemma parse_script_advs consts ee f ts n g b i ts' :
  parse_script autovars switches ee parse_format consts f ts = Ok (n, g, b, i, ts') -> forall a, advs a ts -> advs a ts'.
Proof. intros H a A. unfold parse_script in H. ok_split H; advs_gox ltac:(fun K => ex2 K). Qed.
Lemma text_value_advs ts v sty ts' : text_value parse_format ts = Ok (v, sty, ts') -> forall a, advs a ts -> advs a ts'.
Proof. intros H a A. unfold text_value in H. ok_split H; advs_gox ltac:(fun K => ex2 K). Qed.
Hint Resolve text_value_advs : adv.
Ltac ex3 H := first [ex2 H | eapply text_value_advs; [exact H|]].
Lemma pory_text_cases_advs : forall f start ts acc r ts', pory_text_cases parse_format f start ts acc = Ok (r, ts') -> forall a, advs a ts -> advs a ts'.
Proof.
  induction f as [|f IH]; intros start ts acc r ts' H a A; [discriminate|]. cbn [pory_text_cases] in H. ok_split H; advs_gox ltac:(fun K => ex3 K).
Qed.
Hint Resolve pory_text_cases_advs : adv.
Ltac ex4 H := first [ex3 H | eapply pory_text_cases_advs; [exact H|]].
Lemma pory_text_advs ee f ts v sty ts' : pory_text switches ee parse_format f ts = Ok (v, sty, ts') -> forall a, advs a ts -> advs a ts'.
Proof. intros H a A. unfold pory_text in H. ok_split H; advs_gox ltac:(fun K => ex4 K). Qed.
Hint Resolve pory_text_advs : adv.
Ltac ex5 H := first [ex4 H | eapply pory_text_advs; [exact H|]].
Lemma parse_text_advs ee f ts td ts' : parse_text switches ee parse_format f ts = Ok (td, ts') -> forall a, advs a ts -> advs a ts'.
Proof. intros H a A. unfold parse_text in H. ok_split H; advs_gox ltac:(fun K => ex5 K). Qed.
Lemma parse_movement_advs ee f ts tp ts' : parse_movement switches ee f ts = Ok (tp, ts') -> forall a, advs a ts -> advs a ts'.
Proof. intros H a A. unfold parse_movement, movement_value in H. ok_split H; advs_gox ltac:(fun K => ex5 K). Qed.
Lemma parse_mart_advs consts ee f ts tp ts' : parse_mart switches ee consts f ts = Ok (tp, ts') -> forall a, advs a ts -> advs a ts'.
Proof. intros H a A. unfold parse_mart, mart_value in H. ok_split H; advs_gox ltac:(fun K => ex5 K). Qed.
Lemma parse_raw_advs ts tp ts' : parse_raw ts = Ok (tp, ts') -> forall a, advs a ts -> advs a ts'.
Proof. intros H a A. unfold parse_raw in H. ok_split H; advs_gox ltac:(fun K => ex5 K). Qed.
Lemma ms_collect_advs consts : forall f stop ts acc r ts', ms_collect consts f stop ts acc = Some (r, ts') -> forall a, advs a ts -> advs a ts'.
Proof.
  induction f as [|f IH]; intros stop ts acc r ts' H a A; [discriminate|]. cbn [ms_collect] in H.
  destruct (stop (cur ts)); [inversion H; subst; exact A|]. destruct (curis EOF (adv ts)); [discriminate|]. eapply IH; [exact H|advs_gox ltac:(fun K => ex5 K)].
Qed.
Hint Resolve ms_collect_advs : adv.
Ltac ex6 H := first [ex5 H | eapply ms_collect_advs; [exact H|]].
Lemma ms_table_advs consts ee : forall f mapname tyname ts i acc imp es imp' ts',
  ms_table autovars switches ee parse_format consts f mapname tyname ts i acc imp = Ok (es, imp', ts') -> forall a, advs a ts -> advs a ts'.
Proof.
  induction f as [|f IH]; intros mapname tyname ts i acc imp es imp' ts' H a A; [discriminate|]. cbn [ms_table] in H. ok_split H; advs_gox ltac:(fun K => ex6 K).
Qed.
Hint Resolve ms_table_advs : adv.
Ltac ex7 H := first [ex6 H | eapply ms_table_advs; [exact H|]].
Lemma ms_entries_advs consts ee : forall f mapname ts plain tables imp p' t' imp' ts',
  ms_entries autovars switches ee parse_format consts f mapname ts plain tables imp = Ok (p', t', imp', ts') -> forall a, advs a ts -> advs a ts'.
Proof.
  induction f as [|f IH]; intros mapname ts plain tables imp p' t' imp' ts' H a A; [discriminate|]. cbn [ms_entries] in H. ok_split H; advs_gox ltac:(fun K => ex7 K).
Qed.
Hint Resolve ms_entries_advs : adv.
Ltac ex8 H := first [ex7 H | eapply ms_entries_advs; [exact H|]].
Lemma parse_mapscripts_advs consts ee f ts tp imp ts' :
  parse_mapscripts autovars switches ee parse_format consts f ts = Ok (tp, imp, ts') -> forall a, advs a ts -> advs a ts'.
Proof. intros H a A. unfold parse_mapscripts in H. ok_split H; advs_gox ltac:(fun K => ex8 K). Qed.
Lemma const_value_advs : forall f consts ts acc, forall a, advs a ts -> advs a (snd (const_value f consts ts acc)).
Proof.
  induction f as [|f IH]; intros consts ts acc a A; cbn [const_value]; [exact A|].
  destruct (is_toplevel (ttype (pk 1 ts)) || curis EOF ts); [exact A|]. apply IH. advs_gox ltac:(fun K => ex8 K).
Qed.
Lemma parse_const_advs f consts ts c' ts' : parse_const f consts ts = Ok (c', ts') -> forall a, advs a ts -> advs a ts'.
Proof.
  intros H a A. unfold parse_const in H.
  destruct (expect_peek IDENT ts) as [ts1|] eqn:P1; [|discriminate]. cbv zeta in H.
  destruct (assoc consts (tlit (cur ts1))); [discriminate|]. destruct (expect_peek ASSIGN ts1) as [ts2|] eqn:P2; [|discriminate].
  pose proof (const_value_advs f consts ts2 [] a) as CV. destruct (const_value f consts ts2 []) as [v ts3]. cbn [snd] in CV.
  destruct v; [discriminate|]. inversion H; subst. apply CV. advs_gox ltac:(fun K => ex8 K).
Qed.
End C2.
