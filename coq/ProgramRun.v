(* C01 / C04 / C17: a script behaves inside the whole program's assembly as it does on its own.

   The compiler emits ONE instruction list for the program; the target machine resolves `goto l` by searching the whole
   list.  compiled_scripts_correct_from_source (C01Top.v) speaks about the instruction list of one script run alone.
   This file relates the two:

   PART 1 (any instruction lists)  prog = pre ++ code ++ post, no label defined in code is defined in pre, and code is
     "closed" (its last instruction that is not a plain line is return / end / goto, and no label follows it - so the pc
     can never run off the end of code).  Then the run of the machine over prog from a label is, step for step, the run
     over code shifted by length pre, UNTIL code executes a goto to a label it does not define.  Alone that is the exit
     TFinal (OJumpOut l); inside the program the machine continues at  jump prog l  (another script, or the same exit when
     the program does not define l either).
   PART 2  a script that never jumps to a label of the rest of the program: the two runs are EQUAL for every fuel.
   PART 3  the code of every emitted script is closed (from wf_render).
   PART 4  the program's instruction list contains the code of each of its scripts (top-level and map scripts) as a segment.
   PART 5  composition with C01: the structured source of every script against the WHOLE program's instruction list,
     under the hypothesis that the labels of the program are pairwise distinct (boundary B2).
   PART 6  example: a program of two scripts, the first one leaving with `goto(Second)`.

   Main statements: script_steps_in_program(_closed), script_runs_in_program_closed, script_runs_in_program_continued_closed,
   script_runs_in_program_unknown_closed (part 1); self_contained_script_runs_in_program_closed (part 2);
   rendered_script_closed (part 3); program_contains_scripts (part 4); code_labels_distinct_source,
   program_scripts_correct, program_script_goto_continues, program_self_contained_scripts_correct (part 5).
   Only the labels defined BEFORE the script matter (the machine takes the first definition of a label), so the hypothesis of
   part 1 is "no label of code is a label of pre"; part 5 assumes the usual NoDup of all labels of the program.
   Not proved here: a source-level form of the hypothesis of theorem 6 (it is stated on the jump targets of the emitted code). *)
From Coq Require Import List String Ascii ZArith NArith Lia Bool Permutation.
From Pory Require Import Lexer Ast Format Emitter Sem2 SemTgt EmitProps RenderSim RenderCheck.
Import ListNotations.
Open Scope list_scope.

(* ================================================================================================================== *)
(* PART 1: the machine over a segment of a larger list                                                                 *)
(* ================================================================================================================== *)

(* ---------- label search ---------- *)
Lemma find_lbl_shift l is : forall k d i, find_lbl l is k = Some i -> find_lbl l is (k + d) = Some (i + d)%nat.
Proof.
  induction is as [|x r IH]; intros k d i H; cbn [find_lbl] in *; [discriminate|].
  destruct x; try (apply (IH (S k) d i H)).
  destruct (text_eqb name l); [inversion H; reflexivity|apply (IH (S k) d i H)].
Qed.

Lemma find_lbl_app_some l a b : forall k i, find_lbl l a k = Some i -> find_lbl l (a ++ b) k = Some i.
Proof.
  induction a as [|x r IH]; intros k i H; cbn [find_lbl app] in *; [discriminate|].
  destruct x; try (apply (IH (S k) i H)).
  destruct (text_eqb name l); [exact H|apply (IH (S k) i H)].
Qed.

(* a found label is a label instruction at that position *)
Lemma find_lbl_some_nth l is : forall k i, find_lbl l is k = Some i ->
  exists j g, i = (k + j)%nat /\ nth_error is j = Some (ILabel l g).
Proof.
  induction is as [|x r IH]; intros k i H; cbn [find_lbl] in H; [discriminate|].
  assert (REC : find_lbl l r (S k) = Some i -> exists j g, i = (k + j)%nat /\ nth_error (x :: r) j = Some (ILabel l g)).
  { intros H'. destruct (IH _ _ H') as (j & g & E & N). exists (S j), g. split; [lia|exact N]. }
  destruct x; try (apply REC; exact H).
  destruct (text_eqb name l) eqn:Q; [|apply REC; exact H].
  apply text_eqb_iff in Q. subst name. inversion H; subst. exists 0%nat, glob. split; [lia|reflexivity].
Qed.

Lemma nth_label_in_lnames is j l g : nth_error is j = Some (ILabel l g) -> In l (lnames is).
Proof.
  intros H. apply nth_error_In in H. unfold lnames, labels_of. apply in_map_iff. exists (l, g). split; [reflexivity|].
  apply in_flat_map. exists (ILabel l g). split; [exact H|now left].
Qed.

Lemma find_lbl_some_in l is k i : find_lbl l is k = Some i -> In l (lnames is).
Proof. intros H. destruct (find_lbl_some_nth _ _ _ _ H) as (j & g & _ & N). eapply nth_label_in_lnames; eauto. Qed.

Lemma find_lbl_in_some l is : forall k, In l (lnames is) -> exists i, find_lbl l is k = Some i.
Proof.
  intros k H. destruct (find_lbl l is k) as [i|] eqn:E; [eauto|]. exfalso.
  revert k E. induction is as [|x r IH]; intros k E; [destruct H|].
  cbn [find_lbl] in E.
  assert (REC : In l (lnames r) -> find_lbl l r (S k) = None -> False) by (intros A B; exact (IH A _ B)).
  destruct x; try (apply REC; [exact H|exact E]).
  destruct (text_eqb name l) eqn:Q; [discriminate|]. apply REC; [|exact E].
  cbn in H. destruct H as [H|H]; [|exact H]. subst. rewrite text_eqb_refl in Q. discriminate.
Qed.

(* ---------- closed code: the pc cannot run off its end ---------- *)
Definition terminator (i : instr) : bool :=
  match i with
  | IReturn | IEnd | IGoto _ => true
  | ICmd c => is_name c "end" || is_name c "return" || is_name c "goto"
  | _ => false
  end.

(* code = body ++ term :: tail, term never continues at the next instruction, tail defines no label *)
Definition closed (code : list instr) : Prop :=
  exists body term tail, code = body ++ term :: tail /\ terminator term = true /\ lnames tail = [].

(* executable form: scanning from the end, a terminator is met before any label *)
Fixpoint closed_rev (l : list instr) : bool :=
  match l with
  | [] => false
  | i :: r => if terminator i then true else match i with ILabel _ _ => false | _ => closed_rev r end
  end.
Definition closedb (code : list instr) : bool := closed_rev (rev code).

Lemma closed_rev_sound : forall l, closed_rev l = true ->
  exists tail term body, l = tail ++ term :: body /\ terminator term = true /\ lnames (rev tail) = [].
Proof.
  induction l as [|i r IH]; cbn [closed_rev]; intros H; [discriminate|].
  destruct (terminator i) eqn:T.
  - exists [], i, r. split; [reflexivity|]. split; [exact T|reflexivity].
  - assert (NL : lnames [i] = [] /\ closed_rev r = true) by (destruct i; try discriminate; split; auto).
    destruct NL as [NL H']. destruct (IH H') as (tail & term & body & E & TT & L).
    exists (i :: tail), term, body. split; [cbn; now rewrite E|]. split; [exact TT|].
    cbn [rev]. rewrite lnames_app, L, NL. reflexivity.
Qed.

Lemma closedb_sound code : closedb code = true -> closed code.
Proof.
  unfold closedb. intros H. destruct (closed_rev_sound _ H) as (tail & term & body & E & T & L).
  exists (rev body), term, (rev tail). split; [|split; assumption].
  rewrite <- (rev_involutive code), E, rev_app_distr. cbn [rev]. rewrite <- app_assoc. reflexivity.
Qed.

(* the labels an instruction may jump to *)
Definition itargets (i : instr) : list text :=
  match i with
  | IGoto l | IGotoIfSet _ l | IGotoIfUnset _ l | IGotoIfCmp _ l | IGotoIf _ l | ICase _ l => [l]
  | ICmd c => if is_name c "goto" then match cargs c with [l] => [l] | _ => [] end else []
  | _ => []
  end.
Definition jtargets (code : list instr) : list text := flat_map itargets code.

Section EMBED.
Variable St : Type.
Variable exec : cmd -> St -> stepres St.
Variable flag_set trainer_beaten : text -> St -> bool.
Variable cmp_var cmp_var_value : text -> text -> St -> comparison.
Variable case_matches : text -> text -> St -> bool.
Variable pre code post : list instr.

Notation prog := (pre ++ code ++ post).
Notation tstepc := (tstep St exec flag_set trainer_beaten cmp_var cmp_var_value case_matches code).
Notation tstepp := (tstep St exec flag_set trainer_beaten cmp_var cmp_var_value case_matches prog).
Notation stepsc := (steps (@tfinal) tstepc).
Notation stepsp := (steps (@tfinal) tstepp).
Notation runc := (run (@tfinal) tstepc).
Notation runp := (run (@tfinal) tstepp).

(* program-wide label uniqueness, as far as it is needed: a label defined in the script is not defined before it *)
Hypothesis Hpre : forall l, In l (lnames code) -> ~ In l (lnames pre).
Variable body : list instr.
Variable term : instr.
Variable tail : list instr.
Hypothesis Hcode : code = body ++ term :: tail.
Hypothesis Hterm : terminator term = true.
Hypothesis Htail : lnames tail = [].

(* a state of the machine over [code] seen as a state of the machine over the program: positions are shifted; the exit
   "goto a label that code does not define" is where the program continues *)
Definition emb (a : tstate) : tstate :=
  match a with
  | TAt pc r sw => TAt (List.length pre + pc) r sw
  | TFinal (OJumpOut l) => jump prog l
  | TFinal o => TFinal o
  end.

(* the pc is inside the part of code that ends with the terminator *)
Definition safe (a : tstate) : Prop :=
  match a with TAt pc _ _ => (pc <= List.length body)%nat | TFinal _ => True end.

Lemma emb_jump l : emb (jump code l) = jump prog l.
Proof.
  unfold jump at 1. destruct (find_lbl l code 0) as [i|] eqn:E; [|reflexivity].
  cbn [emb]. unfold jump. rewrite find_lbl_skip by (apply Hpre; eapply find_lbl_some_in; exact E).
  rewrite (find_lbl_app_some _ _ post _ _ (find_lbl_shift _ _ 0%nat (List.length pre) _ E)).
  f_equal. lia.
Qed.

Lemma safe_jump l : safe (jump code l).
Proof.
  unfold jump. destruct (find_lbl l code 0) as [i|] eqn:E; [|exact I].
  cbn [safe]. destruct (find_lbl_some_nth _ _ _ _ E) as (j & g & -> & N). cbn [plus].
  destruct (Nat.le_gt_cases j (List.length body)) as [LE|GT]; [exact LE|exfalso].
  rewrite Hcode in N. rewrite nth_error_app2 in N by lia.
  destruct (j - List.length body)%nat as [|j'] eqn:J; [lia|]. cbn in N.
  apply nth_label_in_lnames in N. rewrite Htail in N. destruct N.
Qed.

Lemma nth_prog pc i : nth_error code pc = Some i -> nth_error prog (List.length pre + pc) = Some i.
Proof.
  intros H. rewrite nth_error_app2 by lia. replace (List.length pre + pc - List.length pre)%nat with pc by lia.
  rewrite nth_error_app1; [exact H|]. apply nth_error_Some. congruence.
Qed.

Lemma nth_safe pc : (pc <= List.length body)%nat ->
  exists i, nth_error code pc = Some i /\ ((pc < List.length body)%nat \/ i = term).
Proof.
  intros LE. rewrite Hcode. destruct (Nat.eq_dec pc (List.length body)) as [->|NE].
  - exists term. split; [|now right]. rewrite nth_error_app2 by lia. now rewrite Nat.sub_diag.
  - destruct (nth_error body pc) as [i|] eqn:N.
    + exists i. split; [|left; lia]. rewrite nth_error_app1 by lia. exact N.
    + apply nth_error_None in N. lia.
Qed.

(* ONE STEP: the program does what the script alone does, at the shifted position *)
Lemma step_emb pc r sw s :
  safe (TAt pc r sw) ->
  tstepp (emb (TAt pc r sw)) s =
    (Datatypes.fst (Datatypes.fst (tstepc (TAt pc r sw) s)), emb (Datatypes.snd (Datatypes.fst (tstepc (TAt pc r sw) s))),
     Datatypes.snd (tstepc (TAt pc r sw) s)) /\
  safe (Datatypes.snd (Datatypes.fst (tstepc (TAt pc r sw) s))).
Proof.
  intros SF. cbn [safe] in SF. destruct (nth_safe pc SF) as (i & N & POS).
  cbn [emb]. unfold tstep. rewrite N, (nth_prog _ _ N).
  assert (NX : forall r' sw', terminator i = false -> safe (TAt (S pc) r' sw')).
  { intros r' sw' T. cbn [safe]. destruct POS as [LT| ->]; [lia|congruence]. }
  assert (EN : forall r' sw', emb (TAt (S pc) r' sw') = TAt (S (List.length pre + pc)) r' sw').
  { intros. cbn [emb]. f_equal. lia. }
  destruct i; cbn [Datatypes.fst Datatypes.snd]; try (split; [rewrite <- ?EN; reflexivity|apply NX; reflexivity]).
  - (* ICmd *)
    destruct (is_name c "end") eqn:N1; [split; [reflexivity|exact I]|].
    destruct (is_name c "return") eqn:N2; [split; [reflexivity|exact I]|].
    destruct (is_name c "goto") eqn:N3.
    + destruct (cargs c) as [|l [|l' ar]]; cbn [Datatypes.fst Datatypes.snd]; try (split; [reflexivity|exact I]).
      split; [now rewrite emb_jump|apply safe_jump].
    + destruct (exec c s) as [s1|]; cbn [Datatypes.fst Datatypes.snd]; [|split; [reflexivity|exact I]].
      split; [rewrite <- EN; reflexivity|apply NX; cbn; now rewrite N1, N2, N3].
  - (* IGoto *) split; [now rewrite emb_jump|apply safe_jump].
  - (* IGotoIfSet *)
    destruct (flag_set f s); (split; [rewrite <- ?EN, ?emb_jump; reflexivity|first [apply safe_jump|apply NX; reflexivity]]).
  - destruct (flag_set f s); (split; [rewrite <- ?EN, ?emb_jump; reflexivity|first [apply safe_jump|apply NX; reflexivity]]).
  - (* IGotoIfCmp *)
    destruct r as [|cm|b]; cbn [Datatypes.fst Datatypes.snd]; try (split; [reflexivity|exact I]).
    destruct (cmp_holds o cm); (split; [rewrite <- ?EN, ?emb_jump; reflexivity|first [apply safe_jump|apply NX; reflexivity]]).
  - (* IGotoIf *)
    destruct r as [|cm|v]; cbn [Datatypes.fst Datatypes.snd]; try (split; [reflexivity|exact I]).
    destruct (Bool.eqb v b); (split; [rewrite <- ?EN, ?emb_jump; reflexivity|first [apply safe_jump|apply NX; reflexivity]]).
  - (* ICase *)
    destruct sw as [v|]; cbn [Datatypes.fst Datatypes.snd]; try (split; [reflexivity|exact I]).
    destruct (case_matches v x s); (split; [rewrite <- ?EN, ?emb_jump; reflexivity|first [apply safe_jump|apply NX; reflexivity]]).
  - (* IReturn *) split; [reflexivity|exact I].
  - split; [reflexivity|exact I].
Qed.


Lemma emb_nonfinal a : tfinal a = None -> tfinal (emb a) = None.
Proof. destruct a; [reflexivity|discriminate]. Qed.

(* THEOREM 1 (steps).  Every execution of the script alone is, step for step and with the same events and the same states
   of the world, an execution of the program from the embedded state.  When the script alone ends with the exit
   OJumpOut l, the program is at  jump prog l. *)
Theorem script_steps_in_program k a s tr b s' :
  safe a -> stepsc k a s tr b s' -> stepsp k (emb a) s tr (emb b) s' /\ safe b.
Proof.
  intros SF H. induction H as [a s|j a s ev a1 s1 ev' b s' F E H IH].
  - split; [constructor|exact SF].
  - destruct a as [pc r sw|o]; [|discriminate].
    destruct (step_emb pc r sw s SF) as [EQ SF1]. rewrite E in EQ, SF1. cbn [Datatypes.fst Datatypes.snd] in EQ, SF1.
    destruct (IH SF1) as [IH1 IH2]. split; [|exact IH2].
    econstructor; [reflexivity|exact EQ|exact IH1].
Qed.

(* THEOREM 2 (runs, any fuel).  Unless the script alone ends with a goto out of the script, the program's run is EQUAL to
   the script's; if it ends with OJumpOut l, the program has performed the same events and continues at label l. *)
Theorem script_run_in_program m : forall a s,
  safe a ->
  match Datatypes.snd (runc m a s) with
  | Done (OJumpOut l) => exists k s', (k <= m)%nat /\ stepsp k (emb a) s (Datatypes.fst (runc m a s)) (jump prog l) s'
  | _ => runp m (emb a) s = runc m a s
  end.
Proof.
  induction m as [|m IH]; intros a s SF.
  - destruct a as [pc r sw|o]; [reflexivity|]. cbn [run tfinal Datatypes.snd Datatypes.fst].
    destruct o; try reflexivity. exists 0%nat, s. split; [lia|constructor].
  - destruct a as [pc r sw|o].
    + destruct (step_emb pc r sw s SF) as [EQ SF1].
      cbn [run tfinal]. cbn [emb] in EQ. cbn [emb]. rewrite EQ.
      destruct (tstepc (TAt pc r sw) s) as [[ev a1] s1] eqn:E. cbn [Datatypes.fst Datatypes.snd] in *.
      specialize (IH a1 s1 SF1). destruct (runc m a1 s1) as [tr st] eqn:R. cbn [Datatypes.fst Datatypes.snd] in *.
      assert (EQR : runp m (emb a1) s1 = (tr, st) -> (let '(tr0, st0) := runp m (emb a1) s1 in (ev ++ tr0, st0)) = (ev ++ tr, st))
        by (intros ->; reflexivity).
      destruct st as [o|]; [|exact (EQR IH)]. destruct o; try exact (EQR IH).
      destruct IH as (k & s' & LE & ST). exists (S k), s'. split; [lia|].
      econstructor; [reflexivity| |exact ST]. cbn [emb]. exact EQ.
    + destruct o; try reflexivity.
      rewrite (run_final _ _ _ _ (S m) (TFinal (OJumpOut l)) s (OJumpOut l) eq_refl). cbn [Datatypes.fst Datatypes.snd].
      exists 0%nat, s. split; [lia|constructor].
Qed.

(* the same from the entry label of the script *)
Corollary script_runs_in_program name m s :
  match Datatypes.snd (runc m (jump code name) s) with
  | Done (OJumpOut l) =>
      exists k s', (k <= m)%nat /\ stepsp k (jump prog name) s (Datatypes.fst (runc m (jump code name) s)) (jump prog l) s'
  | _ => runp m (jump prog name) s = runc m (jump code name) s
  end.
Proof. rewrite <- emb_jump. apply script_run_in_program. apply safe_jump. Qed.

(* what "continues at label l" means for the result of the program's run: the events of the script, then the run from l
   with the remaining fuel *)
Corollary script_runs_in_program_continued name m s l :
  Datatypes.snd (runc m (jump code name) s) = Done (OJumpOut l) ->
  exists k s', (k <= m)%nat /\
    runp m (jump prog name) s =
      (Datatypes.fst (runc m (jump code name) s) ++ Datatypes.fst (runp (m - k) (jump prog l) s'), Datatypes.snd (runp (m - k) (jump prog l) s')).
Proof.
  intros H. pose proof (script_runs_in_program name m s) as T. rewrite H in T. destruct T as (k & s' & LE & ST).
  exists k, s'. split; [exact LE|]. replace m with (k + (m - k))%nat at 1 by lia. apply (run_steps _ _ _ _ _ _ _ _ _ _ ST).
Qed.

(* a goto to a label the PROGRAM does not define is the same exit in both *)
Corollary script_runs_in_program_unknown name m s :
  (forall l, Datatypes.snd (runc m (jump code name) s) = Done (OJumpOut l) -> ~ In l (lnames prog)) ->
  runp m (jump prog name) s = runc m (jump code name) s.
Proof.
  intros H. pose proof (script_runs_in_program name m s) as T.
  destruct (runc m (jump code name) s) as [tr st] eqn:R. cbn [Datatypes.fst Datatypes.snd] in *.
  destruct st as [o|]; [|exact T]. destruct o; try exact T.
  destruct T as (k & s' & LE & ST). specialize (H l eq_refl).
  assert (J : jump prog l = TFinal (OJumpOut l)) by (unfold jump; now rewrite (find_lbl_none _ _ 0%nat H)).
  rewrite J in ST. replace m with (k + (m - k))%nat by lia. rewrite (run_steps _ _ _ _ _ _ _ _ _ _ ST).
  rewrite run_final with (o := OJumpOut l) by reflexivity. cbn. now rewrite app_nil_r.
Qed.

(* ================================================================================================================== *)
(* PART 2: a script that does not jump into the rest of the program                                                    *)
(* ================================================================================================================== *)
(* every jump target of the script that the program defines is defined by the script itself *)
Hypothesis Hself : forall l, In l (jtargets code) -> In l (lnames prog) -> In l (lnames code).

Definition stays (a : tstate) : Prop :=
  match a with TFinal (OJumpOut l) => ~ In l (lnames prog) | _ => True end.

Lemma stays_jump l : (In l (lnames prog) -> In l (lnames code)) -> stays (jump code l).
Proof.
  intros H. unfold jump. destruct (find_lbl l code 0) as [i|] eqn:E; [exact I|]. cbn [stays]. intros X.
  destruct (find_lbl_in_some l code 0%nat (H X)) as (i & Q). congruence.
Qed.

Lemma step_stays pc r sw s : stays (Datatypes.snd (Datatypes.fst (tstepc (TAt pc r sw) s))).
Proof.
  unfold tstep. destruct (nth_error code pc) as [i|] eqn:N; [|exact I].
  assert (J : forall l, In l (itargets i) -> stays (jump code l)).
  { intros l Hl. apply stays_jump. apply Hself. unfold jtargets. apply in_flat_map. exists i. split; [eapply nth_error_In; exact N|exact Hl]. }
  destruct i; cbn [Datatypes.fst Datatypes.snd]; try exact I.
  - destruct (is_name c "end") eqn:N1; [exact I|]. destruct (is_name c "return") eqn:N2; [exact I|].
    destruct (is_name c "goto") eqn:N3.
    + destruct (cargs c) as [|l [|l' ar]] eqn:AR; cbn [Datatypes.fst Datatypes.snd]; try exact I.
      apply J. cbn [itargets]. rewrite N3, AR. now left.
    + destruct (exec c s); exact I.
  - apply J. now left.
  - destruct (flag_set f s); [apply J; now left|exact I].
  - destruct (flag_set f s); [exact I|apply J; now left].
  - destruct r as [|cm|b]; cbn [Datatypes.fst Datatypes.snd]; try exact I. destruct (cmp_holds o cm); [apply J; now left|exact I].
  - destruct r as [|cm|v]; cbn [Datatypes.fst Datatypes.snd]; try exact I. destruct (Bool.eqb v b); [apply J; now left|exact I].
  - destruct sw as [v|]; cbn [Datatypes.fst Datatypes.snd]; try exact I. destruct (case_matches v x s); [apply J; now left|exact I].
Qed.

Lemma run_stays m : forall a s l, stays a -> Datatypes.snd (runc m a s) = Done (OJumpOut l) -> ~ In l (lnames prog).
Proof.
  induction m as [|m IH]; intros a s l SA H.
  - destruct a as [pc r sw|o]; [discriminate H|]. cbn in H. inversion H; subst. exact SA.
  - destruct a as [pc r sw|o]; [|cbn in H; inversion H; subst; exact SA].
    cbn [run tfinal] in H. pose proof (step_stays pc r sw s) as SS.
    destruct (tstepc (TAt pc r sw) s) as [[ev a1] s1]. cbn [Datatypes.fst Datatypes.snd] in SS.
    specialize (IH a1 s1 l SS). destruct (runc m a1 s1) as [tr st]. exact (IH H).
Qed.

(* THEOREM 3.  A script whose jumps stay inside it (or name labels the program does not define) runs inside the program
   exactly as alone: EQUAL results for every amount of fuel. *)
Theorem self_contained_script_runs_in_program name m s :
  (In name (lnames prog) -> In name (lnames code)) ->
  runp m (jump prog name) s = runc m (jump code name) s.
Proof.
  intros HN. apply script_runs_in_program_unknown. intros l H. eapply run_stays; [|exact H]. apply stays_jump. exact HN.
Qed.

End EMBED.

(* the theorems of parts 1 and 2 with the closedness of the script as one hypothesis *)
Section EMBED_CLOSED.
Variable St : Type.
Variable exec : cmd -> St -> stepres St.
Variable flag_set trainer_beaten : text -> St -> bool.
Variable cmp_var cmp_var_value : text -> text -> St -> comparison.
Variable case_matches : text -> text -> St -> bool.
Notation tstep := (tstep St exec flag_set trainer_beaten cmp_var cmp_var_value case_matches).

(* step for step, from the entry label; [emb] maps the states of the script alone to states of the program *)
Theorem script_steps_in_program_closed pre code post name k s tr b s' :
  closed code ->
  (forall l, In l (lnames code) -> ~ In l (lnames pre)) ->
  steps (@tfinal) (tstep code) k (jump code name) s tr b s' ->
  steps (@tfinal) (tstep (pre ++ code ++ post)) k (jump (pre ++ code ++ post) name) s tr (emb pre code post b) s'.
Proof.
  intros (body & term & tail & E & T & L) HP H.
  rewrite <- (emb_jump pre code post HP name).
  apply (script_steps_in_program St exec flag_set trainer_beaten cmp_var cmp_var_value case_matches pre code post HP body term tail E T L k _ s tr b s').
  - apply (safe_jump code body term tail E L).
  - exact H.
Qed.

(* MAIN THEOREM of part 1 *)
Theorem script_runs_in_program_closed pre code post name m s :
  closed code ->
  (forall l, In l (lnames code) -> ~ In l (lnames pre)) ->
  match Datatypes.snd (run (@tfinal) (tstep code) m (jump code name) s) with
  | Done (OJumpOut l) =>
      exists k s', (k <= m)%nat /\
        steps (@tfinal) (tstep (pre ++ code ++ post)) k (jump (pre ++ code ++ post) name) s
              (Datatypes.fst (run (@tfinal) (tstep code) m (jump code name) s)) (jump (pre ++ code ++ post) l) s'
  | _ => run (@tfinal) (tstep (pre ++ code ++ post)) m (jump (pre ++ code ++ post) name) s =
         run (@tfinal) (tstep code) m (jump code name) s
  end.
Proof.
  intros (body & term & tail & E & T & L) HP.
  exact (script_runs_in_program St exec flag_set trainer_beaten cmp_var cmp_var_value case_matches pre code post HP body term tail E T L name m s).
Qed.

Theorem script_runs_in_program_continued_closed pre code post name m s l :
  closed code ->
  (forall l, In l (lnames code) -> ~ In l (lnames pre)) ->
  Datatypes.snd (run (@tfinal) (tstep code) m (jump code name) s) = Done (OJumpOut l) ->
  exists k s', (k <= m)%nat /\
    run (@tfinal) (tstep (pre ++ code ++ post)) m (jump (pre ++ code ++ post) name) s =
      (Datatypes.fst (run (@tfinal) (tstep code) m (jump code name) s) ++
         Datatypes.fst (run (@tfinal) (tstep (pre ++ code ++ post)) (m - k) (jump (pre ++ code ++ post) l) s'),
       Datatypes.snd (run (@tfinal) (tstep (pre ++ code ++ post)) (m - k) (jump (pre ++ code ++ post) l) s')).
Proof.
  intros (body & term & tail & E & T & L) HP.
  exact (script_runs_in_program_continued St exec flag_set trainer_beaten cmp_var cmp_var_value case_matches pre code post HP body term tail E T L name m s l).
Qed.

Theorem script_runs_in_program_unknown_closed pre code post name m s :
  closed code ->
  (forall l, In l (lnames code) -> ~ In l (lnames pre)) ->
  (forall l, Datatypes.snd (run (@tfinal) (tstep code) m (jump code name) s) = Done (OJumpOut l) -> ~ In l (lnames (pre ++ code ++ post))) ->
  run (@tfinal) (tstep (pre ++ code ++ post)) m (jump (pre ++ code ++ post) name) s =
  run (@tfinal) (tstep code) m (jump code name) s.
Proof.
  intros (body & term & tail & E & T & L) HP.
  exact (script_runs_in_program_unknown St exec flag_set trainer_beaten cmp_var cmp_var_value case_matches pre code post HP body term tail E T L name m s).
Qed.

(* MAIN THEOREM of part 2 *)
Theorem self_contained_script_runs_in_program_closed pre code post name m s :
  closed code ->
  (forall l, In l (lnames code) -> ~ In l (lnames pre)) ->
  (forall l, In l (jtargets code) -> In l (lnames (pre ++ code ++ post)) -> In l (lnames code)) ->
  (In name (lnames (pre ++ code ++ post)) -> In name (lnames code)) ->
  run (@tfinal) (tstep (pre ++ code ++ post)) m (jump (pre ++ code ++ post) name) s =
  run (@tfinal) (tstep code) m (jump code name) s.
Proof.
  intros (body & term & tail & E & T & L) HP HS.
  exact (self_contained_script_runs_in_program St exec flag_set trainer_beaten cmp_var cmp_var_value case_matches pre code post HP body term tail E T L HS name m s).
Qed.
End EMBED_CLOSED.

(* ================================================================================================================== *)
(* PART 3: the code of an emitted script is closed                                                                     *)
(* ================================================================================================================== *)
Lemma gof_term name d nx m1 x rg : goto_or_fall name d nx m1 = (x, rg, false) ->
  exists term, x = [term] /\ terminator term = true.
Proof.
  unfold goto_or_fall. destruct (m1 && (d =? -1)%Z); [intros H; inversion H; subst; eexists; split; reflexivity|].
  destruct (d =? nx)%Z; [discriminate|]. intros H; inversion H; subst; eexists; split; reflexivity.
Qed.

(* a chunk that does not fall through ends with return / end / goto *)
Lemma render_branch_term mp name c nx b rg : render_branch mp name c nx = (b, rg, false) ->
  exists b0 term, b = b0 ++ [term] /\ terminator term = true.
Proof.
  unfold render_branch. destruct (cbr c) as [[d|d|l tr fa|op ol cases dd dest]|].
  - intros H. destruct (gof_term _ _ _ _ _ _ H) as (tm & -> & T). exists [], tm. auto.
  - intros H. destruct (gof_term _ _ _ _ _ _ H) as (tm & -> & T). exists [], tm. auto.
  - destruct (goto_or_fall name fa nx true) as [[x regs] fall] eqn:E. intros H. inversion H; subst.
    destruct (gof_term _ _ _ _ _ _ E) as (tm & -> & T). eexists _, tm. split; [|exact T]. rewrite !app_assoc. reflexivity.
  - destruct dd as [dd|].
    + destruct (dd =? nx)%Z; [discriminate|]. intros H; inversion H; subst. eexists _, _. split; [rewrite !app_assoc; reflexivity|reflexivity].
    + destruct (dest =? nx)%Z; [discriminate|]. destruct (dest =? -1)%Z; intros H; inversion H; subst;
        (eexists _, _; split; [rewrite !app_assoc; reflexivity|reflexivity]).
  - destruct (cret c =? -1)%Z.
    + intros H; inversion H; subst. exists [], (if cend c then IEnd else IReturn). split; [reflexivity|]. destruct (cend c); reflexivity.
    + destruct (cret c =? nx)%Z; [discriminate|]. intros H; inversion H; subst. exists [], (IGoto (lbl name (cret c))). auto.
Qed.

Theorem rendered_script_closed mp tl name glob G order code :
  render_chunks mp tl name glob G order = Emitter.Ok code ->
  wf_render mp name G order code = true ->
  closed code.
Proof.
  intros HR W. unfold wf_render in W. andb W.
  rename W into K1, W0 into K12, W1 into K11, W2 into K10, W3 into K9, W4 into K8, W5 into K7, W6 into K6, W7 into K5, W8 into K4, W9 into K3, W10 into K2.
  pose proof (render_chunks_blocks _ _ _ _ _ _ _ HR) as HC.
  apply zmem_in in K12. unfold last_okb in K11.
  destruct (rev order) as [|d rv] eqn:RV.
  { exfalso. assert (order = []) by (rewrite <- (rev_involutive order), RV; reflexivity). subst order. destruct K12. }
  assert (ORD : order = rev rv ++ [d]) by (rewrite <- (rev_involutive order), RV; reflexivity).
  rewrite forallb_forall in K3. assert (Hd : In d order) by (rewrite ORD; apply in_or_app; right; now left).
  specialize (K3 d Hd). apply andb_prop in K3. destruct K3 as [_ K3].
  destruct (get_chunk G d) as [c|] eqn:GC; [|discriminate].
  rewrite ORD, blocks_app in HC. cbn [blocks hd] in HC. unfold block_of in HC. rewrite GC in HC. unfold body_of in HC.
  destruct (render_branch mp name c (-1)%Z) as [[b rg] fall] eqn:RB. cbn [Datatypes.snd] in K11.
  destruct fall; [discriminate|].
  destruct (render_branch_term _ _ _ _ _ _ RB) as (b0 & tm & -> & T).
  exists (blocks mp name glob G (all_regs mp name G (rev rv ++ [d]) (-1)) (rev rv) d ++
          labelpart name glob (all_regs mp name G (rev rv ++ [d]) (-1)) d ++ flat_map (render_stmt mp) (cstmts c) ++ b0), tm, [IBlank].
  split; [|split; [exact T|reflexivity]].
  rewrite HC, app_nil_r, <- !app_assoc. reflexivity.
Qed.

(* ================================================================================================================== *)
(* PART 4: the program's instruction list contains the code of each of its scripts as a segment                        *)
(* ================================================================================================================== *)
From Pory Require Import Parser Tr LabelSim C01Final Worklist WorkLabels WorkShape LabelsUnique ProgWf ProgSrc NameClash
                         RenderFromSource C01Main C01Top.

Local Opaque emit_script.
Definition seg (code x : list instr) : Prop := exists pre post, x = pre ++ code ++ post.

Lemma seg_refl c : seg c c.
Proof. exists [], []. cbn. now rewrite app_nil_r. Qed.
Lemma seg_app_l c a x : seg c x -> seg c (a ++ x).
Proof. intros (p & q & ->). exists (a ++ p), q. now rewrite <- app_assoc. Qed.
Lemma seg_app_r c x b : seg c x -> seg c (x ++ b).
Proof. intros (p & q & ->). exists p, (q ++ b). now rewrite <- !app_assoc. Qed.

Lemma seg_cons c i x : seg c x -> seg c (i :: x).
Proof. apply (seg_app_l c [i] x). Qed.
Ltac seg_solve SG :=
  first [exact SG | apply seg_refl | apply seg_cons; seg_solve SG | apply seg_app_l; seg_solve SG | apply seg_app_r; seg_solve SG].
Lemma Ok_inj {A} (a b : A) : Emitter.Ok a = Emitter.Ok b -> a = b.
Proof. intros H; now inversion H. Qed.

Section SEGMENTS.
Variable mp : option text.
Variable tl : list text.
Variable optimize : bool.
Notation script_result := (script_result mp tl optimize).

Lemma bind_ok {A B} (r : Emitter.res A) (f : A -> Emitter.res B) y :
  bind_i r f = Emitter.Ok y -> exists x, r = Emitter.Ok x /\ f x = Emitter.Ok y.
Proof. destruct r; cbn; try discriminate. intros H. eauto. Qed.

Lemma emit_scripts_seg : forall l x, emit_scripts mp tl optimize l = Emitter.Ok x ->
  forall s, In s (sc_of l) -> exists code, script_result s = Emitter.Ok code /\ seg code x.
Proof.
  induction l as [|[n [b|]] r IH]; intros x H s Hs.
  - destruct Hs.
  - cbn [emit_scripts] in H. apply bind_ok in H. destruct H as (c & E1 & H). apply bind_ok in H. destruct H as (y & E2 & H).
    apply Ok_inj in H; subst x.
    unfold sc_of in Hs. cbn [flat_map Datatypes.fst Datatypes.snd app] in Hs. fold (sc_of r) in Hs.
    destruct Hs as [<-|Hs].
    + exists c. split; [exact E1|]. apply seg_app_r, seg_refl.
    + destruct (IH _ E2 _ Hs) as (code & R & SG). exists code. split; [exact R|]. seg_solve SG.
  - cbn [emit_scripts] in H. unfold sc_of in Hs. cbn [flat_map Datatypes.snd app] in Hs. exact (IH _ H _ Hs).
Qed.

Lemma emit_tables_seg : forall tables x, emit_tables mp tl optimize tables = Emitter.Ok x ->
  forall s, In s (flat_map (fun tb => flat_map (fun e => match teScript e with Some b => [(teName e, false, b)] | None => [] end) (tmEntries tb)) tables) ->
  exists code, script_result s = Emitter.Ok code /\ seg code x.
Proof.
  induction tables as [|tb r IH]; intros x H s Hs; [destruct Hs|].
  cbn [emit_tables] in H. apply bind_ok in H. destruct H as (c & E1 & H). apply bind_ok in H. destruct H as (y & E2 & H).
  apply Ok_inj in H; subst x. cbn [flat_map] in Hs. apply in_app_or in Hs. destruct Hs as [Hs|Hs].
  - rewrite <- sc_of_entries in Hs. destruct (emit_scripts_seg _ _ E1 _ Hs) as (code & R & SG). exists code. split; [exact R|].
    seg_solve SG.
  - destruct (IH _ E2 _ Hs) as (code & R & SG). exists code. split; [exact R|]. seg_solve SG.
Qed.

Lemma emit_top_seg tp x : emit_top mp tl optimize tp = Some (Emitter.Ok x) ->
  forall s, In s (scripts_of_top tp) -> exists code, script_result s = Emitter.Ok code /\ seg code x.
Proof.
  destruct tp; cbn [emit_top scripts_of_top]; intros H s Hs; try (destruct Hs; fail).
  - destruct Hs as [<-|[]]. inversion H as [H']. exists x. split; [exact H'|apply seg_refl].
  - inversion H as [H']. clear H. unfold emit_mapscripts in H'.
    apply bind_ok in H'. destruct H' as (c & E1 & H). apply bind_ok in H. destruct H as (y & E2 & H). apply Ok_inj in H; subst x.
    apply in_app_or in Hs. destruct Hs as [Hs|Hs].
    + rewrite <- sc_of_plain in Hs. destruct (emit_scripts_seg _ _ E1 _ Hs) as (code & R & SG). exists code. split; [exact R|].
      seg_solve SG.
    + destruct (emit_tables_seg _ _ E2 _ Hs) as (code & R & SG). exists code. split; [exact R|]. seg_solve SG.
Qed.

Lemma emit_tops_seg : forall l i x n, emit_tops mp tl optimize l i = Emitter.Ok (x, n) ->
  forall s, In s (scripts_of l) -> exists code, script_result s = Emitter.Ok code /\ seg code x.
Proof.
  induction l as [|tp r IH]; intros i x n H s Hs; [destruct Hs|].
  unfold scripts_of in Hs. cbn [flat_map] in Hs. fold (scripts_of r) in Hs. cbn [emit_tops] in H.
  pose proof (emit_top_err mp tl optimize tp) as TE.
  destruct (emit_top mp tl optimize tp) as [rt|] eqn:ET.
  - apply bind_ok in H. destruct H as (c & -> & H). apply bind_ok in H. destruct H as ([y n'] & E2 & H). apply Ok_inj in H. inversion H; subst; clear H.
    apply in_app_or in Hs. destruct Hs as [Hs|Hs].
    + destruct (emit_top_seg _ _ ET _ Hs) as (code & R & SG). exists code. split; [exact R|]. seg_solve SG.
    + destruct (IH _ _ _ E2 _ Hs) as (code & R & SG). exists code. split; [exact R|]. seg_solve SG.
  - rewrite TE in Hs. cbn [app] in Hs. exact (IH _ _ _ H _ Hs).
Qed.
End SEGMENTS.

(* THEOREM 4.  Every script of the program (top-level scripts and the scripts of mapscripts statements, NameClash.scripts_of)
   has its own code - the result of emit_script for it, with the program's text names - as a segment of the program's list. *)
Theorem program_contains_scripts optimize mp p prog :
  emit_program_instrs optimize mp p = Emitter.Ok prog ->
  forall name glob body, In (name, glob, body) (scripts_of (tops p)) ->
  exists code pre post, emit_script mp (map xname (texts p)) name glob optimize body = Emitter.Ok code /\ prog = pre ++ code ++ post.
Proof.
  unfold emit_program_instrs. intros H name glob body Hs.
  destruct (emit_tops mp (map xname (texts p)) optimize (tops p) 0) as [[x n]| | | |] eqn:E; try discriminate.
  inversion H; subst prog; clear H.
  destruct (emit_tops_seg _ _ _ _ _ _ _ E _ Hs) as (code & R & SG).
  destruct (seg_app_r _ _ (emit_texts mp (texts p) n) SG) as (pre & post & EQ).
  exists code, pre, post. split; [exact R|exact EQ].
Qed.

(* ================================================================================================================== *)
(* PART 5: C01 against the whole program's instruction list                                                            *)
(* ================================================================================================================== *)
Local Opaque emit_graph order_of.

(* ---------- duplicate-free lists ---------- *)
Lemma nodup_app_l {A} (a b : list A) : NoDup (a ++ b) -> NoDup a.
Proof. induction a as [|x a IH]; cbn; intros H; [constructor|]. inversion H; subst. constructor; [|auto]. intros X. apply H2. apply in_or_app. now left. Qed.
Lemma nodup_app_r {A} (a b : list A) : NoDup (a ++ b) -> NoDup b.
Proof. induction a as [|x a IH]; cbn; intros H; [exact H|]. inversion H; subst. auto. Qed.
Lemma nodup_app_disjoint {A} (a b : list A) x : NoDup (a ++ b) -> In x a -> ~ In x b.
Proof.
  induction a as [|y a IH]; cbn; intros H Ha Hb; [destruct Ha|]. inversion H; subst. destruct Ha as [->|Ha]; [|exact (IH H3 Ha Hb)].
  apply H2. apply in_or_app. now right.
Qed.
Lemma nodup_app_intro {A} (a b : list A) : NoDup a -> NoDup b -> (forall x, In x a -> ~ In x b) -> NoDup (a ++ b).
Proof.
  induction a as [|x a IH]; cbn; intros Ha Hb D; [exact Hb|]. inversion Ha; subst. constructor.
  - intros X. apply in_app_or in X. destruct X as [X|X]; [contradiction|]. apply (D x); [now left|exact X].
  - apply IH; [assumption|assumption|]. intros y Hy. apply D. now right.
Qed.

(* dropping a part of every block keeps a concatenation duplicate-free *)
Lemma nodup_flat_map_drop {A B} (h u : A -> list B) : forall l, NoDup (flat_map (fun c => h c ++ u c) l) -> NoDup (flat_map u l).
Proof.
  induction l as [|c r IH]; cbn [flat_map]; intros H; [constructor|].
  rewrite <- app_assoc in H. pose proof (nodup_app_r _ _ H) as H'.
  apply nodup_app_intro; [exact (nodup_app_l _ _ H')|exact (IH (nodup_app_r _ _ H'))|].
  intros x Hx Hr. apply (nodup_app_disjoint _ _ x H'); [exact Hx|].
  apply in_flat_map in Hr. destruct Hr as (c' & Hc' & Hx'). apply in_flat_map. exists c'. split; [exact Hc'|]. apply in_or_app. now right.
Qed.

(* the labels the author wrote in a script all appear as labels of its code: distinct labels of the code, distinct labels of
   the script *)
Theorem code_labels_distinct_source mp tl name glob optimize body w code :
  emit_graph body = Emitter.Ok w -> src_ok body ->
  emit_script mp tl name glob optimize body = Emitter.Ok code ->
  NoDup (lnames code) -> NoDup (dlabs body).
Proof.
  intros HW HS HE ND. rewrite emit_script_eq, HW in HE.
  destruct (render_chunks_lnames _ _ _ _ _ _ _ HE) as (regs & E & _). rewrite E in ND.
  apply nodup_flat_map_drop in ND.
  eapply Permutation_NoDup; [apply (chunk_labels_are_source_labels body w HW HS)|].
  rewrite chunk_labels_ulab.
  eapply Permutation_NoDup; [|exact ND]. apply Permutation_flat_map. apply (rendered_perm optimize body w HW HS).
Qed.

(* the script's own name is a label of its code *)
Lemma labelpart_in_blocks mp name glob G regs d c x : forall order nx,
  In d order -> get_chunk G d = Some c -> In x (labelpart name glob regs d) -> In x (blocks mp name glob G regs order nx).
Proof.
  induction order as [|i r IH]; intros nx Hd Hc Hx; [destruct Hd|]. cbn [blocks]. apply in_or_app.
  destruct Hd as [->|Hd]; [left|right; apply IH; assumption].
  unfold block_of. rewrite Hc. apply in_or_app. now left.
Qed.

Lemma script_name_in_code mp tl name glob G order code :
  render_chunks mp tl name glob G order = Emitter.Ok code ->
  wf_render mp name G order code = true ->
  In name (lnames code).
Proof.
  intros HR W. unfold wf_render in W. andb W.
  rename W into K1, W0 into K12, W1 into K11, W2 into K10, W3 into K9, W4 into K8, W5 into K7, W6 into K6, W7 into K5, W8 into K4, W9 into K3, W10 into K2.
  pose proof (render_chunks_blocks _ _ _ _ _ _ _ HR) as HC. apply zmem_in in K12.
  rewrite forallb_forall in K3. specialize (K3 _ K12). apply andb_prop in K3. destruct K3 as [_ K3].
  destruct (get_chunk G 0%Z) as [c|] eqn:GC; [|discriminate].
  assert (X : In (ILabel name glob) code).
  { rewrite HC. eapply labelpart_in_blocks; [exact K12|exact GC|]. unfold labelpart. cbn. now left. }
  unfold lnames, labels_of. apply in_map_iff. exists (name, glob). split; [reflexivity|]. apply in_flat_map. exists (ILabel name glob). split; [exact X|now left].
Qed.

Section C01PROG.
Variable St : Type.
Variable exec : cmd -> St -> stepres St.
Variable flag_set trainer_beaten : text -> St -> bool.
Variable cmp_var cmp_var_value : text -> text -> St -> comparison.
Variable case_matches : text -> text -> St -> bool.
Notation tstep := (tstep St exec flag_set trainer_beaten cmp_var cmp_var_value case_matches).
Notation srun body := (run sfinal (sstep St exec flag_set trainer_beaten cmp_var cmp_var_value case_matches (fun l => fl_body l body Kstop))).

(* what the accepted program, its emitted list and the distinct labels give for one script *)
Lemma script_in_program_facts hl hd hs autovars switches ee fc cli_font cli_maxlen (src : text) (p : program) optimize mp prog :
  parse_program autovars switches ee (parse_format fc cli_font cli_maxlen ee) (lex hl hd hs src) = Parser.Ok p ->
  emit_program_instrs optimize mp p = Emitter.Ok prog ->
  NoDup (lnames prog) ->
  forall name glob body, In (name, glob, body) (scripts_of (tops p)) ->
  forall w code, emit_graph body = Emitter.Ok w ->
  emit_script mp (map xname (texts p)) name glob optimize body = Emitter.Ok code ->
  names_okb (finals w) code = true ->
  In body (bodies_of (tops p)) /\
  (exists pre post, prog = pre ++ code ++ post /\ forall l, In l (lnames code) -> ~ In l (lnames pre)) /\
  closed code /\ In name (lnames code) /\
  wf_render mp name (finals w) (order_of optimize (finals w)) code = true /\ labels_okb body (finals w) = true.
Proof.
  intros HP HE ND name glob body HS w code HW HC NM.
  assert (HB : In body (bodies_of (tops p))).
  { rewrite <- scripts_bodies. apply in_map_iff. exists (name, glob, body). split; [reflexivity|exact HS]. }
  pose proof (accepted_bodies_are_src_ok hl hd hs autovars switches ee fc cli_font cli_maxlen src p HP) as A.
  rewrite Forall_forall in A. destruct (A body HB) as [SO _].
  destruct (program_contains_scripts optimize mp p prog HE name glob body HS) as (code' & pre & post & HC' & EP).
  assert (code' = code) by congruence. subst code'.
  assert (NDC : NoDup (lnames code)).
  { rewrite EP, !lnames_app in ND. exact (nodup_app_l _ _ (nodup_app_r _ _ ND)). }
  assert (WR : wf_render mp name (finals w) (order_of optimize (finals w)) code = true)
    by (apply (wf_render_from_source mp name optimize body w code HW SO NDC NM)).
  pose proof HC as HR. rewrite emit_script_eq, HW in HR.
  split; [exact HB|]. split; [|split; [|split; [|split]]].
  - exists pre, post. split; [exact EP|]. intros l Hl Hp. rewrite EP, !lnames_app in ND.
    apply (nodup_app_disjoint _ _ l ND Hp). apply in_or_app. now left.
  - eapply rendered_script_closed; eassumption.
  - eapply script_name_in_code; eassumption.
  - exact WR.
  - apply (labels_ok_from_source body w HW SO). eapply code_labels_distinct_source; eassumption.
Qed.

(* THEOREM 5 (C01 in the program).  For every accepted source text and every script of the program (top-level or map
   script): if the labels of the emitted program are pairwise distinct (B2: not enforced by the compiler across scripts) and
   the author's names pass names_okb, the WHOLE program's instruction list, run from the script's label, performs the
   commands of the structured source of that script -
     forward: every source run is matched by a run of the program with the same result; when the source leaves the script with
       `goto l` (l not a label of the script), the program has performed the same events and is at  jump prog l:
       in another script if the program defines l, else at the same exit OJumpOut l;
     backward: every run of the program from the script's label is a prefix of a source run with the same outcome, or has gone
       through such a `goto l` into the rest of the program. *)
Theorem program_scripts_correct hl hd hs autovars switches ee fc cli_font cli_maxlen (src : text) (p : program) optimize mp prog :
  parse_program autovars switches ee (parse_format fc cli_font cli_maxlen ee) (lex hl hd hs src) = Parser.Ok p ->
  emit_program_instrs optimize mp p = Emitter.Ok prog ->
  NoDup (lnames prog) ->
  forall name glob body, In (name, glob, body) (scripts_of (tops p)) ->
  forall w code, emit_graph body = Emitter.Ok w ->
  emit_script mp (map xname (texts p)) name glob optimize body = Emitter.Ok code ->
  names_okb (finals w) code = true ->
  (forall n s, exists m,
      match Datatypes.snd (srun body n (enter body Kstop) s) with
      | Done (OJumpOut l) =>
          exists k s', (k <= m)%nat /\
            steps (@tfinal) (tstep prog) k (jump prog name) s (Datatypes.fst (srun body n (enter body Kstop) s)) (jump prog l) s'
      | _ => run (@tfinal) (tstep prog) m (jump prog name) s = srun body n (enter body Kstop) s
      end) /\
  (forall m s, exists n,
      res_le (run (@tfinal) (tstep prog) m (jump prog name) s) (srun body n (enter body Kstop) s) \/
      exists l k s', Datatypes.snd (srun body n (enter body Kstop) s) = Done (OJumpOut l) /\ In l (lnames prog) /\ (k <= m)%nat /\
        steps (@tfinal) (tstep prog) k (jump prog name) s (Datatypes.fst (srun body n (enter body Kstop) s)) (jump prog l) s').
Proof.
  intros HP HE ND name glob body HS w code HW HC NM.
  destruct (script_in_program_facts hl hd hs autovars switches ee fc cli_font cli_maxlen src p optimize mp prog HP HE ND name glob body HS w code HW HC NM)
    as (HB & (pre & post & EP & DJ) & CL & _ & WR & LO).
  destruct (compiled_scripts_correct St exec flag_set trainer_beaten cmp_var cmp_var_value case_matches
              hl hd hs autovars switches ee fc cli_font cli_maxlen src p HP body HB mp (map xname (texts p)) name glob optimize w code HW HC WR LO) as [F B].
  subst prog. split.
  - intros n s. destruct (F n s) as (m & E). exists m. rewrite E.
    apply (script_runs_in_program_closed St exec flag_set trainer_beaten cmp_var cmp_var_value case_matches pre code post name m s CL DJ).
  - intros m s. destruct (B m s) as (n & R). exists n.
    pose proof (script_runs_in_program_closed St exec flag_set trainer_beaten cmp_var cmp_var_value case_matches pre code post name m s CL DJ) as T.
    destruct (Datatypes.snd (run (@tfinal) (tstep code) m (jump code name) s)) as [o|] eqn:ST; [|left; rewrite T; exact R].
    destruct o as [| |l| |]; try (left; rewrite T; exact R).
    destruct R as [_ R]. specialize (R _ ST). rewrite R.
    destruct (in_dec (list_eq_dec N.eq_dec) l (lnames (pre ++ code ++ post))) as [IN|NI].
    + right. destruct T as (k & s' & LE & SS). exists l, k, s'. auto.
    + left. rewrite (script_runs_in_program_unknown_closed St exec flag_set trainer_beaten cmp_var cmp_var_value case_matches pre code post name m s CL DJ).
      * apply res_le_refl.
      * intros l' Q. rewrite ST in Q. inversion Q; subst. exact NI.
Qed.

(* what "the program is at jump prog l" means for results: after the events of the script, the program behaves as the run from
   label l (with any fuel j) in the state of the world s' the script left; if l is the name of another script of the
   program, theorem 5 applies to that run again *)
Corollary program_script_goto_continues hl hd hs autovars switches ee fc cli_font cli_maxlen (src : text) (p : program) optimize mp prog :
  parse_program autovars switches ee (parse_format fc cli_font cli_maxlen ee) (lex hl hd hs src) = Parser.Ok p ->
  emit_program_instrs optimize mp p = Emitter.Ok prog ->
  NoDup (lnames prog) ->
  forall name glob body, In (name, glob, body) (scripts_of (tops p)) ->
  forall w code, emit_graph body = Emitter.Ok w ->
  emit_script mp (map xname (texts p)) name glob optimize body = Emitter.Ok code ->
  names_okb (finals w) code = true ->
  forall n s l, Datatypes.snd (srun body n (enter body Kstop) s) = Done (OJumpOut l) ->
  exists k s', forall j,
    run (@tfinal) (tstep prog) (k + j) (jump prog name) s =
      (Datatypes.fst (srun body n (enter body Kstop) s) ++ Datatypes.fst (run (@tfinal) (tstep prog) j (jump prog l) s'),
       Datatypes.snd (run (@tfinal) (tstep prog) j (jump prog l) s')).
Proof.
  intros HP HE ND name glob body HS w code HW HC NM n s l H.
  destruct (program_scripts_correct hl hd hs autovars switches ee fc cli_font cli_maxlen src p optimize mp prog HP HE ND name glob body HS w code HW HC NM) as [F _].
  destruct (F n s) as (m & T). rewrite H in T. destruct T as (k & s' & _ & ST). exists k, s'. intros j.
  apply (run_steps _ _ _ _ _ _ _ _ _ _ ST).
Qed.

(* THEOREM 6.  If moreover every jump target of the script's code that the program defines is defined in the script's own
   code (the script does not jump into other scripts), C01 holds verbatim for the WHOLE program's instruction list. *)
Theorem program_self_contained_scripts_correct hl hd hs autovars switches ee fc cli_font cli_maxlen (src : text) (p : program) optimize mp prog :
  parse_program autovars switches ee (parse_format fc cli_font cli_maxlen ee) (lex hl hd hs src) = Parser.Ok p ->
  emit_program_instrs optimize mp p = Emitter.Ok prog ->
  NoDup (lnames prog) ->
  forall name glob body, In (name, glob, body) (scripts_of (tops p)) ->
  forall w code, emit_graph body = Emitter.Ok w ->
  emit_script mp (map xname (texts p)) name glob optimize body = Emitter.Ok code ->
  names_okb (finals w) code = true ->
  (forall l, In l (jtargets code) -> In l (lnames prog) -> In l (lnames code)) ->
  (forall n s, exists m, srun body n (enter body Kstop) s = run (@tfinal) (tstep prog) m (jump prog name) s) /\
  (forall m s, exists n, res_le (run (@tfinal) (tstep prog) m (jump prog name) s) (srun body n (enter body Kstop) s)).
Proof.
  intros HP HE ND name glob body HS w code HW HC NM SELF.
  destruct (script_in_program_facts hl hd hs autovars switches ee fc cli_font cli_maxlen src p optimize mp prog HP HE ND name glob body HS w code HW HC NM)
    as (HB & (pre & post & EP & DJ) & CL & NI & WR & LO).
  destruct (compiled_scripts_correct St exec flag_set trainer_beaten cmp_var cmp_var_value case_matches
              hl hd hs autovars switches ee fc cli_font cli_maxlen src p HP body HB mp (map xname (texts p)) name glob optimize w code HW HC WR LO) as [F B].
  subst prog.
  assert (EQ : forall m s, run (@tfinal) (tstep (pre ++ code ++ post)) m (jump (pre ++ code ++ post) name) s = run (@tfinal) (tstep code) m (jump code name) s).
  { intros m s. apply self_contained_script_runs_in_program_closed; auto. }
  split.
  - intros n s. destruct (F n s) as (m & E). exists m. rewrite EQ. exact E.
  - intros m s. destruct (B m s) as (n & R). exists n. rewrite EQ. exact R.
Qed.
End C01PROG.

(* ================================================================================================================== *)
(* PART 6: example - a program of two scripts; the first leaves with `goto(Second)`                                    *)
(* ================================================================================================================== *)
Section EXAMPLE.
Open Scope string_scope.
Definition nf (_ : N) : bool := false.
Definition fc0 : Format.fontcfg := {| Format.fcDefault := []; Format.fcFonts := [] |}.
Definition nl : string := String (ascii_of_nat 10) "".
Definition show (x : text) : string := string_of_list_ascii (map ascii_of_N x).
Definition ex_src : string :=
  "script First { lock" ++ nl ++ " if (flag(FLAG_A)) { Again: faceplayer } else { goto(Again) }" ++ nl ++ " goto(Second) }" ++ nl ++
  "script Second { msgbox(""hi"")" ++ nl ++ " release" ++ nl ++ " end }".
Definition ex_parse := parse_program [] [] false (parse_format fc0 [] 0%Z false) (lex nf nf nf (t ex_src)).
Definition ex_p : program := match ex_parse with Parser.Ok p => p | _ => {| tops := []; texts := [] |} end.
Definition ex_prog : list instr := match emit_program_instrs false None ex_p with Emitter.Ok x => x | _ => [] end.
Definition ex_sc (k : nat) : script := nth k (scripts_of (tops ex_p)) ([], false, []).
Definition ex_name k : text := Datatypes.fst (Datatypes.fst (ex_sc k)).
Definition ex_glob k : bool := Datatypes.snd (Datatypes.fst (ex_sc k)).
Definition ex_body k : list stmt := Datatypes.snd (ex_sc k).
Definition ex_w k : wst :=
  match emit_graph (ex_body k) with Emitter.Ok w => w | _ => {| remaining := []; finals := []; counter := 0; brk := []; org := [] |} end.
Definition ex_code k : list instr :=
  match emit_script None (map xname (texts ex_p)) (ex_name k) (ex_glob k) false (ex_body k) with Emitter.Ok c => c | _ => [] end.

(* the emitted program *)
Example ex_program_text :
  show (print_instrs None ex_prog) =
  "First::" ++ nl ++ "	lock" ++ nl ++ "	goto First_4" ++ nl ++ nl ++
  "First_1:" ++ nl ++ "	goto Second" ++ nl ++ "	return" ++ nl ++ nl ++
  "First_2:" ++ nl ++ "Again:" ++ nl ++ "	faceplayer" ++ nl ++ "	goto First_1" ++ nl ++ nl ++
  "First_3:" ++ nl ++ "	goto Again" ++ nl ++ "	goto First_1" ++ nl ++ nl ++
  "First_4:" ++ nl ++ "	goto_if_set FLAG_A, First_2" ++ nl ++ "	goto First_3" ++ nl ++ nl ++ nl ++
  "Second::" ++ nl ++ "	msgbox Second_Text_0" ++ nl ++ "	release" ++ nl ++ "	end" ++ nl ++ nl ++ nl ++
  "Second_Text_0:" ++ nl ++ "	.string ""hi$""" ++ nl.
Proof. vm_compute. reflexivity. Qed.

(* every hypothesis of theorems 5 and 6 holds for both scripts of this program *)
Example ex_hyp_parse : parse_program [] [] false (parse_format fc0 [] 0%Z false) (lex nf nf nf (t ex_src)) = Parser.Ok ex_p.
Proof. vm_compute. reflexivity. Qed.
Example ex_hyp_emit : emit_program_instrs false None ex_p = Emitter.Ok ex_prog.
Proof. vm_compute. reflexivity. Qed.
Example ex_hyp_labels : NoDup (lnames ex_prog) /\
  map show (lnames ex_prog) = ["First"; "First_1"; "First_2"; "Again"; "First_3"; "First_4"; "Second"; "Second_Text_0"].
Proof. split; [apply nodupt_sound|]; vm_compute; reflexivity. Qed.
Example ex_hyp_scripts : scripts_of (tops ex_p) = [(ex_name 0, ex_glob 0, ex_body 0); (ex_name 1, ex_glob 1, ex_body 1)] /\
  map show [ex_name 0; ex_name 1] = ["First"; "Second"].
Proof. split; vm_compute; reflexivity. Qed.
Example ex_hyp_graph k : (k < 2)%nat -> emit_graph (ex_body k) = Emitter.Ok (ex_w k).
Proof. intros H. destruct k as [|[|k]]; [vm_compute; reflexivity|vm_compute; reflexivity|lia]. Qed.
Example ex_hyp_code k : (k < 2)%nat ->
  emit_script None (map xname (texts ex_p)) (ex_name k) (ex_glob k) false (ex_body k) = Emitter.Ok (ex_code k).
Proof. intros H. destruct k as [|[|k]]; [vm_compute; reflexivity|vm_compute; reflexivity|lia]. Qed.
Example ex_hyp_names k : (k < 2)%nat -> names_okb (finals (ex_w k)) (ex_code k) = true.
Proof. intros H. destruct k as [|[|k]]; [vm_compute; reflexivity|vm_compute; reflexivity|lia]. Qed.
Example ex_hyp_in k : (k < 2)%nat -> In (ex_name k, ex_glob k, ex_body k) (scripts_of (tops ex_p)).
Proof. intros H. rewrite (proj1 ex_hyp_scripts). destruct k as [|[|k]]; [left; reflexivity|right; left; reflexivity|lia]. Qed.
(* the second script jumps nowhere; the first one jumps to Second, which its own code does not define *)
Example ex_hyp_self_contained : jtargets (ex_code 1) = [] /\
  map show (jtargets (ex_code 0)) = ["First_4"; "Second"; "First_1"; "Again"; "First_1"; "First_2"; "First_3"] /\
  existsb (text_eqb (t "Second")) (lnames (ex_code 0)) = false.
Proof. split; [|split]; vm_compute; reflexivity. Qed.

(* the hypotheses of theorems 1-3 (part 1): the code of Second as a segment of the program, closed, its labels not before it *)
Definition ex_pre : list instr := firstn 22 ex_prog.
Definition ex_post : list instr := skipn (22 + List.length (ex_code 1)) ex_prog.
Example ex_hyp_segment :
  ex_prog = (ex_pre ++ ex_code 1 ++ ex_post)%list /\ closed (ex_code 1) /\ closed (ex_code 0) /\
  (forall l, In l (lnames (ex_code 1)) -> ~ In l (lnames ex_pre)) /\ ex_post <> [].
Proof.
  assert (E : ex_prog = (ex_pre ++ ex_code 1 ++ ex_post)%list) by (vm_compute; reflexivity).
  split; [exact E|]. split; [apply closedb_sound; vm_compute; reflexivity|]. split; [apply closedb_sound; vm_compute; reflexivity|]. split.
  - intros l Hl Hp. pose proof (proj1 ex_hyp_labels) as ND. revert E ND Hl Hp.
    generalize ex_prog ex_pre (ex_code 1) ex_post. intros P A B C E ND Hl Hp. subst P. rewrite !lnames_app in ND.
    apply (nodup_app_disjoint _ _ l ND Hp). apply in_or_app. now left.
  - vm_compute. discriminate.
Qed.

(* theorems 5 and 6 applied to it, for every machine *)
Section APPLIED.
Variable St : Type.
Variable exec : cmd -> St -> stepres St.
Variable flag_set trainer_beaten : text -> St -> bool.
Variable cmp_var cmp_var_value : text -> text -> St -> comparison.
Variable case_matches : text -> text -> St -> bool.
Notation tstep := (tstep St exec flag_set trainer_beaten cmp_var cmp_var_value case_matches).
Notation srun body := (run sfinal (sstep St exec flag_set trainer_beaten cmp_var cmp_var_value case_matches (fun l => fl_body l body Kstop))).

(* script First, which leaves with goto(Second): theorem 5 *)
Example ex_first_in_program :
  (forall n s, exists m,
      match Datatypes.snd (srun (ex_body 0) n (enter (ex_body 0) Kstop) s) with
      | Done (OJumpOut l) =>
          exists k s', (k <= m)%nat /\
            steps (@tfinal) (tstep ex_prog) k (jump ex_prog (ex_name 0)) s (Datatypes.fst (srun (ex_body 0) n (enter (ex_body 0) Kstop) s)) (jump ex_prog l) s'
      | _ => run (@tfinal) (tstep ex_prog) m (jump ex_prog (ex_name 0)) s = srun (ex_body 0) n (enter (ex_body 0) Kstop) s
      end) /\
  (forall m s, exists n,
      res_le (run (@tfinal) (tstep ex_prog) m (jump ex_prog (ex_name 0)) s) (srun (ex_body 0) n (enter (ex_body 0) Kstop) s) \/
      exists l k s', Datatypes.snd (srun (ex_body 0) n (enter (ex_body 0) Kstop) s) = Done (OJumpOut l) /\ In l (lnames ex_prog) /\ (k <= m)%nat /\
        steps (@tfinal) (tstep ex_prog) k (jump ex_prog (ex_name 0)) s (Datatypes.fst (srun (ex_body 0) n (enter (ex_body 0) Kstop) s)) (jump ex_prog l) s').
Proof.
  exact (program_scripts_correct St exec flag_set trainer_beaten cmp_var cmp_var_value case_matches
           nf nf nf [] [] false fc0 [] 0%Z (t ex_src) ex_p false None ex_prog ex_hyp_parse ex_hyp_emit (proj1 ex_hyp_labels)
           (ex_name 0) (ex_glob 0) (ex_body 0) (ex_hyp_in 0 ltac:(lia)) (ex_w 0) (ex_code 0) (ex_hyp_graph 0 ltac:(lia)) (ex_hyp_code 0 ltac:(lia))
           (ex_hyp_names 0 ltac:(lia))).
Qed.

(* script Second, which jumps nowhere: theorem 6, C01 verbatim against the whole program *)
Example ex_second_in_program :
  (forall n s, exists m, srun (ex_body 1) n (enter (ex_body 1) Kstop) s = run (@tfinal) (tstep ex_prog) m (jump ex_prog (ex_name 1)) s) /\
  (forall m s, exists n, res_le (run (@tfinal) (tstep ex_prog) m (jump ex_prog (ex_name 1)) s) (srun (ex_body 1) n (enter (ex_body 1) Kstop) s)).
Proof.
  refine (program_self_contained_scripts_correct St exec flag_set trainer_beaten cmp_var cmp_var_value case_matches
           nf nf nf [] [] false fc0 [] 0%Z (t ex_src) ex_p false None ex_prog ex_hyp_parse ex_hyp_emit (proj1 ex_hyp_labels)
           (ex_name 1) (ex_glob 1) (ex_body 1) (ex_hyp_in 1 ltac:(lia)) (ex_w 1) (ex_code 1) (ex_hyp_graph 1 ltac:(lia)) (ex_hyp_code 1 ltac:(lia))
           (ex_hyp_names 1 ltac:(lia)) _).
  intros l H. rewrite (proj1 ex_hyp_self_contained) in H. destruct H.
Qed.
End APPLIED.

(* one concrete run (the hash oracle of SemTgt.v, seed 1): alone, First ends with the exit "goto Second"; inside the program the
   same two commands are followed by the commands of Second *)
Definition trun (code : list instr) (entry : text) (fuel : nat) (seed : N) : list text * status :=
  names_of (run (@tfinal) (tstep N o_exec o_flag o_trainer o_cmp o_cmpv o_case code) fuel (jump code entry) seed).
Example ex_run_alone : trun (ex_code 0) (ex_name 0) 40 1 = ([t "lock "; t "faceplayer "], Done (OJumpOut (t "Second"))).
Proof. vm_compute. reflexivity. Qed.
Example ex_run_in_program :
  trun ex_prog (ex_name 0) 40 1 = ([t "lock "; t "faceplayer "; t "msgbox Second_Text_0"; t "release "], Done OEnd).
Proof. vm_compute. reflexivity. Qed.
End EXAMPLE.
