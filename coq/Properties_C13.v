(* C13 - Using a constant is the same as writing its value. *)
From Coq Require Import List ZArith Bool.
From Pory Require Import Lexer Ast Parser C13Proofs.
Import ListNotations.

Theorem constant_use_is_its_value : forall consts x v, assoc consts x = Some v -> creplace consts x = v.
Proof. exact creplace_const. Qed.
Print Assumptions constant_use_is_its_value.

Theorem non_constant_untouched : forall consts x, assoc consts x = None -> creplace consts x = x.
Proof. exact creplace_other. Qed.
Print Assumptions non_constant_untouched.

(* a definition adds exactly one binding, for a name that was not defined, with a non-empty value; earlier bindings stay *)
Theorem const_definition_extends :
  forall fuel consts ts consts' ts', parse_const fuel consts ts = Ok (consts', ts') ->
    exists name v, consts' = (name, v) :: consts /\ assoc consts name = None /\ v <> [].
Proof. exact parse_const_extends. Qed.
Print Assumptions const_definition_extends.

Theorem const_redefinition_rejected :
  forall fuel consts ts ts1 v,
    expect_peek IDENT ts = Some ts1 -> assoc consts (tlit (cur ts1)) = Some v ->
    exists e, parse_const fuel consts ts = Err e /\ els e = tline (cur ts1) /\ ecs e = tsb (cur ts1).
Proof. exact C13Proofs.const_redefinition_rejected. Qed.
Print Assumptions const_redefinition_rejected.

(* ---------- one theorem per documented site (ConstSites.v) ---------- *)
(* `subst consts tk` = the substitution applied to the literal of one token. Whenever the model's parser accepts, the text it
   records at each documented position is the substitution applied token by token to exactly the source tokens of that
   position (then joined): command arguments, flag / var / defeated operands, comparison values, switch operands and case
   values, map-script table entries, mart items, and the value of a later constant definition. Negative half: command names,
   label names, movement steps and text content are recorded verbatim (those functions do not even take the constant table). *)

From Pory Require Import Consume ConstSites.
Theorem hyp_eof_ended_holds :
  forall (hl hd hs : N -> bool) (src : text), eof_ended (lex hl hd hs src).
Proof. exact ConstSites.hyp_eof_ended_holds. Qed.
Print Assumptions hyp_eof_ended_holds.

Theorem hyp_parse_format_holds :
  forall (fc : Format.fontcfg) (cli_font : text) (cli_maxlen : Z) (ee : bool) (ts : toks) (tk : token) (v sty : text) (ts' : toks),
  Format.parse_format fc cli_font cli_maxlen ee ts = Ok (tk, v, sty, ts') -> forall a : toks, advs a ts -> advs a ts'.
Proof. exact ConstSites.hyp_parse_format_holds. Qed.
Print Assumptions hyp_parse_format_holds.

Theorem command_arguments_site :
  forall (switches : list (text * text)) (env_errors : bool) (parse_format : toks -> res (token * text * text * toks))
    (consts : list (text * text)),
  (forall (ts : toks) (tk : token) (v sty : text) (ts' : toks),
   parse_format ts = Ok (tk, v, sty, ts') -> forall a : toks, advs a ts -> advs a ts') ->
  forall (f : nat) (script : text) (ts : toks) (c : cmd) (imp : impdata) (ts' : toks),
  command_stmt switches env_errors parse_format consts f script ts = Ok (c, imp, ts') ->
  eof_ended ts ->
  (peekis LPAREN ts = false -> cargs c = [] /\ ts' = ts) /\
  (peekis LPAREN ts = true ->
   exists (lp : token) (its : list aitem),
     ts = cur ts :: lp :: flat_map item_toks its ++ ts' /\
     is LPAREN lp = true /\ curis RPAREN ts' = true /\ Forall item_ok its /\ idepth 0 its = Some 0 /\ cargs c = group_args consts [] its).
Proof. exact ConstSites.command_arguments_site. Qed.
Print Assumptions command_arguments_site.

Theorem condition_operand_site :
  forall (autovars : list (text * autovar)) (switches : list (text * text)) (env_errors : bool)
    (parse_format : toks -> res (token * text * text * toks)) (consts : list (text * text)) (f : nat) (script : text) 
    (ts0 : toks) (l : leaf) (imp : impdata) (ts' : toks),
  leaf_expr autovars switches env_errors parse_format consts f script ts0 = Ok (l, imp, ts') ->
  eof_ended ts0 ->
  lpre l = None ->
  exists (pre : list token) (op lp : token) (seg : list token) (rp : token) (rest : list token),
    ts0 = pre ++ op :: lp :: seg ++ rp :: rest /\
    (pre = [cur ts0] /\ peekis NOT ts0 = false \/ (exists nt : token, pre = [cur ts0; nt] /\ is NOT nt = true /\ peekis NOT ts0 = true)) /\
    (ttype op = VAR \/ ttype op = FLAG \/ ttype op = DEFEATED) /\
    lk l = op_kind op /\
    is LPAREN lp = true /\
    seg <> [] /\
    Forall (fun tk : token => is RPAREN tk = false) seg /\
    is RPAREN rp = true /\
    loperand l = join sp (map (subst consts) seg) /\
    (peekis NOT ts0 = true ->
     lop l = OEq /\
     lvalue l =
     match lk l with
     | KVar => t (String.String (Ascii.Ascii false false false false true true false false) String.EmptyString)
     | _ =>
         t
           (String.String (Ascii.Ascii false true true false false false true false)
              (String.String (Ascii.Ascii true false false false false false true false)
                 (String.String (Ascii.Ascii false false true true false false true false)
                    (String.String (Ascii.Ascii true true false false true false true false)
                       (String.String (Ascii.Ascii true false true false false false true false) String.EmptyString)))))
     end /\ ts' = rest) /\
    (peekis NOT ts0 = false ->
     match lk l with
     | KVar => cond_var_operator consts f rest = Ok (lop l, lvalue l, lstrict l, ts')
     | _ => exists nm : String.string, cond_flag_operator rest nm = Ok (lop l, lvalue l, ts')
     end).
Proof. exact ConstSites.condition_operand_site. Qed.
Print Assumptions condition_operand_site.

Theorem comparison_value_site :
  forall (consts : list (text * text)) (f : nat) (ts : toks) (o : cmpop) (v : text) (strict : bool) (ts' : toks),
  cond_var_operator consts f ts = Ok (o, v, strict, ts') ->
  eof_ended ts ->
  is_cmp_tok (cur ts) = None /\
  o = ONe /\ v = t (String.String (Ascii.Ascii false false false false true true false false) String.EmptyString) /\ strict = false /\ ts' = ts \/
  is_cmp_tok (cur ts) = Some o /\
  strict = false /\
  (exists seg : list token,
     ts = cur ts :: seg ++ ts' /\
     Forall (fun tk : token => cmp_stop tk = false) seg /\ cmp_stop (cur ts') = true /\ v = join sp (map (subst consts) seg)) \/
  is_cmp_tok (cur ts) = Some o /\
  strict = true /\
  (exists (vt lp : token) (seg : list token) (rp : token),
     ts = cur ts :: vt :: lp :: seg ++ rp :: ts' /\
     is VALUE vt = true /\
     is LPAREN lp = true /\ is RPAREN rp = true /\ pdepth 0 seg = Some 0 /\ v = join sp (wrap_value (map (subst consts) seg))).
Proof. exact ConstSites.comparison_value_site. Qed.
Print Assumptions comparison_value_site.

Theorem switch_sites :
  forall (autovars : list (text * autovar)) (switches : list (text * text)) (env_errors : bool)
    (parse_format : toks -> res (token * text * text * toks)) (consts : list (text * text)),
  (forall (ts : toks) (tk : token) (v sty : text) (ts' : toks),
   parse_format ts = Ok (tk, v, sty, ts') -> forall a : toks, advs a ts -> advs a ts') ->
  forall (f : nat) (script : text) (bs cs : list nat) (ts : toks) (ss : list stmt) (imp : impdata) (ts' : toks),
  parse_switch autovars switches env_errors parse_format consts f script bs cs ts = Ok (ss, imp, ts') ->
  eof_ended ts ->
  exists (pre : list stmt) (tg : nat) (operand : text) (oline : Z) (cases : list (bool * text * Z * list stmt)),
    ss = pre ++ [SSwitch tg operand oline cases] /\
    Forall (case_from consts ts) cases /\
    (peekis VAR (adv ts) = true ->
     pre = [] /\
     (exists (lp vr lp2 : token) (seg : list token) (rp : token) (rest : list token),
        ts = cur ts :: lp :: vr :: lp2 :: seg ++ rp :: rest /\
        is LPAREN lp = true /\
        is VAR vr = true /\
        is LPAREN lp2 = true /\
        Forall (fun tk : token => is RPAREN tk = false /\ is EOF tk = false) seg /\
        is RPAREN rp = true /\ operand = join sp (map (subst consts) seg))).
Proof. exact ConstSites.switch_sites. Qed.
Print Assumptions switch_sites.

Theorem table_entry_site :
  forall (autovars : list (text * autovar)) (switches : list (text * text)) (env_errors : bool)
    (parse_format : toks -> res (token * text * text * toks)) (consts : list (text * text)),
  (forall (ts : toks) (tk : token) (v sty : text) (ts' : toks),
   parse_format ts = Ok (tk, v, sty, ts') -> forall a : toks, advs a ts -> advs a ts') ->
  forall (f : nat) (mapname tyname : text) (ts : toks) (i : nat) (acc : list tableentry) (imp : impdata) (r : list tableentry * impdata * toks),
  ms_table autovars switches env_errors parse_format consts (S f) mapname tyname ts i acc imp = Ok r ->
  eof_ended ts ->
  curis RBRACKET ts = false ->
  exists (e : tableentry) (post : toks) (imp1 : impdata) (ts1 : toks),
    entry_at consts ts e post /\
    advs post ts1 /\
    post <> ts1 /\ ms_table autovars switches env_errors parse_format consts f mapname tyname ts1 (S i) (acc ++ [e]) imp1 = Ok r.
Proof. exact ConstSites.table_entry_site. Qed.
Print Assumptions table_entry_site.

Theorem table_entries_site :
  forall (autovars : list (text * autovar)) (switches : list (text * text)) (env_errors : bool)
    (parse_format : toks -> res (token * text * text * toks)) (consts : list (text * text)),
  (forall (ts : toks) (tk : token) (v sty : text) (ts' : toks),
   parse_format ts = Ok (tk, v, sty, ts') -> forall a : toks, advs a ts -> advs a ts') ->
  forall (f : nat) (mapname tyname : text) (ts : toks) (i : nat) (acc : list tableentry) (imp : impdata) (es : list tableentry) 
    (imp' : impdata) (ts' : toks),
  ms_table autovars switches env_errors parse_format consts f mapname tyname ts i acc imp = Ok (es, imp', ts') ->
  eof_ended ts -> exists news : list tableentry, es = acc ++ news /\ Forall (entry_from consts ts) news.
Proof. exact ConstSites.table_entries_site. Qed.
Print Assumptions table_entries_site.

Theorem mart_items_site :
  forall (switches : list (text * text)) (env_errors : bool) (consts : list (text * text)) (f : nat) (ts : toks) (tp : top) (ts' : toks),
  parse_mart switches env_errors consts f ts = Ok (tp, ts') ->
  eof_ended ts ->
  exists (name : text) (g : bool) (tk : token) (itoks : list token),
    tp = TMart name g tk (map (subst consts) itoks) itoks /\
    Forall (src_ident ts) itoks /\
    curis RBRACE ts' = true /\
    (exists pre seg : list token,
       ts = pre ++ seg ++ ts' /\ is LBRACE (last pre eof0) = true /\ (Forall (fun tk0 : token => is PORYSWITCH tk0 = false) seg -> itoks = seg)).
Proof. exact ConstSites.mart_items_site. Qed.
Print Assumptions mart_items_site.

Theorem const_definition_site :
  forall (consts : list (text * text)) (f : nat) (ts : toks) (consts' : list (text * text)) (ts' : toks),
  parse_const f consts ts = Ok (consts', ts') ->
  eof_ended ts ->
  length ts <= f ->
  exists (nm asg : token) (seg rest : list token),
    ts = cur ts :: nm :: asg :: seg ++ rest /\
    is IDENT nm = true /\
    is ASSIGN asg = true /\
    Forall (fun tk : token => is_toplevel (ttype tk) = false) seg /\
    seg <> [] /\
    ts' = last seg eof0 :: rest /\
    is_toplevel (ttype (pk 1 ts')) || curis EOF ts' = true /\
    assoc consts (tlit nm) = None /\ consts' = (tlit nm, sb_join (map (subst consts) seg)) :: consts.
Proof. exact ConstSites.const_definition_site. Qed.
Print Assumptions const_definition_site.

Theorem program_constants_site :
  forall (autovars : list (text * autovar)) (switches : list (text * text)) (env_errors : bool)
    (parse_format : toks -> res (token * text * text * toks)),
  (forall (ts : toks) (tk : token) (v sty : text) (ts' : toks),
   parse_format ts = Ok (tk, v, sty, ts') -> forall a : toks, advs a ts -> advs a ts') ->
  forall (f : nat) (st : pstate) (ts : toks) (st' : pstate),
  parse_tops autovars switches env_errors parse_format f st ts = Ok st' ->
  eof_ended ts -> length ts < f -> consts_from ts (pconsts st) (pconsts st').
Proof. exact ConstSites.program_constants_site. Qed.
Print Assumptions program_constants_site.

Theorem command_name_verbatim :
  forall (switches : list (text * text)) (env_errors : bool) (parse_format : toks -> res (token * text * text * toks))
    (consts : list (text * text)) (f : nat) (script : text) (ts : toks) (c : cmd) (imp : impdata) (ts' : toks),
  command_stmt switches env_errors parse_format consts f script ts = Ok (c, imp, ts') -> cname c = tlit (cur ts) /\ ctok c = cur ts.
Proof. exact ConstSites.command_name_verbatim. Qed.
Print Assumptions command_name_verbatim.

Theorem label_name_verbatim :
  forall (ts : toks) (l : stmt) (ts' : toks), try_label ts = Some (l, ts') -> exists g : bool, l = SLabel (tlit (cur ts)) g (cur ts).
Proof. exact ConstSites.label_name_verbatim. Qed.
Print Assumptions label_name_verbatim.

Theorem identifier_statement_verbatim :
  forall (autovars : list (text * autovar)) (switches : list (text * text)) (env_errors : bool)
    (parse_format : toks -> res (token * text * text * toks)) (consts : list (text * text)) (f : nat) (script : text) 
    (bs cs : list nat) (ts : toks) (ss : list stmt) (imp : impdata) (ts' : toks),
  parse_stmt autovars switches env_errors parse_format consts f script bs cs ts = Ok (ss, imp, ts') ->
  ttype (cur ts) = IDENT ->
  (exists g : bool, ss = [SLabel (tlit (cur ts)) g (cur ts)]) \/ (exists c : cmd, ss = [SCmd c] /\ cname c = tlit (cur ts) /\ ctok c = cur ts).
Proof. exact ConstSites.identifier_statement_verbatim. Qed.
Print Assumptions identifier_statement_verbatim.

Theorem names_verbatim_everywhere :
  forall (autovars : list (text * autovar)) (switches : list (text * text)) (env_errors : bool)
    (parse_format : toks -> res (token * text * text * toks)) (consts : list (text * text)),
  (forall (ts : toks) (tk : token) (v sty : text) (ts' : toks),
   parse_format ts = Ok (tk, v, sty, ts') -> forall a : toks, advs a ts -> advs a ts') ->
  forall (f : nat) (script : text) (bs cs : list nat) (start : token) (ts : toks) (ss : list stmt) (imp : impdata) (ts' : toks),
  parse_block autovars switches env_errors parse_format consts f script bs cs start ts [] imp0 = Ok (ss, imp, ts') ->
  ts <> [] -> Forall (vstmt ts) ss.
Proof. exact ConstSites.names_verbatim_everywhere. Qed.
Print Assumptions names_verbatim_everywhere.

Theorem movement_steps_verbatim :
  forall (switches : list (text * text)) (env_errors : bool) (f : nat) (ts : toks) (tp : top) (ts' : toks),
  parse_movement switches env_errors f ts = Ok (tp, ts') ->
  exists (name : text) (g : bool) (tk : token) (steps : list token), tp = TMovement name g tk steps /\ Forall (src_ident ts) steps.
Proof. exact ConstSites.movement_steps_verbatim. Qed.
Print Assumptions movement_steps_verbatim.

Theorem moves_operator_verbatim :
  forall (switches : list (text * text)) (env_errors : bool) (f : nat) (ts : toks) (steps : list token) (ts' : toks),
  moves_operator switches env_errors f ts = Ok (steps, ts') -> Forall (src_ident ts) steps.
Proof. exact ConstSites.moves_operator_verbatim. Qed.
Print Assumptions moves_operator_verbatim.

Theorem text_content_verbatim :
  forall (parse_format : toks -> res (token * text * text * toks)) (ts : toks) (v sty : text) (ts' : toks),
  text_value parse_format ts = Ok (v, sty, ts') ->
  curis STRING ts = true /\ sty = [] /\ v = terminate (tlit (cur ts)) [] /\ ts' = ts \/
  curis STRINGTYPE ts = true /\ curis STRING (adv ts) = true /\ sty = tlit (cur ts) /\ v = terminate (tlit (cur (adv ts))) sty /\ ts' = adv ts \/
  curis FORMAT ts = true /\ (exists (tk : token) (v0 : text), parse_format ts = Ok (tk, v0, sty, ts') /\ v = terminate v0 sty).
Proof. exact ConstSites.text_content_verbatim. Qed.
Print Assumptions text_content_verbatim.

Theorem command_args_implicit :
  forall (switches : list (text * text)) (env_errors : bool) (parse_format : toks -> res (token * text * text * toks))
    (consts : list (text * text)),
  (forall (ts : toks) (tk : token) (v sty : text) (ts' : toks),
   parse_format ts = Ok (tk, v, sty, ts') -> forall a : toks, advs a ts -> advs a ts') ->
  forall (f : nat) (script : text) (cmdtok : token) (cidv : nat) (ts : toks) (depth : nat) (parts args : list text) 
    (imp : impdata) (args' : list text) (imp' : impdata) (ts' base : toks),
  command_args switches env_errors parse_format consts f script cmdtok cidv ts depth parts args imp = Ok (args', imp', ts') ->
  advs base ts ->
  exists (nt : list imptext) (nm : list impmov),
    idT imp' = idT imp ++ nt /\
    idM imp' = idM imp ++ nm /\ Forall (text_from parse_format base) nt /\ Forall (fun im : impmov => Forall (src_ident base) (imToks im)) nm.
Proof. exact ConstSites.command_args_implicit. Qed.
Print Assumptions command_args_implicit.


(* ConstTwin.v *)
From Pory Require ConstTwin.
Theorem command_arguments_twin_rel :
  forall (switches : list (text * text)) (env_errors : bool) (parse_format : toks -> res (token * text * text * toks))
    (c c' : list (text * text)) (f : nat) (script : text) (name lp : token) (a a' : CmdArgs.arglist) (rp : token) (rest : list token),
  ttype lp = LPAREN ->
  ttype rp = RPAREN ->
  CmdArgs.wf_args switches env_errors parse_format a ->
  CmdArgs.balanced (CmdArgs.flat a) ->
  length (CmdArgs.arg_tokens a) < f ->
  ConstTwin.arel c c' a a' ->
  command_stmt switches env_errors parse_format c' f script (name :: lp :: CmdArgs.arg_tokens a' ++ rp :: rest) =
  command_stmt switches env_errors parse_format c f script (name :: lp :: CmdArgs.arg_tokens a ++ rp :: rest).
Proof. exact ConstTwin.command_arguments_twin_rel. Qed.
Print Assumptions command_arguments_twin_rel.

Theorem command_arguments_twin_all :
  forall (switches : list (text * text)) (env_errors : bool) (parse_format : toks -> res (token * text * text * toks)) 
    (c : list (text * text)) (f : nat) (script : text) (name lp : token) (a : CmdArgs.arglist) (rp : token) (rest : list token),
  ttype lp = LPAREN ->
  ttype rp = RPAREN ->
  CmdArgs.wf_args switches env_errors parse_format a ->
  CmdArgs.balanced (CmdArgs.flat a) ->
  length (CmdArgs.arg_tokens a) < f ->
  command_stmt switches env_errors parse_format [] f script
    (name :: lp :: CmdArgs.arg_tokens (ConstTwin.retok_args c (fun _ : token => true) a) ++ rp :: rest) =
  command_stmt switches env_errors parse_format c f script (name :: lp :: CmdArgs.arg_tokens a ++ rp :: rest).
Proof. exact ConstTwin.command_arguments_twin_all. Qed.
Print Assumptions command_arguments_twin_all.

Theorem command_arguments_twin_some :
  forall (switches : list (text * text)) (env_errors : bool) (parse_format : toks -> res (token * text * text * toks)) 
    (c : list (text * text)) (sel : token -> bool) (f : nat) (script : text) (name lp : token) (a : CmdArgs.arglist) 
    (rp : token) (rest : list token),
  ttype lp = LPAREN ->
  ttype rp = RPAREN ->
  CmdArgs.wf_args switches env_errors parse_format a ->
  CmdArgs.balanced (CmdArgs.flat a) ->
  length (CmdArgs.arg_tokens a) < f ->
  (forall tk : token, sel tk = true -> creplace c (creplace c (tlit tk)) = creplace c (tlit tk)) ->
  command_stmt switches env_errors parse_format c f script (name :: lp :: CmdArgs.arg_tokens (ConstTwin.retok_args c sel a) ++ rp :: rest) =
  command_stmt switches env_errors parse_format c f script (name :: lp :: CmdArgs.arg_tokens a ++ rp :: rest).
Proof. exact ConstTwin.command_arguments_twin_some. Qed.
Print Assumptions command_arguments_twin_some.

Theorem command_arguments_twin_const :
  forall (switches : list (text * text)) (env_errors : bool) (parse_format : toks -> res (token * text * text * toks)) 
    (c : list (text * text)) (x v : text) (sel : token -> bool) (f : nat) (script : text) (name lp : token) (a : CmdArgs.arglist) 
    (rp : token) (rest : list token),
  assoc c x = Some v ->
  assoc c v = None ->
  (forall tk : token, sel tk = true -> tlit tk = x) ->
  ttype lp = LPAREN ->
  ttype rp = RPAREN ->
  CmdArgs.wf_args switches env_errors parse_format a ->
  CmdArgs.balanced (CmdArgs.flat a) ->
  length (CmdArgs.arg_tokens a) < f ->
  command_stmt switches env_errors parse_format c f script (name :: lp :: CmdArgs.arg_tokens (ConstTwin.retok_args c sel a) ++ rp :: rest) =
  command_stmt switches env_errors parse_format c f script (name :: lp :: CmdArgs.arg_tokens a ++ rp :: rest) /\
  (forall tk : token, sel tk = true -> ConstTwin.retok c tk = set_lit tk v).
Proof. exact ConstTwin.command_arguments_twin_const. Qed.
Print Assumptions command_arguments_twin_const.

Theorem command_stmt_twin_stream_rel :
  forall (switches : list (text * text)) (env_errors : bool) (parse_format : toks -> res (token * text * text * toks)),
  (forall (ts : toks) (tk : token) (v sty : text) (ts' : toks),
   parse_format ts = Ok (tk, v, sty, ts') -> forall a : toks, advs a ts -> advs a ts') ->
  forall (c c' : list (text * text)) (sel : token -> bool) (f : nat) (script : text) (name lp : token) (r : list token) 
    (cm : cmd) (imp : impdata) (ts' : toks),
  eof_ended (name :: lp :: r) ->
  Forall CmdConverse.no_subparser_tok (name :: lp :: r) ->
  ttype lp = LPAREN ->
  (forall tk : token, sel tk = true -> creplace c' (creplace c (tlit tk)) = creplace c (tlit tk)) ->
  (forall tk : token, sel tk = false -> creplace c' (tlit tk) = creplace c (tlit tk)) ->
  command_stmt switches env_errors parse_format c f script (name :: lp :: r) = Ok (cm, imp, ts') ->
  forall f' : nat,
  length r < f' ->
  command_stmt switches env_errors parse_format c' f' script (name :: lp :: ConstTwin.retok_stream c sel 0 r) = Ok (cm, imp, ts').
Proof. exact ConstTwin.command_stmt_twin_stream_rel. Qed.
Print Assumptions command_stmt_twin_stream_rel.

Theorem command_stmt_twin_stream_all :
  forall (switches : list (text * text)) (env_errors : bool) (parse_format : toks -> res (token * text * text * toks)),
  (forall (ts : toks) (tk : token) (v sty : text) (ts' : toks),
   parse_format ts = Ok (tk, v, sty, ts') -> forall a : toks, advs a ts -> advs a ts') ->
  forall (c : list (text * text)) (f : nat) (script : text) (name lp : token) (r : list token) (cm : cmd) (imp : impdata) (ts' : toks),
  eof_ended (name :: lp :: r) ->
  Forall CmdConverse.no_subparser_tok (name :: lp :: r) ->
  ttype lp = LPAREN ->
  command_stmt switches env_errors parse_format c f script (name :: lp :: r) = Ok (cm, imp, ts') ->
  forall f' : nat,
  length r < f' ->
  command_stmt switches env_errors parse_format [] f' script (name :: lp :: ConstTwin.retok_stream c (fun _ : token => true) 0 r) =
  Ok (cm, imp, ts').
Proof. exact ConstTwin.command_stmt_twin_stream_all. Qed.
Print Assumptions command_stmt_twin_stream_all.

Theorem command_stmt_twin_stream_const :
  forall (switches : list (text * text)) (env_errors : bool) (parse_format : toks -> res (token * text * text * toks)),
  (forall (ts : toks) (tk : token) (v sty : text) (ts' : toks),
   parse_format ts = Ok (tk, v, sty, ts') -> forall a : toks, advs a ts -> advs a ts') ->
  forall (c : list (text * text)) (x v : text) (sel : token -> bool) (f : nat) (script : text) (name lp : token) (r : list token) 
    (cm : cmd) (imp : impdata) (ts' : toks),
  assoc c x = Some v ->
  assoc c v = None ->
  (forall tk : token, sel tk = true -> tlit tk = x) ->
  eof_ended (name :: lp :: r) ->
  Forall CmdConverse.no_subparser_tok (name :: lp :: r) ->
  ttype lp = LPAREN ->
  command_stmt switches env_errors parse_format c f script (name :: lp :: r) = Ok (cm, imp, ts') ->
  forall f' : nat,
  length r < f' ->
  command_stmt switches env_errors parse_format c f' script (name :: lp :: ConstTwin.retok_stream c sel 0 r) = Ok (cm, imp, ts').
Proof. exact ConstTwin.command_stmt_twin_stream_const. Qed.
Print Assumptions command_stmt_twin_stream_const.

Theorem comparison_value_twin :
  forall (c : list (text * text)) (f : nat) (ts : toks) (res0 : cmpop * text * bool * toks),
  eof_ended ts -> cond_var_operator c f ts = Ok res0 -> cond_var_operator [] f (ConstTwin.retok_cmp c ts) = Ok res0.
Proof. exact ConstTwin.comparison_value_twin. Qed.
Print Assumptions comparison_value_twin.

Theorem condition_operand_twin :
  forall (autovars : list (text * autovar)) (switches : list (text * text)) (env_errors : bool)
    (parse_format : toks -> res (token * text * text * toks)) (c : list (text * text)) (f : nat) (script : text) (ts0 : toks)
    (res0 : leaf * impdata * toks),
  eof_ended ts0 ->
  peek_is_autovar autovars (if peekis NOT ts0 then adv ts0 else ts0) = false ->
  leaf_expr autovars switches env_errors parse_format c f script ts0 = Ok res0 ->
  leaf_expr autovars switches env_errors parse_format [] f script (ConstTwin.retok_leaf c ts0) = Ok res0.
Proof. exact ConstTwin.condition_operand_twin. Qed.
Print Assumptions condition_operand_twin.

Theorem switch_operand_twin_var :
  forall (autovars : list (text * autovar)) (switches : list (text * text)) (env_errors : bool)
    (parse_format : toks -> res (token * text * text * toks)) (c : list (text * text)),
  (forall x : text, creplace c (creplace c x) = creplace c x) ->
  forall (f : nat) (script : text) (bs cs : list nat) (sw lp v lp2 : token) (r : list token) (res0 : list stmt * impdata * toks),
  eof_ended (sw :: lp :: v :: lp2 :: r) ->
  ttype v = VAR ->
  parse_switch autovars switches env_errors parse_format c (S f) script bs cs (sw :: lp :: v :: lp2 :: r) = Ok res0 ->
  parse_switch autovars switches env_errors parse_format c (S f) script bs cs (sw :: lp :: v :: lp2 :: ConstTwin.retok_until c (is RPAREN) r) =
  Ok res0.
Proof. exact ConstTwin.switch_operand_twin_var. Qed.
Print Assumptions switch_operand_twin_var.

Theorem case_value_twin :
  forall (autovars : list (text * autovar)) (switches : list (text * text)) (env_errors : bool)
    (parse_format : toks -> res (token * text * text * toks)) (c : list (text * text)),
  (forall x : text, creplace c (creplace c x) = creplace c x) ->
  forall (f : nat) (script : text) (bs cs : list nat) (brace : token) (ts : toks) (acc : list scase) (seen : list text) 
    (hasdef : bool) (imp : impdata) (res0 : list scase * impdata * toks),
  eof_ended ts ->
  curis CASE ts = true ->
  parse_cases autovars switches env_errors parse_format c (S f) script bs cs brace ts acc seen hasdef imp = Ok res0 ->
  parse_cases autovars switches env_errors parse_format c (S f) script bs cs brace (cur ts :: ConstTwin.retok_until c (is COLON) (adv ts)) acc
    seen hasdef imp = Ok res0.
Proof. exact ConstTwin.case_value_twin. Qed.
Print Assumptions case_value_twin.

