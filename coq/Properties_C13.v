(* C13 - Using a constant is the same as writing its value. *)
From Coq Require Import List ZArith Bool.
From Pory Require Import Lexer Ast Parser C13Proofs.
Import ListNotations.

Theorem constant_use_is_its_value : forall consts x v, assoc consts x = Some v -> creplace consts x = v.
Proof. exact creplace_const. Qed.
Print Assumptions constant_use_is_its_value.

Theorem non_constant_untouched : forall consts x, assoc consts x = None -> creplace consts x = x.
Proof. exact creplace_other. Qed.
Print Assumptions non_constant_untouched.

(* a definition adds exactly one binding, for a name that was not defined, with a non-empty value; earlier bindings stay *)
Theorem const_definition_extends :
  forall fuel consts ts consts' ts', parse_const fuel consts ts = Ok (consts', ts') ->
    exists name v, consts' = (name, v) :: consts /\ assoc consts name = None /\ v <> [].
Proof. exact parse_const_extends. Qed.
Print Assumptions const_definition_extends.

Theorem const_redefinition_rejected :
  forall fuel consts ts ts1 v,
    expect_peek IDENT ts = Some ts1 -> assoc consts (tlit (cur ts1)) = Some v ->
    exists e, parse_const fuel consts ts = Err e /\ els e = tline (cur ts1) /\ ecs e = tsb (cur ts1).
Proof. exact C13Proofs.const_redefinition_rejected. Qed.
Print Assumptions const_redefinition_rejected.
