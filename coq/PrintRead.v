(* B15 - PRINTING THE INSTRUCTION LIST AND READING THE TEXT BACK PRESERVES THE BEHAVIOUR OF THE TARGET MACHINE.

   C01 (C01Top.compiled_scripts_correct_from_source) is about the instruction list [code] that [emit_script] returns; the
   compiler's output is the text [print_instrs mpath code], and the oracle of the checks reads that text back with
   [SemTgt.read_asm].  This file closes the gap between the two.

   What the reader makes of one printed line ([read_printed], all seventeen constructors; [line_of] is the printed line
   without its newline, [print_line]):
     ILabel n g                      itself        if n has no newline, does not start with tab or '#', and (g or n does not end in ':')
     IGoto / IGotoIfCmp / ICheckTrainer / ISwitch   itself   if the operand is a non-empty clean argument
     IGotoIfSet / IGotoIfUnset / ICompare / ICase   itself   if both operands are clean arguments
     IGotoIf b l                     itself        if l is a clean argument
     IReturn, IEnd, IBlank           themselves
     IMarker line                    IMarker 0     (if the path has no newline: needed for the line structure only)
     ICmd c                          ICmd (strip c): same name and arguments, the reader's dummy token and index 0 -
                                     except name "goto" with one argument: IGoto; name "return": IReturn; name "end": IEnd
                                     (the machine treats these commands exactly so) -
                                     if the name has no newline / space, every argument is clean, the arguments are not [""]
                                     ("foo(,)": printed "foo ", read back without argument), and the name is not one of the
                                     machine's own instruction names ([branch_names]: compare, switch, goto_if_eq ...):
                                     such a plain command is an interpreter command for the instruction list and a
                                     branch for the text (Example branch_named_commands_differ)
     ILine s                         IBlank / IMarker 0 / ILine s (all skipped by the machine) if s has no newline, does not
                                     start with a tab and (starts with '#' or does not end in ':')
     IData d c                       never itself: the line starts with a tab and is read as a command named ".<d>"
                                     (not printable; scripts contain no data lines)
   clean argument ([clean_arg]): no newline, no comma, no space at either end (the reader splits at commas and trims).

   The text as a whole ([read_asm_print]): read_asm (print_instrs mpath code) = map rb code ++ [IBlank] - the text ends with a
   newline, so the reader sees one more, empty, line.

   The machine (sections MACH, MAIN): positions and labels are the same in both lists, so the two machines run in lockstep
   on identical states; the commands of the trace come back without token and index ([strip_res]), the interpreter must not
   look at them ([token_blind]; or, for an arbitrary interpreter, the instruction list is run with [fun c => exec (strip c)]).
     print_read_behaviour(_any_exec)         two simulations in the shape of C01 (exact forward, [res_le] backward): a run that
                                             leaves the code at its end needs one more step on the text (the extra line)
     print_read_behaviour_exact(_any_exec)   equality of [run] fuel for fuel when [closed_code code]: read from the end, no
                                             label before the last goto / return / end - the shape of every emitted script
     run_target_print_read                   the oracle function [run_target] gives equal answers on both
     compiled_text_correct_from_source(_any_exec)   C01 from the source text down to the printed text
   Examples (section EXAMPLES): every hypothesis holds for the model's output on a real source text (line markers on, both
   -optimize settings); four examples show that the conditions cannot be dropped. *)
From Coq Require Import List String Ascii ZArith NArith Lia Bool.
From Pory Require Import Lexer Ast Emitter Sem2 SemTgt.
Import ListNotations.
Open Scope list_scope.

(* ================================================================================================================== *)
(* 1. characters                                                                                                      *)
(* ================================================================================================================== *)

(* case analysis on a code point down to 6 bits: enough to decide the comparisons with 9 10 32 35 44 58 *)
Ltac deepN c :=
  let p := fresh "p" in
  destruct c as [|p]; [try reflexivity|];
  do 6 (try (destruct p as [p|p|]; try reflexivity)).

Definition nochar (c : N) (s : text) : bool := forallb (fun x => negb (x =? c)%N) s.

Lemma nochar_app c a b : nochar c (a ++ b) = nochar c a && nochar c b.
Proof. unfold nochar. apply forallb_app. Qed.
Lemma nochar_cons c x a : nochar c (x :: a) = negb (x =? c)%N && nochar c a.
Proof. reflexivity. Qed.

(* ---------- equations of the reader's helper functions in terms of N.eqb ---------- *)
Lemma ltrim_eq s : ltrim s = match s with [] => [] | c :: r => if (c =? 32)%N then ltrim r else s end.
Proof. destruct s as [|c r]; [reflexivity|]. deepN c. Qed.

Lemma sfs_eq s acc : split_first_space s acc =
  match s with [] => (rev acc, []) | c :: r => if (c =? 32)%N then (rev acc, r) else split_first_space r (c :: acc) end.
Proof. destruct s as [|c r]; [reflexivity|]. deepN c. Qed.

(* the last-characters test of [read_line] *)
Definition tail_class (l : text) : instr :=
  match rev l with
  | [] => ILine l
  | x :: r1 => if (x =? 58)%N
               then match r1 with
                    | [] => ILabel (rev r1) false
                    | y :: r2 => if (y =? 58)%N then ILabel (rev r2) true else ILabel (rev r1) false
                    end
               else ILine l
  end.

Lemma colon_match (A : Type) (l : text) (a b : text -> A) (c : A) :
  match l with 58%N :: 58%N :: r => a r | 58%N :: r => b r | _ => c end =
  match l with
  | [] => c
  | x :: r1 => if (x =? 58)%N then match r1 with [] => b r1 | y :: r2 => if (y =? 58)%N then a r2 else b r1 end else c
  end.
Proof.
  destruct l as [|x r1]; [reflexivity|]. deepN x.
  destruct r1 as [|y r2]; [reflexivity|]. deepN y.
Qed.

Lemma read_line_other c r : c <> 9%N -> c <> 35%N -> read_line (c :: r) = tail_class (c :: r).
Proof.
  intros H9 H35. unfold tail_class. rewrite <- colon_match. deepN c; congruence.
Qed.

(* ---------- the command part of [read_line], named ---------- *)
Definition opaque_cmd (name : text) (args : list text) : instr :=
  ICmd {| cname := name; cargs := args; ctok := dummy_tok; Ast.cid := 0 |}.

Definition decode (name : text) (args : list text) : instr :=
  let opaque := opaque_cmd name args in
  if text_eqb name (t "goto") then match args with [a] => IGoto a | _ => opaque end
  else if text_eqb name (t "goto_if_set") then match args with [a; b] => IGotoIfSet a b | _ => opaque end
  else if text_eqb name (t "goto_if_unset") then match args with [a; b] => IGotoIfUnset a b | _ => opaque end
  else if text_eqb name (t "compare") then match args with [a; b] => ICompare false a b | _ => opaque end
  else if text_eqb name (t "compare_var_to_value") then match args with [a; b] => ICompare true a b | _ => opaque end
  else if text_eqb name (t "checktrainerflag") then match args with [a] => ICheckTrainer a | _ => opaque end
  else if text_eqb name (t "goto_if") then match args with [a; b] => IGotoIf (text_eqb a (t "1")) b | _ => opaque end
  else if text_eqb name (t "switch") then match args with [a] => ISwitch a | _ => opaque end
  else if text_eqb name (t "case") then match args with [a; b] => ICase a b | _ => opaque end
  else if text_eqb name (t "return") then IReturn
  else if text_eqb name (t "end") then IEnd
  else match starts (t "goto_if_") name, args with
       | Some o, [a] => match op_of o with Some op => IGotoIfCmp op a | None => opaque end
       | _, _ => opaque
       end.

Definition read_cmd (body : text) : instr :=
  let '(name, rest) := split_first_space body [] in
  decode name (match rest with [] => [] | _ => split_args rest end).

Lemma read_line_tab body : read_line (9%N :: body) = read_cmd body.
Proof. reflexivity. Qed.
Lemma read_line_hash r : read_line (35%N :: r) = IMarker 0.
Proof. reflexivity. Qed.
Lemma read_line_nil : read_line [] = IBlank.
Proof. reflexivity. Qed.

(* ================================================================================================================== *)
(* 2. splitting                                                                                                       *)
(* ================================================================================================================== *)
Lemma sfs_name : forall name acc r, nochar 32 name = true ->
  split_first_space (name ++ 32%N :: r) acc = (rev acc ++ name, r).
Proof.
  induction name as [|c name IH]; intros acc r H; rewrite sfs_eq; cbn [app].
  - rewrite N.eqb_refl, app_nil_r. reflexivity.
  - rewrite nochar_cons in H. apply andb_prop in H. destruct H as [H1 H2]. apply negb_true_iff in H1. rewrite H1.
    rewrite IH by exact H2. cbn [rev]. rewrite <- app_assoc. reflexivity.
Qed.
Lemma sfs_name_nil : forall name acc, nochar 32 name = true -> split_first_space name acc = (rev acc ++ name, []).
Proof.
  induction name as [|c name IH]; intros acc H; rewrite sfs_eq.
  - rewrite app_nil_r. reflexivity.
  - rewrite nochar_cons in H. apply andb_prop in H. destruct H as [H1 H2]. apply negb_true_iff in H1. rewrite H1.
    rewrite IH by exact H2. cbn [rev]. rewrite <- app_assoc. reflexivity.
Qed.

Lemma split_on_line sep : forall l acc r, nochar sep l = true ->
  split_on sep (l ++ sep :: r) acc = (rev acc ++ l) :: split_on sep r [].
Proof.
  induction l as [|c l IH]; intros acc r H; cbn [app split_on].
  - rewrite N.eqb_refl, app_nil_r. reflexivity.
  - rewrite nochar_cons in H. apply andb_prop in H. destruct H as [H1 H2]. apply negb_true_iff in H1. rewrite H1.
    rewrite IH by exact H2. cbn [rev]. rewrite <- app_assoc. reflexivity.
Qed.
Lemma split_on_last sep : forall l acc, nochar sep l = true -> split_on sep l acc = [rev acc ++ l].
Proof.
  induction l as [|c l IH]; intros acc H; cbn [split_on].
  - rewrite app_nil_r. reflexivity.
  - rewrite nochar_cons in H. apply andb_prop in H. destruct H as [H1 H2]. apply negb_true_iff in H1. rewrite H1.
    rewrite IH by exact H2. cbn [rev]. rewrite <- app_assoc. reflexivity.
Qed.

(* ---------- arguments ---------- *)
Definition no_lead_space (a : text) : bool := match a with [] => true | c :: _ => negb (c =? 32)%N end.
(* an argument the reader gives back unchanged: no newline, no comma, no space at either end *)
Definition clean_arg (a : text) : bool :=
  nochar 10 a && nochar 44 a && no_lead_space a && no_lead_space (rev a).
Definition clean_name (n : text) : bool := nochar 10 n && nochar 32 n.

Lemma ltrim_id a : no_lead_space a = true -> ltrim a = a.
Proof. intros H. rewrite ltrim_eq. destruct a as [|c r]; [reflexivity|]. cbn in H. apply negb_true_iff in H. rewrite H. reflexivity. Qed.
Lemma trim_id a : no_lead_space a = true -> no_lead_space (rev a) = true -> trim a = a.
Proof. intros H1 H2. unfold trim. rewrite (ltrim_id a H1), (ltrim_id _ H2). apply rev_involutive. Qed.
Lemma trim_sp a : no_lead_space a = true -> no_lead_space (rev a) = true -> trim (32%N :: a) = a.
Proof. intros H1 H2. unfold trim. rewrite (ltrim_eq (32%N :: a)). rewrite N.eqb_refl. apply trim_id; assumption. Qed.

Definition sep2 : text := [44%N; 32%N].

Lemma clean_parts a : clean_arg a = true ->
  nochar 10 a = true /\ nochar 44 a = true /\ no_lead_space a = true /\ no_lead_space (rev a) = true.
Proof.
  unfold clean_arg. intros H. apply andb_prop in H. destruct H as [H H4]. apply andb_prop in H. destruct H as [H H3].
  apply andb_prop in H. destruct H as [H1 H2]. auto.
Qed.

(* splitting the joined arguments gives the arguments back; [pre] is the space that follows a comma *)
Lemma split_join_pre : forall args (pre : bool), args <> [] -> forallb clean_arg args = true ->
  map trim (split_on 44 ((if pre then [32%N] else []) ++ join sep2 args) []) = args.
Proof.
  induction args as [|a args IH]; intros pre NE H; [congruence|].
  cbn [forallb] in H. apply andb_prop in H. destruct H as [Ha H]. destruct (clean_parts a Ha) as (_ & C2 & C3 & C4).
  assert (TR : trim ((if pre then [32%N] else []) ++ a) = a).
  { destruct pre; cbn [app]; [apply trim_sp|apply trim_id]; assumption. }
  assert (NC : nochar 44 ((if pre then [32%N] else []) ++ a) = true).
  { rewrite nochar_app, C2. destruct pre; reflexivity. }
  destruct args as [|b args].
  - cbn [join]. rewrite split_on_last by exact NC. cbn [rev app map]. rewrite TR. reflexivity.
  - change (join sep2 (a :: b :: args)) with (a ++ sep2 ++ join sep2 (b :: args)).
    unfold sep2 at 1. cbn [app]. rewrite app_assoc. rewrite split_on_line by exact NC. cbn [rev app map]. rewrite TR. f_equal.
    apply (IH true); [discriminate|exact H].
Qed.

Lemma join_nil_iff args : forallb clean_arg args = true -> join sep2 args = [] -> args = [] \/ args = [[]].
Proof.
  destruct args as [|a [|b r]]; intros H E; auto.
  - cbn in E. subst. auto.
  - exfalso. change (join sep2 (a :: b :: r)) with (a ++ sep2 ++ join sep2 (b :: r)) in E. apply app_eq_nil in E. destruct E as [_ E]. discriminate E.
Qed.

(* the text after the command name, and reading it *)
Definition cmdline (name : text) (args : list text) : text :=
  name ++ match args with [] => [] | _ => 32%N :: join sep2 args end.

Lemma read_cmdline name args :
  nochar 32 name = true -> forallb clean_arg args = true -> args <> [[]] ->
  read_cmd (cmdline name args) = decode name args.
Proof.
  intros Hn Ha NE. unfold read_cmd, cmdline. destruct args as [|a r].
  - rewrite app_nil_r, sfs_name_nil by exact Hn. reflexivity.
  - rewrite sfs_name by exact Hn. cbn [rev app].
    destruct (join sep2 (a :: r)) as [|c j] eqn:J.
    + destruct (join_nil_iff _ Ha J) as [E|E]; congruence.
    + rewrite <- J. unfold split_args. pose proof (split_join_pre (a :: r) false) as Q. cbn [app] in Q.
      rewrite Q; [reflexivity|discriminate|exact Ha].
Qed.

(* ================================================================================================================== *)
(* 3. one instruction: the printed line and what the reader makes of it                                               *)
(* ================================================================================================================== *)
Lemma text_eqb_iff a b : text_eqb a b = true <-> a = b.
Proof. unfold text_eqb. destruct (list_eq_dec N.eq_dec a b); split; auto; discriminate. Qed.
Lemma text_eqb_refl a : text_eqb a a = true.
Proof. apply text_eqb_iff. reflexivity. Qed.

(* the instruction forms that are printed as a tab, a name and comma-separated arguments *)
Definition as_cmd (i : instr) : option (text * list text) :=
  match i with
  | ICmd c => Some (cname c, cargs c)
  | IGoto l => Some (t "goto", [l])
  | IGotoIfSet f l => Some (t "goto_if_set", [f; l])
  | IGotoIfUnset f l => Some (t "goto_if_unset", [f; l])
  | ICompare st v x => Some (if st then t "compare_var_to_value" else t "compare", [v; x])
  | IGotoIfCmp o l => Some (t "goto_if_" ++ opname o, [l])
  | ICheckTrainer tr => Some (t "checktrainerflag", [tr])
  | IGotoIf b l => Some (t "goto_if", [if b then t "1" else t "0"; l])
  | ISwitch v => Some (t "switch", [v])
  | ICase x l => Some (t "case", [x; l])
  | IReturn => Some (t "return", [])
  | IEnd => Some (t "end", [])
  | _ => None
  end.

(* the line printed for an instruction, without its newline *)
Definition line_of (path : text) (i : instr) : text :=
  match as_cmd i with
  | Some (n, a) => 9%N :: cmdline n a
  | None =>
      match i with
      | ILabel n g => n ++ (if g then [58%N; 58%N] else [58%N])
      | IMarker line => [35%N; 32%N] ++ decZ line ++ [32%N; 34%N] ++ esc_path path ++ [34%N]
      | IData d c => tab ++ t "." ++ d ++ t " " ++ [34%N] ++ c ++ [34%N]
      | ILine s => s
      | _ => []
      end
  end.

Lemma print_line path i : print_instr path i = line_of path i ++ [10%N].
Proof.
  destruct i as [n g|c|l|f l|f l|st v x|o l|tr|b l|v|x l| | |line| |d c|s]; unfold line_of, as_cmd, cmdline, sep2.
  - destruct g; cbn; rewrite <- app_assoc; reflexivity.
  - unfold print_instr, render_cmd. destruct (cargs c) as [|a r]; cbn [tab app]; rewrite <- ?app_assoc; [reflexivity|].
    cbn [app]. reflexivity.
  - cbn. rewrite <- ?app_assoc. reflexivity.
  - cbn. rewrite <- ?app_assoc. reflexivity.
  - cbn. rewrite <- ?app_assoc. reflexivity.
  - destruct st; cbn; rewrite <- ?app_assoc; reflexivity.
  - destruct o; cbn; rewrite <- ?app_assoc; reflexivity.
  - cbn. rewrite <- ?app_assoc. reflexivity.
  - destruct b; cbn; rewrite <- ?app_assoc; reflexivity.
  - cbn. rewrite <- ?app_assoc. reflexivity.
  - cbn. rewrite <- ?app_assoc. reflexivity.
  - reflexivity.
  - reflexivity.
  - cbn [print_instr app]. rewrite <- ?app_assoc. cbn [app]. rewrite <- ?app_assoc. reflexivity.
  - reflexivity.
  - cbn [print_instr]. rewrite <- ?app_assoc. reflexivity.
  - reflexivity.
Qed.

(* ---------- what is read back ---------- *)
(* the reader cannot recover the token and the index of a command *)
Definition strip (c : cmd) : cmd := {| cname := cname c; cargs := cargs c; ctok := dummy_tok; Ast.cid := 0 |}.

(* the image of an instruction under print + read (for printable instructions, see [read_printed]) *)
Definition rb (i : instr) : instr :=
  match i with
  | ICmd c =>
      if text_eqb (cname c) (t "goto") then match cargs c with [a] => IGoto a | _ => ICmd (strip c) end
      else if text_eqb (cname c) (t "return") then IReturn
      else if text_eqb (cname c) (t "end") then IEnd
      else ICmd (strip c)
  | IMarker _ => IMarker 0
  | ILine s => match s with [] => IBlank | c :: _ => if (c =? 35)%N then IMarker 0 else ILine s end
  | _ => i
  end.

(* names of the machine's own instructions: a plain command of such a name is read back as that instruction *)
Definition branch_names : list text :=
  [t "goto_if_set"; t "goto_if_unset"; t "compare"; t "compare_var_to_value"; t "checktrainerflag"; t "goto_if";
   t "switch"; t "case"; t "goto_if_eq"; t "goto_if_ne"; t "goto_if_lt"; t "goto_if_le"; t "goto_if_gt"; t "goto_if_ge"].
Definition is_branch_name (n : text) : bool := existsb (text_eqb n) branch_names.

Definition no_lead_colon (a : text) : bool := match a with [] => true | c :: _ => negb (c =? 58)%N end.
Definition nonempty (a : text) : bool := match a with [] => false | _ => true end.
Definition single_empty (args : list text) : bool := match args with [[]] => true | _ => false end.

Definition printable_instr (path : text) (i : instr) : bool :=
  match i with
  | ILabel n g =>
      nochar 10 n && match n with [] => true | c :: _ => negb (c =? 9)%N && negb (c =? 35)%N end
      && (g || no_lead_colon (rev n))
  | ICmd c =>
      clean_name (cname c) && forallb clean_arg (cargs c) && negb (single_empty (cargs c)) && negb (is_branch_name (cname c))
  | IGoto l | IGotoIfCmp _ l | ICheckTrainer l | ISwitch l => clean_arg l && nonempty l
  | IGotoIfSet a b | IGotoIfUnset a b | ICompare _ a b | ICase a b => clean_arg a && clean_arg b
  | IGotoIf _ l => clean_arg l
  | IReturn | IEnd | IBlank => true
  | IMarker _ => nochar 10 path
  | IData _ _ => false
  | ILine s =>
      nochar 10 s && match s with [] => true | c :: _ => negb (c =? 9)%N && ((c =? 35)%N || no_lead_colon (rev s)) end
  end.

Lemma op_of_some o op : op_of o = Some op -> o = opname op.
Proof.
  unfold op_of. intros H.
  repeat match type of H with
  | (if text_eqb ?a ?b then _ else _) = _ => let E := fresh "E" in destruct (text_eqb a b) eqn:E; [apply text_eqb_iff in E; inversion H; subst; reflexivity|]
  end. discriminate H.
Qed.
Lemma starts_some : forall p s o, starts p s = Some o -> s = p ++ o.
Proof.
  induction p as [|a p IH]; intros s o H; cbn in H; [inversion H; reflexivity|].
  destruct s as [|b s]; [discriminate|]. destruct (N.eqb_spec a b); [|discriminate]. subst. cbn. f_equal. apply IH. exact H.
Qed.

Lemma decode_plain name args : is_branch_name name = false ->
  decode name args =
    if text_eqb name (t "goto") then match args with [a] => IGoto a | _ => opaque_cmd name args end
    else if text_eqb name (t "return") then IReturn
    else if text_eqb name (t "end") then IEnd
    else opaque_cmd name args.
Proof.
  intros H. unfold is_branch_name, branch_names in H. cbn [existsb] in H.
  repeat match type of H with (_ || _) = false => apply orb_false_elim in H; let H1 := fresh "B" in destruct H as [H1 H] end.
  unfold decode. rewrite B, B0, B1, B2, B3, B4, B5, B6.
  destruct (text_eqb name (t "goto")); [reflexivity|].
  destruct (text_eqb name (t "return")); [reflexivity|].
  destruct (text_eqb name (t "end")); [reflexivity|].
  destruct (starts (t "goto_if_") name) as [o|] eqn:S; [|reflexivity].
  destruct args as [|a [|b r]]; try reflexivity.
  destruct (op_of o) as [op|] eqn:O; [|reflexivity].
  exfalso. apply starts_some in S. apply op_of_some in O. subst o name.
  destruct op; vm_compute in B7, B8, B9, B10, B11, B12; discriminate.
Qed.

Ltac andb_all H :=
  repeat match type of H with
  | (_ && _) = true => let H2 := fresh "P" in apply andb_prop in H; destruct H as [H H2]
  end.

Lemma clean_nonempty_single l : clean_arg l = true -> nonempty l = true -> forallb clean_arg [l] = true /\ [l] <> [[]].
Proof. intros C N. split; [cbn; rewrite C; reflexivity|]. intros E. inversion E. subst. discriminate N. Qed.
Lemma clean_pair a b : clean_arg a = true -> clean_arg b = true -> forallb clean_arg [a; b] = true /\ [a; b] <> [[]].
Proof. intros A B. split; [cbn; rewrite A, B; reflexivity|discriminate]. Qed.

(* THE READER ON ONE PRINTED LINE *)
Theorem read_printed path i : printable_instr path i = true -> read_line (line_of path i) = rb i.
Proof.
  intros P.
  destruct i as [n g|c|l|f l|f l|st v x|o l|tr|b l|v|x l| | |line| |d c|s]; cbn [printable_instr] in P;
    unfold line_of; cbn [as_cmd]; rewrite ?read_line_tab.
  - (* label *)
    andb_all P. cbn [rb].
    assert (E : read_line (n ++ (if g then [58%N; 58%N] else [58%N])) = tail_class (n ++ (if g then [58%N; 58%N] else [58%N]))).
    { destruct n as [|c n]; [destruct g; reflexivity|]. andb_all P1. cbn [app]. apply read_line_other.
      - intros ->. discriminate P1.
      - intros ->. discriminate P2. }
    rewrite E. unfold tail_class. rewrite rev_app_distr. destruct g.
    + cbn [rev app]. rewrite rev_involutive. reflexivity.
    + cbn [rev app orb] in *. rewrite N.eqb_refl. destruct (rev n) as [|y r2] eqn:R.
      * cbn. rewrite <- (rev_involutive n), R. reflexivity.
      * cbn in P0. apply negb_true_iff in P0. rewrite P0. rewrite <- R, rev_involutive. reflexivity.
  - (* plain command *)
    andb_all P. unfold clean_name in P. andb_all P. apply negb_true_iff in P0, P1.
    rewrite read_cmdline; [|assumption|assumption|intros E; rewrite E in P1; discriminate P1].
    rewrite decode_plain by exact P0. reflexivity.
  - andb_all P. destruct (clean_nonempty_single l P P0) as [A B]. rewrite read_cmdline; [reflexivity|reflexivity|exact A|exact B].
  - andb_all P. destruct (clean_pair f l P P0) as [A B]. rewrite read_cmdline; [reflexivity|reflexivity|exact A|exact B].
  - andb_all P. destruct (clean_pair f l P P0) as [A B]. rewrite read_cmdline; [reflexivity|reflexivity|exact A|exact B].
  - andb_all P. destruct (clean_pair v x P P0) as [A B]. rewrite read_cmdline; [destruct st; reflexivity|destruct st; reflexivity|exact A|exact B].
  - andb_all P. destruct (clean_nonempty_single l P P0) as [A B]. rewrite read_cmdline; [destruct o; reflexivity|destruct o; reflexivity|exact A|exact B].
  - andb_all P. destruct (clean_nonempty_single tr P P0) as [A B]. rewrite read_cmdline; [reflexivity|reflexivity|exact A|exact B].
  - assert (C1 : clean_arg (if b then t "1" else t "0") = true) by (destruct b; reflexivity).
    destruct (clean_pair _ l C1 P) as [A B]. rewrite read_cmdline; [destruct b; reflexivity|reflexivity|exact A|exact B].
  - andb_all P. destruct (clean_nonempty_single v P P0) as [A B]. rewrite read_cmdline; [reflexivity|reflexivity|exact A|exact B].
  - andb_all P. destruct (clean_pair x l P P0) as [A B]. rewrite read_cmdline; [reflexivity|reflexivity|exact A|exact B].
  - reflexivity.
  - reflexivity.
  - reflexivity.
  - reflexivity.
  - discriminate P.
  - (* verbatim line *)
    andb_all P. cbn [rb]. destruct s as [|c s]; [reflexivity|]. andb_all P0.
    destruct (N.eqb_spec c 35) as [->|N35]; [reflexivity|].
    cbn [orb] in P1. rewrite read_line_other; [|intros ->; discriminate P0|exact N35].
    unfold tail_class. destruct (rev (c :: s)) as [|y r] eqn:R; [reflexivity|].
    cbn in P1. apply negb_true_iff in P1. rewrite P1. reflexivity.
Qed.

(* ---------- the printed line contains no newline ---------- *)
Lemma nochar_join c sep : nochar c sep = true -> forall l, forallb (nochar c) l = true -> nochar c (join sep l) = true.
Proof.
  intros Hs. induction l as [|a l IH]; intros H; [reflexivity|].
  cbn [forallb] in H. apply andb_prop in H. destruct H as [Ha Hl]. destruct l as [|b l]; [exact Ha|].
  change (join sep (a :: b :: l)) with (a ++ sep ++ join sep (b :: l)). rewrite !nochar_app, Ha, Hs, (IH Hl). reflexivity.
Qed.
Lemma clean_args_nl args : forallb clean_arg args = true -> forallb (nochar 10) args = true.
Proof.
  induction args as [|a r IH]; intros H; [reflexivity|]. cbn [forallb] in *. apply andb_prop in H. destruct H as [Ha Hr].
  destruct (clean_parts a Ha) as (C1 & _). rewrite C1, (IH Hr). reflexivity.
Qed.
Lemma cmdline_nl name args : nochar 10 name = true -> forallb clean_arg args = true -> nochar 10 (cmdline name args) = true.
Proof.
  intros Hn Ha. unfold cmdline. rewrite nochar_app, Hn. destruct args as [|a r]; [reflexivity|].
  rewrite nochar_cons. rewrite (nochar_join 10 sep2); [reflexivity|reflexivity|apply clean_args_nl; exact Ha].
Qed.

Lemma dec_aux_nl : forall fuel n acc, nochar 10 acc = true -> nochar 10 (dec_aux fuel n acc) = true.
Proof.
  induction fuel as [|f IH]; intros n acc H; cbn [dec_aux]; [exact H|].
  assert (D : nochar 10 ((48 + n mod 10)%N :: acc) = true).
  { rewrite nochar_cons, H. generalize (n mod 10)%N as k. intros k.
    destruct (N.eqb_spec (48 + k) 10) as [E|E]; [exfalso; lia|reflexivity]. }
  destruct (n / 10 =? 0)%N; [exact D|apply IH; exact D].
Qed.
Lemma decZ_nl z : nochar 10 (decZ z) = true.
Proof.
  unfold decZ, dec. destruct (z <? 0)%Z.
  - rewrite nochar_app. rewrite dec_aux_nl by reflexivity. reflexivity.
  - apply dec_aux_nl. reflexivity.
Qed.
Lemma esc_path_nl p : nochar 10 p = true -> nochar 10 (esc_path p) = true.
Proof.
  induction p as [|c p IH]; intros H; [reflexivity|]. rewrite nochar_cons in H. apply andb_prop in H. destruct H as [H1 H2].
  cbn [esc_path flat_map]. rewrite nochar_app. fold (esc_path p). rewrite (IH H2).
  destruct (c =? 92)%N eqn:E; [reflexivity|]. rewrite nochar_cons, H1. reflexivity.
Qed.

Theorem printed_line_nl path i : printable_instr path i = true -> nochar 10 (line_of path i) = true.
Proof.
  intros P.
  destruct i as [n g|c|l|f l|f l|st v x|o l|tr|b l|v|x l| | |line| |d c|s]; cbn [printable_instr] in P;
    unfold line_of; cbn [as_cmd]; rewrite ?nochar_cons; cbn [N.eqb Pos.eqb negb andb].
  - andb_all P. rewrite nochar_app, P. destruct g; reflexivity.
  - andb_all P. unfold clean_name in P. andb_all P. apply cmdline_nl; assumption.
  - andb_all P. apply cmdline_nl; [reflexivity|cbn; rewrite P; reflexivity].
  - andb_all P. apply cmdline_nl; [reflexivity|cbn; rewrite P, P0; reflexivity].
  - andb_all P. apply cmdline_nl; [reflexivity|cbn; rewrite P, P0; reflexivity].
  - andb_all P. apply cmdline_nl; [destruct st; reflexivity|cbn; rewrite P, P0; reflexivity].
  - andb_all P. apply cmdline_nl; [destruct o; reflexivity|cbn; rewrite P; reflexivity].
  - andb_all P. apply cmdline_nl; [reflexivity|cbn; rewrite P; reflexivity].
  - apply cmdline_nl; [reflexivity|cbn; rewrite P; destruct b; reflexivity].
  - andb_all P. apply cmdline_nl; [reflexivity|cbn; rewrite P; reflexivity].
  - andb_all P. apply cmdline_nl; [reflexivity|cbn; rewrite P, P0; reflexivity].
  - reflexivity.
  - reflexivity.
  - cbn [app]. rewrite !nochar_cons, nochar_app, decZ_nl, !nochar_cons, nochar_app, (esc_path_nl _ P). reflexivity.
  - reflexivity.
  - discriminate P.
  - andb_all P. exact P.
Qed.

(* ================================================================================================================== *)
(* 4. the whole text                                                                                                  *)
(* ================================================================================================================== *)
Definition path_of (mpath : option text) : text := match mpath with Some p => p | None => [] end.
Definition printable_code (mpath : option text) (code : list instr) : bool := forallb (printable_instr (path_of mpath)) code.

(* the text ends with a newline: the reader sees one more, empty, line *)
Theorem read_asm_print mpath code : printable_code mpath code = true ->
  read_asm (print_instrs mpath code) = map rb code ++ [IBlank].
Proof.
  unfold read_asm, print_instrs, printable_code. fold (path_of mpath). generalize (path_of mpath) as path. intros path.
  induction code as [|i code IH]; intros H; [reflexivity|].
  cbn [forallb] in H. apply andb_prop in H. destruct H as [Hi Hc].
  cbn [flat_map]. rewrite print_line, <- app_assoc. cbn [app].
  rewrite split_on_line by (apply printed_line_nl; exact Hi). cbn [rev app map].
  rewrite (read_printed path i Hi). f_equal. apply IH. exact Hc.
Qed.

(* ================================================================================================================== *)
(* 5. the machine on [map rb code ++ [IBlank]] and on [code]                                                          *)
(* ================================================================================================================== *)
Definition strip_res (r : result) : result := (map strip (Datatypes.fst r), Datatypes.snd r).

Lemma strip_res_le r1 r2 : res_le r1 r2 -> res_le (strip_res r1) (strip_res r2).
Proof.
  intros [[x Hx] H]. split.
  - exists (map strip x). cbn. rewrite Hx, map_app. reflexivity.
  - cbn. intros o Ho. rewrite (H o Ho). reflexivity.
Qed.
Lemma res_le_trans' (a b c : result) : res_le a b -> res_le b c -> res_le a c.
Proof.
  intros [[x Hx] H1] [[y Hy] H2]. split.
  - exists (x ++ y). rewrite Hy, Hx. now rewrite app_assoc.
  - intros o Ho. specialize (H1 o Ho). subst b. apply (H2 o Ho).
Qed.

Definition is_label (i : instr) : option text := match i with ILabel n _ => Some n | _ => None end.
Lemma rb_label i : is_label (rb i) = is_label i.
Proof.
  destruct i as [n g|c|l|f l|f l|st v x|o l|tr|b l|v|x l| | |line| |d c|s]; try reflexivity.
  - cbn [rb]. destruct (text_eqb (cname c) (t "goto")); [destruct (cargs c) as [|a [|b r]]; reflexivity|].
    destruct (text_eqb (cname c) (t "return")); [reflexivity|]. destruct (text_eqb (cname c) (t "end")); reflexivity.
  - cbn [rb]. destruct s as [|c s]; [reflexivity|]. destruct (c =? 35)%N; reflexivity.
Qed.
Lemma find_lbl_label l i r k : find_lbl l (i :: r) k =
  match is_label i with Some n => if text_eqb n l then Some k else find_lbl l r (S k) | None => find_lbl l r (S k) end.
Proof. destruct i; reflexivity. Qed.
Lemma find_lbl_rb l : forall code k, find_lbl l (map rb code ++ [IBlank]) k = find_lbl l code k.
Proof.
  induction code as [|i code IH]; intros k; [reflexivity|].
  cbn [map app]. rewrite !find_lbl_label, rb_label, IH. reflexivity.
Qed.
Lemma find_lbl_lt l : forall code k j, find_lbl l code k = Some j -> j < k + List.length code.
Proof.
  induction code as [|i code IH]; intros k j H; [discriminate|].
  rewrite find_lbl_label in H. cbn [List.length].
  destruct (is_label i) as [n|]; [destruct (text_eqb n l); [inversion H; lia|]|]; apply IH in H; lia.
Qed.

(* instructions after which the machine never continues with the next instruction *)
Definition stop_instr (i : instr) : bool :=
  match i with
  | IGoto _ | IReturn | IEnd => true
  | ICmd c => is_name c "end" || is_name c "return" || is_name c "goto"
  | _ => false
  end.

Section MACH.
Variable St : Type.
Variable exec1 exec2 : cmd -> St -> stepres St.
Variable flag_set trainer_beaten : text -> St -> bool.
Variable cmp_var cmp_var_value : text -> text -> St -> comparison.
Variable case_matches : text -> text -> St -> bool.
(* the interpreter of the text machine sees commands without token and index *)
Hypothesis Hex : forall c s, exec1 (strip c) s = exec2 c s.
Variable code : list instr.

Notation code' := (map rb code ++ [IBlank]).
Notation step1 := (tstep St exec1 flag_set trainer_beaten cmp_var cmp_var_value case_matches code').
Notation step2 := (tstep St exec2 flag_set trainer_beaten cmp_var cmp_var_value case_matches code).
Notation run1 := (run (@tfinal) step1).
Notation run2 := (run (@tfinal) step2).

Lemma jump_rb l : jump code' l = jump code l.
Proof. unfold jump. rewrite find_lbl_rb. reflexivity. Qed.

Lemma nth_inside pc i : nth_error code pc = Some i -> nth_error code' pc = Some (rb i).
Proof.
  intros H. assert (L : pc < List.length code) by (apply nth_error_Some; congruence).
  rewrite nth_error_app1 by (rewrite map_length; exact L). rewrite nth_error_map, H. reflexivity.
Qed.

Definition strip_step (x : list event * tstate * St) : list event * tstate * St :=
  let '(ev, a, s) := x in (map strip ev, a, s).

(* inside the code the two machines move in lockstep *)
Lemma step_inside pc r sw s i : nth_error code pc = Some i ->
  step1 (TAt pc r sw) s = strip_step (step2 (TAt pc r sw) s).
Proof.
  intros H. unfold tstep. rewrite (nth_inside pc i H), H.
  destruct i as [n g|c|l|f l|f l|st v x|o l|tr|b l|v|x l| | |line| |d c|s0]; cbn [rb strip_step]; rewrite ?jump_rb.
  2: { (* command *)
    unfold is_name.
    destruct (text_eqb (cname c) (t "goto")) eqn:G.
    + assert (E1 : text_eqb (cname c) (t "end") = false).
      { destruct (text_eqb (cname c) (t "end")) eqn:E; [|reflexivity]. apply text_eqb_iff in G, E. rewrite G in E. discriminate E. }
      assert (E2 : text_eqb (cname c) (t "return") = false).
      { destruct (text_eqb (cname c) (t "return")) eqn:E; [|reflexivity]. apply text_eqb_iff in G, E. rewrite G in E. discriminate E. }
      rewrite E1, E2. destruct (cargs c) as [|a [|b r0]] eqn:A.
      * unfold is_name. cbn [strip cname cargs]. rewrite E1, E2, G, A. reflexivity.
      * rewrite jump_rb. reflexivity.
      * unfold is_name. cbn [strip cname cargs]. rewrite E1, E2, G, A. reflexivity.
    + destruct (text_eqb (cname c) (t "return")) eqn:R.
      * assert (E1 : text_eqb (cname c) (t "end") = false).
        { destruct (text_eqb (cname c) (t "end")) eqn:E; [|reflexivity]. apply text_eqb_iff in R, E. rewrite R in E. discriminate E. }
        rewrite E1. reflexivity.
      * destruct (text_eqb (cname c) (t "end")) eqn:E; [reflexivity|].
        unfold is_name. cbn [strip cname cargs]. rewrite E, R, G, Hex. destruct (exec2 c s); reflexivity. }
  all: try reflexivity.
  all: try (destruct (flag_set f s); reflexivity).
  all: try (destruct r; reflexivity).
  all: try (destruct sw; reflexivity).
  destruct s0 as [|c s0]; [reflexivity|]. destruct (c =? 35)%N; reflexivity.
Qed.

Lemma nth_edge : nth_error code' (List.length code) = Some IBlank.
Proof. rewrite nth_error_app2 by (rewrite map_length; lia). rewrite map_length, Nat.sub_diag. reflexivity. Qed.
Lemma nth_beyond pc : List.length code < pc -> nth_error code' pc = None.
Proof. intros H. apply nth_error_None. rewrite app_length, map_length. cbn. lia. Qed.

Lemma step2_outside pc r sw s : nth_error code pc = None -> step2 (TAt pc r sw) s = ([], TFinal OStuck, s).
Proof. intros H. unfold tstep. rewrite H. reflexivity. Qed.
Lemma step1_edge r sw s : step1 (TAt (List.length code) r sw) s = ([], TAt (S (List.length code)) r sw, s).
Proof. unfold tstep. rewrite nth_edge. reflexivity. Qed.
Lemma step1_beyond pc r sw s : List.length code < pc -> step1 (TAt pc r sw) s = ([], TFinal OStuck, s).
Proof. intros H. unfold tstep. rewrite (nth_beyond pc H). reflexivity. Qed.

Lemma run_S {State} (final : State -> option outcome) step k a (s : St) : final a = None ->
  run final step (S k) a s = (let '(ev, a', s') := step a s in let '(tr, st) := run final step k a' s' in (ev ++ tr, st)).
Proof. intros H. cbn [run]. rewrite H. reflexivity. Qed.
Lemma run_fin {State} (final : State -> option outcome) step k a (s : St) o : final a = Some o ->
  run final step k a s = ([], Done o).
Proof. intros H. destruct k; cbn [run]; rewrite H; reflexivity. Qed.

(* forward: every run of [code] is matched exactly by a run of the read-back code (one more step when the run leaves the
   code at its end: the reader's extra empty line) *)
Lemma fwd : forall m a s, exists m', run1 m' a s = strip_res (run2 m a s).
Proof.
  induction m as [|m IH]; intros a s.
  - exists 0. cbn [run]. destruct (tfinal a); reflexivity.
  - destruct a as [pc r sw|o]; [|exists 0; reflexivity].
    destruct (nth_error code pc) as [i|] eqn:E.
    + rewrite (run_S (@tfinal) step2) by reflexivity.
      pose proof (step_inside pc r sw s i E) as ST. destruct (step2 (TAt pc r sw) s) as [[ev a'] s'].
      destruct (IH a' s') as (m' & R). exists (S m'). rewrite (run_S (@tfinal) step1) by reflexivity. rewrite ST. cbn [strip_step].
      rewrite R. destruct (run2 m a' s') as [tr st]. unfold strip_res. cbn. rewrite map_app. reflexivity.
    + rewrite (run_S (@tfinal) step2) by reflexivity. rewrite step2_outside by exact E.
      rewrite (run_fin (@tfinal) step2 m (TFinal OStuck) s OStuck) by reflexivity.
      apply nth_error_None in E. destruct (Nat.eq_dec pc (List.length code)) as [->|NE].
      * exists 2. rewrite (run_S (@tfinal) step1) by reflexivity. rewrite step1_edge.
        rewrite (run_S (@tfinal) step1) by reflexivity. rewrite step1_beyond by lia. reflexivity.
      * exists 1. rewrite (run_S (@tfinal) step1) by reflexivity. rewrite step1_beyond by lia. reflexivity.
Qed.

(* backward: with the same fuel the read-back code has done at most what [code] has done *)
Lemma bwd : forall m a s, res_le (run1 m a s) (strip_res (run2 m a s)).
Proof.
  induction m as [|m IH]; intros a s.
  - cbn [run]. destruct (tfinal a); apply res_le_refl.
  - destruct a as [pc r sw|o]; [|apply res_le_refl].
    destruct (nth_error code pc) as [i|] eqn:E.
    + rewrite (run_S (@tfinal) step2) by reflexivity. rewrite (run_S (@tfinal) step1) by reflexivity.
      rewrite (step_inside pc r sw s i E). destruct (step2 (TAt pc r sw) s) as [[ev a'] s']. cbn [strip_step].
      specialize (IH a' s'). destruct (run1 m a' s') as [t1 st1], (run2 m a' s') as [t2 st2].
      destruct IH as [[x Hx] Hd]. unfold strip_res in *. cbn in *. split.
      * exists x. cbn. rewrite map_app, <- app_assoc. f_equal. exact Hx.
      * cbn. intros o Ho. specialize (Hd o Ho). inversion Hd. rewrite map_app. reflexivity.
    + rewrite (run_S (@tfinal) step2) by reflexivity. rewrite step2_outside by exact E.
      rewrite (run_fin (@tfinal) step2 m (TFinal OStuck) s OStuck) by reflexivity.
      apply nth_error_None in E. destruct (Nat.eq_dec pc (List.length code)) as [->|NE].
      * rewrite (run_S (@tfinal) step1) by reflexivity. rewrite step1_edge. destruct m as [|m].
        -- cbn. split; [exists []; reflexivity|cbn; discriminate].
        -- rewrite (run_S (@tfinal) step1) by reflexivity. rewrite step1_beyond by lia.
           rewrite (run_fin (@tfinal) step1 m (TFinal OStuck) s OStuck) by reflexivity. apply res_le_refl.
      * rewrite (run_S (@tfinal) step1) by reflexivity. rewrite step1_beyond by lia.
        rewrite (run_fin (@tfinal) step1 m (TFinal OStuck) s OStuck) by reflexivity. apply res_le_refl.
Qed.

(* ---------- exact equality when the run cannot leave the code at its end ---------- *)
Section EXACT.
Variable k : nat.
Variable ik : instr.
Hypothesis Hk : nth_error code k = Some ik.
Hypothesis Hstop : stop_instr ik = true.
Hypothesis Hlbl : forall l j, find_lbl l code 0 = Some j -> j <= k.

Definition inv (a : tstate) : Prop := match a with TAt pc _ _ => pc <= k | TFinal _ => True end.

Lemma inv_jump l : inv (jump code l).
Proof. unfold jump. destruct (find_lbl l code 0) as [j|] eqn:F; cbn; [apply (Hlbl l j F)|exact I]. Qed.

Lemma inv_step pc r sw s : pc <= k -> inv (Datatypes.snd (Datatypes.fst (step2 (TAt pc r sw) s))).
Proof.
  intros Hpc. unfold tstep. destruct (Nat.eq_dec pc k) as [->|NE].
  - rewrite Hk. destruct ik as [n g|c|l|f l|f l|st v x|o l|tr|b l|v|x l| | |line| |d c|s0]; try discriminate Hstop; cbn [stop_instr] in Hstop.
    + destruct (is_name c "end"); [exact I|]. destruct (is_name c "return"); [exact I|].
      destruct (is_name c "goto"); [|discriminate Hstop]. destruct (cargs c) as [|a [|b r0]]; cbn; try exact I. apply inv_jump.
    + apply inv_jump.
    + exact I.
    + exact I.
  - assert (L : pc < k) by lia. destruct (nth_error code pc) as [i|]; [|exact I].
    destruct i as [n g|c|l|f l|f l|st v x|o l|tr|b l|v|x l| | |line| |d c|s0]; cbn [Datatypes.fst Datatypes.snd inv]; try exact L; try exact I; try apply inv_jump.
    + destruct (is_name c "end"); [exact I|]. destruct (is_name c "return"); [exact I|].
      destruct (is_name c "goto").
      * destruct (cargs c) as [|a [|b r0]]; cbn; try exact I. apply inv_jump.
      * destruct (exec2 c s); cbn; [exact L|exact I].
    + destruct (flag_set f s); [apply inv_jump|exact L].
    + destruct (flag_set f s); [exact L|apply inv_jump].
    + destruct r as [|c0|b0]; cbn; try exact I. destruct (cmp_holds o c0); [apply inv_jump|exact L].
    + destruct r as [|c0|b0]; cbn; try exact I. destruct (Bool.eqb b0 b); [apply inv_jump|exact L].
    + destruct sw as [v|]; cbn; [|exact I]. destruct (case_matches v x s); [apply inv_jump|exact L].
Qed.

Lemma exact_run : forall m a s, inv a -> run1 m a s = strip_res (run2 m a s).
Proof.
  induction m as [|m IH]; intros a s Ha.
  - cbn [run]. destruct (tfinal a); reflexivity.
  - destruct a as [pc r sw|o]; [|reflexivity]. cbn [inv] in Ha.
    assert (L : pc < List.length code). { assert (k < List.length code) by (apply nth_error_Some; congruence). lia. }
    destruct (nth_error code pc) as [i|] eqn:E; [|apply nth_error_None in E; lia].
    rewrite (run_S (@tfinal) step2) by reflexivity. rewrite (run_S (@tfinal) step1) by reflexivity.
    rewrite (step_inside pc r sw s i E). pose proof (inv_step pc r sw s Ha) as IS.
    destruct (step2 (TAt pc r sw) s) as [[ev a'] s']. cbn [strip_step]. cbn in IS.
    rewrite (IH a' s' IS). destruct (run2 m a' s') as [tr st]. unfold strip_res. cbn. rewrite map_app. reflexivity.
Qed.
End EXACT.
End MACH.

(* ---------- an executable sufficient condition: after the last stop instruction there is no label ---------- *)
Definition nolabel (i : instr) : bool := match is_label i with None => true | Some _ => false end.
Fixpoint tail_ok (rc : list instr) : bool :=
  match rc with [] => false | i :: r => stop_instr i || (nolabel i && tail_ok r) end.
(* read from the end: instructions that are not labels, down to a goto / return / end *)
Definition closed_code (code : list instr) : bool := tail_ok (rev code).

Lemma tail_ok_split : forall rc, tail_ok rc = true ->
  exists tl i pre, rc = tl ++ i :: pre /\ stop_instr i = true /\ forallb nolabel tl = true.
Proof.
  induction rc as [|i r IH]; intros H; [discriminate|]. cbn [tail_ok] in H.
  destruct (stop_instr i) eqn:S.
  - exists [], i, r. auto.
  - cbn [orb] in H. apply andb_prop in H. destruct H as [N T]. destruct (IH T) as (tl & i0 & pre & E & S0 & F).
    exists (i :: tl), i0, pre. subst r. split; [reflexivity|]. split; [exact S0|]. cbn. rewrite N, F. reflexivity.
Qed.
Lemma find_lbl_nolabel l : forall B k, forallb nolabel B = true -> find_lbl l B k = None.
Proof.
  induction B as [|i B IH]; intros k H; [reflexivity|]. cbn [forallb] in H. apply andb_prop in H. destruct H as [N H].
  rewrite find_lbl_label. unfold nolabel in N. destruct (is_label i); [discriminate|]. apply IH. exact H.
Qed.
Lemma find_lbl_app_nolabel l B : forallb nolabel B = true ->
  forall A k j, find_lbl l (A ++ B) k = Some j -> j < k + List.length A.
Proof.
  intros HB. induction A as [|i A IH]; intros k j H; cbn [app] in H.
  - rewrite find_lbl_nolabel in H by exact HB. discriminate.
  - rewrite find_lbl_label in H. cbn [List.length].
    destruct (is_label i) as [n|]; [destruct (text_eqb n l); [inversion H; lia|]|]; apply IH in H; lia.
Qed.
Lemma closed_code_spec code : closed_code code = true ->
  exists k ik, nth_error code k = Some ik /\ stop_instr ik = true /\ forall l j, find_lbl l code 0 = Some j -> j <= k.
Proof.
  intros H. destruct (tail_ok_split _ H) as (tl & i & pre & E & S & F).
  assert (C : code = (rev pre ++ [i]) ++ rev tl).
  { rewrite <- (rev_involutive code), E, rev_app_distr. cbn [rev]. reflexivity. }
  exists (List.length (rev pre)), i. split; [|split; [exact S|]].
  - rewrite C, <- app_assoc. rewrite nth_error_app2 by lia. rewrite Nat.sub_diag. reflexivity.
  - intros l j HJ. rewrite C in HJ. apply find_lbl_app_nolabel in HJ.
    + rewrite app_length in HJ. cbn in HJ. lia.
    + rewrite forallb_forall in *. intros x Hx. apply F. apply in_rev. exact Hx.
Qed.

(* ================================================================================================================== *)
(* 6. MAIN THEOREMS                                                                                                   *)
(* ================================================================================================================== *)
Section MAIN.
Variable St : Type.
Variable exec : cmd -> St -> stepres St.
Variable flag_set trainer_beaten : text -> St -> bool.
Variable cmp_var cmp_var_value : text -> text -> St -> comparison.
Variable case_matches : text -> text -> St -> bool.

Notation tgt ex code := (tstep St ex flag_set trainer_beaten cmp_var cmp_var_value case_matches code).

(* the game's interpreter does not look at the token / the index of a command (the text has neither) *)
Definition token_blind (ex : cmd -> St -> stepres St) : Prop := forall c s, ex (strip c) s = ex c s.

(* PRINT + READ, two simulations: (a) every run of [code] is reproduced exactly by a run of the text read back;
   (b) with equal fuel the text read back has done no more than [code].  The commands of the trace come back without
   token and index ([strip_res]); nothing else changes. *)
Theorem print_read_behaviour mpath code name :
  printable_code mpath code = true ->
  token_blind exec ->
  (forall m s, exists m',
      run (@tfinal) (tgt exec (read_asm (print_instrs mpath code))) m' (jump (read_asm (print_instrs mpath code)) name) s =
      strip_res (run (@tfinal) (tgt exec code) m (jump code name) s)) /\
  (forall m s,
      res_le (run (@tfinal) (tgt exec (read_asm (print_instrs mpath code))) m (jump (read_asm (print_instrs mpath code)) name) s)
             (strip_res (run (@tfinal) (tgt exec code) m (jump code name) s))).
Proof.
  intros P TB. rewrite (read_asm_print mpath code P). rewrite jump_rb. split; intros m s.
  - apply (fwd St exec exec flag_set trainer_beaten cmp_var cmp_var_value case_matches TB code).
  - apply (bwd St exec exec flag_set trainer_beaten cmp_var cmp_var_value case_matches TB code).
Qed.

(* the same for EVERY interpreter, none assumed token-blind: reading the text back is running [code] with the interpreter
   that is shown the stripped commands *)
Theorem print_read_behaviour_any_exec mpath code name :
  printable_code mpath code = true ->
  (forall m s, exists m',
      run (@tfinal) (tgt exec (read_asm (print_instrs mpath code))) m' (jump (read_asm (print_instrs mpath code)) name) s =
      strip_res (run (@tfinal) (tgt (fun c => exec (strip c)) code) m (jump code name) s)) /\
  (forall m s,
      res_le (run (@tfinal) (tgt exec (read_asm (print_instrs mpath code))) m (jump (read_asm (print_instrs mpath code)) name) s)
             (strip_res (run (@tfinal) (tgt (fun c => exec (strip c)) code) m (jump code name) s))).
Proof.
  intros P. rewrite (read_asm_print mpath code P). rewrite jump_rb. split; intros m s.
  - apply (fwd St exec (fun c => exec (strip c)) flag_set trainer_beaten cmp_var cmp_var_value case_matches (fun c s => eq_refl) code).
  - apply (bwd St exec (fun c => exec (strip c)) flag_set trainer_beaten cmp_var cmp_var_value case_matches (fun c s => eq_refl) code).
Qed.

(* EXACT EQUALITY of the runs, fuel for fuel, when the code is closed at its end (the shape of every emitted script:
   ... goto / return / end, blank line) *)
Theorem print_read_behaviour_exact mpath code name :
  printable_code mpath code = true ->
  closed_code code = true ->
  token_blind exec ->
  forall m s,
    run (@tfinal) (tgt exec (read_asm (print_instrs mpath code))) m (jump (read_asm (print_instrs mpath code)) name) s =
    strip_res (run (@tfinal) (tgt exec code) m (jump code name) s).
Proof.
  intros P C TB m s. rewrite (read_asm_print mpath code P). rewrite jump_rb.
  destruct (closed_code_spec code C) as (k & ik & Hk & Hs & Hl).
  apply (exact_run St exec exec flag_set trainer_beaten cmp_var cmp_var_value case_matches TB code k ik Hk Hs Hl).
  apply inv_jump. exact Hl.
Qed.

Theorem print_read_behaviour_exact_any_exec mpath code name :
  printable_code mpath code = true ->
  closed_code code = true ->
  forall m s,
    run (@tfinal) (tgt exec (read_asm (print_instrs mpath code))) m (jump (read_asm (print_instrs mpath code)) name) s =
    strip_res (run (@tfinal) (tgt (fun c => exec (strip c)) code) m (jump code name) s).
Proof.
  intros P C m s. rewrite (read_asm_print mpath code P). rewrite jump_rb.
  destruct (closed_code_spec code C) as (k & ik & Hk & Hs & Hl).
  apply (exact_run St exec (fun c => exec (strip c)) flag_set trainer_beaten cmp_var cmp_var_value case_matches (fun c s => eq_refl) code k ik Hk Hs Hl).
  apply inv_jump. exact Hl.
Qed.
End MAIN.

(* the oracle of the checks: [run_target] (hash interpreter, observable trace = printed command lines) gives the same
   answer on the instruction list and on its printed text read back *)
Lemma names_of_strip r : names_of (strip_res r) = names_of r.
Proof. destruct r as [tr st]. unfold names_of, strip_res. cbn. rewrite map_map. reflexivity. Qed.

Theorem run_target_print_read mpath code entry fuel seed :
  printable_code mpath code = true ->
  closed_code code = true ->
  run_target (read_asm (print_instrs mpath code)) entry fuel seed = run_target code entry fuel seed.
Proof.
  intros P C. unfold run_target. rewrite (read_asm_print mpath code P), find_lbl_rb.
  destruct (find_lbl entry code 0) as [pc|] eqn:F; [|reflexivity].
  destruct (closed_code_spec code C) as (k & ik & Hk & Hs & Hl).
  rewrite (exact_run N o_exec o_exec o_flag o_trainer o_cmp o_cmpv o_case (fun c s => eq_refl) code k ik Hk Hs Hl fuel (TAt pc RNone None) seed (Hl entry pc F)).
  apply names_of_strip.
Qed.


(* ================================================================================================================== *)
(* 7. C01 down to the text: source semantics = the machine on the text read back                                      *)
(* ================================================================================================================== *)
From Pory Require Parser Format Tr RenderCheck LabelSim C01Final Worklist WorkLabels WorkShape RenderFromSource C01Main ProgWf ProgSrc C01Top.

Section TOP.
Variable St : Type.
Variable exec : cmd -> St -> stepres St.
Variable flag_set trainer_beaten : text -> St -> bool.
Variable cmp_var cmp_var_value : text -> text -> St -> comparison.
Variable case_matches : text -> text -> St -> bool.

Notation tgt ex code := (tstep St ex flag_set trainer_beaten cmp_var cmp_var_value case_matches code).
Notation src ex body := (sstep St ex flag_set trainer_beaten cmp_var cmp_var_value case_matches (fun l => fl_body l body Kstop)).

(* For every source text the parser accepts and every script body in it: the structured source and the TEXT the compiler
   prints for the script (read back by the oracle's reader) perform the same commands and finish the same way.
   Premises about what the author wrote: as in C01Top.compiled_scripts_correct_from_source, plus [printable_code]. *)
Theorem compiled_text_correct_from_source
  hl hd hs autovars switches ee fc cli_font cli_maxlen (source : text) (p : program) :
  Parser.parse_program autovars switches ee (Format.parse_format fc cli_font cli_maxlen ee) (lex hl hd hs source) = Parser.Ok p ->
  forall body, In body (ProgWf.bodies_of (tops p)) ->
  NoDup (WorkLabels.dlabs body) ->
  forall (mp : option text) (tl : list text) (name : text) (glob optimize : bool) (w : wst) (code : list instr),
  emit_graph body = Emitter.Ok w ->
  emit_script mp tl name glob optimize body = Emitter.Ok code ->
  RenderFromSource.names_okb (finals w) code = true ->
  (Z.of_nat (List.length (finals w)) <= 10 ^ 40)%Z ->
  printable_code mp code = true ->
  token_blind St exec ->
  (forall n s, exists m,
      strip_res (run sfinal (src exec body) n (enter body Kstop) s) =
      run (@tfinal) (tgt exec (read_asm (print_instrs mp code))) m (jump (read_asm (print_instrs mp code)) name) s) /\
  (forall m s, exists n,
      res_le (run (@tfinal) (tgt exec (read_asm (print_instrs mp code))) m (jump (read_asm (print_instrs mp code)) name) s)
             (strip_res (run sfinal (src exec body) n (enter body Kstop) s))).
Proof.
  intros HP body HB ND mp tl name glob optimize w code HW HE NM SZ PR TB.
  destruct (C01Top.compiled_scripts_correct_from_source St exec flag_set trainer_beaten cmp_var cmp_var_value case_matches
              hl hd hs autovars switches ee fc cli_font cli_maxlen source p HP body HB ND mp tl name glob optimize w code HW HE NM SZ) as [F B].
  destruct (print_read_behaviour St exec flag_set trainer_beaten cmp_var cmp_var_value case_matches mp code name PR TB) as [F2 B2].
  split.
  - intros n s. destruct (F n s) as (m & R). destruct (F2 m s) as (m' & R2). exists m'. rewrite R2, R. reflexivity.
  - intros m s. destruct (B m s) as (n & R). exists n. eapply res_le_trans'; [apply B2|]. apply strip_res_le. exact R.
Qed.

(* the same without any assumption on the interpreter: the source is run with the interpreter that is shown commands
   without token and index, which is all the text machine can show it *)
Theorem compiled_text_correct_from_source_any_exec
  hl hd hs autovars switches ee fc cli_font cli_maxlen (source : text) (p : program) :
  Parser.parse_program autovars switches ee (Format.parse_format fc cli_font cli_maxlen ee) (lex hl hd hs source) = Parser.Ok p ->
  forall body, In body (ProgWf.bodies_of (tops p)) ->
  NoDup (WorkLabels.dlabs body) ->
  forall (mp : option text) (tl : list text) (name : text) (glob optimize : bool) (w : wst) (code : list instr),
  emit_graph body = Emitter.Ok w ->
  emit_script mp tl name glob optimize body = Emitter.Ok code ->
  RenderFromSource.names_okb (finals w) code = true ->
  (Z.of_nat (List.length (finals w)) <= 10 ^ 40)%Z ->
  printable_code mp code = true ->
  (forall n s, exists m,
      strip_res (run sfinal (src (fun c => exec (strip c)) body) n (enter body Kstop) s) =
      run (@tfinal) (tgt exec (read_asm (print_instrs mp code))) m (jump (read_asm (print_instrs mp code)) name) s) /\
  (forall m s, exists n,
      res_le (run (@tfinal) (tgt exec (read_asm (print_instrs mp code))) m (jump (read_asm (print_instrs mp code)) name) s)
             (strip_res (run sfinal (src (fun c => exec (strip c)) body) n (enter body Kstop) s))).
Proof.
  intros HP body HB ND mp tl name glob optimize w code HW HE NM SZ PR.
  destruct (C01Top.compiled_scripts_correct_from_source St (fun c => exec (strip c)) flag_set trainer_beaten cmp_var cmp_var_value case_matches
              hl hd hs autovars switches ee fc cli_font cli_maxlen source p HP body HB ND mp tl name glob optimize w code HW HE NM SZ) as [F B].
  destruct (print_read_behaviour_any_exec St exec flag_set trainer_beaten cmp_var cmp_var_value case_matches mp code name PR) as [F2 B2].
  split.
  - intros n s. destruct (F n s) as (m & R). destruct (F2 m s) as (m' & R2). exists m'. rewrite R2, R. reflexivity.
  - intros m s. destruct (B m s) as (n & R). exists n. eapply res_le_trans'; [apply B2|]. apply strip_res_le. exact R.
Qed.
End TOP.

(* ================================================================================================================== *)
(* 8. Examples: the hypotheses hold on the output of the model for a real source text; the conditions are needed      *)
(* ================================================================================================================== *)
Section EXAMPLES.
Open Scope string_scope.
Definition nf (_ : N) : bool := false.
Definition fc0 : Format.fontcfg := {| Format.fcDefault := []; Format.fcFonts := [] |}.
Definition pf0 := Format.parse_format fc0 [] 0%Z false.
Definition nls : string := String (ascii_of_nat 10) "".
Definition ex_src : string :=
  "script Main {" ++ nls ++
  "  lock" ++ nls ++
  "  if (flag(FLAG_A) && var(VAR_X) == 2) { msgbox(""Hello, you"", MSGBOX_DEFAULT) } elif (defeated(TRAINER_1)) { setvar(VAR_X, (1 + 2)) } else { goto(Done) }" ++ nls ++
  "  switch (var(VAR_Y)) { case 1: giveitem(ITEM_A, 2) case 2: default: nop }" ++ nls ++
  "  while (!flag(FLAG_B)) { step }" ++ nls ++
  "Done:" ++ nls ++
  "  release" ++ nls ++
  "  end" ++ nls ++
  "}".
Definition ex_parse := Parser.parse_program [] [] false pf0 (lex nf nf nf (t ex_src)).
Definition ex_body : list stmt :=
  match ex_parse with Parser.Ok p => match tops p with TScript _ _ b :: _ => b | _ => [] end | _ => [] end.
Definition ex_mp : option text := Some (t "data/maps/Town/scripts.pory").
Definition ex_code (optimize : bool) : list instr :=
  match emit_script ex_mp [] (t "Main") true optimize ex_body with Emitter.Ok c => c | _ => [] end.

(* every hypothesis of compiled_text_correct_from_source (and closed_code) holds, with line markers on, both -optimize settings *)
Example hypotheses_satisfiable : forall optimize,
  exists p w,
    Parser.parse_program [] [] false (Format.parse_format fc0 [] 0%Z false) (lex nf nf nf (t ex_src)) = Parser.Ok p /\ In ex_body (ProgWf.bodies_of (tops p)) /\ NoDup (WorkLabels.dlabs ex_body) /\
    emit_graph ex_body = Emitter.Ok w /\
    emit_script ex_mp [] (t "Main") true optimize ex_body = Emitter.Ok (ex_code optimize) /\
    RenderFromSource.names_okb (finals w) (ex_code optimize) = true /\
    (Z.of_nat (List.length (finals w)) <= 10 ^ 40)%Z /\
    printable_code ex_mp (ex_code optimize) = true /\
    closed_code (ex_code optimize) = true /\
    List.length (ex_code optimize) = (if optimize then 57 else 85) /\
    token_blind N o_exec.
Proof.
  intros optimize. eexists. eexists.
  split; [vm_compute; reflexivity|].
  split; [left; vm_compute; reflexivity|].
  split; [apply RenderCheck.nodupt_sound; vm_compute; reflexivity|].
  split; [vm_compute; reflexivity|].
  split; [destruct optimize; vm_compute; reflexivity|].
  split; [destruct optimize; vm_compute; reflexivity|].
  split; [vm_compute; intros X; discriminate X|].
  split; [destruct optimize; vm_compute; reflexivity|].
  split; [destruct optimize; vm_compute; reflexivity|].
  split; [destruct optimize; vm_compute; reflexivity|].
  intros c s. reflexivity.
Qed.

(* the theorems applied: the text printed for the example, read back, against the source, under the hash oracle *)
Example ex_text_correct : forall optimize,
  let code' := read_asm (print_instrs ex_mp (ex_code optimize)) in
  (forall n s, exists m,
      strip_res (run sfinal (sstep N o_exec o_flag o_trainer o_cmp o_cmpv o_case (fun l => fl_body l ex_body Kstop)) n (enter ex_body Kstop) s) =
      run (@tfinal) (tstep N o_exec o_flag o_trainer o_cmp o_cmpv o_case code') m (jump code' (t "Main")) s) /\
  (forall m s,
      run (@tfinal) (tstep N o_exec o_flag o_trainer o_cmp o_cmpv o_case code') m (jump code' (t "Main")) s =
      strip_res (run (@tfinal) (tstep N o_exec o_flag o_trainer o_cmp o_cmpv o_case (ex_code optimize)) m (jump (ex_code optimize) (t "Main")) s)).
Proof.
  intros optimize code'. subst code'.
  destruct (hypotheses_satisfiable optimize) as (p & w & H1 & H2 & H3 & H4 & H5 & H6 & H7 & H8 & H9 & _ & H10).
  generalize dependent (ex_code optimize). intros code H5 H6 H8 H9.
  generalize dependent ex_body. intros body H2 H3 H4 H5.
  split.
  - pose proof (compiled_text_correct_from_source N o_exec o_flag o_trainer o_cmp o_cmpv o_case nf nf nf [] [] false fc0 [] 0%Z
             (t ex_src) p H1 body H2 H3 ex_mp [] (t "Main") true optimize w code H4 H5 H6 H7 H8 H10) as [F _]. exact F.
  - apply print_read_behaviour_exact; assumption.
Qed.

(* what the reader returns for the example: the code itself up to tokens, markers and the final empty line *)
Example ex_read_back : read_asm (print_instrs ex_mp (ex_code false)) = (map rb (ex_code false) ++ [IBlank])%list.
Proof. vm_compute. reflexivity. Qed.

(* ---- the conditions are needed ---- *)
Definition body_of (s : string) : list stmt :=
  match Parser.parse_program [] [] false pf0 (lex nf nf nf (t s)) with
  | Parser.Ok p => match tops p with TScript _ _ b :: _ => b | _ => [] end
  | _ => []
  end.
Definition code_of (s : string) : list instr :=
  match emit_script None [] (t "S") true false (body_of s) with Emitter.Ok c => c | _ => [] end.
Definition show (x : text) : string := string_of_list_ascii (map ascii_of_N x).
Definition shown (r : list text * status) : list string * status := (map show (Datatypes.fst r), Datatypes.snd r).

(* (1) plain commands named like instructions of the machine: the instruction list runs them through the interpreter
   (three commands), the text read back takes them for a comparison and a branch (one command).  The source semantics and
   C01 are on the side of the instruction list; [printable_code] refuses the script. *)
Definition src_branch_names := "script S { compare(VAR_X, 1)" ++ nls ++ " goto_if_eq(Elsewhere)" ++ nls ++ " lock" ++ nls ++ " end }".
Example branch_named_commands_differ :
  printable_code None (code_of src_branch_names) = false /\
  shown (run_target (code_of src_branch_names) (t "S") 20 1) =
    (["compare VAR_X, 1"; "goto_if_eq Elsewhere"; "lock "], Done OEnd) /\
  shown (run_target (read_asm (print_instrs None (code_of src_branch_names))) (t "S") 20 1) = (["lock "], Done OEnd).
Proof. split; [vm_compute; reflexivity|]. split; vm_compute; reflexivity. Qed.

(* (2) "foo(,)" has one empty argument; it is printed as "foo " and read back without argument *)
Definition src_empty_arg := "script S { foo(,)" ++ nls ++ " end }".
Example empty_argument_lost :
  printable_code None (code_of src_empty_arg) = false /\
  (exists c, nth_error (code_of src_empty_arg) 1 = Some (ICmd c) /\ cargs c = [[]]) /\
  (exists c, nth_error (read_asm (print_instrs None (code_of src_empty_arg))) 1 = Some (ICmd c) /\ cargs c = []).
Proof. split; [vm_compute; reflexivity|]. split; eexists; split; vm_compute; reflexivity. Qed.

(* (3) a verbatim line that starts with a tab is a command for the reader, a data line is too: outside scripts
   (movements, marts, texts) print + read does not preserve the machine's view *)
Example data_lines_become_commands :
  read_line (line_of [] (ILine (tab ++ t "step_end")%list)) = opaque_cmd (t "step_end") [] /\
  read_line (line_of [] (IData (t "string") (t "hi$"))) = opaque_cmd (t ".string") [[34%N; 104%N; 105%N; 36%N; 34%N]].
Proof. split; vm_compute; reflexivity. Qed.

(* (4) without [closed_code] the runs are not equal fuel for fuel: the reader's extra empty line costs one step *)
Example open_end_one_more_step :
  let code := [ILabel (t "S") true; ICmd (Build_cmd (t "lock") [] dummy_tok 0)] in
  printable_code None code = true /\ closed_code code = false /\
  Datatypes.snd (run_target code (t "S") 3 1) = Done OStuck /\
  Datatypes.snd (run_target (read_asm (print_instrs None code)) (t "S") 3 1) = Running /\
  Datatypes.snd (run_target (read_asm (print_instrs None code)) (t "S") 4 1) = Done OStuck.
Proof. cbv zeta. split; [vm_compute; reflexivity|]. split; [vm_compute; reflexivity|]. split; [vm_compute; reflexivity|]. split; vm_compute; reflexivity. Qed.
End EXAMPLES.
