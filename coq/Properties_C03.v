(* C03 - switch selects exactly the matching body, with shared, empty and default cases. *)
From Coq Require Import List ZArith Bool.
From Pory Require Import Lexer Ast Emitter Sem2 SpecLemmas Worklist.
Import ListNotations.

(* the body of the first matching case, shared with the next case that has one *)
Theorem switch_first_match :
  forall pre c post m,
    (forall x, In x pre -> sc_def x = true \/ m (sc_val x) = false) -> sc_def c = false -> m (sc_val c) = true ->
    select_case (pre ++ c :: post) m = next_body (c :: post).
Proof. exact select_first_match. Qed.
Print Assumptions switch_first_match.

(* default - wherever it is written - runs exactly when no case matches; without default nothing runs *)
Theorem switch_default_iff_no_match :
  forall cases m, (forall x, In x cases -> sc_def x = true \/ m (sc_val x) = false) ->
    select_case cases m = match select_default cases with Some b => b | None => [] end.
Proof. exact select_no_match. Qed.
Print Assumptions switch_default_iff_no_match.

Theorem switch_default_position :
  forall pre c post, (forall x, In x pre -> sc_def x = false) -> sc_def c = true ->
    select_default (pre ++ c :: post) = Some (next_body (c :: post)).
Proof. exact select_default_spec. Qed.
Print Assumptions switch_default_position.

(* trailing body-less cases do nothing; control never runs two bodies *)
Theorem switch_trailing_empty : forall cs, (forall x, In x cs -> sc_body x = []) -> next_body cs = [].
Proof. exact next_body_trailing. Qed.
Print Assumptions switch_trailing_empty.

Theorem switch_runs_one_body :
  forall cases m, select_case cases m = [] \/ exists c, In c cases /\ select_case cases m = sc_body c.
Proof. exact select_is_one_body. Qed.
Print Assumptions switch_runs_one_body.

(* ---------- emitter side: the case table and the body chunks built for a switch implement that selection ---------- *)
(* For every case list with at most one default (what the parser accepts) and every assignment m of "the switched value
   equals v": the chunk the emitted table sends m to - the first listed case whose value matches, else the default entry,
   else the exit - carries exactly the body the source semantics selects (select_case: first matching case, empty bodies
   sharing the next body, default only when nothing matches, trailing empty cases leaving the switch); if the emitter
   elides the switch, every selection is empty.  Proved for the case loop of createSwitchStatementChunks as modelled
   (sw_loop), by induction over groups of cases (Worklist.v). *)
Theorem switch_table_selects :
  forall cases ret sid st el,
  (Worklist.ndef cases <= 1)%nat ->
  sw_loop (S (List.length cases)) cases 0 ret {| sw_new := []; sw_cases := []; sw_def := None; sw_counter := sid |} = (st, el) ->
  (el = true -> forall m, select_case cases m = []) /\
  (el = false -> forall m,
     match first_case (sw_cases st) m with
     | Some d => In (mk d ret (select_case cases m) None) (sw_new st)
     | None => match sw_def st with
               | Some dd => In (mk dd ret (select_case cases m) None) (sw_new st)
               | None => select_case cases m = []
               end
     end).
Proof. exact Worklist.switch_table_selects. Qed.
Print Assumptions switch_table_selects.

(* ---- parser side (SwitchParse.v): the tokens of a switch statement against a source grammar [switch_src]
   (header: var(X) or a command; then one item per `case VALUE :` / `default :` with the tokens of its body).
   parse_switch_sound / _complete / _exact: the parser accepts exactly the statements of the grammar that have at least one
   item, at most one default and pairwise distinct values, consumes exactly their tokens and returns one scase per written
   item in source order; the three rejections are located at the offending case. written_*: which written body then runs
   (first match, default iff no match, body-less items share the next written body, trailing ones run nothing).
   parsed_switch_runs_the_written_body: the step of the source semantics on the statement the parser returned. ---- *)

From Pory Require Import Consume Parser SwitchParse.
Theorem parse_switch_sound :
  forall (autovars : list (text * autovar)) (switches : list (text * text)) (env_errors : bool)
    (parse_format : toks -> res (token * text * text * toks)),
  (forall (ts : toks) (tk : token) (v sty : text) (ts' : toks),
   parse_format ts = Ok (tk, v, sty, ts') -> forall a : toks, advs a ts -> advs a ts') ->
  forall (consts : list (text * text)) (f : nat) (script : text) (bs cs : list nat) (ts : toks) (ss : list stmt) (imp : impdata) (ts' : toks),
  parse_switch autovars switches env_errors parse_format consts f script bs cs ts = Ok (ss, imp, ts') ->
  eof_ended ts ->
  exists (pre : option cmd) (operand : text) (oline : Z) (imph : impdata) (its : list sitem) (rb : token) (rest : toks),
    switch_src autovars consts (body_parsed autovars switches env_errors parse_format consts script (length ts :: bs) cs)
      (cmd_parsed switches env_errors parse_format consts script) ts pre operand oline imph its rb rest /\
    ts' = rb :: rest /\
    eof_ended rest /\
    ss = switch_stmts consts (length ts) pre operand oline its /\ imp = impadd imph (items_imp its) /\ its <> [] /\ items_ok consts [] false its.
Proof. exact SwitchParse.parse_switch_sound. Qed.
Print Assumptions parse_switch_sound.

Theorem switch_body_is_statement_sequence :
  forall (autovars : list (text * autovar)) (switches : list (text * text)) (env_errors : bool)
    (parse_format : toks -> res (token * text * text * toks)) (consts : list (text * text)) (script : text) (bs cs : list nat) 
    (brace : token) (ts : toks) (b : list stmt) (imp : impdata) (ts' : toks),
  body_parsed autovars switches env_errors parse_format consts script bs cs brace ts b imp ts' ->
  stmts_src autovars switches env_errors parse_format consts script bs cs ts b imp ts'.
Proof. exact SwitchParse.switch_body_is_statement_sequence. Qed.
Print Assumptions switch_body_is_statement_sequence.

Theorem parse_switch_complete :
  forall (autovars : list (text * autovar)) (switches : list (text * text)) (env_errors : bool)
    (parse_format : toks -> res (token * text * text * toks)) (consts : list (text * text)) (F0 : nat) (script : text) 
    (bs cs : list nat) (ts : list token) (pre : option cmd) (operand : text) (oline : Z) (imph : impdata) (its : list sitem) 
    (rb : token) (rest : toks) (f : nat),
  switch_src autovars consts (body_parses autovars switches env_errors parse_format consts F0 script (length ts :: bs) cs)
    (cmd_parses switches env_errors parse_format consts F0 script) ts pre operand oline imph its rb rest ->
  its <> [] ->
  items_ok consts [] false its ->
  F0 + length ts < f ->
  parse_switch autovars switches env_errors parse_format consts f script bs cs ts =
  Ok (switch_stmts consts (length ts) pre operand oline its, impadd imph (items_imp its), rb :: rest).
Proof. exact SwitchParse.parse_switch_complete. Qed.
Print Assumptions parse_switch_complete.

Theorem switch_without_cases_rejected :
  forall (autovars : list (text * autovar)) (switches : list (text * text)) (env_errors : bool)
    (parse_format : toks -> res (token * text * text * toks)) (consts : list (text * text)) (F0 : nat) (script : text) 
    (bs cs : list nat) (ts : list token) (pre : option cmd) (operand : text) (oline : Z) (imph : impdata) (rb : token) 
    (rest : toks) (f : nat),
  switch_src autovars consts (body_parses autovars switches env_errors parse_format consts F0 script (length ts :: bs) cs)
    (cmd_parses switches env_errors parse_format consts F0 script) ts pre operand oline imph [] rb rest ->
  F0 + length ts < f ->
  parse_switch autovars switches env_errors parse_format consts f script bs cs ts =
  err_range (cur ts) rb
    (String.String (Ascii.Ascii true true false false true true true false)
       (String.String (Ascii.Ascii true true true false true true true false)
          (String.String (Ascii.Ascii true false false true false true true false)
             (String.String (Ascii.Ascii false false true false true true true false)
                (String.String (Ascii.Ascii true true false false false true true false)
                   (String.String (Ascii.Ascii false false false true false true true false)
                      (String.String (Ascii.Ascii false false false false false true false false)
                         (String.String (Ascii.Ascii true true false false true true true false)
                            (String.String (Ascii.Ascii false false true false true true true false)
                               (String.String (Ascii.Ascii true false false false false true true false)
                                  (String.String (Ascii.Ascii false false true false true true true false)
                                     (String.String (Ascii.Ascii true false true false false true true false)
                                        (String.String (Ascii.Ascii true false true true false true true false)
                                           (String.String (Ascii.Ascii true false true false false true true false)
                                              (String.String (Ascii.Ascii false true true true false true true false)
                                                 (String.String (Ascii.Ascii false false true false true true true false)
                                                    (String.String (Ascii.Ascii false false false false false true false false)
                                                       (String.String (Ascii.Ascii false false false true false true true false)
                                                          (String.String (Ascii.Ascii true false false false false true true false)
                                                             (String.String (Ascii.Ascii true true false false true true true false)
                                                                (String.String (Ascii.Ascii false false false false false true false false)
                                                                   (String.String (Ascii.Ascii false true true true false true true false)
                                                                      (String.String (Ascii.Ascii true true true true false true true false)
                                                                         (String.String
                                                                            (Ascii.Ascii false false false false false true false false)
                                                                            (String.String
                                                                               (Ascii.Ascii true true false false false true true false)
                                                                               (String.String
                                                                                  (Ascii.Ascii true false false false false true true false)
                                                                                  (String.String
                                                                                     (Ascii.Ascii true true false false true true true false)
                                                                                     (String.String
                                                                                        (Ascii.Ascii true false true false false true true false)
                                                                                        (String.String
                                                                                           (Ascii.Ascii true true false false true true true
                                                                                              false)
                                                                                           (String.String
                                                                                              (Ascii.Ascii false false false false false true
                                                                                                 false false)
                                                                                              (String.String
                                                                                                 (Ascii.Ascii true true true true false true
                                                                                                    true false)
                                                                                                 (String.String
                                                                                                    (Ascii.Ascii false true false false true
                                                                                                       true true false)
                                                                                                    (String.String
                                                                                                       (Ascii.Ascii false false false false
                                                                                                          false true false false)
                                                                                                       (String.String
                                                                                                          (Ascii.Ascii false false true false
                                                                                                             false true true false)
                                                                                                          (String.String
                                                                                                             (Ascii.Ascii true false true false
                                                                                                                false true true false)
                                                                                                             (String.String
                                                                                                                (Ascii.Ascii false true true
                                                                                                                   false false true true false)
                                                                                                                (String.String
                                                                                                                   (Ascii.Ascii true false false
                                                                                                                   false false true true false)
                                                                                                                   (String.String
                                                                                                                   (Ascii.Ascii true false true
                                                                                                                   false true true true false)
                                                                                                                   (String.String
                                                                                                                   (Ascii.Ascii false false true
                                                                                                                   true false true true false)
                                                                                                                   (String.String
                                                                                                                   (Ascii.Ascii false false true
                                                                                                                   false true true true false)
                                                                                                                   (String.String
                                                                                                                   (Ascii.Ascii false false
                                                                                                                   false false false true false
                                                                                                                   false)
                                                                                                                   (String.String
                                                                                                                   (Ascii.Ascii true true false
                                                                                                                   false false true true false)
                                                                                                                   (String.String
                                                                                                                   (Ascii.Ascii true false false
                                                                                                                   false false true true false)
                                                                                                                   (String.String
                                                                                                                   (Ascii.Ascii true true false
                                                                                                                   false true true true false)
                                                                                                                   (String.String
                                                                                                                   (Ascii.Ascii true false true
                                                                                                                   false false true true false)
                                                                                                                   String.EmptyString))))))))))))))))))))))))))))))))))))))))))))).
Proof. exact SwitchParse.switch_without_cases_rejected. Qed.
Print Assumptions switch_without_cases_rejected.

Theorem switch_second_default_rejected :
  forall (autovars : list (text * autovar)) (switches : list (text * text)) (env_errors : bool)
    (parse_format : toks -> res (token * text * text * toks)) (consts : list (text * text)) (F0 : nat) (script : text) 
    (bs cs : list nat) (ts : toks) (pre : option cmd) (operand : text) (oline : Z) (imph : impdata) (lb : token) (cts : toks) 
    (its : list sitem) (dk : token) (R : list token) (f : nat),
  header_src autovars consts (cmd_parses switches env_errors parse_format consts F0 script) ts pre operand oline imph lb cts ->
  cases_src (body_parses autovars switches env_errors parse_format consts F0 script (length ts :: bs) cs lb) cts its (dk :: R) ->
  ttype dk = DEFAULT ->
  items_ok consts [] false its ->
  has_default its = true ->
  F0 + length ts < f ->
  parse_switch autovars switches env_errors parse_format consts f script bs cs ts =
  err_tok dk
    (String.String (Ascii.Ascii true false true true false true true false)
       (String.String (Ascii.Ascii true false true false true true true false)
          (String.String (Ascii.Ascii false false true true false true true false)
             (String.String (Ascii.Ascii false false true false true true true false)
                (String.String (Ascii.Ascii true false false true false true true false)
                   (String.String (Ascii.Ascii false false false false true true true false)
                      (String.String (Ascii.Ascii false false true true false true true false)
                         (String.String (Ascii.Ascii true false true false false true true false)
                            (String.String (Ascii.Ascii false false false false false true false false)
                               (String.String (Ascii.Ascii false false false false false true true false)
                                  (String.String (Ascii.Ascii false false true false false true true false)
                                     (String.String (Ascii.Ascii true false true false false true true false)
                                        (String.String (Ascii.Ascii false true true false false true true false)
                                           (String.String (Ascii.Ascii true false false false false true true false)
                                              (String.String (Ascii.Ascii true false true false true true true false)
                                                 (String.String (Ascii.Ascii false false true true false true true false)
                                                    (String.String (Ascii.Ascii false false true false true true true false)
                                                       (String.String (Ascii.Ascii false false false false false true true false)
                                                          (String.String (Ascii.Ascii false false false false false true false false)
                                                             (String.String (Ascii.Ascii true true false false false true true false)
                                                                (String.String (Ascii.Ascii true false false false false true true false)
                                                                   (String.String (Ascii.Ascii true true false false true true true false)
                                                                      (String.String (Ascii.Ascii true false true false false true true false)
                                                                         (String.String (Ascii.Ascii true true false false true true true false)
                                                                            (String.String
                                                                               (Ascii.Ascii false false false false false true false false)
                                                                               (String.String
                                                                                  (Ascii.Ascii false true true false false true true false)
                                                                                  (String.String
                                                                                     (Ascii.Ascii true true true true false true true false)
                                                                                     (String.String
                                                                                        (Ascii.Ascii true false true false true true true false)
                                                                                        (String.String
                                                                                           (Ascii.Ascii false true true true false true true
                                                                                              false)
                                                                                           (String.String
                                                                                              (Ascii.Ascii false false true false false true
                                                                                                 true false)
                                                                                              (String.String
                                                                                                 (Ascii.Ascii false false false false false true
                                                                                                    false false)
                                                                                                 (String.String
                                                                                                    (Ascii.Ascii true false false true false
                                                                                                       true true false)
                                                                                                    (String.String
                                                                                                       (Ascii.Ascii false true true true false
                                                                                                          true true false)
                                                                                                       (String.String
                                                                                                          (Ascii.Ascii false false false false
                                                                                                             false true false false)
                                                                                                          (String.String
                                                                                                             (Ascii.Ascii true true false false
                                                                                                                true true true false)
                                                                                                             (String.String
                                                                                                                (Ascii.Ascii true true true
                                                                                                                   false true true true false)
                                                                                                                (String.String
                                                                                                                   (Ascii.Ascii true false false
                                                                                                                   true false true true false)
                                                                                                                   (String.String
                                                                                                                   (Ascii.Ascii false false true
                                                                                                                   false true true true false)
                                                                                                                   (String.String
                                                                                                                   (Ascii.Ascii true true false
                                                                                                                   false false true true false)
                                                                                                                   (String.String
                                                                                                                   (Ascii.Ascii false false
                                                                                                                   false true false true true
                                                                                                                   false)
                                                                                                                   (String.String
                                                                                                                   (Ascii.Ascii false false
                                                                                                                   false false false true false
                                                                                                                   false)
                                                                                                                   (String.String
                                                                                                                   (Ascii.Ascii true true false
                                                                                                                   false true true true false)
                                                                                                                   (String.String
                                                                                                                   (Ascii.Ascii false false true
                                                                                                                   false true true true false)
                                                                                                                   (String.String
                                                                                                                   (Ascii.Ascii true false false
                                                                                                                   false false true true false)
                                                                                                                   (String.String
                                                                                                                   (Ascii.Ascii false false true
                                                                                                                   false true true true false)
                                                                                                                   (String.String
                                                                                                                   (Ascii.Ascii true false true
                                                                                                                   false false true true false)
                                                                                                                   (String.String
                                                                                                                   (Ascii.Ascii true false true
                                                                                                                   true false true true false)
                                                                                                                   (String.String
                                                                                                                   (Ascii.Ascii true false true
                                                                                                                   false false true true false)
                                                                                                                   (String.String
                                                                                                                   (Ascii.Ascii false true true
                                                                                                                   true false true true false)
                                                                                                                   (String.String
                                                                                                                   (Ascii.Ascii false false true
                                                                                                                   false true true true false)
                                                                                                                   String.EmptyString)))))))))))))))))))))))))))))))))))))))))))))))))).
Proof. exact SwitchParse.switch_second_default_rejected. Qed.
Print Assumptions switch_second_default_rejected.

Theorem switch_repeated_value_rejected :
  forall (autovars : list (text * autovar)) (switches : list (text * text)) (env_errors : bool)
    (parse_format : toks -> res (token * text * text * toks)) (consts : list (text * text)) (F0 : nat) (script : text) 
    (bs cs : list nat) (ts : toks) (pre : option cmd) (operand : text) (oline : Z) (imph : impdata) (lb : token) (cts : toks) 
    (its : list sitem) (ck : token) (vs : list token) (colon : token) (R : list token) (f : nat),
  header_src autovars consts (cmd_parses switches env_errors parse_format consts F0 script) ts pre operand oline imph lb cts ->
  cases_src (body_parses autovars switches env_errors parse_format consts F0 script (length ts :: bs) cs lb) cts its (ck :: vs ++ colon :: R) ->
  ttype ck = CASE ->
  value_toks vs ->
  ttype colon = COLON ->
  items_ok consts [] false its ->
  In (joined consts vs) (case_values consts its) ->
  F0 + length ts < f ->
  parse_switch autovars switches env_errors parse_format consts f script bs cs ts =
  err_range ck colon
    (String.String (Ascii.Ascii false false true false false true true false)
       (String.String (Ascii.Ascii true false true false true true true false)
          (String.String (Ascii.Ascii false false false false true true true false)
             (String.String (Ascii.Ascii false false true true false true true false)
                (String.String (Ascii.Ascii true false false true false true true false)
                   (String.String (Ascii.Ascii true true false false false true true false)
                      (String.String (Ascii.Ascii true false false false false true true false)
                         (String.String (Ascii.Ascii false false true false true true true false)
                            (String.String (Ascii.Ascii true false true false false true true false)
                               (String.String (Ascii.Ascii false false false false false true false false)
                                  (String.String (Ascii.Ascii true true false false true true true false)
                                     (String.String (Ascii.Ascii true true true false true true true false)
                                        (String.String (Ascii.Ascii true false false true false true true false)
                                           (String.String (Ascii.Ascii false false true false true true true false)
                                              (String.String (Ascii.Ascii true true false false false true true false)
                                                 (String.String (Ascii.Ascii false false false true false true true false)
                                                    (String.String (Ascii.Ascii false false false false false true false false)
                                                       (String.String (Ascii.Ascii true true false false false true true false)
                                                          (String.String (Ascii.Ascii true false false false false true true false)
                                                             (String.String (Ascii.Ascii true true false false true true true false)
                                                                (String.String (Ascii.Ascii true false true false false true true false)
                                                                   (String.String (Ascii.Ascii true true false false true true true false)
                                                                      (String.String
                                                                         (Ascii.Ascii false false false false false true false false)
                                                                         (String.String
                                                                            (Ascii.Ascii false false true false false true true false)
                                                                            (String.String
                                                                               (Ascii.Ascii true false true false false true true false)
                                                                               (String.String
                                                                                  (Ascii.Ascii false false true false true true true false)
                                                                                  (String.String
                                                                                     (Ascii.Ascii true false true false false true true false)
                                                                                     (String.String
                                                                                        (Ascii.Ascii true true false false false true true false)
                                                                                        (String.String
                                                                                           (Ascii.Ascii false false true false true true true
                                                                                              false)
                                                                                           (String.String
                                                                                              (Ascii.Ascii true false true false false true true
                                                                                                 false)
                                                                                              (String.String
                                                                                                 (Ascii.Ascii false false true false false true
                                                                                                    true false) String.EmptyString))))))))))))))))))))))))))))))).
Proof. exact SwitchParse.switch_repeated_value_rejected. Qed.
Print Assumptions switch_repeated_value_rejected.

Theorem written_first_match :
  forall (consts : list (text * text)) (pre : list sitem) (it : sitem) (post : list sitem) (m : text -> bool),
  (forall x : sitem, In x pre -> item_default x = true \/ m (item_value consts x) = false) ->
  item_default it = false ->
  m (item_value consts it) = true -> select_case (map (item_case consts) (pre ++ it :: post)) m = next_written (it :: post).
Proof. exact SwitchParse.written_first_match. Qed.
Print Assumptions written_first_match.

Theorem written_default :
  forall (consts : list (text * text)) (pre : list sitem) (d : sitem) (post : list sitem) (m : text -> bool),
  (forall x : sitem, In x (pre ++ d :: post) -> item_default x = true \/ m (item_value consts x) = false) ->
  item_default d = true ->
  ndefaults (pre ++ d :: post) <= 1 -> select_case (map (item_case consts) (pre ++ d :: post)) m = next_written (d :: post).
Proof. exact SwitchParse.written_default. Qed.
Print Assumptions written_default.

Theorem written_no_match_no_default :
  forall (consts : list (text * text)) (its : list sitem) (m : text -> bool),
  (forall x : sitem, In x its -> item_default x = false /\ m (item_value consts x) = false) -> select_case (map (item_case consts) its) m = [].
Proof. exact SwitchParse.written_no_match_no_default. Qed.
Print Assumptions written_no_match_no_default.

Theorem written_one_body :
  forall (consts : list (text * text)) (its : list sitem) (m : text -> bool),
  select_case (map (item_case consts) its) m = [] \/ (exists it : sitem, In it its /\ select_case (map (item_case consts) its) m = item_body it).
Proof. exact SwitchParse.written_one_body. Qed.
Print Assumptions written_one_body.

Theorem parsed_switch_runs_the_written_body :
  forall (autovars : list (text * autovar)) (switches : list (text * text)) (env_errors : bool)
    (parse_format : toks -> res (token * text * text * toks)) (consts : list (text * text)) (St : Type) (exec : cmd -> St -> stepres St)
    (flag_set trainer_beaten : text -> St -> bool) (cmp_var cmp_var_value : text -> text -> St -> comparison)
    (case_matches : text -> text -> St -> bool) (find_label : text -> option sstate),
  (forall (ts : toks) (tk : token) (v sty : text) (ts' : toks),
   parse_format ts = Ok (tk, v, sty, ts') -> forall a : toks, advs a ts -> advs a ts') ->
  forall (f : nat) (script : text) (bs cs : list nat) (ts : toks) (ss : list stmt) (imp : impdata) (ts' : toks),
  parse_switch autovars switches env_errors parse_format consts f script bs cs ts = Ok (ss, imp, ts') ->
  eof_ended ts ->
  exists (pre : option cmd) (operand : text) (oline : Z) (imph : impdata) (its : list sitem) (rb : token) (rest : toks),
    switch_src autovars consts (body_parsed autovars switches env_errors parse_format consts script (length ts :: bs) cs)
      (cmd_parsed switches env_errors parse_format consts script) ts pre operand oline imph its rb rest /\
    ts' = rb :: rest /\
    ss = match pre with
         | Some c => [SCmd c]
         | None => []
         end ++ [SSwitch (length ts) operand oline (map (item_case consts) its)] /\
    its <> [] /\
    NoDup (case_values consts its) /\
    ndefaults its <= 1 /\
    runs_written consts St exec flag_set trainer_beaten cmp_var cmp_var_value case_matches find_label (length ts) operand oline its.
Proof. exact SwitchParse.parsed_switch_runs_the_written_body. Qed.
Print Assumptions parsed_switch_runs_the_written_body.

Theorem written_switch_runs_the_written_body :
  forall (autovars : list (text * autovar)) (switches : list (text * text)) (env_errors : bool)
    (parse_format : toks -> res (token * text * text * toks)) (consts : list (text * text)) (St : Type) (exec : cmd -> St -> stepres St)
    (flag_set trainer_beaten : text -> St -> bool) (cmp_var cmp_var_value : text -> text -> St -> comparison)
    (case_matches : text -> text -> St -> bool) (find_label : text -> option sstate) (F0 f : nat) (script : text) (bs cs : list nat)
    (ts : list token) (pre : option cmd) (operand : text) (oline : Z) (imph : impdata) (its : list sitem) (rb : token) 
    (rest : toks),
  switch_src autovars consts (body_parses autovars switches env_errors parse_format consts F0 script (length ts :: bs) cs)
    (cmd_parses switches env_errors parse_format consts F0 script) ts pre operand oline imph its rb rest ->
  its <> [] ->
  NoDup (case_values consts its) ->
  ndefaults its <= 1 ->
  F0 + length ts < f ->
  parse_switch autovars switches env_errors parse_format consts f script bs cs ts =
  Ok
    (match pre with
     | Some c => [SCmd c]
     | None => []
     end ++ [SSwitch (length ts) operand oline (map (item_case consts) its)], impadd imph (items_imp its), rb :: rest) /\
  runs_written consts St exec flag_set trainer_beaten cmp_var cmp_var_value case_matches find_label (length ts) operand oline its.
Proof. exact SwitchParse.written_switch_runs_the_written_body. Qed.
Print Assumptions written_switch_runs_the_written_body.

Theorem parse_switch_fuel_independent :
  forall (autovars : list (text * autovar)) (switches : list (text * text)) (env_errors : bool)
    (parse_format : toks -> res (token * text * text * toks)) (consts : list (text * text)),
  (forall (ts : toks) (tk : token) (v sty : text) (ts' : toks),
   parse_format ts = Ok (tk, v, sty, ts') -> forall a : toks, advs a ts -> advs a ts') ->
  (forall (ts : toks) (tk : token) (v sty : text) (ts' : toks), parse_format ts = Ok (tk, v, sty, ts') -> eof_ended ts -> length ts' < length ts) ->
  forall (script : text) (bs cs : list nat) (ts : toks),
  eof_ended ts ->
  forall f g : nat,
  5 * length ts <= f ->
  5 * length ts <= g ->
  parse_switch autovars switches env_errors parse_format consts f script bs cs ts =
  parse_switch autovars switches env_errors parse_format consts g script bs cs ts.
Proof. exact SwitchParse.parse_switch_fuel_independent. Qed.
Print Assumptions parse_switch_fuel_independent.

Theorem parse_switch_exact :
  forall (autovars : list (text * autovar)) (switches : list (text * text)) (env_errors : bool)
    (parse_format : toks -> res (token * text * text * toks)) (consts : list (text * text)),
  (forall (ts : toks) (tk : token) (v sty : text) (ts' : toks),
   parse_format ts = Ok (tk, v, sty, ts') -> forall a : toks, advs a ts -> advs a ts') ->
  (forall (ts : toks) (tk : token) (v sty : text) (ts' : toks), parse_format ts = Ok (tk, v, sty, ts') -> eof_ended ts -> length ts' < length ts) ->
  forall (f : nat) (script : text) (bs cs : list nat) (ts : toks) (ss : list stmt) (imp : impdata) (ts' : toks),
  eof_ended ts ->
  5 * length ts <= f ->
  parse_switch autovars switches env_errors parse_format consts f script bs cs ts = Ok (ss, imp, ts') <->
  (exists (pre : option cmd) (operand : text) (oline : Z) (imph : impdata) (its : list sitem) (rb : token) (rest : toks),
     switch_src autovars consts (body_is autovars switches env_errors parse_format consts script (length ts :: bs) cs)
       (cmd_is switches env_errors parse_format consts script) ts pre operand oline imph its rb rest /\
     its <> [] /\
     NoDup (case_values consts its) /\
     ndefaults its <= 1 /\ ss = switch_stmts consts (length ts) pre operand oline its /\ imp = impadd imph (items_imp its) /\ ts' = rb :: rest).
Proof. exact SwitchParse.parse_switch_exact. Qed.
Print Assumptions parse_switch_exact.

Theorem parse_switch_sound_real :
  forall (autovars : list (text * autovar)) (switches : list (text * text)) (ee : bool) (fc : Format.fontcfg) (cli_font : text) 
    (cli_maxlen : Z) (consts : list (text * text)) (f : nat) (script : text) (bs cs : list nat) (ts : toks) (ss : list stmt) 
    (imp : impdata) (ts' : toks),
  parse_switch autovars switches ee (Format.parse_format fc cli_font cli_maxlen ee) consts f script bs cs ts = Ok (ss, imp, ts') ->
  eof_ended ts ->
  exists (pre : option cmd) (operand : text) (oline : Z) (imph : impdata) (its : list sitem) (rb : token) (rest : toks),
    switch_src autovars consts
      (body_parsed autovars switches ee (Format.parse_format fc cli_font cli_maxlen ee) consts script (length ts :: bs) cs)
      (cmd_parsed switches ee (Format.parse_format fc cli_font cli_maxlen ee) consts script) ts pre operand oline imph its rb rest /\
    ts' = rb :: rest /\
    eof_ended rest /\
    ss = switch_stmts consts (length ts) pre operand oline its /\ imp = impadd imph (items_imp its) /\ its <> [] /\ items_ok consts [] false its.
Proof. exact SwitchParse.parse_switch_sound_real. Qed.
Print Assumptions parse_switch_sound_real.

Theorem parse_switch_exact_real :
  forall (autovars : list (text * autovar)) (switches : list (text * text)) (ee : bool) (fc : Format.fontcfg) (cli_font : text) 
    (cli_maxlen : Z) (consts : list (text * text)) (f : nat) (script : text) (bs cs : list nat) (ts : toks) (ss : list stmt) 
    (imp : impdata) (ts' : toks),
  eof_ended ts ->
  5 * length ts <= f ->
  parse_switch autovars switches ee (Format.parse_format fc cli_font cli_maxlen ee) consts f script bs cs ts = Ok (ss, imp, ts') <->
  (exists (pre : option cmd) (operand : text) (oline : Z) (imph : impdata) (its : list sitem) (rb : token) (rest : toks),
     switch_src autovars consts
       (body_is autovars switches ee (Format.parse_format fc cli_font cli_maxlen ee) consts script (length ts :: bs) cs)
       (cmd_is switches ee (Format.parse_format fc cli_font cli_maxlen ee) consts script) ts pre operand oline imph its rb rest /\
     its <> [] /\
     NoDup (case_values consts its) /\
     ndefaults its <= 1 /\ ss = switch_stmts consts (length ts) pre operand oline its /\ imp = impadd imph (items_imp its) /\ ts' = rb :: rest).
Proof. exact SwitchParse.parse_switch_exact_real. Qed.
Print Assumptions parse_switch_exact_real.

Theorem parsed_switch_runs_the_written_body_real :
  forall (autovars : list (text * autovar)) (switches : list (text * text)) (ee : bool) (fc : Format.fontcfg) (cli_font : text) 
    (cli_maxlen : Z) (consts : list (text * text)) (St : Type) (case_matches : text -> text -> St -> bool) (exec : cmd -> St -> stepres St)
    (flag_set trainer_beaten : text -> St -> bool) (cmp_var cmp_var_value : text -> text -> St -> comparison)
    (find_label : text -> option sstate) (f : nat) (script : text) (bs cs : list nat) (ts : toks) (ss : list stmt) (imp : impdata) 
    (ts' : toks),
  parse_switch autovars switches ee (Format.parse_format fc cli_font cli_maxlen ee) consts f script bs cs ts = Ok (ss, imp, ts') ->
  eof_ended ts ->
  exists (pre : option cmd) (operand : text) (oline : Z) (imph : impdata) (its : list sitem) (rb : token) (rest : toks),
    switch_src autovars consts
      (body_parsed autovars switches ee (Format.parse_format fc cli_font cli_maxlen ee) consts script (length ts :: bs) cs)
      (cmd_parsed switches ee (Format.parse_format fc cli_font cli_maxlen ee) consts script) ts pre operand oline imph its rb rest /\
    ts' = rb :: rest /\
    ss = match pre with
         | Some c => [SCmd c]
         | None => []
         end ++ [SSwitch (length ts) operand oline (map (item_case consts) its)] /\
    its <> [] /\
    NoDup (case_values consts its) /\
    ndefaults its <= 1 /\
    runs_written consts St exec flag_set trainer_beaten cmp_var cmp_var_value case_matches find_label (length ts) operand oline its.
Proof. exact SwitchParse.parsed_switch_runs_the_written_body_real. Qed.
Print Assumptions parsed_switch_runs_the_written_body_real.

