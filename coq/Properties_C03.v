(* C03 - switch selects exactly the matching body, with shared, empty and default cases. *)
From Coq Require Import List ZArith Bool.
From Pory Require Import Lexer Ast Emitter Sem2 SpecLemmas Worklist.
Import ListNotations.

(* the body of the first matching case, shared with the next case that has one *)
Theorem switch_first_match :
  forall pre c post m,
    (forall x, In x pre -> sc_def x = true \/ m (sc_val x) = false) -> sc_def c = false -> m (sc_val c) = true ->
    select_case (pre ++ c :: post) m = next_body (c :: post).
Proof. exact select_first_match. Qed.
Print Assumptions switch_first_match.

(* default - wherever it is written - runs exactly when no case matches; without default nothing runs *)
Theorem switch_default_iff_no_match :
  forall cases m, (forall x, In x cases -> sc_def x = true \/ m (sc_val x) = false) ->
    select_case cases m = match select_default cases with Some b => b | None => [] end.
Proof. exact select_no_match. Qed.
Print Assumptions switch_default_iff_no_match.

Theorem switch_default_position :
  forall pre c post, (forall x, In x pre -> sc_def x = false) -> sc_def c = true ->
    select_default (pre ++ c :: post) = Some (next_body (c :: post)).
Proof. exact select_default_spec. Qed.
Print Assumptions switch_default_position.

(* trailing body-less cases do nothing; control never runs two bodies *)
Theorem switch_trailing_empty : forall cs, (forall x, In x cs -> sc_body x = []) -> next_body cs = [].
Proof. exact next_body_trailing. Qed.
Print Assumptions switch_trailing_empty.

Theorem switch_runs_one_body :
  forall cases m, select_case cases m = [] \/ exists c, In c cases /\ select_case cases m = sc_body c.
Proof. exact select_is_one_body. Qed.
Print Assumptions switch_runs_one_body.

(* ---------- emitter side: the case table and the body chunks built for a switch implement that selection ---------- *)
(* For every case list with at most one default (what the parser accepts) and every assignment m of "the switched value
   equals v": the chunk the emitted table sends m to - the first listed case whose value matches, else the default entry,
   else the exit - carries exactly the body the source semantics selects (select_case: first matching case, empty bodies
   sharing the next body, default only when nothing matches, trailing empty cases leaving the switch); if the emitter
   elides the switch, every selection is empty.  Proved for the case loop of createSwitchStatementChunks as modelled
   (sw_loop), by induction over groups of cases (Worklist.v). *)
Theorem switch_table_selects :
  forall cases ret sid st el,
  (Worklist.ndef cases <= 1)%nat ->
  sw_loop (S (List.length cases)) cases 0 ret {| sw_new := []; sw_cases := []; sw_def := None; sw_counter := sid |} = (st, el) ->
  (el = true -> forall m, select_case cases m = []) /\
  (el = false -> forall m,
     match first_case (sw_cases st) m with
     | Some d => In (mk d ret (select_case cases m) None) (sw_new st)
     | None => match sw_def st with
               | Some dd => In (mk dd ret (select_case cases m) None) (sw_new st)
               | None => select_case cases m = []
               end
     end).
Proof. exact Worklist.switch_table_selects. Qed.
Print Assumptions switch_table_selects.
