(* C18 - "every input is answered with output or an error value; it never panics, hangs or grows without bound":
   TOTALITY OF THE EMITTER MODEL on everything the parser accepts.

   The emitter model builds the chunk graph of a script body with a worklist (Emitter.work) that runs on a fixed fuel
   (Emitter.work_fuel = 10000 steps) and can answer Ok / ErrBreak / ErrContinue / OutOfFuel.  Proved here, for ALL bodies,
   programs, source texts, option combinations (optimize, line markers, switches, fonts, AutoVar configuration) and both
   modes (ee = true: normal, ee = false: lint):

   1. work_fuel_monotone, work_answers_agree: the fuel is a proof device - an answer other than OutOfFuel stays the same
      under any larger fuel, and two fuels that both suffice give the same answer.
   2. wstep_decreases, work_terminates: the measure  mu w = sum over the pending chunks of (1 + weight of their statements)
      strictly decreases in every worklist step (Worklist.wstep); hence  mu w < f -> work f w <> OutOfFuel;
      work_fuel_independent: above the measure the answer does not depend on the fuel.
      The weight (wt1 / wts) is an explicit function of the syntax tree:  break / continue 1;  if: 1 + per branch
      (1 + nodes of its condition + weight of its block) + (1 + weight) for an else;  while / do-while: 3 + nodes of the
      condition + weight of the block;  switch: 2 + per case (1 + weight of its block);  commands and labels 0.
      mu_body body = 1 + wts body;  mu_body_le_nodes: mu_body body <= 1 + 3 * (number of nodes of the syntax tree).
   3. work_scoped_no_break_error: from a state whose pending chunks are well scoped relative to the break / continue
      tables (SInv), the worklist never answers ErrBreak / ErrContinue (and never ErrLabel: work_never_label_error).
   4. work_total, emit_graph_total: for every body with  Tr.scoped None None body  (true of every accepted program:
      ProgWf / ProgSrc.accepted_bodies_are_src_ok) and  mu_body body < fuel  the graph is built:  exists w, work f (w0 body)
      = Ok w;  with f = work_fuel:  exists w, emit_graph body = Ok w.  No other hypothesis (src_ok is not needed).
      emit_graph_total_small: at most 3332 syntax nodes suffice.  emit_graph_fuel_irrelevant: any larger fuel gives the
      same graph.  emit_graph_scoped_cases: without the size bound the answer is Ok or OutOfFuel, nothing else.
   5. emit_script_total, emit_program_total: a well-scoped script / program whose bodies fit (bodies_fit) is answered with
      Ok or ErrLabel (the located duplicate-label error), never ErrBreak / ErrContinue / OutOfFuel.
      compile_never_panics_nor_parser_fuel (unconditional): Compile.compile never returns OutPanic or OutFuel.
      compile_total: if the bodies of the parsed program fit, Compile.compile returns OutText or OutErr.
      compile_emit_error_only_oversize: OutEmitErr occurs ONLY for a source with a body b with work_fuel <= mu_body b.
   6. Examples: ex_fit (a source with loop / break / continue / if-elif-else / switch / do-while: hypotheses hold, output
      produced); ex_bound_matters (a well-scoped body of 10004 weight - a loop of ten thousand breaks - on which the model
      DOES answer OutOfFuel: the size hypothesis is not an artefact of the proof but a limit of the model's fixed fuel; the
      Go compiler has no such limit; with fuel 10005 the graph is built).

   7. PART 4b / 5b: accepted_bodies_fit_tokens: for every accepted program, mu_body b <= number of tokens of the source
      (toks_all: all eleven statement functions of the parser; parse_program_fit); hence, WITHOUT ANY PREMISE on the
      program, compile_total_tokens: every source text with fewer than 10000 tokens (work_fuel) is answered with OutText or
      OutErr, in every configuration and mode; compile_emit_error_needs_many_tokens: OutEmitErr needs >= 10000 tokens. *)
From Coq Require Import List String Ascii ZArith NArith Lia Bool Permutation.
From Pory Require Import Lexer Ast Emitter Sem2 Tr Worklist.
Import ListNotations.
Open Scope list_scope.

(* ================================================================================================================== *)
(* PART 1: the fuel of the worklist is a proof device: any answer other than OutOfFuel is stable under more fuel         *)
(* ================================================================================================================== *)
Lemma work_fuel_mono_step : forall f w r, work f w = r -> r <> OutOfFuel -> work (S f) w = r.
Proof.
  induction f as [|f IH]; intros w r H NR; [cbn in H; congruence|].
  rewrite work_S in H. rewrite work_S. destruct (wstep w) as [|fin news c' nt| |]; try exact H.
  apply IH; assumption.
Qed.

Theorem work_fuel_monotone : forall k f w r, work f w = r -> r <> OutOfFuel -> work (f + k) w = r.
Proof.
  induction k as [|k IH]; intros f w r H NR; [rewrite Nat.add_0_r; exact H|].
  replace (f + S k) with (S (f + k)) by lia. apply work_fuel_mono_step; [apply IH; assumption|exact NR].
Qed.

Corollary work_answers_agree f1 f2 w :
  work f1 w <> OutOfFuel -> work f2 w <> OutOfFuel -> work f1 w = work f2 w.
Proof.
  intros H1 H2. destruct (Nat.le_ge_cases f1 f2) as [L|L].
  - replace f2 with (f1 + (f2 - f1)) by lia. symmetry. apply work_fuel_monotone; [reflexivity|exact H1].
  - replace f1 with (f2 + (f1 - f2)) by lia. apply work_fuel_monotone; [reflexivity|exact H2].
Qed.

(* ================================================================================================================== *)
(* PART 2: the termination measure                                                                                     *)
(* ================================================================================================================== *)
(* number of nodes of a condition = number of (statement-free) chunks split_bexp creates for it *)
Fixpoint bsize (e : bexp) : nat := match e with BLeaf _ => 1 | BBin _ a b => 1 + bsize a + bsize b end.

(* the weight of a statement: an upper bound of the number of chunks the worklist will ever create because of it
   (simple statements create none; a control statement creates the chunk of the statements after it, one chunk per
   sub-block, one per node of its conditions, and a loop header / switch chunk) *)
Fixpoint wt1 (s : stmt) : nat :=
  let wl := fix wl (ss : list stmt) : nat := match ss with [] => 0 | x :: r => wt1 x + wl r end in
  match s with
  | SCmd _ | SLabel _ _ _ => 0
  | SBreak _ | SContinue _ => 1
  | SIf conds els =>
      1 + (fix go (cs : list (bexp * list stmt)) : nat := match cs with [] => 0 | (e, b) :: r => 1 + bsize e + wl b + go r end) conds
        + match els with Some b => 1 + wl b | None => 0 end
  | SWhile _ c b => 3 + match c with Some e => bsize e | None => 0 end + wl b
  | SDoWhile _ b e => 3 + bsize e + wl b
  | SSwitch _ _ _ cases =>
      2 + (fix go (cs : list scase) : nat := match cs with [] => 0 | c :: r => 1 + wl (sc_body c) + go r end) cases
  end.
Fixpoint wts (ss : list stmt) : nat := match ss with [] => 0 | x :: r => wt1 x + wts r end.
Definition wts_local := fix wl (ss : list stmt) : nat := match ss with [] => 0 | x :: r => wt1 x + wl r end.
Lemma wts_local_eq ss : wts_local ss = wts ss.
Proof. induction ss as [|x r IH]; [reflexivity|]. cbn. now rewrite IH. Qed.

Fixpoint wconds (cs : list (bexp * list stmt)) : nat :=
  match cs with [] => 0 | (e, b) :: r => 1 + bsize e + wts b + wconds r end.
Definition wopt (o : option (list stmt)) : nat := match o with Some b => 1 + wts b | None => 0 end.
Fixpoint wcases (cs : list scase) : nat := match cs with [] => 0 | c :: r => 1 + wts (sc_body c) + wcases r end.
Definition bopt (c : option bexp) : nat := match c with Some e => bsize e | None => 0 end.

Lemma wt1_if conds els : wt1 (SIf conds els) = 1 + wconds conds + wopt els.
Proof.
  change (wt1 (SIf conds els)) with
    (1 + (fix go (cs : list (bexp * list stmt)) : nat := match cs with [] => 0 | (e, b) :: r => 1 + bsize e + wts_local b + go r end) conds
       + match els with Some b => 1 + wts_local b | None => 0 end).
  assert (A : (fix go (cs : list (bexp * list stmt)) : nat := match cs with [] => 0 | (e, b) :: r => 1 + bsize e + wts_local b + go r end) conds
              = wconds conds).
  { induction conds as [|[e b] r IH]; [reflexivity|]. cbn [wconds]. rewrite IH, wts_local_eq. reflexivity. }
  assert (B : match els with Some b => 1 + wts_local b | None => 0 end = wopt els).
  { destruct els; cbn [wopt]; [now rewrite wts_local_eq|reflexivity]. }
  rewrite A, B. reflexivity.
Qed.
Lemma wt1_while tg c b : wt1 (SWhile tg c b) = 3 + bopt c + wts b.
Proof. change (wt1 (SWhile tg c b)) with (3 + bopt c + wts_local b). now rewrite wts_local_eq. Qed.
Lemma wt1_dowhile tg b e : wt1 (SDoWhile tg b e) = 3 + bsize e + wts b.
Proof. change (wt1 (SDoWhile tg b e)) with (3 + bsize e + wts_local b). now rewrite wts_local_eq. Qed.
Lemma wt1_switch tg o ol cases : wt1 (SSwitch tg o ol cases) = 2 + wcases cases.
Proof.
  change (wt1 (SSwitch tg o ol cases)) with
    (2 + (fix go (cs : list scase) : nat := match cs with [] => 0 | c :: r => 1 + wts_local (sc_body c) + go r end) cases).
  assert (A : (fix go (cs : list scase) : nat := match cs with [] => 0 | c :: r => 1 + wts_local (sc_body c) + go r end) cases = wcases cases).
  { induction cases as [|c r IH]; [reflexivity|]. cbn [wcases]. rewrite IH, wts_local_eq. reflexivity. }
  rewrite A. reflexivity.
Qed.
Lemma wts_app a b : wts (a ++ b) = wts a + wts b.
Proof. induction a as [|x r IH]; [reflexivity|]. cbn. rewrite IH. lia. Qed.
Lemma wcases_app a b : wcases (a ++ b) = wcases a + wcases b.
Proof. induction a as [|x r IH]; [reflexivity|]. cbn. rewrite IH. lia. Qed.

(* the weight of a pending chunk, of a list of pending chunks, of a worklist state *)
Definition cw (c : chunk) : nat := 1 + wts (cstmts c).
Fixpoint sumw (cs : list chunk) : nat := match cs with [] => 0 | c :: r => cw c + sumw r end.
Definition mu (w : wst) : nat := sumw (remaining w).
Lemma sumw_app a b : sumw (a ++ b) = sumw a + sumw b.
Proof. induction a as [|x r IH]; [reflexivity|]. cbn. rewrite IH. lia. Qed.

Definition emp (c : chunk) : Prop := cstmts c = [].
Lemma emp_sumw cs : Forall emp cs -> sumw cs = List.length cs.
Proof. induction 1 as [|c r E _ IH]; [reflexivity|]. cbn. unfold cw. rewrite E, IH. reflexivity. Qed.
Lemma emp_from A cs : Forall emp cs -> Forall (from A) cs.
Proof. intros H. eapply Forall_impl; [|exact H]. intros c E. left. exact E. Qed.

(* ---------- conditions ---------- *)
Lemma split_bexp_emp : forall e cn su fa fi cs en f2 c2,
  split_bexp e cn su fa fi = (cs, en, f2, c2) -> Forall emp cs /\ List.length cs = bsize e.
Proof.
  induction e as [l|o a IHa b IHb]; intros cn su fa fi cs en f2 c2 H.
  - cbn in H. inversion H; subst. split; [repeat constructor|reflexivity].
  - destruct o; cbn [split_bexp] in H.
    + destruct (split_bexp a (cn + 1) (cn + 1) fa fi) as [[[ra la] f1] c1] eqn:Ea.
      destruct (split_bexp b c1 su fa f1) as [[[rb lb] f2x] c2x] eqn:Eb. inversion H; subst.
      destruct (IHa _ _ _ _ _ _ _ _ Ea) as [A1 A2]. destruct (IHb _ _ _ _ _ _ _ _ Eb) as [B1 B2]. split.
      * apply Forall_app. split; [exact A1|]. apply Forall_app. split; [exact B1|repeat constructor].
      * rewrite !app_length, A2, B2. cbn. lia.
    + destruct (split_bexp a (cn + 1) su (cn + 1) fi) as [[[ra la] f1] c1] eqn:Ea.
      destruct (split_bexp b c1 su fa f1) as [[[rb lb] f2x] c2x] eqn:Eb. inversion H; subst.
      destruct (IHa _ _ _ _ _ _ _ _ Ea) as [A1 A2]. destruct (IHb _ _ _ _ _ _ _ _ Eb) as [B1 B2]. split.
      * apply Forall_app. split; [exact A1|]. apply Forall_app. split; [exact B1|repeat constructor].
      * rewrite !app_length, A2, B2. cbn. lia.
Qed.

Fixpoint bsum (es : list bexp) : nat := match es with [] => 0 | e :: r => bsize e + bsum r end.
Lemma bsum_app a b : bsum (a ++ b) = bsum a + bsum b.
Proof. induction a as [|x r IH]; [reflexivity|]. cbn. rewrite IH. lia. Qed.
Lemma bsum_rev l : bsum (rev l) = bsum l.
Proof. induction l as [|x r IH]; [reflexivity|]. cbn. rewrite bsum_app, IH. cbn. lia. Qed.
Lemma bsum_combine : forall (es : list bexp) (idl : list Z), bsum (map fst (combine es idl)) <= bsum es.
Proof. induction es as [|e r IH]; intros [|i idl]; cbn; try lia. specialize (IH idl). lia. Qed.

Lemma stitch_emp : forall rl cn fail cs entry c',
  stitch_elifs rl cn fail = (cs, entry, c') -> Forall emp cs /\ List.length cs = bsum (map fst rl).
Proof.
  induction rl as [|[e id] r IH]; intros cn fail cs entry c' H; cbn in H.
  - inversion H; subst. split; [constructor|reflexivity].
  - destruct (split_bexp e cn id fail (-1)) as [[[cs0 x] first] c1] eqn:E0.
    destruct (stitch_elifs r c1 first) as [[cs2 entry2] c2] eqn:E2. inversion H; subst.
    destruct (split_bexp_emp _ _ _ _ _ _ _ _ _ E0) as [A1 A2]. destruct (IH _ _ _ _ _ E2) as [B1 B2]. split.
    + apply Forall_app. split; assumption.
    + rewrite app_length, A2, B2. reflexivity.
Qed.

(* ---------- the chunk of the statements after a control statement ---------- *)
Lemma sfb_wt cur pre s rest' cn post ret c0 :
  cstmts cur = pre ++ s :: rest' -> split_for_branch cur (List.length pre) cn = (post, ret, c0) ->
  sumw post <= 1 + wts rest'.
Proof.
  intros E H. destruct (sfb_spec _ _ _ _ _ _ _ _ E H) as [(-> & -> & -> & ->)|(N & -> & -> & ->)]; cbn; unfold cw; cbn; lia.
Qed.

Fixpoint wbodies (bs : list (list stmt)) : nat := match bs with [] => 0 | b :: r => 1 + wts b + wbodies r end.
Lemma mk_body_wt : forall bodies cn ret cs c', mk_body_chunks bodies cn ret = (cs, c') -> sumw cs = wbodies bodies.
Proof.
  induction bodies as [|b r IH]; intros cn ret cs c' H; cbn in H.
  - inversion H; subst. reflexivity.
  - destruct (mk_body_chunks r (cn + 1) ret) as [cs1 c1] eqn:E. inversion H; subst. cbn. rewrite (IH _ _ _ _ E). reflexivity.
Qed.
Lemma wconds_split conds : wconds conds = wbodies (map snd conds) + bsum (map fst conds).
Proof. induction conds as [|[e b] r IH]; [reflexivity|]. cbn. rewrite IH. lia. Qed.

(* what one control statement leaves behind: new chunks carry no statements, or the statements after the control
   statement, or one of its sub-blocks; and their total weight is less than the weight of the control statement *)
Definition shape (s : stmt) (rest' : list stmt) (news : list chunk) : Prop :=
  Forall (from (rest' :: subblocks s)) news /\ sumw news <= wt1 s + wts rest'.

Lemma from_rest rest' sub post : Forall (from [rest']) post -> Forall (from (rest' :: sub)) post.
Proof. apply from_incl. intros y [<-|[]]. left. reflexivity. Qed.
Lemma from_sub rest' sub cs : Forall (from sub) cs -> Forall (from (rest' :: sub)) cs.
Proof. apply from_incl. intros y I. right. exact I. Qed.

Lemma create_if_shape conds els cur pre rest' cn news br ret c' :
  cstmts cur = pre ++ SIf conds els :: rest' ->
  create_if conds els cur (List.length pre) cn = (news, br, ret, c') ->
  shape (SIf conds els) rest' news.
Proof.
  intros E H. unfold create_if in H.
  destruct (split_for_branch cur (List.length pre) cn) as [[post ret0] c0] eqn:ES.
  pose proof (sfb_wt _ _ _ _ _ _ _ _ E ES) as PW. pose proof (sfb_from _ _ _ _ _ _ _ _ E ES) as PF.
  destruct (mk_body_chunks (map snd conds) c0 ret0) as [bodychunks c1] eqn:EB.
  pose proof (mk_body_wt _ _ _ _ _ EB) as BW. pose proof (mk_body_from _ _ _ _ _ EB) as BF.
  set (EL := match els with Some b => let c := (c1 + 1)%Z in ([mk c ret0 b None], c, c) | None => ([], c1, ret0) end) in H.
  assert (NE : sumw (fst (fst EL)) = wopt els /\ Forall (from (match els with Some eb => [eb] | None => [] end)) (fst (fst EL))).
  { subst EL. destruct els as [eb|]; cbn; (split; [unfold cw; cbn; lia|]); [constructor; [right; left; reflexivity|constructor]|constructor]. }
  destruct EL as [[elsechunk c2] finalfail]. cbn [fst snd] in NE. destruct NE as [EW EF].
  unfold shape. rewrite wt1_if, wconds_split. cbn [subblocks].
  destruct (combine (map fst conds) (map cid bodychunks)) as [|first elifs] eqn:CB.
  - inversion H; subst. split; [apply from_rest; exact PF|lia].
  - destruct (stitch_elifs (rev elifs) c2 finalfail) as [[cs entryfail] c3] eqn:EST.
    destruct (split_bexp (fst first) c3 (snd first) entryfail (-1)) as [[[cs1 x] entry] c4] eqn:EX.
    destruct (stitch_emp _ _ _ _ _ _ EST) as [S1 S2]. destruct (split_bexp_emp _ _ _ _ _ _ _ _ _ EX) as [X1 X2].
    inversion H; subst. clear H.
    pose proof (bsum_combine (map fst conds) (map cid bodychunks)) as BC. rewrite CB in BC. cbn [map bsum] in BC.
    rewrite map_rev, bsum_rev in S2. split.
    + apply Forall_app. split; [apply from_rest; exact PF|].
      apply Forall_app. split; [apply from_sub; eapply from_incl; [|exact BF]; intros y I; apply in_or_app; left; exact I|].
      apply Forall_app. split; [apply from_sub; eapply from_incl; [|exact EF]; intros y I; apply in_or_app; right; exact I|].
      apply Forall_app. split; apply emp_from; assumption.
    + rewrite !sumw_app, (emp_sumw _ S1), (emp_sumw _ X1), S2, X2, BW, EW. lia.
Qed.

Lemma loop_tail_shape (body : list stmt) c0 ret0 entry cs :
  Forall emp cs ->
  sumw (cs ++ [mk (c0 + 2) (c0 + 1) body None; mk (c0 + 1) ret0 [] (Some (BrJump entry))]) = List.length cs + 2 + wts body /\
  forall rest', Forall (from (rest' :: [body])) (cs ++ [mk (c0 + 2) (c0 + 1) body None; mk (c0 + 1) ret0 [] (Some (BrJump entry))]).
Proof.
  intros HE. split.
  - rewrite sumw_app, (emp_sumw _ HE). cbn. unfold cw. cbn. lia.
  - intros rest'. apply Forall_app. split; [apply emp_from; exact HE|].
    constructor; [right; right; left; reflexivity|]. constructor; [left; reflexivity|constructor].
Qed.

Lemma create_while_shape tg c body cur pre rest' cn news br ret c' :
  cstmts cur = pre ++ SWhile tg c body :: rest' ->
  create_while c body cur (List.length pre) cn = (news, br, ret, c') ->
  shape (SWhile tg c body) rest' news.
Proof.
  intros E H. unfold create_while in H.
  destruct (split_for_branch cur (List.length pre) cn) as [[post ret0] c0] eqn:ES.
  pose proof (sfb_wt _ _ _ _ _ _ _ _ E ES) as PW. pose proof (sfb_from _ _ _ _ _ _ _ _ E ES) as PF.
  unfold shape. rewrite wt1_while. cbn [subblocks]. destruct c as [e|].
  - destruct (split_bexp e (c0 + 2) (c0 + 2) ret0 (-1)) as [[[cs x] entry] c1] eqn:EX.
    destruct (split_bexp_emp _ _ _ _ _ _ _ _ _ EX) as [X1 X2]. inversion H; subst.
    destruct (loop_tail_shape body c0 ret entry cs X1) as [L1 L2]. split.
    + apply Forall_app. split; [apply from_rest; exact PF|apply L2].
    + rewrite sumw_app, L1, X2. cbn [bopt]. lia.
  - inversion H; subst. destruct (loop_tail_shape body c0 ret (c0 + 2)%Z [] (Forall_nil _)) as [L1 L2]. split.
    + apply Forall_app. split; [apply from_rest; exact PF|apply (L2 rest')].
    + rewrite sumw_app. cbn [app] in L1. rewrite L1. cbn. lia.
Qed.

Lemma create_dowhile_shape tg body e cur pre rest' cn news br ret c' :
  cstmts cur = pre ++ SDoWhile tg body e :: rest' ->
  create_dowhile body e cur (List.length pre) cn = (news, br, ret, c') ->
  shape (SDoWhile tg body e) rest' news.
Proof.
  intros E H. unfold create_dowhile in H.
  destruct (split_for_branch cur (List.length pre) cn) as [[post ret0] c0] eqn:ES.
  pose proof (sfb_wt _ _ _ _ _ _ _ _ E ES) as PW. pose proof (sfb_from _ _ _ _ _ _ _ _ E ES) as PF.
  unfold shape. rewrite wt1_dowhile. cbn [subblocks].
  destruct (split_bexp e (c0 + 2) (c0 + 2) ret0 (-1)) as [[[cs x] entry] c1] eqn:EX.
  destruct (split_bexp_emp _ _ _ _ _ _ _ _ _ EX) as [X1 X2]. inversion H; subst.
  destruct (loop_tail_shape body c0 ret entry cs X1) as [L1 L2]. split.
  - apply Forall_app. split; [apply from_rest; exact PF|apply L2].
  - rewrite sumw_app, L1, X2. lia.
Qed.

(* ---------- switch ---------- *)
Lemma sw_suf_wt ret : forall f S st st' el,
  sw_suf f S ret st = (st', el) -> sumw (sw_new st') <= sumw (sw_new st) + wcases S.
Proof.
  induction f as [|f IH]; intros S st st' el H; [cbn in H; inversion H; subst; lia|].
  destruct S as [|c r].
  - cbn in H. inversion H; subst. lia.
  - cbn [sw_suf] in H. destruct (sc_body c) as [|s0 b0] eqn:Bc.
    + destruct (find_bodied r 0) as [[k cj]|] eqn:FB.
      * destruct (find_bodied_some _ _ _ FB) as (E & r' & -> & HE & N & LEN).
        assert (F2 : skipn (S k) (E ++ cj :: r') = r') by (rewrite <- LEN; apply skipn_app_here). rewrite F2 in H.
        apply IH in H. cbn [sw_new] in H. rewrite sumw_app in H. cbn [sumw] in H. unfold cw at 1 in H. cbn [cstmts mk] in H.
        cbn [wcases]. rewrite wcases_app. cbn [wcases]. lia.
      * destruct (sw_def st) as [dd|].
        -- assert (H' : ({| sw_new := sw_new st ++ [mk (sw_counter st + 1) ret [] None];
                           sw_cases := sw_cases st ++ flat_map (case_entry (sw_counter st + 1)) (c :: r);
                           sw_def := Some dd; sw_counter := (sw_counter st + 1)%Z |}, false) = (st', el)) by (destruct (sw_cases st); exact H).
           inversion H'; subst. cbn [sw_new]. rewrite sumw_app. cbn. unfold cw. cbn. lia.
        -- assert (H' : st' = st) by (destruct (sw_cases st); inversion H; reflexivity). subst st'. lia.
    + apply IH in H. cbn [sw_new] in H. rewrite sumw_app in H. cbn [sumw] in H. unfold cw at 1 in H. cbn [cstmts mk] in H.
      cbn [wcases]. rewrite Bc. lia.
Qed.

Lemma create_switch_shape tg op ol cases cur pre rest' cn news br ret c' :
  cstmts cur = pre ++ SSwitch tg op ol cases :: rest' ->
  create_switch op ol cases cur (List.length pre) cn = (news, br, ret, c') ->
  shape (SSwitch tg op ol cases) rest' news.
Proof.
  intros E H. unfold create_switch in H.
  destruct (split_for_branch cur (List.length pre) cn) as [[post ret0] c0] eqn:ES.
  pose proof (sfb_wt _ _ _ _ _ _ _ _ E ES) as PW. pose proof (sfb_from _ _ _ _ _ _ _ _ E ES) as PF.
  cbv zeta in H. rewrite sw_loop_suf in H. change (skipn 0 cases) with cases in H.
  match type of H with context[sw_suf ?a ?b ?c ?d] => destruct (sw_suf a b c d) as [st el] eqn:SW end.
  assert (LL : (List.length cases < S (List.length cases))%nat) by lia.
  destruct (sw_suf_from _ _ _ _ _ _ SW LL) as (ex & A1 & A2). cbn in A1.
  pose proof (sw_suf_wt _ _ _ _ _ _ SW) as WT. cbn [sw_new sumw] in WT.
  inversion H; subst. unfold shape. rewrite wt1_switch. cbn [subblocks]. split.
  - apply Forall_app. split; [apply from_rest; exact PF|].
    constructor; [left; reflexivity|]. apply from_sub. exact A2.
  - rewrite sumw_app. cbn [app sumw]. unfold cw at 1. cbn [cstmts mk wts]. lia.
Qed.

(* ---------- one step of the worklist ---------- *)
(* the statement the scan stops at *)
Inductive step_kind (w : wst) (cur : chunk) : chunk -> list chunk -> option (nat * Z * Z) -> Prop :=
| sk_final fin : step_kind w cur fin [] None
| sk_ctrl pre s rest' fin news nt :
    cstmts cur = pre ++ s :: rest' -> Forall simple pre -> is_simple s = false -> shape s rest' news ->
    (match s with SWhile tg _ _ | SDoWhile tg _ _ | SSwitch tg _ _ _ => exists r d, nt = Some (tg, r, d) | _ => nt = None end) ->
    step_kind w cur fin news nt.

Lemma shape_post s rest' post : wt1 s >= 1 -> subblocks s = [] -> Forall (from [rest']) post -> sumw post <= 1 + wts rest' -> shape s rest' post.
Proof. intros W S F L. split; [apply from_rest; exact F|lia]. Qed.

Lemma wstep_kind w cur rest fin news c' nt :
  remaining w = cur :: rest -> wstep w = SNext fin news c' nt -> step_kind w cur fin news nt.
Proof.
  intros R H. unfold wstep in H. rewrite R in H.
  pose proof (scan_ok (cstmts cur) 0 (List.length (cstmts cur)) eq_refl) as SC.
  destruct (scan (cstmts cur) 0 (List.length (cstmts cur))) as [i er]. inversion SC as [pre c e E F ER Q1|F Q1|pre s rest' E F NS Q1]; subst.
  - cbn [Nat.add] in H. inversion H; subst. constructor.
  - cbn [Nat.add] in H. rewrite Nat.eqb_refl in H. inversion H; subst. constructor.
  - cbn [Nat.add] in H.
    assert (NE : Nat.eqb (List.length pre) (List.length (cstmts cur)) = false).
    { apply Nat.eqb_neq. rewrite E, app_length. cbn. lia. }
    rewrite NE in H. rewrite E in H at 1. rewrite nth_error_app_here in H.
    destruct s as [c|nm g tk|conds els|tag c body|tag body c|tag|tag|tag op ol cases]; try discriminate NS.
    + destruct (create_if conds els cur (List.length pre) (counter w)) as [[[news0 br] ret] c0] eqn:CR. inversion H; subst.
      eapply sk_ctrl; [exact E|exact F|reflexivity|eapply create_if_shape; eassumption|reflexivity].
    + destruct (create_while c body cur (List.length pre) (counter w)) as [[[news0 br] ret] c0] eqn:CR. inversion H; subst.
      eapply sk_ctrl; [exact E|exact F|reflexivity|eapply create_while_shape; eassumption|do 2 eexists; reflexivity].
    + destruct (create_dowhile body c cur (List.length pre) (counter w)) as [[[news0 br] ret] c0] eqn:CR. inversion H; subst.
      eapply sk_ctrl; [exact E|exact F|reflexivity|eapply create_dowhile_shape; eassumption|do 2 eexists; reflexivity].
    + destruct (tm_get (brk w) tag) as [d|]; [|discriminate].
      destruct (split_for_branch cur (List.length pre) (counter w)) as [[post ret] c0] eqn:ES. inversion H; subst.
      eapply sk_ctrl; [exact E|exact F|reflexivity| |reflexivity].
      apply shape_post; [cbn; lia|reflexivity|eapply sfb_from; eassumption|eapply sfb_wt; eassumption].
    + destruct (tm_get (org w) tag) as [d|]; [|discriminate].
      destruct (split_for_branch cur (List.length pre) (counter w)) as [[post ret] c0] eqn:ES. inversion H; subst.
      eapply sk_ctrl; [exact E|exact F|reflexivity| |reflexivity].
      apply shape_post; [cbn; lia|reflexivity|eapply sfb_from; eassumption|eapply sfb_wt; eassumption].
    + destruct (create_switch op ol cases cur (List.length pre) (counter w)) as [[[news0 br] ret] c0] eqn:CR. inversion H; subst.
      eapply sk_ctrl; [exact E|exact F|reflexivity|eapply create_switch_shape; eassumption|do 2 eexists; reflexivity].
Qed.

(* every step strictly decreases the measure *)
Theorem wstep_decreases w fin news c' nt :
  wstep w = SNext fin news c' nt -> mu (wnext w fin news c' nt) < mu w.
Proof.
  intros H. destruct (remaining w) as [|cur rest] eqn:R; [unfold wstep in H; rewrite R in H; discriminate|].
  pose proof (wstep_kind _ _ _ _ _ _ _ R H) as K. unfold mu, wnext. cbn [remaining]. rewrite R. cbn [tl sumw]. rewrite sumw_app.
  destruct K as [fin|pre s rest' fin news nt E F NS [SF SW] NT].
  - cbn. unfold cw. lia.
  - unfold cw. rewrite E, wts_app. cbn [wts]. lia.
Qed.

(* hence a fuel above the measure is never exhausted *)
Theorem work_terminates : forall f w, mu w < f -> work f w <> OutOfFuel.
Proof.
  induction f as [|f IH]; intros w L; [lia|]. rewrite work_S.
  destruct (wstep w) as [|fin news c' nt| |] eqn:WS; try discriminate.
  apply IH. pose proof (wstep_decreases _ _ _ _ _ WS). lia.
Qed.

Corollary work_fuel_independent f1 f2 w : mu w < f1 -> mu w < f2 -> work f1 w = work f2 w.
Proof. intros H1 H2. apply work_answers_agree; apply work_terminates; assumption. Qed.

(* ================================================================================================================== *)
(* PART 3: well-scoped bodies never make the worklist fail on a break / continue                                        *)
(* ================================================================================================================== *)
Definition tagged (m : tagmap) (o : option nat) : Prop := match o with Some tg => tm_get m tg <> None | None => True end.
Lemma tagged_cons m tg v o : tagged m o -> tagged ((tg, v) :: m) o.
Proof. destruct o as [k|]; [|auto]. cbn. destruct (Nat.eqb k tg); [discriminate|auto]. Qed.
Lemma tagged_head m tg v : tagged ((tg, v) :: m) (Some tg).
Proof. cbn. rewrite Nat.eqb_refl. discriminate. Qed.

(* a pending chunk is well scoped relative to the break / continue tables built so far *)
Definition chunk_scoped (B O : tagmap) (c : chunk) : Prop :=
  exists bt lt, scoped bt lt (cstmts c) /\ tagged B bt /\ tagged O lt.
Definition SInv (w : wst) : Prop := Forall (chunk_scoped (brk w) (org w)) (remaining w).

Lemma scoped_split bt lt pre s rest' : scoped bt lt (pre ++ s :: rest') -> scoped1 bt lt s /\ scoped bt lt rest'.
Proof.
  induction pre as [|x pre IH]; cbn; intros H; inversion H; subst; [split; assumption|]. apply IH. assumption.
Qed.

Lemma scoped_conds_in bt lt conds : scoped_conds bt lt conds -> forall b, In b (map snd conds) -> scoped bt lt b.
Proof. induction 1 as [| ? ? e b r Hb _ IH]; intros x I; [destruct I|]. destruct I as [<-|I]; [exact Hb|apply IH; exact I]. Qed.
Lemma scoped_cases_in bt lt cases : scoped_cases bt lt cases -> forall b, In b (map (fun c : scase => sc_body c) cases) -> scoped bt lt b.
Proof. induction 1 as [| ? ? c r Hb _ IH]; intros x I; [destruct I|]. destruct I as [<-|I]; [exact Hb|apply IH; exact I]. Qed.

(* the scope of the sub-blocks of a control statement *)
Definition sub_bt (bt : option nat) (s : stmt) : option nat :=
  match s with SWhile tg _ _ | SDoWhile tg _ _ | SSwitch tg _ _ _ => Some tg | _ => bt end.
Definition sub_lt (lt : option nat) (s : stmt) : option nat :=
  match s with SWhile tg _ _ | SDoWhile tg _ _ => Some tg | _ => lt end.
Lemma scoped1_sub bt lt s : scoped1 bt lt s -> forall b, In b (subblocks s) -> scoped (sub_bt bt s) (sub_lt lt s) b.
Proof.
  intros H b I. inversion H; subst; cbn [subblocks sub_bt sub_lt] in *; try contradiction.
  - apply in_app_or in I. destruct I as [I|I]; [eapply scoped_conds_in; eassumption|].
    match goal with K : scoped_opt _ _ _ |- _ => inversion K; subst end; [destruct I|]. destruct I as [<-|[]]. assumption.
  - destruct I as [<-|[]]. assumption.
  - destruct I as [<-|[]]. assumption.
  - eapply scoped_cases_in; eassumption.
Qed.

Definition wbrk (w : wst) (nt : option (nat * Z * Z)) : tagmap := match nt with Some (tg, r, _) => (tg, r) :: brk w | None => brk w end.
Definition worg (w : wst) (nt : option (nat * Z * Z)) : tagmap := match nt with Some (tg, _, d) => (tg, d) :: org w | None => org w end.
Lemma tagged_wbrk w nt o : tagged (brk w) o -> tagged (wbrk w nt) o.
Proof. destruct nt as [[[tg r] d]|]; [apply tagged_cons|auto]. Qed.
Lemma tagged_worg w nt o : tagged (org w) o -> tagged (worg w nt) o.
Proof. destruct nt as [[[tg r] d]|]; [apply tagged_cons|auto]. Qed.
Lemma chunk_scoped_mono w nt c : chunk_scoped (brk w) (org w) c -> chunk_scoped (wbrk w nt) (worg w nt) c.
Proof. intros (bt & lt & S & B & O). exists bt, lt. split; [exact S|]. split; [apply tagged_wbrk; exact B|apply tagged_worg; exact O]. Qed.

Lemma wstep_sinv w fin news c' nt : SInv w -> wstep w = SNext fin news c' nt -> SInv (wnext w fin news c' nt).
Proof.
  intros I H. destruct (remaining w) as [|cur rest] eqn:R; [unfold wstep in H; rewrite R in H; discriminate|].
  pose proof (wstep_kind _ _ _ _ _ _ _ R H) as K. unfold SInv in *. rewrite R in I. inversion I as [|? ? IC IR]; subst.
  unfold wnext. cbn [remaining brk org]. rewrite R. cbn [tl]. fold (wbrk w nt). fold (worg w nt).
  apply Forall_app. split; [eapply Forall_impl; [|exact IR]; intros c; apply chunk_scoped_mono|].
  destruct K as [fin|pre s rest' fin news nt E F NS [SF SW] NT]; [constructor|].
  destruct IC as (bt & lt & SC & TB & TO). rewrite E in SC. apply scoped_split in SC. destruct SC as [S1 SR].
  eapply Forall_impl; [|exact SF]. intros c [EM|[ER|ES]].
  - exists None, None. rewrite EM. split; [apply sc_nil|split; exact Logic.I].
  - exists bt, lt. rewrite <- ER. split; [exact SR|]. split; [apply tagged_wbrk; exact TB|apply tagged_worg; exact TO].
  - exists (sub_bt bt s), (sub_lt lt s). split; [apply scoped1_sub; assumption|].
    destruct s as [c0|nm g tk|conds els|tag c0 body|tag body c0|tag|tag|tag op ol cases]; cbn [sub_bt sub_lt]; try discriminate NS;
      try (subst nt; split; assumption).
    + destruct NT as (r & d & ->). split; apply tagged_head.
    + destruct NT as (r & d & ->). split; apply tagged_head.
    + destruct NT as (r & d & ->). split; [apply tagged_head|apply tagged_cons; exact TO].
Qed.

Lemma wstep_errb w : wstep w = SErrB ->
  exists cur rest pre tag rest', remaining w = cur :: rest /\ cstmts cur = pre ++ SBreak tag :: rest' /\ tm_get (brk w) tag = None.
Proof.
  intros H. unfold wstep in H. destruct (remaining w) as [|cur rest] eqn:R; [discriminate|].
  pose proof (scan_ok (cstmts cur) 0 (List.length (cstmts cur)) eq_refl) as SC.
  destruct (scan (cstmts cur) 0 (List.length (cstmts cur))) as [i er]. inversion SC as [pre c e E F ER Q1|F Q1|pre s rest' E F NS Q1]; subst.
  - discriminate.
  - cbn [Nat.add] in H. rewrite Nat.eqb_refl in H. discriminate.
  - cbn [Nat.add] in H. destruct (Nat.eqb (List.length pre) (List.length (cstmts cur))); [discriminate|].
    rewrite E in H at 1. rewrite nth_error_app_here in H.
    destruct s as [c|nm g tk|conds els|tag c body|tag body c|tag|tag|tag op ol cases]; try discriminate H.
    + destruct (create_if conds els cur (List.length pre) (counter w)) as [[[? ?] ?] ?]. discriminate.
    + destruct (create_while c body cur (List.length pre) (counter w)) as [[[? ?] ?] ?]. discriminate.
    + destruct (create_dowhile body c cur (List.length pre) (counter w)) as [[[? ?] ?] ?]. discriminate.
    + destruct (tm_get (brk w) tag) eqn:TB.
      * destruct (split_for_branch cur (List.length pre) (counter w)) as [[? ?] ?]. discriminate.
      * exists cur, rest, pre, tag, rest'. auto.
    + destruct (tm_get (org w) tag); [|discriminate]. destruct (split_for_branch cur (List.length pre) (counter w)) as [[? ?] ?]. discriminate.
    + destruct (create_switch op ol cases cur (List.length pre) (counter w)) as [[[? ?] ?] ?]. discriminate.
Qed.

Lemma wstep_errc w : wstep w = SErrC ->
  exists cur rest pre tag rest', remaining w = cur :: rest /\ cstmts cur = pre ++ SContinue tag :: rest' /\ tm_get (org w) tag = None.
Proof.
  intros H. unfold wstep in H. destruct (remaining w) as [|cur rest] eqn:R; [discriminate|].
  pose proof (scan_ok (cstmts cur) 0 (List.length (cstmts cur)) eq_refl) as SC.
  destruct (scan (cstmts cur) 0 (List.length (cstmts cur))) as [i er]. inversion SC as [pre c e E F ER Q1|F Q1|pre s rest' E F NS Q1]; subst.
  - discriminate.
  - cbn [Nat.add] in H. rewrite Nat.eqb_refl in H. discriminate.
  - cbn [Nat.add] in H. destruct (Nat.eqb (List.length pre) (List.length (cstmts cur))); [discriminate|].
    rewrite E in H at 1. rewrite nth_error_app_here in H.
    destruct s as [c|nm g tk|conds els|tag c body|tag body c|tag|tag|tag op ol cases]; try discriminate H.
    + destruct (create_if conds els cur (List.length pre) (counter w)) as [[[? ?] ?] ?]. discriminate.
    + destruct (create_while c body cur (List.length pre) (counter w)) as [[[? ?] ?] ?]. discriminate.
    + destruct (create_dowhile body c cur (List.length pre) (counter w)) as [[[? ?] ?] ?]. discriminate.
    + destruct (tm_get (brk w) tag); [|discriminate]. destruct (split_for_branch cur (List.length pre) (counter w)) as [[? ?] ?]. discriminate.
    + destruct (tm_get (org w) tag) eqn:TB.
      * destruct (split_for_branch cur (List.length pre) (counter w)) as [[? ?] ?]. discriminate.
      * exists cur, rest, pre, tag, rest'. auto.
    + destruct (create_switch op ol cases cur (List.length pre) (counter w)) as [[[? ?] ?] ?]. discriminate.
Qed.

Lemma sinv_no_err w : SInv w -> wstep w <> SErrB /\ wstep w <> SErrC.
Proof.
  intros I. split; intros H.
  - destruct (wstep_errb _ H) as (cur & rest & pre & tag & rest' & R & E & T). unfold SInv in I. rewrite R in I.
    inversion I as [|? ? (bt & lt & SC & TB & TO) _]; subst. rewrite E in SC. apply scoped_split in SC. destruct SC as [S1 _].
    inversion S1; subst. cbn in TB. contradiction.
  - destruct (wstep_errc _ H) as (cur & rest & pre & tag & rest' & R & E & T). unfold SInv in I. rewrite R in I.
    inversion I as [|? ? (bt & lt & SC & TB & TO) _]; subst. rewrite E in SC. apply scoped_split in SC. destruct SC as [S1 _].
    inversion S1; subst. cbn in TO. contradiction.
Qed.

Theorem work_scoped_no_break_error : forall f w, SInv w -> work f w <> ErrBreak /\ work f w <> ErrContinue.
Proof.
  induction f as [|f IH]; intros w I; [split; discriminate|]. rewrite work_S.
  destruct (sinv_no_err w I) as [NB NC].
  destruct (wstep w) as [|fin news c' nt| |] eqn:WS; try congruence; [split; discriminate|].
  apply IH. eapply wstep_sinv; eassumption.
Qed.

Lemma work_never_label_error tk b : forall f w, work f w <> ErrLabel tk b.
Proof.
  induction f as [|f IH]; intros w; [discriminate|]. rewrite work_S. destruct (wstep w); try discriminate. apply IH.
Qed.

(* ================================================================================================================== *)
(* PART 4: the chunk graph of every well-scoped body that fits the fuel is built                                        *)
(* ================================================================================================================== *)
(* the size of a body, as the worklist sees it: 1 for the body itself, and for every control statement at any depth
     break / continue            1
     if                          1 + per branch (1 + nodes of its condition) + 1 for an else
     while / do-while            3 + nodes of the condition
     switch                      2 + number of cases
   (nodes of a condition: its leaves and its && / || operators); commands and labels weigh nothing *)
Definition mu_body (body : list stmt) : nat := 1 + wts body.

Definition w0 (body : list stmt) : wst := {| remaining := [mk 0 (-1) body None]; finals := []; counter := 0; brk := []; org := [] |}.
Lemma mu_w0 body : mu (w0 body) = mu_body body.
Proof. unfold mu, w0, mu_body. cbn. unfold cw. cbn. lia. Qed.
Lemma sinv_w0 body : scoped None None body -> SInv (w0 body).
Proof. intros H. constructor; [|constructor]. exists None, None. split; [exact H|split; exact Logic.I]. Qed.

Local Opaque work_fuel work.
Lemma emit_graph_eq body : emit_graph body = work work_fuel (w0 body).
Proof. reflexivity. Qed.

(* with ANY fuel above the size of the body the worklist answers with a graph *)
Theorem work_total body f :
  scoped None None body -> mu_body body < f -> exists w, work f (w0 body) = Ok w.
Proof.
  intros HS HF.
  pose proof (work_terminates f (w0 body) ltac:(rewrite mu_w0; exact HF)) as NF.
  destruct (work_scoped_no_break_error f (w0 body) (sinv_w0 body HS)) as [NB NC].
  destruct (work f (w0 body)) as [w| | | |tk b] eqn:E; try congruence; [now exists w|].
  exfalso. exact (work_never_label_error tk b _ _ E).
Qed.

Theorem emit_graph_total body :
  scoped None None body -> mu_body body < work_fuel -> exists w, emit_graph body = Ok w.
Proof. intros HS HF. rewrite emit_graph_eq. apply work_total; assumption. Qed.

(* without the size bound: the graph is built or the fuel ran out - never a break / continue / label failure *)
Theorem emit_graph_scoped_cases body :
  scoped None None body -> (exists w, emit_graph body = Ok w) \/ emit_graph body = OutOfFuel.
Proof.
  intros HS. rewrite emit_graph_eq.
  destruct (work_scoped_no_break_error work_fuel (w0 body) (sinv_w0 body HS)) as [NB NC].
  destruct (work work_fuel (w0 body)) as [w| | | |tk b] eqn:E; try congruence; [left; now exists w|right; reflexivity|].
  exfalso. exact (work_never_label_error tk b _ _ E).
Qed.

(* the fuel constant is irrelevant for the bodies that fit: any larger fuel gives the same graph *)
Theorem emit_graph_fuel_irrelevant body f :
  mu_body body < work_fuel -> mu_body body < f -> work f (w0 body) = emit_graph body.
Proof. intros H1 H2. rewrite emit_graph_eq. apply work_fuel_independent; rewrite mu_w0; assumption. Qed.

(* ================================================================================================================== *)
(* PART 4b: the size of every accepted body is bounded by the number of tokens of the source                            *)
(* ================================================================================================================== *)
(* Every unit of weight is paid by a token of its own: break / continue by the keyword; a condition node by a token of the
   leaf (a leaf takes at least two tokens) or by the && / || ; if / elif by keyword, parentheses and braces; while and
   do-while by keyword and braces; switch by keyword and braces, a case by `case` or `default`.  Proved for all eleven
   mutually recursive statement functions of the parser by one induction on the fuel (TOKS / toks_all), then for scripts,
   map scripts (inline scripts and tables) and programs. *)
From Pory Require Import Consume ProgWf.
From Pory Require Import Parser.

Local Notation Ln := (@List.length token).

Lemma is_type ty tk : is ty tk = true -> ttype tk = ty.
Proof. unfold is, tt_eqb. destruct (toktype_eq_dec (ttype tk) ty); [auto|discriminate]. Qed.
Lemma E_adv ts : eof_ended ts -> eof_ended (adv ts).
Proof. apply advs_eof. apply advs_step, advs_refl. Qed.
Lemma adv_lt_cur ty ts : eof_ended ts -> curis ty ts = true -> ty <> EOF -> S (Ln (adv ts)) <= Ln ts.
Proof. intros E C T. apply adv_strict; [exact E|]. unfold curis in C. apply is_type in C. congruence. Qed.
Lemma adv_lt_peek ty ts : eof_ended ts -> peekis ty ts = true -> ty <> EOF -> S (Ln (adv ts)) <= Ln ts.
Proof. intros E C T. eapply peek_strict; eassumption. Qed.
Lemma peek_cur ty ts : eof_ended ts -> peekis ty ts = true -> ty <> EOF -> curis ty (adv ts) = true.
Proof.
  intros [N E] P T. destruct ts as [|x [|y r]]; [congruence| |exact P]. exfalso. unfold peekis, pk in P. cbn in P, E.
  apply is_type in P. congruence.
Qed.
Lemma expect_peek_facts ty ts y : expect_peek ty ts = Some y -> y = adv ts /\ peekis ty ts = true.
Proof. unfold expect_peek. destruct (peekis ty ts); [intros H; inversion H; auto|discriminate]. Qed.
Lemma step_peek ty ts y : eof_ended ts -> expect_peek ty ts = Some y -> ty <> EOF ->
  eof_ended y /\ S (Ln y) <= Ln ts /\ curis ty y = true.
Proof.
  intros E H T. destruct (expect_peek_facts _ _ _ H) as [-> P]. split; [apply E_adv; exact E|]. split; [eapply adv_lt_peek; eassumption|eapply peek_cur; eassumption].
Qed.
Lemma step_call a b : advs a b -> eof_ended a -> eof_ended b /\ Ln b <= Ln a.
Proof. intros A E. split; [eapply advs_eof; eassumption|apply advs_len; exact A]. Qed.

Lemma pbind_inv' {X Y} (m : Parser.res X) (k : X -> Parser.res Y) r :
  match m with Parser.Ok x => k x | Err e => Err e | Panic => Panic | Fuel => Fuel end = Parser.Ok r ->
  exists x, m = Parser.Ok x /\ k x = Parser.Ok r.
Proof. destruct m; try discriminate. eauto. Qed.
Tactic Notation "bind" hyp(H) "as" simple_intropattern(p) :=
  let E := fresh "E" in apply pbind_inv' in H; destruct H as (p & E & H); cbn beta iota in H.

Tactic Notation "bind" hyp(H) "as" simple_intropattern(p) "eq" ident(E) :=
  apply pbind_inv' in H; destruct H as (p & E & H); cbn beta iota in H.

Section TOK.
Variable autovars : list (text * autovar).
Variable switches : list (text * text).
Variable ee : bool.
Variable parse_format : toks -> res (token * text * text * toks).
Variable consts : list (text * text).
Hypothesis parse_format_advs : forall ts tk v sty ts', parse_format ts = Ok (tk, v, sty, ts') -> forall a, advs a ts -> advs a ts'.

Notation leaf_expr := (leaf_expr autovars switches ee parse_format consts).
Notation bool_expr := (bool_expr autovars switches ee parse_format consts).
Notation right_side := (right_side autovars switches ee parse_format consts).
Notation var_or_autovar := (var_or_autovar autovars switches ee parse_format consts).
Notation command_stmt := (command_stmt switches ee parse_format consts).

(* a leaf of a condition takes at least two tokens *)
Lemma command_stmt_tok f script ts c i ts' : eof_ended ts -> curis IDENT ts = true ->
  command_stmt f script ts = Ok (c, i, ts') -> S (Ln (adv ts')) <= Ln ts.
Proof.
  intros E C H. unfold Parser.command_stmt in H. cbv zeta in H. destruct (peekis LPAREN ts) eqn:P.
  - destruct (command_args _ _ _ _ _ _ _ _ _ _ _ _) as [[[args imp] ts1]| | |] eqn:CA; try discriminate. inversion H; subst.
    pose proof (command_args_advs switches parse_format consts parse_format_advs ee _ _ _ _ _ _ _ _ _ _ _ _ CA _ (advs_refl _)) as A.
    apply advs_len in A. pose proof (adv_len ts'). pose proof (adv_len (adv ts)).
    assert (S (Ln (adv ts)) <= Ln ts) by (eapply adv_lt_peek; [exact E|exact P|discriminate]). lia.
  - inversion H; subst. eapply adv_lt_cur; [exact E|exact C|discriminate].
Qed.

Lemma leaf_expr_tok f script ts0 l i ts' : eof_ended ts0 ->
  leaf_expr f script ts0 = Ok (l, i, ts') -> 2 + Ln ts' <= Ln ts0.
Proof.
  intros E0 H. unfold Parser.leaf_expr in H.
  set (q := if peekis NOT ts0 then (true, adv ts0) else (false, ts0)) in H.
  assert (Q : eof_ended (snd q) /\ Ln (snd q) <= Ln ts0).
  { subst q. destruct (peekis NOT ts0); cbn [snd]; [split; [apply E_adv; exact E0|apply adv_len]|split; [exact E0|lia]]. }
  destruct q as [used_not ts]. cbn [snd] in Q. destruct Q as [E LE]. cbv zeta in H.
  destruct (negb (peekis VAR ts) && negb (peek_is_autovar autovars ts) && negb (peekis FLAG ts) && negb (peekis DEFEATED ts)) eqn:CND; [discriminate|].
  match type of H with (match ?m with _ => _ end) = _ => destruct m as [[[[[[kind opnd] opline] pre] imp] ts3]| | |] eqn:MID; try discriminate end.
  assert (CORE : 2 + Ln (adv ts3) <= Ln ts).
  { destruct (peek_is_autovar autovars ts) eqn:AUTO; cbn [negb] in MID.
    - (* autovar command *)
      destruct (var_or_autovar f script ts) as [[[r imp1] ts1]| | |] eqn:VA; try discriminate.
      destruct r as [[v c]|]; [|discriminate]. inversion MID; subst. clear MID.
      unfold Parser.var_or_autovar in VA. destruct (peekis VAR ts).
      + destruct (expect_peek LPAREN (adv ts)); [inversion VA|discriminate].
      + destruct (assoc autovars (tlit (pk 1 ts))) as [av|]; [|discriminate]. cbv zeta in VA.
        destruct (command_stmt f script (adv ts)) as [[[c0 imp0'] ts2]| | |] eqn:CS; try discriminate.
        unfold peek_is_autovar in AUTO. apply andb_prop in AUTO. destruct AUTO as [PI _].
        assert (S (Ln (adv ts)) <= Ln ts) by (eapply adv_lt_peek; [exact E|exact PI|discriminate]).
        pose proof (command_stmt_tok _ _ _ _ _ _ (E_adv _ E) (peek_cur _ _ E PI ltac:(discriminate)) CS) as K.
        destruct (avPos av); [destruct (_ || _); [discriminate|]|]; inversion VA; subst; lia.
    - (* var( / flag( / defeated( *)
      cbv zeta in MID. cbn [negb andb] in CND.
      assert (S (Ln (adv ts)) <= Ln ts).
      { destruct (peekis VAR ts) eqn:P1; [eapply adv_lt_peek; [exact E|exact P1|discriminate]|].
        destruct (peekis FLAG ts) eqn:P2; [eapply adv_lt_peek; [exact E|exact P2|discriminate]|].
        destruct (peekis DEFEATED ts) eqn:P3; [eapply adv_lt_peek; [exact E|exact P3|discriminate]|]. discriminate. }
      destruct (expect_peek LPAREN (adv ts)) as [ts2|] eqn:EP; [|discriminate].
      destruct (step_peek _ _ _ (E_adv _ E) EP ltac:(discriminate)) as (E2 & L2 & _).
      destruct (peekis RPAREN ts2); [discriminate|].
      destruct (collect_until consts f (is RPAREN) (adv ts2) []) as [[parts ts4]|] eqn:CU; [|discriminate]. inversion MID; subst.
      pose proof (collect_until_advs consts _ _ _ _ _ _ CU _ (advs_refl _)) as A. apply advs_len in A.
      pose proof (adv_len ts3). pose proof (adv_len ts2). lia. }
  assert (TAIL : Ln ts' <= Ln (adv ts3)).
  { destruct used_not; [inversion H; subst; lia|]. destruct kind.
    - destruct (cond_flag_operator (adv ts3) "flag") as [[[o v] ts5]| | |] eqn:CO; try discriminate. inversion H; subst.
      pose proof (cond_flag_operator_advs _ _ _ _ _ CO _ (advs_refl _)) as A. apply advs_len in A. exact A.
    - destruct (cond_var_operator consts f (adv ts3)) as [[[[o v] st] ts5]| | |] eqn:CO; try discriminate. inversion H; subst.
      pose proof (cond_var_operator_advs consts _ _ _ _ _ _ CO _ (advs_refl _)) as A. apply advs_len in A. exact A.
    - destruct (cond_flag_operator (adv ts3) "defeated") as [[[o v] ts5]| | |] eqn:CO; try discriminate. inversion H; subst.
      pose proof (cond_flag_operator_advs _ _ _ _ _ CO _ (advs_refl _)) as A. apply advs_len in A. exact A. }
  lia.
Qed.

(* a condition takes at least as many tokens as it has nodes (plus the token before it) *)
Definition BEC (f : nat) : Prop :=
  (forall single negated script ts e i ts', eof_ended ts -> bool_expr f single negated script ts = Ok (e, i, ts') ->
     bsize e + 1 + Ln ts' <= Ln ts) /\
  (forall left single negated script ts e i ts', eof_ended ts -> right_side f left single negated script ts = Ok (e, i, ts') ->
     bsize e + Ln ts' <= bsize left + Ln ts).

Lemma bexp_tok : forall f, BEC f.
Proof.
  induction f as [|f [IH1 IH2]]; [split; intros; discriminate|]. split.
  - intros single negated script ts e i ts' E H. rewrite bool_expr_unfold in H. cbv zeta in H.
    destruct (peekis LPAREN ts || peekis NOT ts && is LPAREN (pk 2 ts)) eqn:NEST.
    + set (q := if peekis LPAREN ts then (adv ts, negated) else (adv (adv ts), negb negated)) in H.
      assert (Q : eof_ended (fst q) /\ S (Ln (fst q)) <= Ln ts).
      { subst q. destruct (peekis LPAREN ts) eqn:P1; cbn [fst].
        - split; [apply E_adv; exact E|eapply adv_lt_peek; [exact E|exact P1|discriminate]].
        - cbn [orb] in NEST. apply andb_prop in NEST. destruct NEST as [P2 _].
          split; [apply E_adv, E_adv; exact E|]. pose proof (adv_len (adv ts)).
          assert (S (Ln (adv ts)) <= Ln ts) by (eapply adv_lt_peek; [exact E|exact P2|discriminate]). lia. }
      destruct q as [ts2 nn]. cbn [fst] in Q. destruct Q as [E2 L2].
      bind H as [[e0 imp] ts3].
      pose proof (IH1 _ _ _ _ _ _ _ E2 E0) as B0.
      pose proof (bool_expr_advs autovars switches parse_format consts parse_format_advs ee _ _ _ _ _ _ _ _ E0 _ (advs_refl _)) as A3.
      destruct (step_call _ _ A3 E2) as [E3 _].
      destruct (curis RPAREN ts3) eqn:RP; cbn [negb] in H; [|discriminate].
      assert (S (Ln (adv ts3)) <= Ln ts3) by (eapply adv_lt_cur; [exact E3|exact RP|discriminate]).
      destruct (negb single && (peekis AND ts3 || peekis OR ts3)).
      * bind H as [[e1 imp1] ts4]. inversion H; subst.
        pose proof (IH2 _ _ _ _ _ _ _ _ (E_adv _ E3) E1). lia.
      * inversion H; subst. lia.
    + bind H as [[l imp] ts1]. pose proof (leaf_expr_tok _ _ _ _ _ _ E E0) as LF.
      pose proof (leaf_expr_advs autovars switches parse_format consts parse_format_advs ee _ _ _ _ _ _ E0 _ (advs_refl _)) as A1.
      destruct (step_call _ _ A1 E) as [E1' _]. cbv zeta in H.
      destruct single.
      * inversion H; subst. cbn [bsize]. lia.
      * bind H as [[e1 imp1] ts2]. inversion H; subst. pose proof (IH2 _ _ _ _ _ _ _ _ E1' E1) as R. cbn [bsize] in R. lia.
  - intros left single negated script ts e i ts' E H. rewrite right_side_unfold in H.
    destruct (curis AND ts).
    + bind H as [[r imp] ts1]. cbv zeta in H. bind H as [[e1 imp1] ts2]. inversion H; subst.
      pose proof (IH1 _ _ _ _ _ _ _ E E0) as B0.
      pose proof (bool_expr_advs autovars switches parse_format consts parse_format_advs ee _ _ _ _ _ _ _ _ E0 _ (advs_refl _)) as A1.
      destruct (step_call _ _ A1 E) as [E1' _].
      pose proof (IH2 _ _ _ _ _ _ _ _ E1' E1) as R. cbn [bsize] in R. lia.
    + destruct (curis OR ts).
      * bind H as [[r imp] ts1]. inversion H; subst. pose proof (IH1 _ _ _ _ _ _ _ E E0) as B0. cbn [bsize]. lia.
      * inversion H; subst. lia.
Qed.

(* ---------- statements ---------- *)
Notation parse_stmt := (parse_stmt autovars switches ee parse_format consts).
Notation parse_block := (parse_block autovars switches ee parse_format consts).
Notation parse_switch_block := (parse_switch_block autovars switches ee parse_format consts).
Notation parse_cond := (parse_cond autovars switches ee parse_format consts).
Notation parse_if := (parse_if autovars switches ee parse_format consts).
Notation parse_elifs := (parse_elifs autovars switches ee parse_format consts).
Notation parse_switch := (parse_switch autovars switches ee parse_format consts).
Notation parse_cases := (parse_cases autovars switches ee parse_format consts).
Notation parse_pory := (parse_pory autovars switches ee parse_format consts).
Notation parse_pory_cases := (parse_pory_cases autovars switches ee parse_format consts).
Notation parse_pory_stmts := (parse_pory_stmts autovars switches ee parse_format consts).

Definition cond_w (e : option bexp) : nat := match e with Some e1 => bsize e1 + 3 | None => 2 end.
Definition pc_ok (top n : nat) (l : list (text * (list stmt * impdata))) : Prop :=
  forall k ss imp, In (k, (ss, imp)) l -> wts ss + 1 + n <= top.

Definition TOKS (f : nat) : Prop :=
  (forall script bs cs ts ss imp ts', eof_ended ts -> parse_stmt f script bs cs ts = Ok (ss, imp, ts') ->
      wts ss + Ln (adv ts') <= Ln ts) /\
  (forall script bs cs start ts acc imp ss imp' ts', eof_ended ts -> parse_block f script bs cs start ts acc imp = Ok (ss, imp', ts') ->
      wts ss + Ln ts' <= wts acc + Ln ts /\ curis RBRACE ts' = true) /\
  (forall script bs cs start ts acc imp ss imp' ts', eof_ended ts -> parse_switch_block f script bs cs start ts acc imp = Ok (ss, imp', ts') ->
      wts ss + Ln ts' <= wts acc + Ln ts) /\
  (forall req script bs cs ts e b imp ts', eof_ended ts -> parse_cond f req script bs cs ts = Ok (e, b, imp, ts') ->
      cond_w e + wts b + Ln ts' <= Ln ts /\ curis RBRACE ts' = true) /\
  (forall script bs cs ts ss imp ts', eof_ended ts -> parse_if f script bs cs ts = Ok (ss, imp, ts') ->
      wts ss + Ln (adv ts') <= Ln ts) /\
  (forall script bs cs ts acc imp l imp' ts', eof_ended ts -> parse_elifs f script bs cs ts acc imp = Ok (l, imp', ts') ->
      wconds l + Ln ts' <= wconds acc + Ln ts) /\
  (forall script bs cs ts ss imp ts', eof_ended ts -> parse_switch f script bs cs ts = Ok (ss, imp, ts') ->
      wts ss + Ln (adv ts') <= Ln ts) /\
  (forall script bs cs brace ts acc seen hasdef imp l imp' ts', eof_ended ts ->
      parse_cases f script bs cs brace ts acc seen hasdef imp = Ok (l, imp', ts') ->
      wcases l + Ln ts' <= wcases acc + Ln ts) /\
  (forall script bs cs ts ss imp ts', eof_ended ts -> parse_pory f script bs cs ts = Ok (ss, imp, ts') ->
      wts ss + Ln (adv ts') <= Ln ts) /\
  (forall script bs cs start ts acc l ts' top, eof_ended ts -> parse_pory_cases f script bs cs start ts acc = Ok (l, ts') ->
      pc_ok top (Ln ts) acc -> Ln ts <= top -> pc_ok top (Ln ts') l) /\
  (forall script bs cs multi ts acc imp ss imp' ts', eof_ended ts -> parse_pory_stmts f script bs cs multi ts acc imp = Ok (ss, imp', ts') ->
      wts ss + Ln ts' <= wts acc + Ln ts).

Lemma wconds_app a b : wconds (a ++ b) = wconds a + wconds b.
Proof. induction a as [|[e x] r IH]; [reflexivity|]. cbn. rewrite IH. lia. Qed.
Lemma assoc_in' {X} (l : list (text * X)) k v : assoc l k = Some v -> exists k', In (k', v) l.
Proof.
  induction l as [|[k' v'] r IH]; cbn; [discriminate|]. destruct (text_eqb k' k).
  - intros H; inversion H; subst. exists k'. now left.
  - intros H. destruct (IH H) as [k2 X0]. exists k2. now right.
Qed.

(* facts about a call  H : F .. x .. = Ok (.., y)  whose advs lemma is A: eof_ended y and Ln y <= Ln x *)
Ltac call H A :=
  let K := fresh "K" in pose proof H as K; eapply A in K; [|apply advs_refl];
  match type of K with advs ?x ?y =>
    match goal with Ex : eof_ended x |- _ =>
      let E1 := fresh "Ey" in let L1 := fresh "Ly" in destruct (step_call x y K Ex) as [E1 L1] end end.
Ltac peek H :=
  match type of H with expect_peek ?ty ?x = Some ?y =>
    match goal with Ex : eof_ended x |- _ =>
      let E1 := fresh "Ey" in let L1 := fresh "Ly" in let C1 := fresh "Cy" in
      destruct (step_peek ty x y Ex H ltac:(discriminate)) as (E1 & L1 & C1) end end.
Ltac eadv x :=
  match goal with Ex : eof_ended x |- _ =>
    let E1 := fresh "Ea" in pose proof (E_adv x Ex) as E1; pose proof (adv_len x) end.

Lemma toks_all : forall f, TOKS f.
Proof.
  induction f as [|f IH]; [unfold TOKS; repeat split; intros; discriminate|].
  destruct IH as (Istmt & Iblock & Iswb & Icond & Iif & Ielifs & Iswitch & Icases & Ipory & Ipcases & Ipstmts).
  destruct (adv_all autovars switches parse_format consts parse_format_advs ee f)
    as (Astmt & Ablock & Aswb & Acond & Aif & Aelifs & Aswitch & Acases & Apory & Apcases & Apstmts).
  unfold TOKS. split; [|split; [|split; [|split; [|split; [|split; [|split; [|split; [|split; [|split]]]]]]]]].
  - (* parse_stmt *)
    intros script bs cs ts ss imp ts' E H. rewrite parse_stmt_unfold in H.
    destruct (ttype (cur ts)) eqn:TY; try discriminate.
    + destruct (try_label ts) as [[l ts1]|] eqn:TL.
      * inversion H; subst. pose proof (try_label_advs _ _ _ TL _ (advs_refl _)) as A. apply advs_len in A. pose proof (adv_len ts').
        unfold try_label in TL. destruct (peekis COLON ts); [inversion TL; subst; cbn; lia|].
        destruct (peekis LPAREN ts && _ && _ && _); inversion TL; subst; cbn; lia.
      * bind H as [[c imp1] ts1]. inversion H; subst.
        pose proof (command_stmt_advs switches parse_format consts parse_format_advs ee _ _ _ _ _ _ E0 _ (advs_refl _)) as A.
        apply advs_len in A. pose proof (adv_len ts'). cbn. lia.
    + eapply Iif; eassumption.
    + (* do *)
      cbv zeta in H. destruct (expect_peek LBRACE ts) as [ts1|] eqn:P1; [|discriminate]. peek P1. eadv ts1.
      bind H as [[b imp1] ts2]. destruct (Iblock _ _ _ _ _ _ _ _ _ _ Ea E0) as [B1 B2]. call E0 Ablock.
      destruct (expect_peek WHILE ts2) as [ts3|] eqn:P3; [|discriminate]. peek P3.
      destruct (expect_peek LPAREN ts3) as [ts4|] eqn:P4; [|discriminate]. peek P4.
      bind H as [[e imp2] ts5]. inversion H; subst.
      pose proof (proj1 (bexp_tok f) _ _ _ _ _ _ _ Ey2 E1) as BE. pose proof (adv_len ts').
      cbn [wts]. rewrite wt1_dowhile. cbn [wts] in B1. lia.
    + (* while *)
      cbv zeta in H. bind H as [[[c b] imp1] ts1]. inversion H; subst.
      destruct (Icond _ _ _ _ _ _ _ _ _ E E0) as [C1 C2]. call E0 Acond.
      assert (S (Ln (adv ts')) <= Ln ts') by (eapply adv_lt_cur; [exact Ey|exact C2|discriminate]).
      cbn [wts]. rewrite wt1_while. unfold cond_w in C1. destruct c; cbn [bopt]; lia.
    + (* break *)
      destruct bs as [|tg bs]; [discriminate|]. inversion H; subst.
      assert (S (Ln (adv ts')) <= Ln ts') by (apply adv_strict; [exact E|rewrite TY; discriminate]). cbn. lia.
    + (* continue *)
      destruct cs as [|tg cs]; [discriminate|]. destruct (peekis RBRACE ts); [|discriminate]. inversion H; subst.
      assert (S (Ln (adv ts')) <= Ln ts') by (apply adv_strict; [exact E|rewrite TY; discriminate]). cbn. lia.
    + eapply Iswitch; eassumption.
    + eapply Ipory; eassumption.
  - (* parse_block *)
    intros script bs cs start ts acc imp ss imp' ts' E H. rewrite parse_block_unfold in H.
    destruct (curis RBRACE ts) eqn:RB; [inversion H; subst; split; [lia|exact RB]|].
    destruct (curis EOF ts); [discriminate|]. bind H as [[ss1 imp1] ts1].
    pose proof (Istmt _ _ _ _ _ _ _ E E0) as S1. call E0 Astmt. eadv ts1.
    destruct (Iblock _ _ _ _ _ _ _ _ _ _ Ea H) as [B1 B2]. rewrite wts_app in B1. split; [lia|exact B2].
  - (* parse_switch_block *)
    intros script bs cs start ts acc imp ss imp' ts' E H. rewrite parse_switch_block_unfold in H.
    destruct (curis RBRACE ts || curis CASE ts || curis DEFAULT ts); [inversion H; subst; lia|].
    destruct (curis EOF ts); [discriminate|]. bind H as [[ss1 imp1] ts1].
    pose proof (Istmt _ _ _ _ _ _ _ E E0) as S1. call E0 Astmt. eadv ts1.
    pose proof (Iswb _ _ _ _ _ _ _ _ _ _ Ea H) as B1. rewrite wts_app in B1. lia.
  - (* parse_cond *)
    intros req script bs cs ts e b imp ts' E H. rewrite parse_cond_unfold in H. bind H as [[e1 imp1] ts1].
    assert (PRE : eof_ended ts1 /\ cond_w e1 + Ln ts1 <= Ln ts + 2 /\ (e1 = None -> ts1 = ts)).
    { destruct (req || negb (peekis LBRACE ts)).
      - destruct (expect_peek LPAREN ts) as [tsa|] eqn:P1; [|discriminate]. peek P1. bind E0 as [[e0 imp0'] tsb]. inversion E0; subst.
        pose proof (proj1 (bexp_tok f) _ _ _ _ _ _ _ Ey E1) as BE.
        pose proof (bool_expr_advs autovars switches parse_format consts parse_format_advs ee _ _ _ _ _ _ _ _ E1 _ (advs_refl _)) as A1.
        destruct (step_call _ _ A1 Ey) as [E1' _]. split; [exact E1'|]. split; [cbn [cond_w]; lia|discriminate].
      - inversion E0; subst. split; [exact E|]. split; [cbn [cond_w]; lia|reflexivity]. }
    destruct PRE as (E1' & LE1 & _).
    destruct (expect_peek LBRACE ts1) as [ts2|] eqn:P2; [|discriminate]. peek P2.
    assert (S (Ln (adv ts2)) <= Ln ts2) by (eapply adv_lt_cur; [exact Ey|exact Cy|discriminate]). eadv ts2.
    bind H as [[b1 imp2] ts3] eq EB. inversion H; subst.
    destruct (Iblock _ _ _ _ _ _ _ _ _ _ Ea EB) as [B1 B2]. cbn [wts] in B1. split; [lia|exact B2].
  - (* parse_if *)
    intros script bs cs ts ss imp ts' E H. rewrite parse_if_unfold in H. bind H as [[[o b] imp1] ts1].
    destruct o as [e1|]; [|discriminate]. destruct (Icond _ _ _ _ _ _ _ _ _ E E0) as [C1 C2]. call E0 Acond. cbn [cond_w] in C1.
    bind H as [[l0 imp2] ts2]. pose proof (Ielifs _ _ _ _ _ _ _ _ _ Ey E1) as EL. cbn [wconds] in EL. call E1 Aelifs.
    destruct (peekis ELSE ts2) eqn:PE.
    + cbv zeta in H. assert (S (Ln (adv ts2)) <= Ln ts2) by (eapply adv_lt_peek; [exact Ey0|exact PE|discriminate]). eadv ts2.
      destruct (expect_peek LBRACE (adv ts2)) as [ts4|] eqn:P4; [|discriminate]. peek P4. eadv ts4.
      bind H as [[eb imp3] ts5]. inversion H; subst. destruct (Iblock _ _ _ _ _ _ _ _ _ _ Ea0 E2) as [B1 B2]. cbn [wts] in B1.
      pose proof (adv_len ts'). cbn [wts]. rewrite wt1_if. cbn [wconds wopt]. lia.
    + inversion H; subst. pose proof (adv_len ts'). cbn [wts]. rewrite wt1_if. cbn [wconds wopt]. lia.
  - (* parse_elifs *)
    intros script bs cs ts acc imp l imp' ts' E H. rewrite parse_elifs_unfold in H.
    destruct (peekis ELSEIF ts) eqn:PE; [|inversion H; subst; lia].
    assert (S (Ln (adv ts)) <= Ln ts) by (eapply adv_lt_peek; [exact E|exact PE|discriminate]). eadv ts.
    bind H as [[[o b1] imp1] ts1]. destruct o as [e1|]; [|discriminate].
    destruct (Icond _ _ _ _ _ _ _ _ _ Ea E0) as [C1 C2]. call E0 Acond. cbn [cond_w] in C1.
    pose proof (Ielifs _ _ _ _ _ _ _ _ _ Ey H) as EL. rewrite wconds_app in EL. cbn [wconds] in EL. lia.
  - (* parse_switch *)
    intros script bs cs ts ss imp ts' E H. rewrite parse_switch_unfold in H. cbv zeta in H.
    destruct (expect_peek LPAREN ts) as [ts1|] eqn:P1; [|discriminate]. peek P1.
    bind H as [[r0 imp1] ts2].
    pose proof (var_or_autovar_advs autovars switches parse_format consts parse_format_advs ee _ _ _ _ _ _ E0 _ (advs_refl _)) as A2.
    destruct (step_call _ _ A2 Ey) as [E2 L2].
    bind H as [[[operand oline] pre] ts3].
    assert (PRE : eof_ended ts3 /\ Ln ts3 <= Ln ts2).
    { destruct r0 as [[v c]|].
      - destruct (expect_peek RPAREN ts2) as [tsx|] eqn:PX; [|discriminate]. peek PX. inversion E1; subst. split; [assumption|lia].
      - eadv ts2. bind E1 as [parts tsx]. inversion E1; subst.
        pose proof (switch_operand_advs consts _ _ _ _ _ _ E3 _ (advs_refl _)) as A3. destruct (step_call _ _ A3 Ea) as [E3' L3].
        split; [apply E_adv; exact E3'|]. pose proof (adv_len tsx). lia. }
    destruct PRE as [E3 L3].
    destruct (expect_peek LBRACE ts3) as [ts4|] eqn:P4; [|discriminate]. peek P4. eadv ts4.
    bind H as [[l imp2] ts5] eq EC. pose proof (Icases _ _ _ _ _ _ _ _ _ _ _ _ Ea EC) as CS. cbn [wcases] in CS.
    destruct l as [|c0 l]; [discriminate|]. inversion H; subst. pose proof (adv_len ts').
    rewrite wts_app. cbn [wts]. rewrite wt1_switch. assert (wts (match pre with Some c => [SCmd c] | None => [] end) = 0) by (destruct pre; reflexivity). lia.
  - (* parse_cases *)
    intros script bs cs brace ts acc seen hasdef imp l imp' ts' E H. rewrite parse_cases_unfold in H.
    destruct (curis RBRACE ts); [inversion H; subst; lia|].
    destruct (curis CASE ts) eqn:CC.
    + cbv zeta in H. assert (S (Ln (adv ts)) <= Ln ts) by (eapply adv_lt_cur; [exact E|exact CC|discriminate]). eadv ts.
      destruct (collect_until consts f (is COLON) (adv ts) []) as [[parts ts2]|] eqn:CU; [|discriminate].
      pose proof (collect_until_advs consts _ _ _ _ _ _ CU _ (advs_refl _)) as A2. destruct (step_call _ _ A2 Ea) as [E2 L2].
      destruct (existsb _ seen); [discriminate|]. eadv ts2. bind H as [[b imp1] ts3].
      pose proof (Iswb _ _ _ _ _ _ _ _ _ _ Ea0 E0) as SB. cbn [wts] in SB. call E0 Aswb.
      pose proof (Icases _ _ _ _ _ _ _ _ _ _ _ _ Ey H) as CS. rewrite wcases_app in CS. cbn [wcases sc_body snd] in CS. lia.
    + destruct (curis DEFAULT ts); [|discriminate]. destruct hasdef; [discriminate|].
      destruct (expect_peek COLON ts) as [ts1|] eqn:P1; [|discriminate]. peek P1. eadv ts1.
      bind H as [[b imp1] ts2]. pose proof (Iswb _ _ _ _ _ _ _ _ _ _ Ea E0) as SB. cbn [wts] in SB. call E0 Aswb.
      pose proof (Icases _ _ _ _ _ _ _ _ _ _ _ _ Ey0 H) as CS. rewrite wcases_app in CS. cbn [wcases sc_body snd] in CS. lia.
  - (* parse_pory *)
    intros script bs cs ts ss imp ts' E H. rewrite parse_pory_unfold in H. cbv zeta in H.
    bind H as [[sc sv] ts1]. pose proof (poryswitch_header_advs switches _ _ _ _ _ E0 _ (advs_refl _)) as A1.
    destruct (step_call _ _ A1 E) as [E1' L1].
    bind H as [cases ts2]. call E1 Apcases.
    assert (PC : pc_ok (Ln ts1) (Ln ts2) cases).
    { eapply Ipcases; [exact E1'|exact E1| |lia]. intros k ss0 imp0' []. }
    pose proof (adv_len ts2).
    destruct (assoc cases (sval sv)) as [[ss0 imp0']|] eqn:AS.
    + inversion H; subst. destruct (assoc_in' _ _ _ AS) as [k' I]. specialize (PC _ _ _ I). lia.
    + destruct (assoc cases (t "_")) as [[ss0 imp0']|] eqn:AS2.
      * inversion H; subst. destruct (assoc_in' _ _ _ AS2) as [k' I]. specialize (PC _ _ _ I). lia.
      * destruct ee; [discriminate|]. inversion H; subst. cbn. lia.
  - (* parse_pory_cases *)
    intros script bs cs start ts acc l ts' top E H PC LT. rewrite parse_pory_cases_unfold in H.
    destruct (curis RBRACE ts); [inversion H; subst; exact PC|].
    destruct (curis EOF ts) eqn:CE; [discriminate|].
    destruct (negb (curis IDENT ts) && negb (curis INT ts)); [discriminate|]. cbv zeta in H.
    assert (S (Ln (adv ts)) <= Ln ts).
    { apply adv_strict; [exact E|]. intros Q. unfold curis, is, tt_eqb in CE. rewrite Q in CE. destruct (toktype_eq_dec EOF EOF); [discriminate|congruence]. }
    eadv ts. destruct (curis COLON (adv ts) || curis LBRACE (adv ts)); [|discriminate]. eadv (adv ts).
    bind H as [[ss imp] ts2]. pose proof (Ipstmts _ _ _ _ _ _ _ _ _ _ Ea0 E0) as PS. cbn [wts] in PS. call E0 Apstmts.
    assert (MONO : forall n, n <= Ln ts2 -> pc_ok top n ((tlit (cur ts), (ss, imp)) :: acc)).
    { intros n Hn k ss0 imp0' [I|I]; [inversion I; subst; lia|]. specialize (PC _ _ _ I). lia. }
    destruct (curis LBRACE (adv ts)).
    + destruct (curis RBRACE ts2); cbn [negb] in H; [|discriminate]. eadv ts2.
      eapply Ipcases; [exact Ea1|exact H|apply MONO; lia|lia].
    + eapply Ipcases; [exact Ey|exact H|apply MONO; lia|lia].
  - (* parse_pory_stmts *)
    intros script bs cs multi ts acc imp ss imp' ts' E H. rewrite parse_pory_stmts_unfold in H.
    destruct (curis RBRACE ts); [inversion H; subst; lia|]. bind H as [[ss1 imp1] ts1]. cbv zeta in H.
    assert (S1 : wts ss1 + Ln (adv ts1) <= Ln ts /\ eof_ended ts1).
    { destruct (curis PORYSWITCH ts).
      - split; [eapply Ipory; eassumption|]. call E0 Apory. assumption.
      - split; [eapply Istmt; eassumption|]. call E0 Astmt. assumption. }
    destruct S1 as [S1 E1']. eadv ts1. destruct multi.
    + pose proof (Ipstmts _ _ _ _ _ _ _ _ _ _ Ea H) as PS. rewrite wts_app in PS. lia.
    + inversion H; subst. rewrite wts_app. lia.
Qed.
End TOK.

(* ---------- patching hoisted labels into command arguments does not change the weight ---------- *)
Lemma bsize_pbexp ps e : bsize (pbexp ps e) = bsize e.
Proof. induction e as [l|o a IHa b IHb]; cbn; [reflexivity|]. now rewrite IHa, IHb. Qed.

Lemma wts_pstmt ps : forall ss, wts (map (pstmt ps) ss) = wts ss.
Proof.
  apply (LabelSim.stmts_ind2 (fun s => wt1 (pstmt ps s) = wt1 s) (fun ss => wts (map (pstmt ps) ss) = wts ss)).
  - reflexivity.
  - intros s r H1 H2. cbn [map wts]. now rewrite H1, H2.
  - intros c. reflexivity.
  - intros n g tk. reflexivity.
  - intros conds els HC HE.
    pose (g := fun cb : bexp * list stmt => (pbexp ps (fst cb), map (pstmt ps) (snd cb))).
    change (pstmt ps (SIf conds els)) with (SIf (map g conds) (match els with Some b => Some (map (pstmt ps) b) | None => None end)).
    rewrite !wt1_if.
    assert (A : wconds (map g conds) = wconds conds).
    { induction HC as [|[e b] r Hb _ IH]; [reflexivity|]. cbn [map wconds g fst snd] in *. rewrite bsize_pbexp, Hb, IH. reflexivity. }
    assert (B : wopt (match els with Some b => Some (map (pstmt ps) b) | None => None end) = wopt els).
    { destruct els as [b|]; [cbn [wopt]; now rewrite HE|reflexivity]. }
    now rewrite A, B.
  - intros tg c b H. change (pstmt ps (SWhile tg c b)) with (SWhile tg (match c with Some e => Some (pbexp ps e) | None => None end) (map (pstmt ps) b)).
    rewrite !wt1_while, H. destruct c; cbn [bopt]; [now rewrite bsize_pbexp|reflexivity].
  - intros tg b c H. change (pstmt ps (SDoWhile tg b c)) with (SDoWhile tg (map (pstmt ps) b) (pbexp ps c)).
    rewrite !wt1_dowhile, H, bsize_pbexp. reflexivity.
  - intros tg. reflexivity.
  - intros tg. reflexivity.
  - intros tg o ol cases HC.
    pose (g := fun c : Parser.scase => (fst (fst (fst c)), snd (fst (fst c)), snd (fst c), map (pstmt ps) (snd c))).
    change (pstmt ps (SSwitch tg o ol cases)) with (SSwitch tg o ol (map g cases)).
    rewrite !wt1_switch. f_equal.
    induction HC as [|c r Hb _ IH]; [reflexivity|]. cbn [map wcases]. rewrite IH. unfold sc_body in *. cbn [g snd]. now rewrite Hb.
Qed.

(* ---------- programs ---------- *)
Section PROG.
Variable autovars : list (text * autovar).
Variable switches : list (text * text).
Variable ee : bool.
Variable parse_format : toks -> Parser.res (token * text * text * toks).
Hypothesis parse_format_advs : forall ts tk v sty ts', parse_format ts = Ok (tk, v, sty, ts') -> forall a, advs a ts -> advs a ts'.

Notation parse_block c := (Parser.parse_block autovars switches ee parse_format c).
Notation ms_table c := (Parser.ms_table autovars switches ee parse_format c).
Notation ms_entries c := (Parser.ms_entries autovars switches ee parse_format c).
Notation parse_tops := (Parser.parse_tops autovars switches ee parse_format).
Notation parse_program := (Parser.parse_program autovars switches ee parse_format).

Variable N : nat.
Definition fit (b : list stmt) : Prop := mu_body b <= N.
Definition all_fit (l : list (list stmt)) : Prop := Forall fit l.
Lemma all_fit_app a b : all_fit a -> all_fit b -> all_fit (a ++ b).
Proof. intros. apply Forall_app. split; assumption. Qed.
Lemma fit_pstmt ps b : fit b -> fit (map (pstmt ps) b).
Proof. unfold fit, mu_body. now rewrite wts_pstmt. Qed.

Lemma parse_block_fit c f script start ts ss imp ts' :
  eof_ended ts -> Ln ts + 1 <= N -> parse_block c f script [] [] start ts [] imp0 = Ok (ss, imp, ts') -> fit ss.
Proof.
  intros EO LN H. destruct (toks_all autovars switches ee parse_format c parse_format_advs f) as (_ & Iblock & _).
  destruct (Iblock _ _ _ _ _ _ _ _ _ _ EO H) as [B _]. cbn [wts] in B. unfold fit, mu_body. lia.
Qed.

Ltac adv_ex H := first [eapply parse_block_advs; [exact parse_format_advs|exact H|] | eapply ms_collect_advs; [exact H|]
                       | eapply ms_table_advs; [exact parse_format_advs|exact H|] | eapply ms_entries_advs; [exact parse_format_advs|exact H|]
                       | eapply scope_modifier_advs; [exact H|]].
Ltac advs_now := advs_gox ltac:(fun K => adv_ex K).

Definition entries_fit (es : list tableentry) : Prop :=
  all_fit (flat_map (fun e => match teScript e with Some b => [b] | None => [] end) es).

Lemma ms_table_fit c f : forall mapname tyname ts i acc imp es imp' ts',
  eof_ended ts -> Ln ts + 1 <= N -> ms_table c f mapname tyname ts i acc imp = Ok (es, imp', ts') -> entries_fit acc -> entries_fit es.
Proof.
  induction f as [|f IH]; intros mapname tyname ts i acc imp es imp' ts' EO LN H Hacc; [discriminate|].
  cbn [Parser.ms_table] in H. destruct (curis RBRACKET ts); [inversion H; subst; exact Hacc|]. cbn zeta in H.
  destruct (ms_collect c f (is COMMA) ts []) as [[cond ts1]|] eqn:C1; [|discriminate].
  destruct cond as [|c0 cond]; [discriminate|].
  destruct (ms_collect c f _ (adv ts1) []) as [[cmp ts3]|] eqn:C3; [|discriminate].
  destruct cmp as [|c1 cmp]; [discriminate|].
  assert (A3 : advs ts ts3) by advs_now.
  destruct (curis COLON ts3).
  - destruct (expect_peek IDENT ts3) as [ts4|] eqn:P4; [|discriminate].
    assert (A4 : advs ts (adv ts4)) by advs_now.
    eapply IH; [| |exact H|].
    + eapply advs_eof; [exact A4|exact EO].
    + apply advs_len in A4. lia.
    + unfold entries_fit. rewrite flat_map_app. apply all_fit_app; [exact Hacc|]. cbn. constructor.
  - bind H as [[b imp1] ts4] eq E4.
    assert (A4 : advs ts (adv ts4)) by advs_now.
    assert (A3' : advs ts (adv ts3)) by advs_now.
    eapply IH; [| |exact H|].
    + eapply advs_eof; [exact A4|exact EO].
    + apply advs_len in A4. lia.
    + unfold entries_fit. rewrite flat_map_app. apply all_fit_app; [exact Hacc|].
      cbn. constructor; [|constructor]. eapply parse_block_fit; [| |exact E4].
      * eapply advs_eof; [exact A3'|exact EO].
      * apply advs_len in A3'. lia.
Qed.

Definition ms_fit (plain : list mapscript) (tables : list tablems) : Prop :=
  all_fit (bodies_of_top (TMapScripts [] false plain tables)).

Lemma ms_entries_fit c f : forall mapname ts plain tables imp plain' tables' imp' ts',
  eof_ended ts -> Ln ts <= N -> ms_entries c f mapname ts plain tables imp = Ok (plain', tables', imp', ts') -> ms_fit plain tables -> ms_fit plain' tables'.
Proof.
  induction f as [|f IH]; intros mapname ts plain tables imp plain' tables' imp' ts' EO LN H Hacc; [discriminate|].
  cbn [Parser.ms_entries] in H. destruct (curis RBRACE ts); [inversion H; subst; exact Hacc|].
  destruct (curis IDENT ts) eqn:CI; cbn [negb] in H; [|discriminate]. cbn zeta in H.
  assert (ST : S (Ln (adv ts)) <= Ln ts) by (eapply adv_lt_cur; [exact EO|exact CI|discriminate]).
  unfold ms_fit, bodies_of_top in *. apply Forall_app in Hacc. destruct Hacc as [Hp Ht].
  destruct (curis COLON (adv ts)).
  - destruct (expect_peek IDENT (adv ts)) as [ts2|] eqn:P2; [|discriminate].
    assert (A2 : advs ts (adv ts2)) by advs_now.
    eapply IH; [| |exact H|].
    + eapply advs_eof; [exact A2|exact EO].
    + apply advs_len in A2. lia.
    + unfold ms_fit, bodies_of_top. rewrite flat_map_app. apply all_fit_app; [apply all_fit_app; [exact Hp|constructor]|exact Ht].
  - assert (AA : advs ts (adv (adv ts))) by advs_now.
    assert (EAA : eof_ended (adv (adv ts))) by (eapply advs_eof; [exact AA|exact EO]).
    pose proof (adv_len (adv ts)) as LAA.
    destruct (curis LBRACE (adv ts)).
    + bind H as [[b imp1] ts2] eq E2. assert (A2 : advs ts (adv ts2)) by advs_now.
      eapply IH; [| |exact H|].
      * eapply advs_eof; [exact A2|exact EO].
      * apply advs_len in A2. lia.
      * unfold ms_fit, bodies_of_top. rewrite flat_map_app. apply all_fit_app; [apply all_fit_app; [exact Hp|]|exact Ht].
        cbn. constructor; [|constructor]. eapply parse_block_fit; [exact EAA| |exact E2]. lia.
    + destruct (curis LBRACKET (adv ts)); [|discriminate]. bind H as [[es imp1] ts2] eq E2. assert (A2 : advs ts (adv ts2)) by advs_now.
      eapply IH; [| |exact H|].
      * eapply advs_eof; [exact A2|exact EO].
      * apply advs_len in A2. lia.
      * unfold ms_fit, bodies_of_top. rewrite flat_map_app. apply all_fit_app; [exact Hp|]. apply all_fit_app; [exact Ht|].
        cbn. rewrite app_nil_r. eapply ms_table_fit; [exact EAA| |exact E2|constructor]. lia.
Qed.

Lemma parse_tops_fit f : forall st ts st',
  eof_ended ts -> Ln ts <= N -> parse_tops f st ts = Ok st' -> all_fit (bodies_of (ptops st)) -> all_fit (bodies_of (ptops st')).
Proof.
  induction f as [|f IH]; intros st ts st' EO LN H Hacc; [discriminate|].
  cbn [Parser.parse_tops] in H. destruct (curis EOF ts); [inversion H; subst; exact Hacc|]. cbn zeta in H.
  destruct (ttype (cur ts)); try discriminate.
  - (* script *)
    bind H as [[[[name g] b] imp] ts1] eq E. destruct (add_implicit imp (ph st)) as [h' ps].
    assert (A1 : advs ts (adv ts1)) by (apply advs_k_adv; eapply parse_script_advs; [exact parse_format_advs|exact E|apply advs_refl]).
    eapply IH; [eapply advs_eof; [exact A1|exact EO]|apply advs_len in A1; lia|exact H|].
    cbn [ptops]. rewrite bodies_of_app. apply all_fit_app; [exact Hacc|].
    cbn. constructor; [|constructor]. apply fit_pstmt.
    unfold Parser.parse_script in E. cbn zeta in E. bind E as [g0 ts0] eq E0.
    destruct (expect_peek IDENT ts0) as [ts2|] eqn:P2; [|discriminate].
    destruct (expect_peek LBRACE ts2) as [ts3|] eqn:P3; [|discriminate]. bind E as [[b0 imp1] ts4] eq E4. inversion E; subst.
    assert (A2 : advs ts ts2) by advs_now. assert (E2 : eof_ended ts2) by (eapply advs_eof; [exact A2|exact EO]).
    destruct (step_peek _ _ _ E2 P3 ltac:(discriminate)) as (E3 & L3 & _).
    eapply parse_block_fit; [apply E_adv; exact E3| |exact E4]. apply advs_len in A2. pose proof (adv_len ts3). lia.
  - (* raw *)
    bind H as [tp ts1] eq E.
    assert (A1 : advs ts (adv ts1)) by (apply advs_k_adv; eapply parse_raw_advs; [exact E|apply advs_refl]).
    eapply IH; [eapply advs_eof; [exact A1|exact EO]|apply advs_len in A1; lia|exact H|].
    cbn [ptops]. rewrite bodies_of_app. apply all_fit_app; [exact Hacc|].
    unfold parse_raw in E. destruct (expect_peek RAWSTRING ts); [|discriminate]. inversion E; subst. constructor.
  - (* text *)
    bind H as [td ts1] eq E.
    assert (A1 : advs ts (adv ts1)) by (apply advs_k_adv; eapply parse_text_advs; [exact parse_format_advs|exact E|apply advs_refl]).
    eapply IH; [eapply advs_eof; [exact A1|exact EO]|apply advs_len in A1; lia|exact H|].
    cbn [ptops]. rewrite bodies_of_app. apply all_fit_app; [exact Hacc|]. constructor.
  - (* movement *)
    bind H as [tp ts1] eq E.
    assert (A1 : advs ts (adv ts1)) by (apply advs_k_adv; eapply parse_movement_advs; [exact E|apply advs_refl]).
    eapply IH; [eapply advs_eof; [exact A1|exact EO]|apply advs_len in A1; lia|exact H|].
    cbn [ptops]. rewrite bodies_of_app. apply all_fit_app; [exact Hacc|].
    unfold parse_movement in E. bind E as [g0 ts0] eq E0.
    destruct (expect_peek IDENT ts0) as [ts2|]; [|discriminate].
    destruct (expect_peek LBRACE ts2) as [ts3|]; [|discriminate]. bind E as [steps ts4] eq E4. inversion E; subst. constructor.
  - (* mart *)
    bind H as [tp ts1] eq E.
    assert (A1 : advs ts (adv ts1)) by (apply advs_k_adv; eapply parse_mart_advs; [exact E|apply advs_refl]).
    eapply IH; [eapply advs_eof; [exact A1|exact EO]|apply advs_len in A1; lia|exact H|].
    cbn [ptops]. rewrite bodies_of_app. apply all_fit_app; [exact Hacc|].
    unfold parse_mart in E. bind E as [g0 ts0] eq E0.
    destruct (expect_peek IDENT ts0) as [ts2|]; [|discriminate].
    destruct (expect_peek LBRACE ts2) as [ts3|]; [|discriminate]. bind E as [items ts4] eq E4. inversion E; subst. constructor.
  - (* mapscripts *)
    bind H as [[tp imp] ts1] eq E. destruct (add_implicit imp (ph st)) as [h' ps].
    assert (A1 : advs ts (adv ts1)) by (apply advs_k_adv; eapply parse_mapscripts_advs; [exact parse_format_advs|exact E|apply advs_refl]).
    eapply IH; [eapply advs_eof; [exact A1|exact EO]|apply advs_len in A1; lia|exact H|].
    cbn [ptops]. rewrite bodies_of_app. apply all_fit_app; [exact Hacc|].
    unfold Parser.parse_mapscripts in E. bind E as [g0 ts0] eq E0. cbn zeta in E.
    destruct (expect_peek IDENT ts0) as [ts2|] eqn:P2; [|discriminate].
    destruct (expect_peek LBRACE ts2) as [ts3|] eqn:P3; [|discriminate]. bind E as [[[plain tables] imp1] ts4] eq E4. inversion E; subst.
    assert (A3 : advs ts (adv ts3)) by advs_now.
    assert (EO3 : eof_ended (adv ts3)) by (eapply advs_eof; [exact A3|exact EO]).
    assert (LN3 : Ln (adv ts3) <= N) by (apply advs_len in A3; lia).
    pose proof (ms_entries_fit _ _ _ _ _ _ _ _ _ _ _ EO3 LN3 E4 (Forall_nil _)) as M.
    unfold ms_fit, bodies_of_top in M. apply Forall_app in M. destruct M as [Mp Mt].
    cbn. rewrite app_nil_r. apply all_fit_app.
    + clear - Mp. induction plain as [|m r IHr]; [constructor|]. cbn in *. destruct (msScript m); cbn in *.
      * inversion Mp; subst. constructor; [apply fit_pstmt; assumption|apply IHr; assumption].
      * apply IHr; assumption.
    + clear - Mt. induction tables as [|tb r IHr]; [constructor|]. cbn in *. apply Forall_app in Mt. destruct Mt as [M1 M2].
      apply all_fit_app; [|apply IHr; assumption]. clear - M1. induction (tmEntries tb) as [|e r IHr]; [constructor|]. cbn in *.
      destruct (teScript e); cbn in *.
      * inversion M1; subst. constructor; [apply fit_pstmt; assumption|apply IHr; assumption].
      * apply IHr; assumption.
  - (* const *)
    bind H as [c' ts1] eq E.
    assert (A1 : advs ts (adv ts1)) by (apply advs_k_adv; eapply parse_const_advs; [exact E|apply advs_refl]).
    eapply IH; [eapply advs_eof; [exact A1|exact EO]|apply advs_len in A1; lia|exact H|]. exact Hacc.
Qed.

Theorem parse_program_fit ts p :
  eof_ended ts -> Ln ts <= N -> parse_program ts = Ok p -> all_fit (bodies_of (tops p)).
Proof.
  unfold Parser.parse_program. intros EO LN H. bind H as st eq E. cbn zeta in H.
  destruct (dup_text [] _); [discriminate|]. destruct (dup_mov [] _); [discriminate|]. inversion H; subst. cbn [tops].
  rewrite bodies_of_app. apply all_fit_app.
  - eapply parse_tops_fit; [exact EO|exact LN|exact E|]. constructor.
  - assert (M : movs_only (ph st)) by (eapply parse_tops_movs; [exact E|reflexivity]). unfold movs_only in M. rewrite M. constructor.
Qed.
End PROG.

(* ================================================================================================================== *)
(* PART 5: scripts, programs, source texts                                                                             *)
(* ================================================================================================================== *)
From Pory Require Import Parser Format ProgWf ProgSrc NameClash NoPanic FuelOk.
From Pory Require Compile.

(* the two answers an emitter function may give for an accepted program: output, or a located label clash *)
Definition answered {A} (r : Emitter.res A) : Prop :=
  match r with Emitter.Ok _ => True | ErrLabel _ _ => True | _ => False end.
Lemma answered_iff {A} (r : Emitter.res A) : answered r <-> (exists x, r = Emitter.Ok x) \/ (exists tk b, r = ErrLabel tk b).
Proof.
  destruct r; cbn; split; try tauto; try (intros [(x & E)|(tk' & b' & E)]; discriminate); eauto.
Qed.

(* rendering a chunk graph can only fail with a label clash *)
Lemma render_bodies_answered mp tl name fs labels : forall order, answered (render_bodies mp tl name fs labels order).
Proof.
  induction order as [|i r IH]; [exact Logic.I|]. cbn [render_bodies].
  destruct (get_chunk fs i) as [c|]; [|exact IH].
  destruct (clash tl labels (cstmts c)) as [[tk b]|]; [exact Logic.I|].
  destruct (render_branch mp name c match r with [] => (-1)%Z | n :: _ => n end) as [[bb regs] fall].
  destruct (render_bodies mp tl name fs labels r) as [[rest regs']| | | |]; cbn in *; auto.
Qed.
Lemma render_chunks_answered mp tl name glob fs order : answered (render_chunks mp tl name glob fs order).
Proof.
  unfold render_chunks. pose proof (render_bodies_answered mp tl name fs (map (chunk_label name) fs) order) as H.
  destruct (render_bodies mp tl name fs (map (chunk_label name) fs) order) as [[bodies regs]| | | |]; cbn in *; auto.
Qed.

Theorem emit_script_total mp tl name glob optimize body :
  scoped None None body -> mu_body body < work_fuel ->
  (exists code, emit_script mp tl name glob optimize body = Emitter.Ok code) \/
  (exists tk b, emit_script mp tl name glob optimize body = ErrLabel tk b).
Proof.
  intros HS HF. apply answered_iff. destruct (emit_graph_total body HS HF) as (w & E). unfold emit_script. rewrite E.
  apply render_chunks_answered.
Qed.

(* the bodies of a program fit the fuel of the worklist *)
Definition bodies_fit (p : program) : Prop := Forall (fun b => mu_body b < work_fuel) (bodies_of (tops p)).

Lemma first_error_answered mp tl optimize l :
  Forall (fun s : script => answered (script_result mp tl optimize s)) l ->
  first_error mp tl optimize l = None \/ exists tk b, first_error mp tl optimize l = Some (ELabel tk b).
Proof.
  induction 1 as [|s r H _ IH]; [left; reflexivity|]. cbn [first_error].
  destruct (script_result mp tl optimize s); cbn in *; try contradiction; [exact IH|right; eauto].
Qed.

Theorem emit_program_total optimize mp p :
  Forall (scoped None None) (bodies_of (tops p)) -> bodies_fit p ->
  (exists out, emit_program optimize mp p = Emitter.Ok out) \/ (exists tk b, emit_program optimize mp p = ErrLabel tk b).
Proof.
  intros HS HF.
  assert (A : Forall (fun s : script => answered (script_result mp (map xname (texts p)) optimize s)) (scripts_of (tops p))).
  { unfold bodies_fit in HF. rewrite <- scripts_bodies in HS, HF. rewrite Forall_map in HS, HF. rewrite Forall_forall in *.
    intros s Hs. apply answered_iff. unfold script_result. apply emit_script_total; [apply HS|apply HF]; exact Hs. }
  apply first_error_answered in A. rewrite <- emit_program_error in A. destruct A as [A|(tk & b & A)].
  - left. apply err_of_none. exact A.
  - right. exists tk, b. apply err_of_label. exact A.
Qed.

Section SOURCE.
Variable hl hd hs : N -> bool.
Variable autovars : list (text * autovar).
Variable switches : list (text * text).
Variable ee : bool.                       (* true: normal mode, false: lint mode *)
Variable fc : Format.fontcfg.
Variable cli_font : text.
Variable cli_maxlen : Z.
Notation PARSE src := (parse_program autovars switches ee (Format.parse_format fc cli_font cli_maxlen ee) (lex hl hd hs src)).
Notation COMPILE := (Compile.compile hl hd hs autovars switches ee fc cli_font cli_maxlen).

(* never a crash, never exhausted parser fuel: unconditional *)
Theorem compile_never_panics_nor_parser_fuel optimize mpath src :
  COMPILE optimize mpath src <> Compile.OutPanic /\ COMPILE optimize mpath src <> Compile.OutFuel.
Proof.
  rewrite (compile_eq hl hd hs autovars switches ee fc cli_font cli_maxlen optimize mpath src).
  pose proof (NoPanic.parser_never_panics autovars switches ee fc cli_font cli_maxlen (lex hl hd hs src)) as NP.
  pose proof (FuelOk.parser_never_out_of_fuel hl hd hs autovars switches ee fc cli_font cli_maxlen src) as NF.
  destruct (PARSE src) as [p| | |]; try congruence; [|split; discriminate].
  destruct (emit_program optimize mpath p); split; discriminate.
Qed.

(* output or a located error, for every source whose script bodies fit the fuel of the worklist *)
Theorem compile_total optimize mpath src :
  (forall p, PARSE src = Parser.Ok p -> bodies_fit p) ->
  (exists out, COMPILE optimize mpath src = Compile.OutText out) \/ (exists e, COMPILE optimize mpath src = Compile.OutErr e).
Proof.
  intros HF. rewrite (compile_eq hl hd hs autovars switches ee fc cli_font cli_maxlen optimize mpath src).
  pose proof (NoPanic.parser_never_panics autovars switches ee fc cli_font cli_maxlen (lex hl hd hs src)) as NP.
  pose proof (FuelOk.parser_never_out_of_fuel hl hd hs autovars switches ee fc cli_font cli_maxlen src) as NF.
  destruct (PARSE src) as [p|e| |] eqn:HP; try congruence; [|right; eauto].
  assert (S : Forall (scoped None None) (bodies_of (tops p))).
  { pose proof (accepted_bodies_are_src_ok hl hd hs autovars switches ee fc cli_font cli_maxlen src p HP) as Q.
    eapply Forall_impl; [|exact Q]. intros a [_ H']. exact H'. }
  destruct (emit_program_total optimize mpath p S (HF p eq_refl)) as [(out & E)|(tk & b & E)]; rewrite E; [left|right]; eauto.
Qed.

(* the only way to the model's internal failure OutEmitErr: a script body too big for the fixed fuel *)
Theorem compile_emit_error_only_oversize optimize mpath src :
  COMPILE optimize mpath src = Compile.OutEmitErr ->
  exists p b, PARSE src = Parser.Ok p /\ In b (bodies_of (tops p)) /\ work_fuel <= mu_body b.
Proof.
  intros H. destruct (PARSE src) as [p|e| |] eqn:HP;
    try (rewrite (compile_eq hl hd hs autovars switches ee fc cli_font cli_maxlen optimize mpath src), HP in H; discriminate).
  exists p. destruct (Exists_dec (fun b => work_fuel <= mu_body b) (bodies_of (tops p))) as [EX|NEX].
  - intros b. destruct (le_lt_dec work_fuel (mu_body b)); [left; assumption|right; lia].
  - apply Exists_exists in EX. destruct EX as (b & I1 & I2). exists b. auto.
  - exfalso. assert (FIT : bodies_fit p).
    { unfold bodies_fit. apply Forall_forall. intros b Hb. destruct (le_lt_dec work_fuel (mu_body b)) as [L|L]; [|exact L].
      exfalso. apply NEX. apply Exists_exists. exists b. auto. }
    assert (FITS : forall p', PARSE src = Parser.Ok p' -> bodies_fit p').
    { intros p' HP'. rewrite HP in HP'. inversion HP'; subst. exact FIT. }
    destruct (compile_total optimize mpath src FITS) as [(out & E)|(e & E)]; congruence.
Qed.
End SOURCE.

(* ================================================================================================================== *)
(* PART 5b: premise-free on source texts: every source of fewer than 10000 tokens is answered                           *)
(* ================================================================================================================== *)
Section SOURCE_TOKENS.
Variable hl hd hs : N -> bool.
Variable autovars : list (text * autovar).
Variable switches : list (text * text).
Variable ee : bool.                       (* true: normal mode, false: lint mode *)
Variable fc : Format.fontcfg.
Variable cli_font : text.
Variable cli_maxlen : Z.
Notation PARSE src := (parse_program autovars switches ee (Format.parse_format fc cli_font cli_maxlen ee) (lex hl hd hs src)).
Notation COMPILE := (Compile.compile hl hd hs autovars switches ee fc cli_font cli_maxlen).

(* the size of every script body of an accepted program is at most the number of tokens of the source (the EOF token
   included) *)
Theorem accepted_bodies_fit_tokens src p :
  PARSE src = Parser.Ok p -> Forall (fun b => mu_body b <= List.length (lex hl hd hs src)) (bodies_of (tops p)).
Proof.
  intros HP.
  exact (parse_program_fit autovars switches ee _ (ProgSrc.parse_format_advs fc cli_font cli_maxlen ee) (List.length (lex hl hd hs src))
           (lex hl hd hs src) p (ProgSrc.lex_eof hl hd hs src) (le_n _) HP).
Qed.

(* C18 for the model, without premise on the program: whatever the text, the configuration and the mode, a source with
   fewer tokens than the fuel of the worklist is answered with output or with a located error *)
Theorem compile_total_tokens optimize mpath src :
  List.length (lex hl hd hs src) < work_fuel ->
  (exists out, COMPILE optimize mpath src = Compile.OutText out) \/ (exists e, COMPILE optimize mpath src = Compile.OutErr e).
Proof.
  intros HL. apply compile_total. intros p HP. unfold bodies_fit.
  eapply Forall_impl; [|exact (accepted_bodies_fit_tokens src p HP)]. cbv beta. intros b Hb. eapply Nat.le_lt_trans; eassumption.
Qed.

(* the model's internal failure needs a source of at least work_fuel = 10000 tokens *)
Corollary compile_emit_error_needs_many_tokens optimize mpath src :
  COMPILE optimize mpath src = Compile.OutEmitErr -> work_fuel <= List.length (lex hl hd hs src).
Proof.
  intros H. destruct (le_lt_dec work_fuel (List.length (lex hl hd hs src))) as [LE|LT]; [exact LE|].
  destruct (compile_total_tokens optimize mpath src LT) as [(out & E)|(e & E)]; congruence.
Qed.
End SOURCE_TOKENS.

(* ================================================================================================================== *)
(* PART 6: a cruder bound a reader can check at a glance: three times the number of nodes of the syntax tree            *)
(* ================================================================================================================== *)
(* nodes: every statement (at any depth) counts 1, every branch of an if (elif / else included) 1, every case of a switch 1,
   every leaf and every && / || of a condition 1 *)
Fixpoint nodes1 (s : stmt) : nat :=
  let nl := fix nl (ss : list stmt) : nat := match ss with [] => 0 | x :: r => nodes1 x + nl r end in
  match s with
  | SCmd _ | SLabel _ _ _ | SBreak _ | SContinue _ => 1
  | SIf conds els =>
      1 + (fix go (cs : list (bexp * list stmt)) : nat := match cs with [] => 0 | (e, b) :: r => 1 + bsize e + nl b + go r end) conds
        + match els with Some b => 1 + nl b | None => 0 end
  | SWhile _ c b => 1 + match c with Some e => bsize e | None => 0 end + nl b
  | SDoWhile _ b e => 1 + bsize e + nl b
  | SSwitch _ _ _ cases =>
      1 + (fix go (cs : list scase) : nat := match cs with [] => 0 | c :: r => 1 + nl (sc_body c) + go r end) cases
  end.
Fixpoint nodes (ss : list stmt) : nat := match ss with [] => 0 | x :: r => nodes1 x + nodes r end.
Definition nodes_local := fix nl (ss : list stmt) : nat := match ss with [] => 0 | x :: r => nodes1 x + nl r end.
Lemma nodes_local_eq ss : nodes_local ss = nodes ss.
Proof. induction ss as [|x r IH]; [reflexivity|]. cbn. now rewrite IH. Qed.
Fixpoint nconds (cs : list (bexp * list stmt)) : nat :=
  match cs with [] => 0 | (e, b) :: r => 1 + bsize e + nodes b + nconds r end.
Definition nopt (o : option (list stmt)) : nat := match o with Some b => 1 + nodes b | None => 0 end.
Fixpoint ncases (cs : list scase) : nat := match cs with [] => 0 | c :: r => 1 + nodes (sc_body c) + ncases r end.

Lemma nodes1_if conds els : nodes1 (SIf conds els) = 1 + nconds conds + nopt els.
Proof.
  change (nodes1 (SIf conds els)) with
    (1 + (fix go (cs : list (bexp * list stmt)) : nat := match cs with [] => 0 | (e, b) :: r => 1 + bsize e + nodes_local b + go r end) conds
       + match els with Some b => 1 + nodes_local b | None => 0 end).
  assert (A : (fix go (cs : list (bexp * list stmt)) : nat := match cs with [] => 0 | (e, b) :: r => 1 + bsize e + nodes_local b + go r end) conds
              = nconds conds).
  { induction conds as [|[e b] r IH]; [reflexivity|]. cbn [nconds]. rewrite IH, nodes_local_eq. reflexivity. }
  assert (B : match els with Some b => 1 + nodes_local b | None => 0 end = nopt els).
  { destruct els; cbn [nopt]; [now rewrite nodes_local_eq|reflexivity]. }
  rewrite A, B. reflexivity.
Qed.
Lemma nodes1_while tg c b : nodes1 (SWhile tg c b) = 1 + bopt c + nodes b.
Proof. change (nodes1 (SWhile tg c b)) with (1 + bopt c + nodes_local b). now rewrite nodes_local_eq. Qed.
Lemma nodes1_dowhile tg b e : nodes1 (SDoWhile tg b e) = 1 + bsize e + nodes b.
Proof. change (nodes1 (SDoWhile tg b e)) with (1 + bsize e + nodes_local b). now rewrite nodes_local_eq. Qed.
Lemma nodes1_switch tg o ol cases : nodes1 (SSwitch tg o ol cases) = 1 + ncases cases.
Proof.
  change (nodes1 (SSwitch tg o ol cases)) with
    (1 + (fix go (cs : list scase) : nat := match cs with [] => 0 | c :: r => 1 + nodes_local (sc_body c) + go r end) cases).
  assert (A : (fix go (cs : list scase) : nat := match cs with [] => 0 | c :: r => 1 + nodes_local (sc_body c) + go r end) cases = ncases cases).
  { induction cases as [|c r IH]; [reflexivity|]. cbn [ncases]. rewrite IH, nodes_local_eq. reflexivity. }
  rewrite A. reflexivity.
Qed.

Lemma wts_le_nodes : forall ss, wts ss <= 3 * nodes ss.
Proof.
  apply (LabelSim.stmts_ind2 (fun s => wt1 s <= 3 * nodes1 s) (fun ss => wts ss <= 3 * nodes ss)).
  - cbn. lia.
  - intros s r H1 H2. cbn [wts nodes]. lia.
  - intros c. cbn. lia.
  - intros n g tk. cbn. lia.
  - intros conds els HC HE. rewrite wt1_if, nodes1_if.
    assert (A : wconds conds <= 3 * nconds conds).
    { induction HC as [|[e b] r Hb _ IH]; [cbn; lia|]. cbn [wconds nconds snd] in *. lia. }
    assert (B : wopt els <= 3 * nopt els) by (destruct els; cbn [wopt nopt] in *; lia).
    lia.
  - intros tg c b H. rewrite wt1_while, nodes1_while. lia.
  - intros tg b c H. rewrite wt1_dowhile, nodes1_dowhile. lia.
  - intros tg. cbn. lia.
  - intros tg. cbn. lia.
  - intros tg o ol cases HC. rewrite wt1_switch, nodes1_switch.
    assert (A : wcases cases <= 3 * ncases cases).
    { induction HC as [|c r Hb _ IH]; [cbn; lia|]. cbn [wcases ncases] in *. lia. }
    lia.
Qed.

Theorem mu_body_le_nodes body : mu_body body <= 1 + 3 * nodes body.
Proof. unfold mu_body. pose proof (wts_le_nodes body). lia. Qed.

Local Transparent work_fuel.
Lemma work_fuel_value : work_fuel = 10000. Proof. reflexivity. Qed.
Lemma work_fuel_prod : work_fuel = 100 * 100. Proof. vm_compute. reflexivity. Qed.   (* the same, in a form lia reads *)
Local Opaque work_fuel.

(* every well-scoped body with at most 3332 syntax nodes gets its chunk graph *)
Corollary emit_graph_total_small body :
  scoped None None body -> nodes body <= 3332 -> exists w, emit_graph body = Emitter.Ok w.
Proof.
  intros HS HN. apply emit_graph_total; [exact HS|]. pose proof (mu_body_le_nodes body). rewrite work_fuel_prod. lia.
Qed.

(* ================================================================================================================== *)
(* PART 7: examples: the hypotheses are satisfiable; the size bound is not an artefact of the proof                      *)
(* ================================================================================================================== *)
Open Scope string_scope.
Definition src1 : string :=
  "script A { lock while (flag(F) && var(V) == 2) { if (flag(G)) { break } elif (defeated(T)) { continue } else { msgbox(""hi"") } } " ++
  "switch (var(X)) { case 1: case 2: foo break case 3: bar default: baz } do { x } while (!flag(Z)) release end }".

(* a source with a loop, break, continue, if / elif / else, switch with shared and default cases, do-while:
   87 tokens, one body of size 26 and 28 syntax nodes, compiled in normal mode *)
Notation PARSE1 := (parse_program [] [] true (Format.parse_format fc0 [] 0%Z true) (lex nf nf nf (t src1))).
Example ex_fit :
  exists p, PARSE1 = Parser.Ok p /\ bodies_fit p /\
            map mu_body (bodies_of (tops p)) = [26] /\ map nodes (bodies_of (tops p)) = [28] /\
            Forall (scoped None None) (bodies_of (tops p)) /\
            exists out, comp src1 = Compile.OutText out.
Proof.
  assert (P : exists p, PARSE1 = Parser.Ok p).
  { destruct (PARSE1) as [p| | |] eqn:E; [now exists p|exfalso..]; vm_compute in E; discriminate. }
  destruct P as (p & HP). exists p. split; [exact HP|].
  assert (M : map mu_body (bodies_of (tops p)) = [26]).
  { transitivity (match PARSE1 with Parser.Ok p => map mu_body (bodies_of (tops p)) | _ => [] end);
      [rewrite HP; reflexivity|vm_compute; reflexivity]. }
  assert (N : map nodes (bodies_of (tops p)) = [28]).
  { transitivity (match PARSE1 with Parser.Ok p => map nodes (bodies_of (tops p)) | _ => [] end);
      [rewrite HP; reflexivity|vm_compute; reflexivity]. }
  assert (FIT : bodies_fit p).
  { unfold bodies_fit. rewrite <- (map_id (bodies_of (tops p))). apply Forall_map.
    assert (Q : Forall (fun n => n < work_fuel) (map mu_body (bodies_of (tops p)))) by (rewrite M, work_fuel_prod; constructor; [lia|constructor]).
    rewrite Forall_map in Q. eapply Forall_impl; [|exact Q]. intros a Ha. exact Ha. }
  split; [exact FIT|]. split; [exact M|]. split; [exact N|].
  assert (S : Forall (scoped None None) (bodies_of (tops p))).
  { pose proof (accepted_bodies_are_src_ok nf nf nf [] [] true fc0 [] 0%Z (t src1) p HP) as Q.
    eapply Forall_impl; [|exact Q]. intros a [_ H']. exact H'. }
  split; [exact S|].
  eexists. vm_compute. reflexivity.
Qed.

(* the bound matters: a well-scoped body (a loop of ten thousand breaks) that the model's fixed fuel does not cover.
   The Go compiler has no such limit; the model answers OutOfFuel (Compile.OutEmitErr) - with any fuel above 10004
   it builds the graph (work_total) *)
Definition big_body : list stmt := [SWhile 0 None (repeat (SBreak 0) 10000)].
Lemma scoped_repeat_break n : scoped (Some 0) (Some 0) (repeat (SBreak 0) n).
Proof. induction n; cbn; constructor; [constructor; reflexivity|assumption]. Qed.
Lemma wts_repeat_break n : wts (repeat (SBreak 0) n) = n.
Proof. induction n; cbn in *; [reflexivity|]. now rewrite IHn. Qed.
Example ex_bound_matters :
  scoped None None big_body /\ mu_body big_body = 10004 /\ emit_graph big_body = OutOfFuel /\
  exists w, work 10005 (w0 big_body) = Emitter.Ok w.
Proof.
  assert (S : scoped None None big_body) by (apply sc_cons; [apply sc_while; apply scoped_repeat_break|apply sc_nil]).
  assert (M : mu_body big_body = 10004).
  { unfold mu_body, big_body. cbn [wts]. rewrite wt1_while, wts_repeat_break. reflexivity. }
  split; [exact S|]. split; [exact M|]. split; [vm_cast_no_check (eq_refl (@OutOfFuel wst))|].
  apply work_total; [exact S|]. rewrite M. apply Nat.ltb_lt. vm_compute. reflexivity.
Qed.

(* the hypothesis of compile_total_tokens on the same source: 87 tokens; normal and lint mode, both chunk orders, with and
   without line markers *)
Example ex_tokens :
  List.length (lex nf nf nf (t src1)) = 87 /\ List.length (lex nf nf nf (t src1)) < work_fuel /\
  forall ee optimize mpath,
    (exists out, Compile.compile nf nf nf [] [] ee fc0 [] 0%Z optimize mpath (t src1) = Compile.OutText out) \/
    (exists e, Compile.compile nf nf nf [] [] ee fc0 [] 0%Z optimize mpath (t src1) = Compile.OutErr e).
Proof.
  assert (A : List.length (lex nf nf nf (t src1)) = 87) by (vm_compute; reflexivity).
  assert (B : List.length (lex nf nf nf (t src1)) < work_fuel) by (rewrite A, work_fuel_prod; lia).
  split; [exact A|]. split; [exact B|]. intros ee optimize mpath. apply compile_total_tokens. exact B.
Qed.
