(* C19, parser half of "... and hence never changes the compiled output without line markers":
   THE PARSER READS TOKEN TYPES AND LITERALS ONLY.

   The lexer theorems (LexLayout.v, LexBetween.v, LexRest.v, Properties_C19.v) say that layout changes leave
   `map shape (lex src)` unchanged (`shape tk = (ttype tk, tlit tk)`).  This file proves that the parser model (Parser.v, with
   the format() operator of Format.v) looks at nothing else: the six position fields of a token are only copied - into the
   error it reports, or into the program (command tokens, label tokens, operand / case / raw lines, statement tokens of
   text, movement, mart, mapscripts) - and never tested.

   The erasure.  `erase_tok` keeps `ttype` and `tlit` and sets tline, tsb, tsu, teline, teb, teu to 0.  It is lifted to every
   type that contains tokens or lines: erase_cmd (ctok), erase_leaf (lline := 0, lpre), erase_bexp, erase_stmt (SLabel token,
   SSwitch operand line and case lines := 0), erase_textdef (xtok), erase_mapscript, erase_tableentry, erase_tablems, erase_top
   (TRaw line := 0, statement tokens, step / item tokens), erase_program; and to the parser's own data erase_imptext,
   erase_impmov, erase_impdata, erase_hst, erase_pstate, erase_fparams.  Names, arguments, values, loop / switch tags and
   command ids (`List.length` of the remaining stream, the same for both lists) are kept.  The definitions of erase_tok ..
   erase_program are, word for word, those of the sibling file ShapeEmit.v (emitter half).
   Results: `erase_res f` maps `Ok a` to `Ok (f a)`, `Err e` to `Err (erase_perr e)` (same message, the six positions 0),
   `Panic` and `Fuel` to themselves.

   Bottom-up, one lemma per parsing function F of Parser.v (section 4 and 5), of the form
        F (erased token arguments) (map erase_tok ts) (erased accumulators) = erase_res <eraser of the result> (F ... ts ...):
   cur_map, pk_map, adv_map, curis_map, peekis_map, expect_peek_map (the window), poryswitch_header_erase, list_erase
   (list_value / list_cases), moves_operator_erase, command_args_erase, command_stmt_erase, var_or_autovar_erase,
   collect_until_erase, value_parts_erase, cond_var_operator_erase, cond_flag_operator_erase, leaf_expr_erase, bexp_erase
   (bool_expr / right_side), try_label_erase, switch_operand_erase, ers_all (the eleven mutually recursive statement
   functions parse_stmt, parse_block, parse_switch_block, parse_cond, parse_if, parse_elifs, parse_switch, parse_cases,
   parse_pory, parse_pory_cases, parse_pory_stmts), scope_modifier_erase, parse_script_erase, text_value_erase,
   pory_text_cases_erase, pory_text_erase, parse_text_erase, parse_movement_erase, parse_mart_erase, parse_raw_erase,
   ms_collect_erase, ms_table_erase, ms_entries_erase, parse_mapscripts_erase, const_value_erase, parse_const_erase,
   add_texts_erase, add_movs_erase, add_implicit_erase, pstmts_erase (patching the hoisted labels into the statements),
   parse_tops_erase, dup_text_erase, dup_mov_erase, parse_program_erase.
   In sections 4 and 5 `parse_format` is a section parameter with the same commutation as hypothesis; section 6 proves it for
   the real operator (named_loop_erase, parse_format_erase_real), so the main theorems have no hypothesis left.

   MAIN STATEMENTS (all closed under the global context; for every autovars, switches, env_errors, font configuration, -f and
   -l options, every token list, whether or not it ends with EOF):
   - parse_program_commutes_with_erasure:
         parse_program .. (map erase_tok ts) = erase_res erase_program (parse_program .. ts).
   - parser_reads_shapes_only:   map shape ts1 = map shape ts2 ->
         erase_res erase_program (parse_program .. ts1) = erase_res erase_program (parse_program .. ts2).
     (parser_reads_shapes_only_gen: the same for any format() operator that commutes with the erasure.)
   - equal_shapes_parse_agree:   map shape ts1 = map shape ts2 -> parse_agree (parse_program .. ts1) (parse_program .. ts2),
     where parse_agree = both Ok with `erase_program p1 = erase_program p2`, or both Err with the same message, or both Panic,
     or both Fuel.  Read case by case: equal_shapes_accepted_together, equal_shapes_equal_erasures, equal_shapes_same_error.
   - with the lexer theorems: leading_layout_same_parse, layout_between_tokens_same_parse, trailing_layout_same_parse
     (a gap in front of the first token, between two tokens unless '/' meets '/', trailing layout: parse_agree).
   - the same for the statement parser and the top-level loop alone, with the real format(): parse_stmt_commutes_with_erasure,
     parse_tops_commutes_with_erasure.
   - composition (section 8), with the emitter half as a HYPOTHESIS of the section (it is ShapeEmit.equal_erasures_equal_output):
     equal_shapes_equal_output, layout_between_tokens_same_output: the two compilations without line markers give the same
     text or fail with the same message.
   - examples (section 9): two layouts of a program that uses every construct have the same shapes, different positions,
     are both accepted, the two programs differ, their erasures are equal; a rejected program is rejected in both layouts with
     the same message at different lines.

   Method: the proofs are one case analysis each, done by a small tactic (section 3): normalise the left-hand side (the token
   window operations commute with `map erase_tok`; rewrite with the lemmas of the callees), then split on the outermost
   scrutinee of the right-hand side; at a leaf both sides are equal after pushing the erasure through the constructors. *)
From Coq Require Import List String Ascii ZArith NArith Lia Bool.
From Pory Require Import Lexer Ast LexLayout.
From Pory Require LexBetween LexRest.
From Pory Require Emitter.
From Pory Require Import Parser Format.
Import ListNotations.
Open Scope list_scope.
Local Open Scope Z_scope.

(* ================================================================================================================= *)
(* 1. The erasure                                                                                                      *)
(* ================================================================================================================= *)
Definition erase_tok (tk : token) : token :=
  {| ttype := ttype tk; tlit := tlit tk; tline := 0; tsb := 0; tsu := 0; teline := 0; teb := 0; teu := 0 |}.

Definition erase_cmd (c : cmd) : cmd :=
  {| cname := cname c; cargs := cargs c; ctok := erase_tok (ctok c); Ast.cid := Ast.cid c |}.

Definition erase_leaf (l : leaf) : leaf :=
  {| lk := lk l; loperand := loperand l; lline := 0; lop := lop l; lvalue := lvalue l; lstrict := lstrict l;
     lpre := option_map erase_cmd (lpre l) |}.

Fixpoint erase_bexp (e : bexp) : bexp :=
  match e with
  | BLeaf l => BLeaf (erase_leaf l)
  | BBin o a b => BBin o (erase_bexp a) (erase_bexp b)
  end.

Fixpoint erase_stmt (s : stmt) : stmt :=
  match s with
  | SCmd c => SCmd (erase_cmd c)
  | SLabel n g tk => SLabel n g (erase_tok tk)
  | SIf conds els =>
      SIf (map (fun cb : bexp * list stmt => (erase_bexp (Datatypes.fst cb), map erase_stmt (Datatypes.snd cb))) conds)
          (option_map (map erase_stmt) els)
  | SWhile tag c body => SWhile tag (option_map erase_bexp c) (map erase_stmt body)
  | SDoWhile tag body c => SDoWhile tag (map erase_stmt body) (erase_bexp c)
  | SBreak tag => SBreak tag
  | SContinue tag => SContinue tag
  | SSwitch tag operand oline cases =>
      SSwitch tag operand 0
        (map (fun c : Emitter.scase => (Emitter.sc_def c, Emitter.sc_val c, 0%Z, map erase_stmt (Emitter.sc_body c))) cases)
  end.
Definition erase_stmts (ss : list stmt) : list stmt := map erase_stmt ss.
Definition erase_cond (cb : bexp * list stmt) : bexp * list stmt := (erase_bexp (Datatypes.fst cb), erase_stmts (Datatypes.snd cb)).
Definition erase_case (c : Emitter.scase) : Emitter.scase :=
  (Emitter.sc_def c, Emitter.sc_val c, 0%Z, erase_stmts (Emitter.sc_body c)).

Definition erase_textdef (x : textdef) : textdef :=
  {| xname := xname x; xvalue := xvalue x; xtype := xtype x; xglob := xglob x; xtok := erase_tok (xtok x) |}.

Definition erase_mapscript (m : mapscript) : mapscript :=
  {| msType := erase_tok (msType m); msName := msName m; msScript := option_map erase_stmts (msScript m) |}.
Definition erase_tableentry (e : tableentry) : tableentry :=
  {| teCond := erase_tok (teCond e); teCondLit := teCondLit e; teCmp := teCmp e; teName := teName e;
     teScript := option_map erase_stmts (teScript e) |}.
Definition erase_tablems (tb : tablems) : tablems :=
  {| tmType := erase_tok (tmType tb); tmName := tmName tb; tmEntries := map erase_tableentry (tmEntries tb) |}.

Definition erase_top (tp : top) : top :=
  match tp with
  | TScript n g b => TScript n g (erase_stmts b)
  | TRaw v ln => TRaw v 0
  | TTextStmt => TTextStmt
  | TMovement n g tk steps => TMovement n g (erase_tok tk) (map erase_tok steps)
  | TMart n g tk items itoks => TMart n g (erase_tok tk) items (map erase_tok itoks)
  | TMapScripts n g plain tables => TMapScripts n g (map erase_mapscript plain) (map erase_tablems tables)
  end.

Definition erase_program (p : program) : program :=
  {| tops := map erase_top (tops p); texts := map erase_textdef (texts p) |}.

Lemma erase_stmt_if conds els :
  erase_stmt (SIf conds els) = SIf (map erase_cond conds) (option_map erase_stmts els).
Proof. reflexivity. Qed.
Lemma erase_stmt_switch tag operand oline cases :
  erase_stmt (SSwitch tag operand oline cases) = SSwitch tag operand 0 (map erase_case cases).
Proof. reflexivity. Qed.

(* the parser's own data *)
Definition erase_imptext (it : imptext) : imptext :=
  {| itCid := itCid it; itArg := itArg it; itTok := erase_tok (itTok it); itType := itType it; itScript := itScript it |}.
Definition erase_impmov (im : impmov) : impmov :=
  {| imCid := imCid im; imArg := imArg im; imToks := map erase_tok (imToks im); imScript := imScript im;
     imCmdTok := erase_tok (imCmdTok im) |}.
Definition erase_impdata (d : impdata) : impdata :=
  {| idT := map erase_imptext (idT d); idM := map erase_impmov (idM d) |}.
Definition erase_hst (h : hst) : hst :=
  {| htexts := map erase_textdef (htexts h); hset := hset h; hcnt := hcnt h;
     hmovs := map erase_top (hmovs h); hmset := hmset h; hmcnt := hmcnt h |}.
Definition erase_pstate (st : pstate) : pstate :=
  {| pconsts := pconsts st; ph := erase_hst (ph st); ptops := map erase_top (ptops st);
     ptexts := map erase_textdef (ptexts st) |}.

(* the parameters of format() (Format.v) *)
Definition erase_fparams (p : fparams) : fparams :=
  {| pFont := pFont p; pFontTok := option_map erase_tok (pFontTok p); pMax := pMax p; pLines := pLines p; pCursor := pCursor p;
     pSpec := pSpec p |}.

(* results: an error keeps its message, its six position fields become 0 *)
Definition erase_perr (e : perr) : perr :=
  {| els := 0; ele := 0; ecs := 0; eus := 0; ece := 0; eue := 0; emsg := emsg e |}.
Definition erase_res {A} (f : A -> A) (r : Parser.res A) : Parser.res A :=
  match r with Ok a => Ok (f a) | Err e => Err (erase_perr e) | Panic => Panic | Fuel => Fuel end.

Definition ep2 {A B} (f : A -> A) (g : B -> B) (p : A * B) : A * B := (f (Datatypes.fst p), g (Datatypes.snd p)).
Definition ep3 {A B C} (f : A -> A) (g : B -> B) (h : C -> C) (p : A * B * C) : A * B * C :=
  (f (Datatypes.fst (Datatypes.fst p)), g (Datatypes.snd (Datatypes.fst p)), h (Datatypes.snd p)).
Definition ep4 {A B C D} (f : A -> A) (g : B -> B) (h : C -> C) (k : D -> D) (p : A * B * C * D) : A * B * C * D :=
  (f (Datatypes.fst (Datatypes.fst (Datatypes.fst p))), g (Datatypes.snd (Datatypes.fst (Datatypes.fst p))), h (Datatypes.snd (Datatypes.fst p)), k (Datatypes.snd p)).
Definition ep5 {A B C D F} (f : A -> A) (g : B -> B) (h : C -> C) (k : D -> D) (l : F -> F) (p : A * B * C * D * F)
  : A * B * C * D * F :=
  (f (Datatypes.fst (Datatypes.fst (Datatypes.fst (Datatypes.fst p)))), g (Datatypes.snd (Datatypes.fst (Datatypes.fst (Datatypes.fst p)))), h (Datatypes.snd (Datatypes.fst (Datatypes.fst p))), k (Datatypes.snd (Datatypes.fst p)), l (Datatypes.snd p)).
Definition same {A} (x : A) : A := x.

Local Notation E := erase_tok.
Local Notation Ets := (map erase_tok).

(* ================================================================================================================= *)
(* 2. The token window                                                                                                 *)
(* ================================================================================================================= *)
Lemma erase_eof0 : E eof0 = eof0. Proof. reflexivity. Qed.
Lemma cur_map ts : cur (Ets ts) = E (cur ts).
Proof. destruct ts; reflexivity. Qed.
Lemma last_map ts : last (Ets ts) eof0 = E (last ts eof0).
Proof. induction ts as [|x [|y r] IH]; try reflexivity. exact IH. Qed.
Lemma pk_map n ts : pk n (Ets ts) = E (pk n ts).
Proof. unfold pk. rewrite last_map. apply map_nth. Qed.
Lemma adv_map ts : adv (Ets ts) = Ets (adv ts).
Proof. destruct ts as [|x [|y r]]; reflexivity. Qed.
Lemma is_erase ty tk : is ty (E tk) = is ty tk. Proof. reflexivity. Qed.
Lemma curis_map ty ts : curis ty (Ets ts) = curis ty ts.
Proof. unfold curis. rewrite cur_map. reflexivity. Qed.
Lemma peekis_map ty ts : peekis ty (Ets ts) = peekis ty ts.
Proof. unfold peekis. rewrite pk_map. reflexivity. Qed.
Lemma expect_peek_map ty ts : expect_peek ty (Ets ts) = option_map Ets (expect_peek ty ts).
Proof. unfold expect_peek. rewrite peekis_map, adv_map. destruct (peekis ty ts); reflexivity. Qed.
Lemma tlit_erase tk : tlit (E tk) = tlit tk. Proof. reflexivity. Qed.
Lemma ttype_erase tk : ttype (E tk) = ttype tk. Proof. reflexivity. Qed.
Lemma tline_erase tk : tline (E tk) = 0. Proof. reflexivity. Qed.
Lemma len_map (ts : toks) : List.length (Ets ts) = List.length ts. Proof. apply map_length. Qed.
Lemma set_lit_erase tk l : E (set_lit tk l) = set_lit (E tk) l. Proof. reflexivity. Qed.
Lemma repeat_tok_erase n tk : Ets (repeat_tok n tk) = repeat_tok n (E tk).
Proof. induction n as [|n IH]; [reflexivity|]. cbn [repeat_tok map]. rewrite IH. reflexivity. Qed.
Lemma is_cmp_tok_erase tk : is_cmp_tok (E tk) = is_cmp_tok tk. Proof. reflexivity. Qed.
Lemma assoc_map {B} (g : B -> B) (l : list (text * B)) k :
  assoc (map (ep2 same g) l) k = option_map g (assoc l k).
Proof.
  induction l as [|[a b] r IH]; [reflexivity|]. cbn [map ep2 Datatypes.fst Datatypes.snd same assoc].
  destruct (text_eqb a k); [reflexivity|exact IH].
Qed.
Lemma erase_impadd a b : erase_impdata (impadd a b) = impadd (erase_impdata a) (erase_impdata b).
Proof. unfold erase_impdata, impadd. cbn [idT idM]. rewrite !map_app. reflexivity. Qed.
Lemma peek_is_autovar_map av ts : peek_is_autovar av (Ets ts) = peek_is_autovar av ts.
Proof. unfold peek_is_autovar. rewrite peekis_map, pk_map. reflexivity. Qed.

Lemma erase_res_if {A} (f : A -> A) (b : bool) x y :
  erase_res f (if b then x else y) = if b then erase_res f x else erase_res f y.
Proof. destruct b; reflexivity. Qed.
Lemma if_congr {A} (b : bool) (x y x' y' : A) : x = x' -> y = y' -> (if b then x else y) = (if b then x' else y').
Proof. intros; subst; reflexivity. Qed.

Lemma ep2_pair {A B} (f : A -> A) (g : B -> B) a b : ep2 f g (a, b) = (f a, g b). Proof. reflexivity. Qed.
Lemma ep3_pair {A B C} (f : A -> A) (g : B -> B) (h : C -> C) a b c : ep3 f g h (a, b, c) = (f a, g b, h c). Proof. reflexivity. Qed.
Lemma ep4_pair {A B C D} (f : A -> A) (g : B -> B) (h : C -> C) (k : D -> D) a b c d :
  ep4 f g h k (a, b, c, d) = (f a, g b, h c, k d). Proof. reflexivity. Qed.
Lemma ep5_pair {A B C D F} (f : A -> A) (g : B -> B) (h : C -> C) (k : D -> D) (l : F -> F) a b c d e :
  ep5 f g h k l (a, b, c, d, e) = (f a, g b, h c, k d, l e). Proof. reflexivity. Qed.
Lemma same_eq {A} (x : A) : same x = x. Proof. reflexivity. Qed.
Lemma erase_cmd_mk a b c d : erase_cmd {| cname := a; cargs := b; ctok := c; Ast.cid := d |} =
  {| cname := a; cargs := b; ctok := E c; Ast.cid := d |}. Proof. reflexivity. Qed.
Lemma erase_leaf_mk a b c d e f g : erase_leaf {| lk := a; loperand := b; lline := c; lop := d; lvalue := e; lstrict := f; lpre := g |} =
  {| lk := a; loperand := b; lline := 0; lop := d; lvalue := e; lstrict := f; lpre := option_map erase_cmd g |}. Proof. reflexivity. Qed.
Lemma erase_textdef_mk a b c d e : erase_textdef {| xname := a; xvalue := b; xtype := c; xglob := d; xtok := e |} =
  {| xname := a; xvalue := b; xtype := c; xglob := d; xtok := E e |}. Proof. reflexivity. Qed.
Lemma erase_mapscript_mk a b c : erase_mapscript {| msType := a; msName := b; msScript := c |} =
  {| msType := E a; msName := b; msScript := option_map erase_stmts c |}. Proof. reflexivity. Qed.
Lemma erase_tableentry_mk a b c d e : erase_tableentry {| teCond := a; teCondLit := b; teCmp := c; teName := d; teScript := e |} =
  {| teCond := E a; teCondLit := b; teCmp := c; teName := d; teScript := option_map erase_stmts e |}. Proof. reflexivity. Qed.
Lemma erase_tablems_mk a b c : erase_tablems {| tmType := a; tmName := b; tmEntries := c |} =
  {| tmType := E a; tmName := b; tmEntries := map erase_tableentry c |}. Proof. reflexivity. Qed.
Lemma erase_imptext_mk a b c d e : erase_imptext {| itCid := a; itArg := b; itTok := c; itType := d; itScript := e |} =
  {| itCid := a; itArg := b; itTok := E c; itType := d; itScript := e |}. Proof. reflexivity. Qed.
Lemma erase_impmov_mk a b c d e : erase_impmov {| imCid := a; imArg := b; imToks := c; imScript := d; imCmdTok := e |} =
  {| imCid := a; imArg := b; imToks := Ets c; imScript := d; imCmdTok := E e |}. Proof. reflexivity. Qed.
Lemma erase_impdata_mk a b : erase_impdata {| idT := a; idM := b |} =
  {| idT := map erase_imptext a; idM := map erase_impmov b |}. Proof. reflexivity. Qed.
Lemma erase_hst_mk a b c d e f : erase_hst {| htexts := a; hset := b; hcnt := c; hmovs := d; hmset := e; hmcnt := f |} =
  {| htexts := map erase_textdef a; hset := b; hcnt := c; hmovs := map erase_top d; hmset := e; hmcnt := f |}. Proof. reflexivity. Qed.
Lemma erase_pstate_mk a b c d : erase_pstate {| pconsts := a; ph := b; ptops := c; ptexts := d |} =
  {| pconsts := a; ph := erase_hst b; ptops := map erase_top c; ptexts := map erase_textdef d |}. Proof. reflexivity. Qed.
Lemma erase_program_mk a b : erase_program {| tops := a; texts := b |} =
  {| tops := map erase_top a; texts := map erase_textdef b |}. Proof. reflexivity. Qed.
Lemma erase_fparams_mk a b c d e f :
  erase_fparams {| pFont := a; pFontTok := b; pMax := c; pLines := d; pCursor := e; pSpec := f |} =
  {| pFont := a; pFontTok := option_map E b; pMax := c; pLines := d; pCursor := e; pSpec := f |}.
Proof. reflexivity. Qed.
Lemma idT_erase d : idT (erase_impdata d) = map erase_imptext (idT d). Proof. reflexivity. Qed.
Lemma idM_erase d : idM (erase_impdata d) = map erase_impmov (idM d). Proof. reflexivity. Qed.
Lemma ctok_erase c : ctok (erase_cmd c) = E (ctok c). Proof. reflexivity. Qed.
Lemma cargs_erase c : cargs (erase_cmd c) = cargs c. Proof. reflexivity. Qed.
Create HintDb er discriminated.
Create HintDb er_push discriminated.
#[export] Hint Rewrite cur_map last_map pk_map adv_map is_erase curis_map peekis_map expect_peek_map len_map is_cmp_tok_erase
  @assoc_map peek_is_autovar_map @ep2_pair @ep3_pair @ep4_pair @ep5_pair @same_eq : er.
#[export] Hint Rewrite set_lit_erase repeat_tok_erase erase_impadd @map_app erase_cmd_mk erase_leaf_mk erase_textdef_mk
  erase_mapscript_mk erase_tableentry_mk erase_tablems_mk erase_imptext_mk erase_impmov_mk erase_impdata_mk erase_hst_mk
  erase_pstate_mk erase_program_mk erase_fparams_mk : er_push.

(* ================================================================================================================= *)
(* 3. The case analysis                                                                                                *)
(* ================================================================================================================= *)
Ltac er_cbn :=
  cbn [erase_res ep2 ep3 ep4 ep5 same Datatypes.fst Datatypes.snd option_map map
       erase_cmd erase_leaf erase_bexp erase_stmt erase_stmts erase_cond erase_case erase_textdef erase_mapscript
       erase_tableentry erase_tablems erase_top erase_program erase_imptext erase_impmov erase_impdata erase_hst erase_pstate
       cname cargs ctok Ast.cid lk loperand lline lop lvalue lstrict lpre xname xvalue xtype xglob xtok
       msType msName msScript teCond teCondLit teCmp teName teScript tmType tmName tmEntries tops texts
       itCid itArg itTok itType itScript imCid imArg imToks imScript imCmdTok idT idM
       htexts hset hcnt hmovs hmset hmcnt pconsts ph ptops ptexts
       Emitter.sc_def Emitter.sc_val Emitter.sc_body negb err_tok err_range
       erase_tok ttype tlit tline tsb tsu teline teb teu
       erase_fparams pFont pFontTok pMax pLines pCursor pSpec].
Ltac er_cbn_in H :=
  cbn [erase_res ep2 ep3 ep4 ep5 same Datatypes.fst Datatypes.snd option_map map
       erase_cmd erase_leaf erase_bexp erase_stmt erase_stmts erase_cond erase_case erase_textdef erase_mapscript
       erase_tableentry erase_tablems erase_top erase_program erase_imptext erase_impmov erase_impdata erase_hst erase_pstate
       cname cargs ctok Ast.cid lk loperand lline lop lvalue lstrict lpre xname xvalue xtype xglob xtok
       msType msName msScript teCond teCondLit teCmp teName teScript tmType tmName tmEntries tops texts
       itCid itArg itTok itType itScript imCid imArg imToks imScript imCmdTok idT idM
       htexts hset hcnt hmovs hmset hmcnt pconsts ph ptops ptexts
       Emitter.sc_def Emitter.sc_val Emitter.sc_body negb err_tok err_range
       erase_tok ttype tlit tline tsb tsu teline teb teu
       erase_fparams pFont pFontTok pMax pLines pCursor pSpec] in H.
Ltac er_fwd := repeat match goal with H : forall _, _ |- _ => rewrite H end.
Ltac er_norm0 := repeat (progress (er_cbn; autorewrite with er er_push)).
Ltac er_norm := er_cbn; autorewrite with er; er_cbn; try (progress er_fwd; er_norm).
Ltac er_bwd := repeat match goal with H : forall _, _ |- _ => rewrite <- H end.

(* gd c fails when c must not be destructed (a section variable) *)
(* a call whose token-bearing argument is a compound term (not "eraser applied to a variable"), so that the lemma does not
   rewrite the left-hand side: instantiate the lemma from the un-erased call c on the right-hand side, normalise its
   left-hand side, rewrite with it *)
Ltac er_call c :=
  match goal with
  | H : forall _, _ |- _ =>
      let H' := fresh "Hc" in
      eassert (H' : _ = erase_res _ c) by (apply H);
      er_cbn_in H'; autorewrite with er er_push in H'; er_cbn_in H'; rewrite H'; clear H'
  end.
Ltac er_destr gd c :=
  gd c;
  first [ is_var c; destruct c
        | lazymatch type of c with
          | Parser.res _ => lazymatch goal with |- context[erase_res _ c] => idtac | _ => try er_call c end
          | _ => idtac
          end;
          destruct c eqn:? ].
Ltac er_scrut gd t :=
  lazymatch t with
  | match ?c with _ => _ end => first [er_scrut gd c | er_destr gd c]
  end.
Ltac er_leaf := first [reflexivity | er_bwd; er_norm0; reflexivity].
Ltac er_go_with gd leaf :=
  er_norm;
  lazymatch goal with
  | |- _ = erase_res _ ?body =>
      tryif first [ er_scrut gd body | rewrite erase_res_if; apply if_congr ]
      then er_go_with gd leaf else leaf
  | |- _ => leaf
  end.
Ltac er_go gd := er_go_with gd er_leaf.
Ltac er_dbg gd := er_go_with gd ltac:(try er_leaf).
(* the long message literals make every rewrite slow: replace them by variables first *)
Ltac hide_strings :=
  repeat match goal with
         | |- context[err_tok _ ?m] => lazymatch m with String _ _ => let s := fresh "msg" in generalize m; intro s end
         | |- context[err_range _ _ ?m] => lazymatch m with String _ _ => let s := fresh "msg" in generalize m; intro s end
         end.

(* ================================================================================================================= *)
(* 4. The parsing functions (for any constants; format() is a parameter)                                               *)
(* ================================================================================================================= *)
Section ER.
Variable autovars : list (text * autovar).
Variable switches : list (text * text).
Variable env_errors : bool.
Variable parse_format : toks -> Parser.res (token * text * text * toks).
Variable consts : list (text * text).
Hypothesis parse_format_erase : forall ts,
  parse_format (Ets ts) = erase_res (ep4 E same same Ets) (parse_format ts).

Ltac gd c := lazymatch c with env_errors => fail | switches => fail | _ => idtac end.
Ltac go := er_go gd.
Ltac dbg := er_dbg gd.

Notation poryswitch_header := (poryswitch_header switches env_errors).
Notation list_value := (list_value switches env_errors).
Notation list_cases := (list_cases switches env_errors).

Lemma poryswitch_header_erase ts :
  poryswitch_header (Ets ts) = erase_res (ep3 same same Ets) (poryswitch_header ts).
Proof. unfold Parser.poryswitch_header. cbv zeta. hide_strings. go. Qed.

Lemma list_erase : forall f,
  (forall k multi ts acc, list_value f k multi (Ets ts) (Ets acc) = erase_res (ep2 Ets Ets) (list_value f k multi ts acc)) /\
  (forall k start ts acc, list_cases f k (E start) (Ets ts) (map (ep2 same Ets) acc) =
                          erase_res (ep2 (map (ep2 same Ets)) Ets) (list_cases f k start ts acc)).
Proof.
  induction f as [|f [IH1 IH2]]; [split; intros; reflexivity|].
  assert (IH1' : forall k multi ts, list_value f k multi (Ets ts) [] = erase_res (ep2 Ets Ets) (list_value f k multi ts []))
    by (intros; apply (IH1 _ _ _ [])).
  assert (IH2' : forall k start ts, list_cases f k (E start) (Ets ts) [] =
                          erase_res (ep2 (map (ep2 same Ets)) Ets) (list_cases f k start ts []))
    by (intros; apply (IH2 _ _ _ [])).
  pose proof poryswitch_header_erase as PH.
  split.
  - intros k multi ts acc. rewrite !list_value_unfold. cbv zeta. hide_strings. go.
  - intros k start ts acc. rewrite !list_cases_unfold. cbv zeta. hide_strings. go.
Qed.


Lemma list_value_erase f k multi ts acc :
  list_value f k multi (Ets ts) (Ets acc) = erase_res (ep2 Ets Ets) (list_value f k multi ts acc).
Proof. apply (list_erase f). Qed.
Lemma list_value_erase0 f k multi ts :
  list_value f k multi (Ets ts) [] = erase_res (ep2 Ets Ets) (list_value f k multi ts []).
Proof. apply (list_value_erase f k multi ts []). Qed.

Notation moves_operator := (moves_operator switches env_errors).
Notation command_args := (command_args switches env_errors parse_format consts).
Notation command_stmt := (command_stmt switches env_errors parse_format consts).
Notation var_or_autovar := (var_or_autovar autovars switches env_errors parse_format consts).
Notation collect_until := (collect_until consts).
Notation value_parts := (value_parts consts).
Notation cond_var_operator := (cond_var_operator consts).
Notation leaf_expr := (leaf_expr autovars switches env_errors parse_format consts).
Notation bool_expr := (bool_expr autovars switches env_errors parse_format consts).
Notation right_side := (right_side autovars switches env_errors parse_format consts).

Lemma moves_operator_erase f ts : moves_operator f (Ets ts) = erase_res (ep2 Ets Ets) (moves_operator f ts).
Proof.
  pose proof list_value_erase0 as L.
  unfold Parser.moves_operator, movement_value. cbv zeta. hide_strings. go.
Qed.

Definition Eargs := ep3 (@same (list text)) erase_impdata Ets.

Lemma command_args_erase : forall f script cmdtok cidv ts depth parts args imp,
  command_args f script (E cmdtok) cidv (Ets ts) depth parts args (erase_impdata imp) =
  erase_res Eargs (command_args f script cmdtok cidv ts depth parts args imp).
Proof.
  pose proof moves_operator_erase as M. unfold Eargs.
  induction f as [|f IH]; intros script cmdtok cidv ts depth parts args imp; [reflexivity|].
  cbn [Parser.command_args]. cbv zeta. hide_strings. go.
Qed.

Lemma command_stmt_erase f script ts :
  command_stmt f script (Ets ts) = erase_res (ep3 erase_cmd erase_impdata Ets) (command_stmt f script ts).
Proof.
  assert (A : forall f script cmdtok cidv ts depth parts args,
    command_args f script (E cmdtok) cidv (Ets ts) depth parts args imp0 =
    erase_res Eargs (command_args f script cmdtok cidv ts depth parts args imp0))
    by (intros; apply (command_args_erase _ _ _ _ _ _ _ _ imp0)).
  unfold Eargs in A. unfold Parser.command_stmt. cbv zeta. go.
Qed.

Lemma var_or_autovar_erase f script ts :
  var_or_autovar f script (Ets ts) =
  erase_res (ep3 (option_map (ep2 same erase_cmd)) erase_impdata Ets) (var_or_autovar f script ts).
Proof.
  pose proof command_stmt_erase as C.
  unfold Parser.var_or_autovar. cbv zeta. hide_strings. go.
Qed.

Lemma collect_until_erase : forall f (stop : token -> bool) ts parts,
  (forall tk, stop (E tk) = stop tk) ->
  collect_until f stop (Ets ts) parts = option_map (ep2 same Ets) (collect_until f stop ts parts).
Proof.
  induction f as [|f IH]; intros stop ts parts Hs; [reflexivity|].
  cbn [Parser.collect_until]. rewrite cur_map, Hs, adv_map, curis_map, tlit_erase.
  destruct (stop (cur ts)); [reflexivity|]. destruct (curis EOF (adv ts)); [reflexivity|]. apply IH. exact Hs.
Qed.

Lemma value_parts_erase : forall f vtok ts depth parts,
  value_parts f (E vtok) (Ets ts) depth parts = erase_res (ep2 same Ets) (value_parts f vtok ts depth parts).
Proof.
  induction f as [|f IH]; intros vtok ts depth parts; [reflexivity|].
  cbn [Parser.value_parts]. cbv zeta. hide_strings. go.
Qed.

Lemma cond_var_operator_erase f ts :
  cond_var_operator f (Ets ts) = erase_res (ep4 same same same Ets) (cond_var_operator f ts).
Proof.
  pose proof value_parts_erase as V.
  unfold Parser.cond_var_operator. cbv zeta. hide_strings.
  rewrite adv_map, (collect_until_erase f _ (adv ts) []) by (intros; reflexivity). go.
Qed.

Lemma cond_flag_operator_erase ts nm :
  cond_flag_operator (Ets ts) nm = erase_res (ep3 same same Ets) (cond_flag_operator ts nm).
Proof. unfold cond_flag_operator. cbv zeta. hide_strings. go. Qed.

Lemma leaf_expr_erase f script ts :
  leaf_expr f script (Ets ts) = erase_res (ep3 erase_leaf erase_impdata Ets) (leaf_expr f script ts).
Proof.
  pose proof var_or_autovar_erase as V. pose proof cond_var_operator_erase as CV. pose proof cond_flag_operator_erase as CF.
  assert (CU : forall f ts, collect_until f (is RPAREN) (Ets ts) [] = option_map (ep2 same Ets) (collect_until f (is RPAREN) ts []))
    by (intros; apply collect_until_erase; intros; reflexivity).
  unfold Parser.leaf_expr. cbv zeta. hide_strings. go.
Qed.

Lemma neg_leaf_erase l : erase_leaf (neg_leaf l) = neg_leaf (erase_leaf l). Proof. reflexivity. Qed.

Definition Ebx := ep3 erase_bexp erase_impdata Ets.
Lemma bexp_erase : forall f,
  (forall single negated script ts, bool_expr f single negated script (Ets ts) = erase_res Ebx (bool_expr f single negated script ts)) /\
  (forall left single negated script ts, right_side f (erase_bexp left) single negated script (Ets ts) =
                                         erase_res Ebx (right_side f left single negated script ts)).
Proof.
  pose proof leaf_expr_erase as L. unfold Ebx.
  induction f as [|f [IH1 IH2]]; [split; intros; reflexivity|].
  assert (IH2a : forall l single negated script ts, right_side f (BLeaf (erase_leaf l)) single negated script (Ets ts) =
            erase_res (ep3 erase_bexp erase_impdata Ets) (right_side f (BLeaf l) single negated script ts))
    by (intros; exact (IH2 (BLeaf l) single negated script ts)).
  assert (IH2b : forall l single negated script ts, right_side f (BLeaf (neg_leaf (erase_leaf l))) single negated script (Ets ts) =
            erase_res (ep3 erase_bexp erase_impdata Ets) (right_side f (BLeaf (neg_leaf l)) single negated script ts))
    by (intros; exact (IH2 (BLeaf (neg_leaf l)) single negated script ts)).
  assert (IH2c : forall o a b single negated script ts,
            right_side f (BBin o (erase_bexp a) (erase_bexp b)) single negated script (Ets ts) =
            erase_res (ep3 erase_bexp erase_impdata Ets) (right_side f (BBin o a b) single negated script ts))
    by (intros; exact (IH2 (BBin o a b) single negated script ts)).
  split.
  - intros single negated script ts. rewrite !bool_expr_unfold. cbv zeta. hide_strings. destruct negated; go.
  - intros left single negated script ts. rewrite !right_side_unfold. cbv zeta. hide_strings. go.
Qed.
Lemma bool_expr_erase f single negated script ts :
  bool_expr f single negated script (Ets ts) = erase_res Ebx (bool_expr f single negated script ts).
Proof. apply (bexp_erase f). Qed.

Lemma try_label_erase ts : try_label (Ets ts) = option_map (ep2 erase_stmt Ets) (try_label ts).
Proof.
  unfold try_label. autorewrite with er.
  destruct (peekis COLON ts); [reflexivity|].
  destruct (peekis LPAREN ts && (is GLOBAL (pk 2 ts) || is LOCAL (pk 2 ts)) && is RPAREN (pk 3 ts) && is COLON (pk 4 ts)); reflexivity.
Qed.

Notation switch_operand := (switch_operand consts).
Lemma switch_operand_erase : forall f orig ts parts,
  switch_operand f (E orig) (Ets ts) parts = erase_res (ep2 same Ets) (switch_operand f orig ts parts).
Proof.
  induction f as [|f IH]; intros orig ts parts; [reflexivity|].
  cbn [Parser.switch_operand]. cbv zeta. hide_strings. go.
Qed.

Notation parse_stmt := (parse_stmt autovars switches env_errors parse_format consts).
Notation parse_block := (parse_block autovars switches env_errors parse_format consts).
Notation parse_switch_block := (parse_switch_block autovars switches env_errors parse_format consts).
Notation parse_cond := (parse_cond autovars switches env_errors parse_format consts).
Notation parse_if := (parse_if autovars switches env_errors parse_format consts).
Notation parse_elifs := (parse_elifs autovars switches env_errors parse_format consts).
Notation parse_switch := (parse_switch autovars switches env_errors parse_format consts).
Notation parse_cases := (parse_cases autovars switches env_errors parse_format consts).
Notation parse_pory := (parse_pory autovars switches env_errors parse_format consts).
Notation parse_pory_cases := (parse_pory_cases autovars switches env_errors parse_format consts).
Notation parse_pory_stmts := (parse_pory_stmts autovars switches env_errors parse_format consts).

Notation Ess := (map erase_stmt).
Notation Est := (ep3 Ess erase_impdata Ets).
Notation Epc := (map (ep2 (@same text) (ep2 Ess erase_impdata))).

Definition ERS (f : nat) : Prop :=
  (forall script bs cs ts, parse_stmt f script bs cs (Ets ts) = erase_res Est (parse_stmt f script bs cs ts)) /\
  (forall script bs cs start ts acc imp,
     parse_block f script bs cs (E start) (Ets ts) (Ess acc) (erase_impdata imp) =
     erase_res Est (parse_block f script bs cs start ts acc imp)) /\
  (forall script bs cs start ts acc imp,
     parse_switch_block f script bs cs (E start) (Ets ts) (Ess acc) (erase_impdata imp) =
     erase_res Est (parse_switch_block f script bs cs start ts acc imp)) /\
  (forall req script bs cs ts,
     parse_cond f req script bs cs (Ets ts) =
     erase_res (ep4 (option_map erase_bexp) Ess erase_impdata Ets) (parse_cond f req script bs cs ts)) /\
  (forall script bs cs ts, parse_if f script bs cs (Ets ts) = erase_res Est (parse_if f script bs cs ts)) /\
  (forall script bs cs ts acc imp,
     parse_elifs f script bs cs (Ets ts) (map erase_cond acc) (erase_impdata imp) =
     erase_res (ep3 (map erase_cond) erase_impdata Ets) (parse_elifs f script bs cs ts acc imp)) /\
  (forall script bs cs ts, parse_switch f script bs cs (Ets ts) = erase_res Est (parse_switch f script bs cs ts)) /\
  (forall script bs cs brace ts acc seen hasdef imp,
     parse_cases f script bs cs (E brace) (Ets ts) (map erase_case acc) seen hasdef (erase_impdata imp) =
     erase_res (ep3 (map erase_case) erase_impdata Ets) (parse_cases f script bs cs brace ts acc seen hasdef imp)) /\
  (forall script bs cs ts, parse_pory f script bs cs (Ets ts) = erase_res Est (parse_pory f script bs cs ts)) /\
  (forall script bs cs start ts acc,
     parse_pory_cases f script bs cs (E start) (Ets ts) (Epc acc) =
     erase_res (ep2 Epc Ets) (parse_pory_cases f script bs cs start ts acc)) /\
  (forall script bs cs multi ts acc imp,
     parse_pory_stmts f script bs cs multi (Ets ts) (Ess acc) (erase_impdata imp) =
     erase_res Est (parse_pory_stmts f script bs cs multi ts acc imp)).

Lemma ers_all : forall f, ERS f.
Proof.
  pose proof command_stmt_erase as CS. pose proof bool_expr_erase as BE. pose proof var_or_autovar_erase as VA.
  pose proof switch_operand_erase as SO. pose proof poryswitch_header_erase as PH. pose proof try_label_erase as TL.
  unfold Ebx in BE.
  assert (CU : forall f ts, collect_until f (is COLON) (Ets ts) [] = option_map (ep2 same Ets) (collect_until f (is COLON) ts []))
    by (intros; apply collect_until_erase; intros; reflexivity).
  induction f as [|f IH]; [unfold ERS; repeat split; intros; reflexivity|].
  destruct IH as (Istmt & Iblock & Iswb & Icond & Iif & Ielifs & Iswitch & Icases & Ipory & Ipcases & Ipstmts).
  assert (Iblock0 : forall script bs cs start ts,
     parse_block f script bs cs (E start) (Ets ts) [] imp0 = erase_res Est (parse_block f script bs cs start ts [] imp0))
    by (intros; exact (Iblock script bs cs start ts [] imp0)).
  assert (Iswb0 : forall script bs cs start ts,
     parse_switch_block f script bs cs (E start) (Ets ts) [] imp0 = erase_res Est (parse_switch_block f script bs cs start ts [] imp0))
    by (intros; exact (Iswb script bs cs start ts [] imp0)).
  assert (Ielifs0 : forall script bs cs ts imp,
     parse_elifs f script bs cs (Ets ts) [] (erase_impdata imp) =
     erase_res (ep3 (map erase_cond) erase_impdata Ets) (parse_elifs f script bs cs ts [] imp))
    by (intros; exact (Ielifs script bs cs ts [] imp)).
  assert (Icases0 : forall script bs cs brace ts,
     parse_cases f script bs cs (E brace) (Ets ts) [] [] false imp0 =
     erase_res (ep3 (map erase_case) erase_impdata Ets) (parse_cases f script bs cs brace ts [] [] false imp0))
    by (intros; exact (Icases script bs cs brace ts [] [] false imp0)).
  assert (Ipcases0 : forall script bs cs start ts,
     parse_pory_cases f script bs cs (E start) (Ets ts) [] = erase_res (ep2 Epc Ets) (parse_pory_cases f script bs cs start ts []))
    by (intros; exact (Ipcases script bs cs start ts [])).
  assert (Ipstmts0 : forall script bs cs multi ts,
     parse_pory_stmts f script bs cs multi (Ets ts) [] imp0 = erase_res Est (parse_pory_stmts f script bs cs multi ts [] imp0))
    by (intros; exact (Ipstmts script bs cs multi ts [] imp0)).
  unfold ERS. split; [|split; [|split; [|split; [|split; [|split; [|split; [|split; [|split; [|split]]]]]]]]].
  - intros script bs cs ts. rewrite !parse_stmt_unfold. cbv zeta. hide_strings. go.
  - intros script bs cs start ts acc imp. rewrite !parse_block_unfold. cbv zeta. hide_strings. go.
  - intros script bs cs start ts acc imp. rewrite !parse_switch_block_unfold. cbv zeta. hide_strings. go.
  - intros req script bs cs ts. rewrite !parse_cond_unfold. cbv zeta. hide_strings. go.
  - intros script bs cs ts. rewrite !parse_if_unfold. cbv zeta. hide_strings. go.
  - intros script bs cs ts acc imp. rewrite !parse_elifs_unfold. cbv zeta. hide_strings. go.
  - intros script bs cs ts. rewrite !parse_switch_unfold. cbv zeta. hide_strings. go.
  - intros script bs cs brace ts acc seen hasdef imp. rewrite !parse_cases_unfold. cbv zeta. hide_strings. go.
  - intros script bs cs ts. rewrite !parse_pory_unfold. cbv zeta. hide_strings. go.
  - intros script bs cs start ts acc. rewrite !parse_pory_cases_unfold. cbv zeta. hide_strings. go.
  - intros script bs cs multi ts acc imp. rewrite !parse_pory_stmts_unfold. cbv zeta. hide_strings. go.
Qed.

Lemma parse_block_erase f script bs cs start ts acc imp :
  parse_block f script bs cs (E start) (Ets ts) (Ess acc) (erase_impdata imp) =
  erase_res Est (parse_block f script bs cs start ts acc imp).
Proof. apply (ers_all f). Qed.
Lemma parse_block_erase0 f script bs cs start ts :
  parse_block f script bs cs (E start) (Ets ts) [] imp0 = erase_res Est (parse_block f script bs cs start ts [] imp0).
Proof. exact (parse_block_erase f script bs cs start ts [] imp0). Qed.
Lemma parse_stmt_erase f script bs cs ts :
  parse_stmt f script bs cs (Ets ts) = erase_res Est (parse_stmt f script bs cs ts).
Proof. apply (ers_all f). Qed.

Notation parse_script := (parse_script autovars switches env_errors parse_format consts).
Notation text_value := (text_value parse_format).
Notation pory_text_cases := (pory_text_cases parse_format).
Notation pory_text := (pory_text switches env_errors parse_format).
Notation parse_text := (parse_text switches env_errors parse_format).
Notation parse_movement := (parse_movement switches env_errors).
Notation parse_mart := (parse_mart switches env_errors consts).
Notation ms_collect := (ms_collect consts).
Notation ms_table := (ms_table autovars switches env_errors parse_format consts).
Notation ms_entries := (ms_entries autovars switches env_errors parse_format consts).
Notation parse_mapscripts := (parse_mapscripts autovars switches env_errors parse_format consts).

Lemma scope_modifier_erase d ts : scope_modifier d (Ets ts) = erase_res (ep2 same Ets) (scope_modifier d ts).
Proof. unfold scope_modifier. cbv zeta. hide_strings. go. Qed.

Lemma parse_script_erase f ts :
  parse_script f (Ets ts) = erase_res (ep5 same same Ess erase_impdata Ets) (parse_script f ts).
Proof.
  pose proof scope_modifier_erase as SM. pose proof parse_block_erase0 as PB.
  unfold Parser.parse_script. cbv zeta. hide_strings. go.
Qed.

Lemma text_value_erase ts : text_value (Ets ts) = erase_res (ep3 same same Ets) (text_value ts).
Proof. unfold Parser.text_value. cbv zeta. hide_strings. go. Qed.

Lemma pory_text_cases_erase : forall f start ts acc,
  pory_text_cases f (E start) (Ets ts) acc = erase_res (ep2 same Ets) (pory_text_cases f start ts acc).
Proof.
  pose proof text_value_erase as TV.
  induction f as [|f IH]; intros start ts acc; [reflexivity|].
  cbn [Parser.pory_text_cases]. cbv zeta. hide_strings. go.
Qed.

Lemma pory_text_erase f ts : pory_text f (Ets ts) = erase_res (ep3 same same Ets) (pory_text f ts).
Proof.
  pose proof pory_text_cases_erase as PC. pose proof poryswitch_header_erase as PH.
  unfold Parser.pory_text. cbv zeta. hide_strings. go.
Qed.

Lemma parse_text_erase f ts : parse_text f (Ets ts) = erase_res (ep2 erase_textdef Ets) (parse_text f ts).
Proof.
  pose proof scope_modifier_erase as SM. pose proof pory_text_erase as PT. pose proof text_value_erase as TV.
  unfold Parser.parse_text. cbv zeta. hide_strings. go.
Qed.

Lemma parse_movement_erase f ts : parse_movement f (Ets ts) = erase_res (ep2 erase_top Ets) (parse_movement f ts).
Proof.
  pose proof scope_modifier_erase as SM. pose proof list_value_erase0 as LV.
  unfold Parser.parse_movement, movement_value. cbv zeta. hide_strings. go.
Qed.

Lemma mart_items_erase its :
  map (fun tk => creplace consts (tlit tk)) (Ets its) = map (fun tk => creplace consts (tlit tk)) its.
Proof. rewrite map_map. reflexivity. Qed.

Lemma parse_mart_erase f ts : parse_mart f (Ets ts) = erase_res (ep2 erase_top Ets) (parse_mart f ts).
Proof.
  pose proof scope_modifier_erase as SM. pose proof list_value_erase0 as LV. pose proof mart_items_erase as MI.
  unfold Parser.parse_mart, mart_value. cbv zeta. hide_strings. go.
Qed.

Lemma parse_raw_erase ts : parse_raw (Ets ts) = erase_res (ep2 erase_top Ets) (parse_raw ts).
Proof. unfold parse_raw. hide_strings. go. Qed.

Lemma ms_collect_erase : forall f (stop : token -> bool) ts acc,
  (forall tk, stop (E tk) = stop tk) ->
  ms_collect f stop (Ets ts) acc = option_map (ep2 same Ets) (ms_collect f stop ts acc).
Proof.
  induction f as [|f IH]; intros stop ts acc Hs; [reflexivity|].
  cbn [Parser.ms_collect]. rewrite cur_map, Hs, adv_map, curis_map, tlit_erase.
  destruct (stop (cur ts)); [reflexivity|]. destruct (curis EOF (adv ts)); [reflexivity|]. apply IH. exact Hs.
Qed.

Lemma ms_table_erase : forall f mapname tyname ts i acc imp,
  ms_table f mapname tyname (Ets ts) i (map erase_tableentry acc) (erase_impdata imp) =
  erase_res (ep3 (map erase_tableentry) erase_impdata Ets) (ms_table f mapname tyname ts i acc imp).
Proof.
  pose proof parse_block_erase0 as PB.
  assert (MC1 : forall f ts, ms_collect f (is COMMA) (Ets ts) [] = option_map (ep2 same Ets) (ms_collect f (is COMMA) ts []))
    by (intros; apply ms_collect_erase; intros; reflexivity).
  assert (MC2 : forall f ts, ms_collect f (fun tk => is COLON tk || is LBRACE tk) (Ets ts) [] =
                             option_map (ep2 same Ets) (ms_collect f (fun tk => is COLON tk || is LBRACE tk) ts []))
    by (intros; apply ms_collect_erase; intros; reflexivity).
  induction f as [|f IH]; intros mapname tyname ts i acc imp; [reflexivity|].
  cbn [Parser.ms_table]. cbv zeta. hide_strings. go.
Qed.

Lemma ms_entries_erase : forall f mapname ts plain tables imp,
  ms_entries f mapname (Ets ts) (map erase_mapscript plain) (map erase_tablems tables) (erase_impdata imp) =
  erase_res (ep4 (map erase_mapscript) (map erase_tablems) erase_impdata Ets) (ms_entries f mapname ts plain tables imp).
Proof.
  pose proof parse_block_erase0 as PB.
  assert (MT : forall f mapname tyname ts i, ms_table f mapname tyname (Ets ts) i [] imp0 =
     erase_res (ep3 (map erase_tableentry) erase_impdata Ets) (ms_table f mapname tyname ts i [] imp0))
    by (intros; exact (ms_table_erase _ _ _ _ _ [] imp0)).
  induction f as [|f IH]; intros mapname ts plain tables imp; [reflexivity|].
  cbn [Parser.ms_entries]. cbv zeta. hide_strings. go.
Qed.

Lemma parse_mapscripts_erase f ts :
  parse_mapscripts f (Ets ts) = erase_res (ep3 erase_top erase_impdata Ets) (parse_mapscripts f ts).
Proof.
  pose proof scope_modifier_erase as SM.
  assert (ME : forall f mapname ts, ms_entries f mapname (Ets ts) [] [] imp0 =
     erase_res (ep4 (map erase_mapscript) (map erase_tablems) erase_impdata Ets) (ms_entries f mapname ts [] [] imp0))
    by (intros; exact (ms_entries_erase _ _ _ [] [] imp0)).
  unfold Parser.parse_mapscripts. cbv zeta. hide_strings. go.
Qed.

End ER.

(* ================================================================================================================= *)
(* 5. Constants, hoisting of implicit texts and movements, the top-level loop                                          *)
(* ================================================================================================================= *)
Lemma const_value_erase : forall f consts ts acc,
  const_value f consts (Ets ts) acc = ep2 same Ets (const_value f consts ts acc).
Proof.
  induction f as [|f IH]; intros consts ts acc; [reflexivity|].
  cbn [const_value]. rewrite pk_map, curis_map, adv_map, cur_map, ttype_erase, tlit_erase.
  destruct (is_toplevel (ttype (pk 1 ts)) || curis EOF ts); [reflexivity|]. apply IH.
Qed.

Lemma parse_const_erase f consts ts :
  parse_const f consts (Ets ts) = erase_res (ep2 same Ets) (parse_const f consts ts).
Proof.
  pose proof const_value_erase as CV.
  unfold parse_const. cbv zeta. hide_strings. er_go ltac:(fun c => idtac).
Qed.

Lemma apply_patches_erase : forall ps c, apply_patches ps (erase_cmd c) = option_map erase_cmd (apply_patches ps c).
Proof.
  induction ps as [|[[i a] lbl] r IH]; intros c; [reflexivity|].
  cbn [apply_patches erase_cmd Ast.cid cargs cname ctok].
  destruct (Nat.eqb i (Ast.cid c)); [|apply IH].
  destruct (set_nth a (cargs c) lbl) as [args|]; [|reflexivity].
  exact (IH {| cname := cname c; cargs := args; ctok := ctok c; Ast.cid := Ast.cid c |}).
Qed.
Lemma pcmd_erase ps c : pcmd ps (erase_cmd c) = erase_cmd (pcmd ps c).
Proof. unfold pcmd. rewrite apply_patches_erase. destruct (apply_patches ps c); reflexivity. Qed.
Lemma pleaf_erase ps l : pleaf ps (erase_leaf l) = erase_leaf (pleaf ps l).
Proof.
  unfold pleaf, erase_leaf. cbn [lk loperand lline lop lvalue lstrict lpre].
  destruct (lpre l) as [c|]; cbn [option_map]; [rewrite pcmd_erase|]; reflexivity.
Qed.
Lemma pbexp_erase ps e : pbexp ps (erase_bexp e) = erase_bexp (pbexp ps e).
Proof.
  induction e as [l|o a IHa b IHb]; cbn [pbexp erase_bexp]; [rewrite pleaf_erase; reflexivity|].
  rewrite IHa, IHb. reflexivity.
Qed.

(* induction over the nested statement type *)
Section STMT_IND.
Variable P : stmt -> Prop.
Variable Q : list stmt -> Prop.
Hypothesis Hnil : Q [].
Hypothesis Hcons : forall s r, P s -> Q r -> Q (s :: r).
Hypothesis Hcmd : forall c, P (SCmd c).
Hypothesis Hlabel : forall n g tk, P (SLabel n g tk).
Hypothesis Hif : forall conds els, Forall (fun cb : bexp * list stmt => Q (Datatypes.snd cb)) conds ->
  match els with Some b => Q b | None => True end -> P (SIf conds els).
Hypothesis Hwhile : forall tg c b, Q b -> P (SWhile tg c b).
Hypothesis Hdowhile : forall tg b c, Q b -> P (SDoWhile tg b c).
Hypothesis Hbreak : forall tg, P (SBreak tg).
Hypothesis Hcontinue : forall tg, P (SContinue tg).
Hypothesis Hswitch : forall tg o ol cases, Forall (fun c : Emitter.scase => Q (Datatypes.snd c)) cases -> P (SSwitch tg o ol cases).

Definition opt_ind2 (f : forall ss, Q ss) (els : option (list stmt)) : match els with Some b => Q b | None => True end :=
  match els with Some b => f b | None => I end.

Fixpoint stmt_rect2 (s : stmt) : P s :=
  let list_ind2 := fix list_ind2 (ss : list stmt) : Q ss :=
    match ss with [] => Hnil | x :: r => Hcons x r (stmt_rect2 x) (list_ind2 r) end in
  match s with
  | SCmd c => Hcmd c
  | SLabel n g tk => Hlabel n g tk
  | SIf conds els =>
      Hif conds els
        ((fix go (cs : list (bexp * list stmt)) : Forall (fun cb : bexp * list stmt => Q (Datatypes.snd cb)) cs :=
            match cs with [] => Forall_nil _ | cb :: r => Forall_cons cb (list_ind2 (Datatypes.snd cb)) (go r) end) conds)
        (opt_ind2 list_ind2 els)
  | SWhile tg c b => Hwhile tg c b (list_ind2 b)
  | SDoWhile tg b c => Hdowhile tg b c (list_ind2 b)
  | SBreak tg => Hbreak tg
  | SContinue tg => Hcontinue tg
  | SSwitch tg o ol cases =>
      Hswitch tg o ol cases
        ((fix go (cs : list Emitter.scase) : Forall (fun c : Emitter.scase => Q (Datatypes.snd c)) cs :=
            match cs with [] => Forall_nil _ | c :: r => Forall_cons c (list_ind2 (Datatypes.snd c)) (go r) end) cases)
  end.
Lemma stmts_rect2 : forall ss, Q ss.
Proof. induction ss as [|x r IH]; [exact Hnil|apply Hcons; [apply stmt_rect2|exact IH]]. Qed.
End STMT_IND.

Lemma pstmts_erase ps : forall ss, map (pstmt ps) (map erase_stmt ss) = map erase_stmt (map (pstmt ps) ss).
Proof.
  apply (stmts_rect2 (fun s => pstmt ps (erase_stmt s) = erase_stmt (pstmt ps s))
                     (fun ss => map (pstmt ps) (map erase_stmt ss) = map erase_stmt (map (pstmt ps) ss))).
  - reflexivity.
  - intros s r Hs Hr. cbn [map]. rewrite Hs, Hr. reflexivity.
  - intros c. cbn [erase_stmt pstmt]. rewrite pcmd_erase. reflexivity.
  - reflexivity.
  - intros conds els Hc He. cbn [erase_stmt pstmt]. f_equal.
    + rewrite !map_map. apply map_ext_Forall. eapply Forall_impl; [|exact Hc].
      intros [e b] Hb. cbn [Datatypes.fst Datatypes.snd] in *. rewrite pbexp_erase, Hb. reflexivity.
    + destruct els as [b|]; cbn [option_map]; [rewrite He|]; reflexivity.
  - intros tg c b Hb. cbn [erase_stmt pstmt]. rewrite Hb. destruct c as [e|]; cbn [option_map]; [rewrite pbexp_erase|]; reflexivity.
  - intros tg b c Hb. cbn [erase_stmt pstmt]. rewrite Hb, pbexp_erase. reflexivity.
  - reflexivity.
  - reflexivity.
  - intros tg o ol cases Hc. cbn [erase_stmt pstmt]. f_equal.
    rewrite !map_map. apply map_ext_Forall. eapply Forall_impl; [|exact Hc].
    intros [[[d v] ln] b] Hb. cbn [Datatypes.fst Datatypes.snd Emitter.sc_def Emitter.sc_val Emitter.sc_body] in *. rewrite Hb. reflexivity.
Qed.
Lemma pstmts_erase' ps ss : map erase_stmt (map (pstmt ps) ss) = map (pstmt ps) (map erase_stmt ss).
Proof. symmetry. apply pstmts_erase. Qed.
#[export] Hint Rewrite pstmts_erase' : er_push.

Local Notation Ess := (map erase_stmt).
Lemma add_texts_erase : forall its h ps,
  add_texts (map erase_imptext its) (erase_hst h) ps = ep2 erase_hst same (add_texts its h ps).
Proof.
  induction its as [|it r IH]; intros h ps; [reflexivity|].
  cbn [map add_texts erase_imptext erase_hst itTok itType itCid itArg itScript hset hcnt htexts hmovs hmset hmcnt tlit erase_tok].
  destruct (find_text (hset h) (tlit (itTok it)) (itType it)) as [lbl|]; [apply IH|].
  rewrite <- IH. f_equal. unfold erase_hst. cbn [hset hcnt htexts hmovs hmset hmcnt]. rewrite map_app. reflexivity.
Qed.

Lemma mov_key_erase ms : mov_key (Ets ms) = mov_key ms.
Proof. unfold mov_key. induction ms as [|m r IH]; [reflexivity|]. cbn [map flat_map]. rewrite IH. reflexivity. Qed.

Lemma add_movs_erase : forall ims h ps,
  add_movs (map erase_impmov ims) (erase_hst h) ps = ep2 erase_hst same (add_movs ims h ps).
Proof.
  induction ims as [|im r IH]; intros h ps; [reflexivity|].
  cbn [map add_movs erase_impmov erase_hst imToks imCid imArg imScript imCmdTok hset hcnt htexts hmovs hmset hmcnt].
  rewrite mov_key_erase.
  destruct (assoc (hmset h) (mov_key (imToks im))) as [lbl|]; [apply IH|].
  rewrite <- IH. f_equal. unfold erase_hst. cbn [hset hcnt htexts hmovs hmset hmcnt]. rewrite map_app. reflexivity.
Qed.

Lemma add_implicit_erase imp h :
  add_implicit (erase_impdata imp) (erase_hst h) = ep2 erase_hst same (add_implicit imp h).
Proof.
  unfold add_implicit. cbn [erase_impdata idT idM]. rewrite add_texts_erase.
  destruct (add_texts (idT imp) h []) as [h1 ps1]. rewrite ep2_pair, same_eq. apply add_movs_erase.
Qed.

(* the patching of a mapscripts statement, as written in parse_tops *)
Definition patch_top (ps : list patch) (tp : top) : top :=
  match tp with
  | TMapScripts n g plain tables =>
      TMapScripts n g
        (map (fun m => {| msType := msType m; msName := msName m;
                          msScript := match msScript m with Some b => Some (map (pstmt ps) b) | None => None end |}) plain)
        (map (fun tb => {| tmType := tmType tb; tmName := tmName tb;
                           tmEntries := map (fun e => {| teCond := teCond e; teCondLit := teCondLit e; teCmp := teCmp e; teName := teName e;
                                                         teScript := match teScript e with Some b => Some (map (pstmt ps) b) | None => None end |}) (tmEntries tb) |}) tables)
  | other => other
  end.

Lemma patch_top_erase ps tp : patch_top ps (erase_top tp) = erase_top (patch_top ps tp).
Proof.
  destruct tp as [n g b|v ln| |n g tk steps|n g tk items itoks|n g plain tables]; try reflexivity.
  cbn [patch_top erase_top]. f_equal.
  - rewrite !map_map. apply map_ext. intros m. unfold erase_mapscript. cbn [msType msName msScript].
    destruct (msScript m) as [b|]; cbn [option_map]; [|reflexivity]. unfold erase_stmts. rewrite pstmts_erase. reflexivity.
  - rewrite !map_map. apply map_ext. intros tb. unfold erase_tablems. cbn [tmType tmName tmEntries]. f_equal.
    rewrite !map_map. apply map_ext. intros e. unfold erase_tableentry. cbn [teCond teCondLit teCmp teName teScript].
    destruct (teScript e) as [b|]; cbn [option_map]; [|reflexivity]. unfold erase_stmts. rewrite pstmts_erase. reflexivity.
Qed.
Lemma patch_top_erase' ps tp : erase_top (patch_top ps tp) = patch_top ps (erase_top tp).
Proof. symmetry. apply patch_top_erase. Qed.

Lemma dup_text_erase : forall l seen, dup_text seen (map erase_textdef l) = option_map erase_textdef (dup_text seen l).
Proof.
  induction l as [|x r IH]; intros seen; [reflexivity|]. cbn [map dup_text erase_textdef xname].
  destruct (existsb (text_eqb (xname x)) seen); [reflexivity|apply IH].
Qed.

Lemma dup_mov_erase : forall l seen,
  dup_mov (map (ep2 same E) seen) (map erase_top l) = option_map E (dup_mov seen l).
Proof.
  induction l as [|x r IH]; intros seen; [reflexivity|].
  destruct x as [n g b|v ln| |n g tk steps|n g tk items itoks|n g plain tables]; cbn [map dup_mov erase_top]; try apply IH.
  rewrite assoc_map. destruct (assoc seen n) as [tk0|]; [reflexivity|]. exact (IH ((n, tk) :: seen)).
Qed.

Lemma checked_texts_erase b st : checked_texts b (erase_pstate st) = map erase_textdef (checked_texts b st).
Proof. unfold checked_texts. destruct b; cbn [erase_pstate erase_hst ph ptexts htexts]; [rewrite map_app|]; reflexivity. Qed.
Lemma checked_tops_erase b st : checked_tops b (erase_pstate st) = map erase_top (checked_tops b st).
Proof. unfold checked_tops. destruct b; cbn [erase_pstate erase_hst ph ptops hmovs]; [rewrite map_app|]; reflexivity. Qed.

Section ER2.
Variable autovars : list (text * autovar).
Variable switches : list (text * text).
Variable env_errors : bool.
Variable parse_format : toks -> Parser.res (token * text * text * toks).
Hypothesis parse_format_erase : forall ts,
  parse_format (Ets ts) = erase_res (ep4 E same same Ets) (parse_format ts).

Notation parse_tops := (parse_tops autovars switches env_errors parse_format).

Lemma parse_tops_erase : forall f st ts,
  parse_tops f (erase_pstate st) (Ets ts) = erase_res erase_pstate (parse_tops f st ts).
Proof.
  pose proof (fun c => parse_script_erase autovars switches env_errors parse_format c parse_format_erase) as H1.
  pose proof (parse_text_erase switches env_errors parse_format parse_format_erase) as H2.
  pose proof (parse_movement_erase switches env_errors) as H3.
  pose proof (parse_mart_erase switches env_errors) as H4.
  pose proof (fun c => parse_mapscripts_erase autovars switches env_errors parse_format c parse_format_erase) as H5.
  pose proof parse_raw_erase as H6. pose proof parse_const_erase as H7. pose proof add_implicit_erase as H8.
  induction f as [|f IH]; intros st ts; [reflexivity|].
  cbn [Parser.parse_tops]. cbv zeta. hide_strings.
  er_dbg ltac:(fun c => idtac).
  match goal with
  | Hp : add_implicit _ _ = (_, ?l) |- context[match erase_top ?t0 with TMapScripts _ _ _ _ => _ | _ => _ end] =>
      fold (patch_top l (erase_top t0)); fold (patch_top l t0)
  end.
  rewrite <- IH. er_norm0. rewrite patch_top_erase'. reflexivity.
Qed.

(* the parser commutes with the erasure *)
Theorem parse_program_erase ts :
  parse_program autovars switches env_errors parse_format (Ets ts) =
  erase_res erase_program (parse_program autovars switches env_errors parse_format ts).
Proof.
  unfold parse_program. rewrite len_map.
  change {| pconsts := []; ph := hst0; ptops := []; ptexts := [] |}
    with (erase_pstate {| pconsts := []; ph := hst0; ptops := []; ptexts := [] |}) at 1.
  rewrite parse_tops_erase.
  destruct (parse_tops (5 * Datatypes.length ts + 4) _ ts) as [st|e| |]; try reflexivity.
  cbn [erase_res]. rewrite checked_texts_erase, dup_text_erase.
  destruct (dup_text [] (checked_texts env_errors st)) as [x|]; [reflexivity|]. cbn [option_map].
  rewrite checked_tops_erase. change (@nil (text * token)) with (map (ep2 (@same text) E) []) at 1. rewrite dup_mov_erase.
  destruct (dup_mov [] (checked_tops env_errors st)) as [tk|]; [reflexivity|]. cbn [option_map erase_res].
  unfold erase_program. cbn [erase_pstate erase_hst ph ptops ptexts htexts hmovs tops texts]. rewrite !map_app. reflexivity.
Qed.
End ER2.
(* ================================================================================================================= *)
(* 6. The format() operator of Format.v satisfies the hypothesis                                                       *)
(* ================================================================================================================= *)
Section ERF.
Variable fc : fontcfg.
Variable cli_font : text.
Variable cli_maxlen : Z.
Variable env_errors : bool.
Ltac gd c := lazymatch c with env_errors => fail | _ => idtac end.

Lemma named_loop_erase : forall f ts p had,
  named_loop f (Ets ts) (erase_fparams p) had = erase_res (ep3 erase_fparams same Ets) (named_loop f ts p had).
Proof.
  induction f as [|f IH]; intros ts p had; [reflexivity|].
  cbn [named_loop]. cbv zeta. hide_strings. er_go gd.
Qed.

Lemma parse_format_erase_real ts :
  parse_format fc cli_font cli_maxlen env_errors (Ets ts) =
  erase_res (ep4 E same same Ets) (parse_format fc cli_font cli_maxlen env_errors ts).
Proof.
  pose proof named_loop_erase as NL.
  unfold parse_format. cbv zeta. hide_strings. er_dbg gd.
  all: match goal with |- context[pFontTok ?p] => destruct (pFontTok p) end; reflexivity.
Qed.
End ERF.


(* ================================================================================================================= *)
(* 7. Main theorems                                                                                                    *)
(* ================================================================================================================= *)
Lemma erase_tok_shape_iff a b : E a = E b <-> shape a = shape b.
Proof.
  unfold shape, erase_tok. split; intros H.
  - injection H as H1 H2. rewrite H1, H2. reflexivity.
  - injection H as H1 H2. rewrite H1, H2. reflexivity.
Qed.
Lemma cons_eq_inv {A} (x y : A) l l' : x :: l = y :: l' -> x = y /\ l = l'.
Proof. intros H. inversion H. auto. Qed.
Lemma erase_toks_shape_iff (l1 l2 : list token) : Ets l1 = Ets l2 <-> map shape l1 = map shape l2.
Proof.
  revert l2. induction l1 as [|a r IH]; intros [|b r2]; cbn [map]; split; intros H; try discriminate; try reflexivity.
  - apply cons_eq_inv in H. destruct H as [H1 H2]. f_equal; [apply erase_tok_shape_iff; exact H1|apply IH; exact H2].
  - apply cons_eq_inv in H. destruct H as [H1 H2]. f_equal; [apply erase_tok_shape_iff; exact H1|apply IH; exact H2].
Qed.

(* both accepted with programs of equal erasure, or both rejected with the same message, or both stopped the same way *)
Definition parse_agree (r1 r2 : Parser.res program) : Prop :=
  match r1, r2 with
  | Parser.Ok p1, Parser.Ok p2 => erase_program p1 = erase_program p2
  | Parser.Err e1, Parser.Err e2 => Parser.emsg e1 = Parser.emsg e2
  | Parser.Panic, Parser.Panic | Parser.Fuel, Parser.Fuel => True
  | _, _ => False
  end.

Lemma erase_res_agree (r1 r2 : Parser.res program) :
  erase_res erase_program r1 = erase_res erase_program r2 -> parse_agree r1 r2.
Proof.
  destruct r1 as [p1|e1| |], r2 as [p2|e2| |]; cbn [erase_res parse_agree]; intros H; try discriminate; try exact I.
  - exact (f_equal (fun r => match r with Ok p => p | _ => erase_program p1 end) H).
  - exact (f_equal (fun r : Parser.res program => match r with Err e => emsg e | _ => [] end) H).
Qed.

Section MAIN.
Variable autovars : list (text * autovar).
Variable switches : list (text * text).
Variable env_errors : bool.

(* for any format() operator that commutes with the erasure *)
Section ANYFORMAT.
Variable parse_format : toks -> Parser.res (token * text * text * toks).
Hypothesis parse_format_erase : forall ts,
  parse_format (Ets ts) = erase_res (ep4 E same same Ets) (parse_format ts).
Notation PARSE := (parse_program autovars switches env_errors parse_format).

Theorem parser_reads_shapes_only_gen ts1 ts2 :
  map shape ts1 = map shape ts2 ->
  erase_res erase_program (PARSE ts1) = erase_res erase_program (PARSE ts2).
Proof.
  intros H. apply erase_toks_shape_iff in H.
  rewrite <- !(parse_program_erase autovars switches env_errors parse_format parse_format_erase). rewrite H. reflexivity.
Qed.
End ANYFORMAT.

Variable fc : fontcfg.
Variable cli_font : text.
Variable cli_maxlen : Z.
Notation PARSE := (parse_program autovars switches env_errors (Format.parse_format fc cli_font cli_maxlen env_errors)).

(* MAIN 1: parsing the erased token list gives the erased result - the parser, with the real format() operator, reads
   token types and literals only, and the positions it reports (errors, lines and tokens kept in the program) are copied
   from the tokens and never looked at *)
Theorem parse_program_commutes_with_erasure ts :
  PARSE (Ets ts) = erase_res erase_program (PARSE ts).
Proof. apply parse_program_erase. apply parse_format_erase_real. Qed.

(* MAIN 2: two token lists with the same types and literals give the same result up to positions *)
Theorem parser_reads_shapes_only ts1 ts2 :
  map shape ts1 = map shape ts2 ->
  erase_res erase_program (PARSE ts1) = erase_res erase_program (PARSE ts2).
Proof. apply parser_reads_shapes_only_gen. apply parse_format_erase_real. Qed.

(* MAIN 3: the same, case by case *)
Theorem equal_shapes_parse_agree ts1 ts2 :
  map shape ts1 = map shape ts2 -> parse_agree (PARSE ts1) (PARSE ts2).
Proof. intros H. apply erase_res_agree. apply parser_reads_shapes_only. exact H. Qed.

Theorem equal_shapes_accepted_together ts1 ts2 :
  map shape ts1 = map shape ts2 ->
  ((exists p1, PARSE ts1 = Ok p1) <-> (exists p2, PARSE ts2 = Ok p2)).
Proof.
  intros H. pose proof (equal_shapes_parse_agree ts1 ts2 H) as A.
  destruct (PARSE ts1) as [p1|e1| |], (PARSE ts2) as [p2|e2| |]; cbn [parse_agree] in A; try contradiction;
    split; intros [p Hp]; try discriminate; eauto.
Qed.

Theorem equal_shapes_equal_erasures ts1 ts2 p1 p2 :
  map shape ts1 = map shape ts2 -> PARSE ts1 = Ok p1 -> PARSE ts2 = Ok p2 -> erase_program p1 = erase_program p2.
Proof. intros H H1 H2. pose proof (equal_shapes_parse_agree ts1 ts2 H) as A. rewrite H1, H2 in A. exact A. Qed.

Theorem equal_shapes_same_error ts1 ts2 e1 :
  map shape ts1 = map shape ts2 -> PARSE ts1 = Err e1 -> exists e2, PARSE ts2 = Err e2 /\ emsg e2 = emsg e1.
Proof.
  intros H H1. pose proof (equal_shapes_parse_agree ts1 ts2 H) as A. rewrite H1 in A.
  destruct (PARSE ts2) as [p2|e2| |]; cbn [parse_agree] in A; try contradiction. exists e2. split; [reflexivity|symmetry; exact A].
Qed.

(* the same one and two levels down, with the real format() operator *)
Theorem parse_stmt_commutes_with_erasure consts f script bs cs ts :
  parse_stmt autovars switches env_errors (Format.parse_format fc cli_font cli_maxlen env_errors) consts f script bs cs (Ets ts) =
  erase_res (ep3 Ess erase_impdata Ets)
    (parse_stmt autovars switches env_errors (Format.parse_format fc cli_font cli_maxlen env_errors) consts f script bs cs ts).
Proof. apply parse_stmt_erase. apply parse_format_erase_real. Qed.

Theorem parse_tops_commutes_with_erasure f st ts :
  parse_tops autovars switches env_errors (Format.parse_format fc cli_font cli_maxlen env_errors) f (erase_pstate st) (Ets ts) =
  erase_res erase_pstate (parse_tops autovars switches env_errors (Format.parse_format fc cli_font cli_maxlen env_errors) f st ts).
Proof. apply parse_tops_erase. apply parse_format_erase_real. Qed.

(* MAIN 4: with the lexer theorems - a gap (whitespace and complete comments) in front of the first token, or between two
   tokens, and trailing layout (the last comment possibly unterminated) behind the last token, do not change what the
   parser answers, up to positions *)
Variable is_letter_hi is_digit_hi is_space_hi : N -> bool.
Notation LEX := (lex is_letter_hi is_digit_hi is_space_hi).

Theorem leading_layout_same_parse g s :
  LexLayout.gap g -> parse_agree (PARSE (LEX (g ++ s))) (PARSE (LEX s)).
Proof. intros G. apply equal_shapes_parse_agree. apply LexLayout.lex_leading_layout. exact G. Qed.

Theorem layout_between_tokens_same_parse (p r g : list N) (k : nat) :
  r <> [] -> LexLayout.gap g -> ~ LexRest.fuses p g ->
  LexBetween.reaches is_letter_hi is_digit_hi is_space_hi r k (init (p ++ r)) ->
  parse_agree (PARSE (LEX (p ++ g ++ r))) (PARSE (LEX (p ++ r))).
Proof. intros R G F Hr. apply equal_shapes_parse_agree. apply (LexRest.layout_between_tokens_any_gap _ _ _ p r g k); assumption. Qed.

Theorem trailing_layout_same_parse (p r g : list N) (k : nat) :
  r <> [] -> LexBetween.reaches is_letter_hi is_digit_hi is_space_hi r k (init (p ++ r)) ->
  LexRest.tgap g -> ~ LexRest.fuses p g ->
  parse_agree (PARSE (LEX (p ++ g))) (PARSE (LEX p)).
Proof. intros R Hr G F. apply equal_shapes_parse_agree. apply (LexRest.trailing_layout_is_ignored _ _ _ p r g k); assumption. Qed.
End MAIN.

(* ================================================================================================================= *)
(* 8. Composition with the emitter half (sibling file ShapeEmit.v), taken as a hypothesis                              *)
(* ================================================================================================================= *)
Definition same_result (r1 r2 : Emitter.res text) : Prop :=
  match r1, r2 with
  | Emitter.Ok x1, Emitter.Ok x2 => x1 = x2
  | Emitter.ErrLabel tk1 b1, Emitter.ErrLabel tk2 b2 => erase_tok tk1 = erase_tok tk2 /\ b1 = b2
  | Emitter.ErrBreak, Emitter.ErrBreak | Emitter.ErrContinue, Emitter.ErrContinue | Emitter.OutOfFuel, Emitter.OutOfFuel => True
  | _, _ => False
  end.
(* the two compilations end the same way: the same text, or an error with the same message *)
Definition agree_outcome (o1 o2 : Compile.outcome) : Prop :=
  match o1, o2 with
  | Compile.OutText x1, Compile.OutText x2 => x1 = x2
  | Compile.OutErr e1, Compile.OutErr e2 => Parser.emsg e1 = Parser.emsg e2
  | Compile.OutPanic, Compile.OutPanic | Compile.OutFuel, Compile.OutFuel | Compile.OutEmitErr, Compile.OutEmitErr => True
  | _, _ => False
  end.

Section COMPOSE.
Variable is_letter_hi is_digit_hi is_space_hi : N -> bool.
Variable autovars : list (text * autovar).
Variable switches : list (text * text).
Variable env_errors : bool.
Variable fc : fontcfg.
Variable cli_font : text.
Variable cli_maxlen : Z.
Notation COMPILE := (Compile.compile is_letter_hi is_digit_hi is_space_hi autovars switches env_errors fc cli_font cli_maxlen).
Notation LEX := (lex is_letter_hi is_digit_hi is_space_hi).

(* the emitter half (ShapeEmit.equal_erasures_equal_output): without line markers the emitter reads the erasure only *)
Hypothesis emitter_reads_erasure : forall optimize p1 p2,
  erase_program p1 = erase_program p2 ->
  same_result (Emitter.emit_program optimize None p1) (Emitter.emit_program optimize None p2).

(* C19, "and hence never changes the compiled output without line markers": two sources with the same sequence of token
   types and literals compile to the same text, or fail with the same message *)
Theorem equal_shapes_equal_output optimize src1 src2 :
  map shape (LEX src1) = map shape (LEX src2) ->
  agree_outcome (COMPILE optimize None src1) (COMPILE optimize None src2).
Proof.
  intros H. pose proof (equal_shapes_parse_agree autovars switches env_errors fc cli_font cli_maxlen _ _ H) as A.
  unfold Compile.compile.
  destruct (parse_program autovars switches env_errors _ (LEX src1)) as [p1|e1| |];
    destruct (parse_program autovars switches env_errors _ (LEX src2)) as [p2|e2| |]; cbn [parse_agree] in A;
    try contradiction; cbn [agree_outcome]; try exact I; try exact A.
  pose proof (emitter_reads_erasure optimize p1 p2 A) as S.
  destruct (Emitter.emit_program optimize None p1) as [x1| | | |tk1 b1];
    destruct (Emitter.emit_program optimize None p2) as [x2| | | |tk2 b2];
    cbn [same_result] in S; try contradiction; cbn [agree_outcome]; try exact I; try exact S.
  reflexivity.
Qed.

Theorem layout_between_tokens_same_output optimize (p r g : list N) (k : nat) :
  r <> [] -> LexLayout.gap g -> ~ LexRest.fuses p g ->
  LexBetween.reaches is_letter_hi is_digit_hi is_space_hi r k (init (p ++ r)) ->
  agree_outcome (COMPILE optimize None (p ++ g ++ r)) (COMPILE optimize None (p ++ r)).
Proof.
  intros R G F Hr. apply equal_shapes_equal_output. apply (LexRest.layout_between_tokens_any_gap _ _ _ p r g k); assumption.
Qed.
End COMPOSE.

(* ================================================================================================================= *)
(* 9. Examples: the hypotheses are satisfiable on a non-trivial input, and the erasure is necessary                    *)
(* ================================================================================================================= *)
Section EXAMPLES.
Open Scope string_scope.
Definition ex_nf (_ : N) : bool := false.
Definition ex_fc0 : fontcfg := {| fcDefault := []; fcFonts := [] |}.
Definition ex_nl : string := String (ascii_of_nat 10) "".
Definition ex_crlf : string := String (ascii_of_nat 13) ex_nl.
Definition ex_tab : string := String (ascii_of_nat 9) "".
Definition ex_autovars : list (text * autovar) := [(t "getparty", {| avName := t "VAR_RESULT"; avPos := None |})].
Definition ex_switches : list (text * text) := [(t "GAME", t "EMERALD")].
Notation ex_lex s := (lex ex_nf ex_nf ex_nf (t s)).
Notation ex_parse ts :=
  (parse_program ex_autovars ex_switches true (Format.parse_format ex_fc0 [] 0%Z true) ts).

(* every kind of top-level statement, every kind of statement and condition, format(), moves(), poryswitch, an auto-var *)
Definition ex_src1 : string :=
  "const N = 3" ++ ex_nl ++
  "script A {" ++ ex_nl ++
  "  lock" ++ ex_nl ++
  "  if (flag(F) && !(var(V) == N)) { msgbox(""hi"") } elif (defeated(T)) { x } else { y }" ++ ex_nl ++
  "  while (getparty(1) < 3) { continue }" ++ ex_nl ++
  "  do { break } while (flag(G))" ++ ex_nl ++
  "  switch (var(V)) { case 1: a case 2: case 3: b default: c }" ++ ex_nl ++
  "  applymovement(1, moves(walk_up * 2 face_down))" ++ ex_nl ++
  "  msgbox(format(""Hello world"", ""TEST"", 50))" ++ ex_nl ++
  "  poryswitch(GAME) { EMERALD: e1 _ { e2 } }" ++ ex_nl ++
  "L:" ++ ex_nl ++
  "  end" ++ ex_nl ++
  "}" ++ ex_nl ++
  "movement M { walk_up * 2 face_down }" ++ ex_nl ++
  "mart Mt { ITEM_A ITEM_B }" ++ ex_nl ++
  "mapscripts MS { MAP_SCRIPT_ON_LOAD: S1 MAP_SCRIPT_ON_FRAME_TABLE [ VAR_X, 1: S2 VAR_Y, 2 { lock } ] MAP_SCRIPT_ON_RESUME { end } }" ++ ex_nl ++
  "raw `" ++ ex_nl ++ " .byte 1" ++ ex_nl ++ "`" ++ ex_nl ++
  "text T { ""abc"" }" ++ ex_nl.
(* the same lexemes: leading comment, CRLF, tabs, comments at line ends, blank lines, spaces removed where possible *)
Definition ex_src2 : string :=
  "# leading comment" ++ ex_crlf ++ "const N=3 script" ++ ex_tab ++ "A" ++ ex_nl ++ "{ lock // c" ++ ex_nl ++
  "  if(flag(F)&&!(var(V)==N)){msgbox(""hi"")}" ++ ex_nl ++ ex_nl ++ "elif(defeated(T)){x}else{y}" ++
  "  while (getparty(1)<3)" ++ ex_crlf ++ "{ continue }" ++
  "  do{break}while(flag(G))" ++ ex_nl ++
  "  switch(var(V)){case 1:a # one" ++ ex_nl ++ "case 2:case 3:b" ++ ex_nl ++ "default:c}" ++
  " applymovement(1,moves(walk_up*2" ++ ex_nl ++ "face_down))msgbox(format(""Hello world"",""TEST"",50))" ++
  " poryswitch(GAME){EMERALD:e1" ++ ex_nl ++ "_{e2}}" ++
  " L: end }" ++
  "movement M{walk_up*2" ++ ex_nl ++ "face_down}" ++
  "mart Mt{ITEM_A" ++ ex_nl ++ "ITEM_B}" ++ ex_nl ++
  "mapscripts MS{MAP_SCRIPT_ON_LOAD:S1" ++ ex_nl ++ "MAP_SCRIPT_ON_FRAME_TABLE[VAR_X,1:S2" ++ ex_nl ++ "VAR_Y,2{lock}]MAP_SCRIPT_ON_RESUME{end}}" ++
  "raw" ++ ex_nl ++ ex_nl ++ "`" ++ ex_nl ++ " .byte 1" ++ ex_nl ++ "`" ++
  "text T{""abc""}".
Definition ex_prog (s : string) : program :=
  match ex_parse (ex_lex s) with Ok p => p | _ => {| tops := []; texts := [] |} end.

Example ex_same_shapes : map shape (ex_lex ex_src1) = map shape (ex_lex ex_src2).
Proof. vm_compute. reflexivity. Qed.
Example ex_different_positions : map tline (ex_lex ex_src1) <> map tline (ex_lex ex_src2).
Proof. vm_compute. discriminate. Qed.
Example ex_accepted1 : ex_parse (ex_lex ex_src1) = Ok (ex_prog ex_src1) /\ List.length (tops (ex_prog ex_src1)) = 7%nat.
Proof. vm_compute. split; reflexivity. Qed.
Example ex_accepted2 : ex_parse (ex_lex ex_src2) = Ok (ex_prog ex_src2).
Proof. vm_compute. reflexivity. Qed.
(* by the theorem, not by computation *)
Example ex_same_erasure : erase_program (ex_prog ex_src1) = erase_program (ex_prog ex_src2).
Proof.
  apply (equal_shapes_equal_erasures ex_autovars ex_switches true ex_fc0 [] 0%Z (ex_lex ex_src1) (ex_lex ex_src2));
    [exact ex_same_shapes|apply ex_accepted1|exact ex_accepted2].
Qed.
(* the erasure is necessary: the two programs themselves differ (tokens and lines are kept in the program) *)
Example ex_programs_differ : ex_prog ex_src1 <> ex_prog ex_src2.
Proof.
  intros H. apply (f_equal (fun p => map (fun tp => match tp with TRaw _ ln => ln | _ => 0 end) (tops p))) in H.
  vm_compute in H. discriminate H.
Qed.
(* a rejected input: both layouts are rejected with the same message, at different positions *)
Definition ex_bad1 : string := "script A {" ++ ex_nl ++ "  if (flag(F)) { break } " ++ ex_nl ++ "}".
Definition ex_bad2 : string := "script A { if(flag(F))" ++ ex_nl ++ ex_nl ++ "{break}}".
Example ex_rejected_together :
  map shape (ex_lex ex_bad1) = map shape (ex_lex ex_bad2) /\
  exists e1 e2, ex_parse (ex_lex ex_bad1) = Err e1 /\ ex_parse (ex_lex ex_bad2) = Err e2 /\ emsg e1 = emsg e2 /\ els e1 <> els e2.
Proof. split; [vm_compute; reflexivity|]. eexists. eexists. split; [vm_compute; reflexivity|]. split; [vm_compute; reflexivity|]. split; [reflexivity|vm_compute; discriminate]. Qed.
End EXAMPLES.
